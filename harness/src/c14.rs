//! C14 (configuration switches): the real ModuleConfig setters / Clone are called in exhaustive short and random longer
//! orders; the fields are read out of the Debug output and printed as cases for Model/Config.v (Run/ConfigRun.v).
use crate::rng::Rng;
use crate::util::{CaseWriter, Json};
use walrus::ModuleConfig;

fn apply(c: &mut ModuleConfig, k: usize) -> String {
    match k {
        0 | 1 => { c.generate_dwarf(k == 1); format!("SDwarf {}", k == 1) }
        2 | 3 => { c.generate_name_section(k == 3); format!("SNames {}", k == 3) }
        4 | 5 => { c.generate_synthetic_names_for_anonymous_items(k == 5); format!("SSynth {}", k == 5) }
        6 | 7 => { c.strict_validate(k == 7); format!("SStrict {}", k == 7) }
        8 | 9 => { c.generate_producers_section(k == 9); format!("SProducers {}", k == 9) }
        10 | 11 => { c.only_stable_features(k == 11); format!("SStable {}", k == 11) }
        12 | 13 => { c.preserve_code_transform(k == 13); format!("SPreserve {}", k == 13) }
        14 => { c.on_parse(|_, _| Ok(())); "SOnParse".into() }
        15 => { c.on_instr_loc(|p| walrus::ir::InstrLocId::new(*p as u32)); "SOnInstrLoc".into() }
        _ => { *c = c.clone(); "SClone".into() }
    }
}
fn bits(c: &ModuleConfig) -> Option<String> {
    let d = format!("{:?}", c); let mut out = vec![];
    for key in ["generate_dwarf", "generate_synthetic_names_for_anonymous_items", "only_stable_features", "skip_strict_validate", "skip_producers_section", "skip_name_section", "preserve_code_transform"] {
        let pat = format!("{}: ", key); let i = d.find(&pat)? + pat.len(); out.push(if d[i..].starts_with("true") { "true" } else if d[i..].starts_with("false") { "false" } else { return None }); }
    for key in ["on_parse", "on_instr_loc"] { let pat = format!("{}: ", key); let i = d.find(&pat)? + pat.len(); out.push(if d[i..].starts_with("Some") { "true" } else if d[i..].starts_with("None") { "false" } else { return None }); }
    Some(format!("[{}]", out.join("; ")))
}
pub fn main(args: &[String]) {
    let out_dir = &args[0]; let seed: u64 = args[1].parse().unwrap(); let n_rand: usize = args[2].parse().unwrap();
    let mut w = CaseWriter::new(out_dir, "c14cfg", "From WV Require Import Model.Config Run.ConfigRun.", "ccase", "check_cfg", 400);
    let mut seqs: Vec<Vec<usize>> = vec![vec![]];
    for a in 0..17 { seqs.push(vec![a]); for b in 0..17 { seqs.push(vec![a, b]); } }
    let mut r = Rng::new(seed); for _ in 0..n_rand { let n = 3 + r.usize(8); seqs.push((0..n).map(|_| r.usize(17)).collect()); }
    let mut unreadable = 0u64; let mut lens: std::collections::BTreeMap<usize, u64> = Default::default();
    for s in &seqs { let mut c = ModuleConfig::new(); let calls: Vec<String> = s.iter().map(|k| apply(&mut c, *k)).collect(); *lens.entry(s.len()).or_default() += 1;
        match bits(&c) { Some(b) => w.push(&format!("Build_ccase [{}] {}", calls.join("; "), b)), None => unreadable += 1 } }
    w.finish();
    let meta = Json::obj(vec![("cases", Json::u(w.total)), ("unreadable_debug_output", Json::n(unreadable as f64)), ("sequence_lengths", Json::obj(lens.iter().map(|(k, v)| (Box::leak(k.to_string().into_boxed_str()) as &str, Json::n(*v as f64))).collect()))]);
    std::fs::write(format!("{}/meta.json", out_dir), meta.to_string()).unwrap();
}
