//! C11: the code-offset map handed to custom sections (CodeTransform) is exact.
//! Real walrus is run with preserve_code_transform(true) and a custom section that records the
//! CodeTransform it is given; the output binary is decoded independently (operator offsets, entry
//! extents, code section start).  Cases for Run/CodeMapRun.check_ct + an independent oracle.
use crate::amod::{self, AImportKind, AMod};
use crate::body::live_mask;
use crate::env::{self, Profile};
use crate::gen::{self, GenCfg};
use crate::irdump;
use crate::modrun::{fixtures, VERSION};
use crate::rng::Rng;
use crate::sigs;
use crate::util::{catch, CaseWriter, Json};
use crate::wmodcoq;
use std::sync::{Arc, Mutex};
use walrus::*;

const MARKER: i32 = 24301;

#[derive(Default, Clone, Debug)]
pub struct Ct { pub pairs: Vec<(u32, usize)>, pub code_section_start: usize, pub ranges: Vec<(usize, usize, usize)>, pub calls: u32 }
#[derive(Debug)]
pub struct CtRecorder { pub out: Arc<Mutex<Ct>> }
impl CustomSection for CtRecorder {
    fn name(&self) -> &str { "verif-ct-recorder" }
    fn data(&self, _: &IdsToIndices) -> std::borrow::Cow<[u8]> { std::borrow::Cow::Borrowed(&[]) }
    fn apply_code_transform(&mut self, t: &CodeTransform) {
        let mut o = self.out.lock().unwrap();
        o.calls += 1;
        o.pairs = t.instruction_map.iter().map(|(l, p)| (l.data(), *p)).collect();
        o.code_section_start = t.code_section_start;
        o.ranges = t.function_ranges.iter().map(|(id, r)| (id.index(), r.start, r.end)).collect();
    }
}

pub struct CtObs { pub ct: Ct, pub em: irdump::EmitMaps, pub pm: irdump::ParseMaps, pub out: Vec<u8>, pub emitted_order: Vec<usize> }

/// parse, (optionally run `edit`), emit with preserve_code_transform
pub fn observe_ct(wasm: &[u8], names: bool, edit: &dyn Fn(&mut Module)) -> std::result::Result<CtObs, String> { observe_ct_cfg(wasm, names, false, edit) }
/// `dwarf`: the code transform is requested through generate_dwarf(true) (which runs the DWARF emitter BEFORE the custom sections get the transform) instead of preserve_code_transform(true)
pub fn observe_ct_cfg(wasm: &[u8], names: bool, dwarf: bool, edit: &dyn Fn(&mut Module)) -> std::result::Result<CtObs, String> { observe_ct_cfg2(wasm, names, dwarf, false, edit) }
/// `hook`: parse with an `on_instr_loc` callback that maps every input position to the location with the same number (what the default does without a callback)
pub fn observe_ct_cfg2(wasm: &[u8], names: bool, dwarf: bool, hook: bool, edit: &dyn Fn(&mut Module)) -> std::result::Result<CtObs, String> {
    let mut cfg = ModuleConfig::new(); cfg.generate_name_section(names).generate_producers_section(false); if dwarf { cfg.generate_dwarf(true); } else { cfg.preserve_code_transform(true); }
    if hook { cfg.on_instr_loc(|pos| InstrLocId::new(*pos as u32)); }
    let (mut m, pm) = irdump::parse_with_maps(wasm, &mut cfg).map_err(|e| format!("parse: {:#}", e))?;
    edit(&mut m);
    let (rec, em) = irdump::IndexRecorder::for_module(&m);
    m.customs.add(rec);
    let ct = Arc::new(Mutex::new(Ct::default()));
    m.customs.add(CtRecorder { out: ct.clone() });
    let out = m.emit_wasm();
    let em = em.lock().unwrap().clone(); let ct = ct.lock().unwrap().clone();
    // local functions in emission order = by emitted index
    let mut order: Vec<(u32, usize)> = m.funcs.iter_local().filter_map(|(id, _)| em.funcs.get(&id.index()).map(|i| (*i, id.index()))).collect(); order.sort();
    Ok(CtObs { ct, em, pm, out, emitted_order: order.into_iter().map(|x| x.1).collect() })
}

fn n_imp_funcs(a: &AMod) -> usize { a.imports.iter().filter(|i| matches!(i.2, AImportKind::Func(_))).count() }

/// positional alignment of the live operators of an input body with the operators of the output body
/// (nop and dead code dropped, an `else` synthesised for an else-less `if`); None = bodies do not align (C03's business)
fn is_marker(out: &amod::ABody, j: usize) -> bool {
    out.ops.get(j).and_then(|o| o.0.as_deref()) == Some(&format!("WOp (W_I32Const ({})%Z)", MARKER)) && out.ops.get(j + 1).map(|o| o.2) == Some("Drop")
}
pub fn align_pub(inp: &amod::ABody, out: &amod::ABody, inserted: &mut Vec<usize>) -> Option<Vec<Option<usize>>> { align(inp, out, inserted) }
fn align(inp: &amod::ABody, out: &amod::ABody, inserted: &mut Vec<usize>) -> Option<Vec<Option<usize>>> {
    let mask = live_mask(&inp.ops); let mut map = vec![None; inp.ops.len()]; let mut j = 0;
    for (k, o) in inp.ops.iter().enumerate() { if !mask[k] { continue; }
        while is_marker(out, j) { inserted.push(out.ops[j].1); inserted.push(out.ops[j + 1].1); j += 2; }
        let oj = out.ops.get(j)?;
        if oj.2 == o.2 { map[k] = Some(j); j += 1; }
        else if oj.2 == "Else" && o.2 == "End" && out.ops.get(j + 1).map(|x| x.2) == Some("End") { map[k] = Some(j + 1); j += 2; }
        else { return None; } }
    while is_marker(out, j) { inserted.push(out.ops[j].1); inserted.push(out.ops[j + 1].1); j += 2; }
    if j != out.ops.len() { return None; }
    Some(map)
}

/// two-function modules whose second function's body has a size on either side of the 128-byte size-LEB boundary, in the
/// input (sizes 120..136 with and without nops that the round trip drops) - so that input and output sizes straddle it
pub fn boundary_bodies() -> Vec<(String, Vec<u8>)> {
    let mut v = vec![];
    for a in 0..2usize { for b in 36..44usize { for nops in 0..3usize {
        // units: `i32.const 100 drop` = 4 bytes, `i32.const 1 drop` = 3 bytes, `nop` = 1 byte (dropped by walrus); + locals(1) + `i32.const 0`(2) + end(1)
        let size_in = 4 * a + 3 * b + nops + 4; let size_out = 4 * a + 3 * b + 4;
        if !((125..=131).contains(&size_in) || (125..=131).contains(&size_out)) { continue; }
        let mut wat = String::from("(module (func (export \"small\") (result i32) i32.const 7) (func (export \"sized\") (result i32) ");
        for _ in 0..nops { wat.push_str("nop "); } for _ in 0..a { wat.push_str("i32.const 100 drop "); } for _ in 0..b { wat.push_str("i32.const 1 drop "); }
        wat.push_str("i32.const 0) (func (export \"after\") (result i32) i32.const 9 i32.const 8 drop))");
        if let Ok(w) = wat::parse_str(&wat) { v.push((format!("body-size-in{}-out{}", size_in, size_out), w)); } } } }
    v
}

pub fn oracle(name: &str, wasm: &[u8], o: &CtObs, viol: &mut Vec<Json>) {
    let v = |class: &str, what: String| Json::obj(vec![("class", Json::s(class)), ("props", Json::s("C11")), ("what", Json::s(format!("{}: {}", name, what))), ("input", Json::s(crate::c03::hex(wasm)))]);
    let (a, b) = match (amod::decode(wasm), amod::decode(&o.out)) { (Ok(a), Ok(b)) => (a, b), _ => return };
    if b.code.is_empty() { return; }
    if o.ct.calls != 1 { viol.push(v("code-transform-not-delivered-once", format!("apply_code_transform was called {} times", o.ct.calls))); return; }
    // (3) code_section_start = where code-relative addresses are measured from = start of the code section contents
    let want_start = b.code_section.map(|x| x.0).unwrap_or(0);
    if o.ct.code_section_start != want_start { viol.push(v("code-section-start-wrong", format!("code_section_start = {} but the contents of the emitted code section start at {} ({} function bodies)", o.ct.code_section_start, want_start, b.code.len()))); }
    // (2) function ranges = the entries (size LEB + body) of the emitted code section
    let nib = n_imp_funcs(&b);
    let mut seen = 0;
    for (id, s, e) in &o.ct.ranges { match o.em.funcs.get(id) { Some(ix) if (*ix as usize) >= nib && (*ix as usize - nib) < b.code.len() => { seen += 1; let body = &b.code[*ix as usize - nib];
            if (*s, *e) != (body.entry_start, body.range.1) { viol.push(v("function-range-wrong", format!("function id {} (emitted index {}): range {}..{} reported, its code entry occupies {}..{}", id, ix, s, e, body.entry_start, body.range.1))); } }
        _ => viol.push(v("function-range-wrong", format!("a range is reported for function id {} which has no code entry", id))) } }
    if seen != b.code.len() { viol.push(v("function-range-wrong", format!("{} ranges reported for {} code entries", seen, b.code.len()))); }
    // (1) pairs: each location is the input offset of an instruction; the output offset is the first byte of the same instruction
    let nia = n_imp_funcs(&a);
    let mut expect: std::collections::BTreeMap<u32, usize> = Default::default(); let mut aligned_all = true; let mut inserted: Vec<usize> = vec![];
    for (i, fa) in a.code.iter().enumerate() {
        let id = match o.pm.funcs.get(nia + i) { Some(x) => *x, None => continue };
        let ix = match o.em.funcs.get(&id) { Some(x) => *x as usize, None => continue };   // not emitted
        let fb = match b.code.get(ix.wrapping_sub(nib)) { Some(x) => x, None => continue };
        match align(fa, fb, &mut inserted) { Some(map) => for (k, j) in map.iter().enumerate() { if let Some(j) = j { expect.insert(fa.ops[k].1 as u32, fb.ops[*j].1); } }, None => aligned_all = false }
    }
    if !aligned_all { return; }
    let got: std::collections::BTreeMap<u32, usize> = o.ct.pairs.iter().cloned().collect();
    if got.len() != o.ct.pairs.len() { viol.push(v("instruction-map-wrong", "an input location occurs in two pairs".into())); }
    let mut n_bad = 0; let mut first = String::new();
    for (l, p) in &got { match expect.get(l) { Some(q) if q == p => {}, Some(q) => { n_bad += 1; if first.is_empty() { first = format!("input offset {} is paired with output offset {} but that instruction starts at {}", l, p, q); } }
        None => { n_bad += 1; if first.is_empty() { first = format!("pair ({}, {}) but no emitted instruction comes from input offset {}", l, p, l); } } } }
    for (l, q) in &expect { if !got.contains_key(l) { n_bad += 1; if first.is_empty() { first = format!("the instruction at input offset {} is emitted at {} but appears in no pair", l, q); } } }
    for (l, p) in &got { if inserted.contains(p) { n_bad += 1; if first.is_empty() { first = format!("pair ({}, {}) points at an instruction that was inserted by the transformation", l, p); } } }
    if n_bad > 0 { viol.push(v("instruction-map-wrong", format!("{} wrong/missing pairs, first: {}", n_bad, first))); }
}

fn coq_case(wasm: &[u8], o: &CtObs, gc: bool, edits: &[(usize, usize, usize)]) -> Option<String> {
    let win = wmodcoq::wmod(wasm, true)?;
    let b = amod::decode(&o.out).ok()?; let nib = n_imp_funcs(&b);
    // observed pairs as (loc, (k-th emitted function, ordinal of the operator)); an offset that is no operator start gets ordinal 999999
    let mut pairs = vec![];
    for (l, p) in &o.ct.pairs { let mut hit = (999999usize, 999999usize);
        for (k, f) in b.code.iter().enumerate() { if *p >= f.range.0 && *p < f.range.1 { hit.0 = k; if let Some(j) = f.ops.iter().position(|x| x.1 == *p) { hit.1 = j; } } }
        pairs.push(format!("({}, ({}, {}))", l, hit.0, hit.1)); }
    let first = b.code.first().map(|f| f.entry_start).unwrap_or(0);
    let sizes: Vec<String> = b.code.iter().map(|f| (f.range.1 - f.range.0).to_string()).collect();
    let ranges: Vec<String> = o.ct.ranges.iter().map(|(id, s, e)| format!("({}, ({}, {}))", id, s, e)).collect();
    let _ = nib;
    let ver = format!("[{}]", VERSION.bytes().map(|b| b.to_string()).collect::<Vec<_>>().join(";"));
    let ed: Vec<String> = edits.iter().map(|(f, s, p)| format!("({}, {}, {})", f, s, p)).collect();
    Some(format!("Build_ctcase {} {} {} [{}] [{}] {} [{}] [{}] {}", ver, win, gc, ed.join("; "), pairs.join("; "), first, sizes.join("; "), ranges.join("; "), o.ct.code_section_start))
}

pub fn main(args: &[String]) {
    let out_dir = &args[0]; let seed: u64 = args[1].parse().unwrap(); let n_gen: usize = args[2].parse().unwrap();
    let mut r = Rng::new(seed);
    let header = "From WV Require Import Gen.Ops Model.Common Model.IR Model.ModuleM Run.ModuleRun Run.CodeMapRun.\nOpen Scope N_scope.";
    let mut w = CaseWriter::new(out_dir, "c11", header, "ctcase", "check_ct", 8);
    let feats = env::walrus_features(false);
    let mut viol: Vec<Json> = vec![]; let mut samples = vec![];
    let mut inputs: Vec<(String, Vec<u8>)> = vec![];
    if let Ok(rd) = std::fs::read_dir("/verif/corpus/c11") { let mut ps: Vec<_> = rd.filter_map(|e| e.ok()).map(|e| e.path()).collect(); ps.sort();
        for p in ps { if p.extension().and_then(|e| e.to_str()) == Some("wat") { if let Ok(b) = std::fs::read_to_string(&p).map_err(|e| e.to_string()).and_then(|t| wat::parse_str(&t).map_err(|e| e.to_string())) { inputs.push((format!("corpus:{}", p.file_name().unwrap().to_string_lossy()), b)); } } } }
    let n_corpus = inputs.len();
    inputs.extend(fixtures());
    let n_fix = inputs.len() - n_corpus;
    let tab = sigs::build_table(Profile::Full, false, 8);
    let gcfg = GenCfg { profile: Profile::Full, max_funcs: 4, max_depth: 4, seq_len: 6, names: true, customs: true, start: true, active_segments: true };
    let mut k = 0; while k < n_gen { let (wasm, _) = gen::module(&mut r, &tab, &gcfg); if amod::validate(&wasm, feats).is_err() { continue; } inputs.push((format!("gen{}", k), wasm)); k += 1; }
    // a module with more than 127 and one with more than 16383 function bodies (the count LEB grows)
    for n in [130usize, 16390] { let mut wat = String::from("(module (func (export \"f\") (result i32) i32.const 7)"); for _ in 0..n { wat.push_str(" (func)"); } wat.push(')'); if let Ok(b) = wat::parse_str(&wat) { inputs.push((format!("many-functions-{}", n), b)); } }
    // function-count boundaries of the count LEB, with the total split differently between imports and bodies,
    // and modules whose number of bodies crosses the boundary only after GC (unused functions)
    for (ni, nl, unused) in [(120usize, 10usize, 0usize), (0, 127, 0), (0, 128, 0), (127, 1, 0), (128, 1, 0), (1, 127, 0), (3, 125, 10), (0, 120, 20), (200, 3, 0)] {
        let mut wat = String::from("(module"); for i in 0..ni { wat.push_str(&format!(" (import \"env\" \"f{}\" (func))", i)); }
        for i in 0..nl { wat.push_str(&format!(" (func (export \"e{}\") (result i32) i32.const {})", i, i)); } for _ in 0..unused { wat.push_str(" (func nop)"); } wat.push(')');
        if let Ok(b) = wat::parse_str(&wat) { inputs.push((format!("count-boundary-{}i-{}l-{}u", ni, nl, unused), b)); } }
    inputs.extend(boundary_bodies());
    let (mut n_cases, mut n_pairs, mut n_funcs, mut n_unmodelled) = (0u64, 0u64, 0u64, 0u64);
    let (mut n_gc, mut n_edit, mut n_added) = (0u64, 0u64, 0u64);
    for (name, wasm) in &inputs {
        if amod::validate(wasm, feats).is_err() { continue; }
        // variants: unchanged; GC before emitting; marker instructions inserted at random places through the builder API
        let big = name.starts_with("many-functions-");
        let variants: Vec<u8> = if big { vec![0] } else { vec![0, 1, 2, 3, 4, 5, 6] };   // 6 = the module is emitted once, THEN markers are inserted, and the second emit is the one observed   // 4 = unchanged, but with generate_dwarf(true) in place of preserve_code_transform(true); 5 = unchanged, parsed with an identity on_instr_loc callback
        for variant in variants {
            let names = r.chance(1, 2);
            let seed_edit = r.below(1 << 30);
            let edits: std::cell::RefCell<Vec<(usize, usize, usize)>> = Default::default();
            let o = match catch(|| observe_ct_cfg2(wasm, names, variant == 4, variant == 5, &|m: &mut Module| {
                    if variant == 1 { passes::gc::run(m); }
                    if variant == 6 { let _ = m.emit_wasm(); }
                    if variant == 2 || variant == 6 { let mut rr = Rng::new(seed_edit as u64); let ids: Vec<FunctionId> = m.funcs.iter_local().map(|(id, _)| id).collect();
                        for fid in ids { let lf = m.funcs.get_mut(fid).kind.unwrap_local_mut(); let seqs = irdump::seq_ids(lf); let mut keys: Vec<_> = seqs.keys().cloned().collect(); keys.sort();
                            for _ in 0..(1 + rr.usize(3)) { let sk = *rr.pick(&keys); let sid = seqs[&sk]; let len = lf.block(sid).instrs.len(); let pos = rr.usize(len + 1);
                                let mut b = lf.builder_mut().instr_seq(sid); b.instr_at(pos, ir::Const { value: ir::Value::I32(MARKER) }); b.instr_at(pos + 1, ir::Drop {});
                                edits.borrow_mut().push((fid.index(), sk, pos)); } } }
                    // a NEW function built through the API, larger than the parsed ones (so it is emitted in front of them), exported
                    if variant == 3 { let mut b = FunctionBuilder::new(&mut m.types, &[], &[]); { let mut body = b.func_body(); for _ in 0..(20 + (seed_edit % 40) as usize) { body.i32_const(MARKER).drop(); } }
                        let f = b.finish(vec![], &mut m.funcs); m.exports.add("added-through-the-api", f); }
                })) { Some(Ok(o)) => o, Some(Err(_)) => continue,
                None => { viol.push(Json::obj(vec![("class", Json::s("emit-panics-with-code-transform")), ("props", Json::s("C11 C02")), ("what", Json::s(format!("{}: parse/emit panics with preserve_code_transform (variant {})", name, variant))), ("input", Json::s(crate::c03::hex(wasm)))])); continue; } };
            if (variant == 2 || variant == 6) && amod::validate(&o.out, feats).is_err() { continue; }
            if let Err(e) = amod::validate(&o.out, feats) { if true { viol.push(Json::obj(vec![("class", Json::s("output-invalid-with-code-transform")), ("props", Json::s("C02")), ("what", Json::s(format!("{}: output does not validate (variant {}): {}", name, variant, e))), ("input", Json::s(crate::c03::hex(wasm)))])); } }   // a marker landed in a place where it breaks typing (e.g. after a terminator of a typed block): not a well-formed edit
            let vname = format!("{}{}", name, ["", " (after gc)", " (markers inserted)", " (a function added through the API)", " (with generate_dwarf)", " (with an identity on_instr_loc callback)", " (emitted once, then markers inserted, emitted again)"][variant as usize]);
            oracle(&vname, wasm, &o, &mut viol);
            if variant == 1 { n_gc += 1; } if variant == 2 { n_edit += 1; }
            n_pairs += o.ct.pairs.len() as u64; n_funcs += o.ct.ranges.len() as u64;
            if name.starts_with("many-functions-16") { continue; }   // too large a term for the Coq side; covered by the oracle
            let ed: Vec<(usize, usize, usize)> = edits.borrow().clone();
            if variant == 3 { n_added += 1; continue; }
            if variant >= 4 { continue; }   // same Coq case as variant 0: the oracle is what matters here   // the added function has no counterpart in the input stream the Coq case is built from: oracle only
            match coq_case(wasm, &o, variant == 1, &ed) { Some(line) => { if samples.len() < 2 && line.len() < 1500 { samples.push(line.clone()); } w.push(&line); n_cases += 1; } None => n_unmodelled += 1 }
        }
    }
    w.finish();
    let n_leb = leb_cases(out_dir, &mut r, if n_gen > 100 { 4000 } else { 400 }, &mut viol);
    let meta = Json::obj(vec![("leb_cases", Json::u(n_leb)), ("cases", Json::n(n_cases as f64)), ("inputs", Json::u(inputs.len())), ("corpus", Json::u(n_corpus)), ("fixtures", Json::u(n_fix)), ("generated", Json::u(n_gen)), ("after_gc", Json::n(n_gc as f64)), ("with_inserted_instructions", Json::n(n_edit as f64)), ("with_added_function", Json::n(n_added as f64)), ("pairs_checked", Json::n(n_pairs as f64)), ("function_ranges_checked", Json::n(n_funcs as f64)),
        ("outside_modelled_universe", Json::n(n_unmodelled as f64)), ("samples", Json::Arr(samples.into_iter().map(|s| Json::Str(s.chars().take(900).collect())).collect())), ("oracle_violations", Json::Arr(viol))]);
    std::fs::write(format!("{}/meta.json", out_dir), meta.to_string()).unwrap();
}

/// LEB128 as wasm-encoder writes it (the bytes of every count, size field and integer immediate) and as wasmparser reads it,
/// against Model/Leb.v: boundaries of every group count plus random values; unsigned (u32 / u64) and signed (i32 / i64).
fn leb_cases(out_dir: &str, r: &mut Rng, n_rand: usize, viol: &mut Vec<Json>) -> usize {
    use wasm_encoder::Encode;
    let header = "From WV Require Import Model.Leb Run.LebRun.\nOpen Scope N_scope.";
    let mut w = CaseWriter::new(out_dir, "leb", header, "lebcase", "check_leb", 400);
    let mut us: Vec<u64> = vec![0, 1, u32::MAX as u64, u64::MAX];
    for k in 1..10u32 { let b = 1u64 << (7 * k); us.extend([b - 2, b - 1, b, b + 1]); }
    for k in [31u32, 32, 33, 62, 63] { let b = 1u64 << k; us.extend([b - 1, b, b + 1]); }
    for _ in 0..n_rand { let bits = 1 + r.usize(64) as u32; let x = ((r.below(1 << 32) as u64) << 32 | r.below(1 << 32) as u64) >> (64 - bits); us.push(x); }
    let list = |b: &[u8]| format!("[{}]", b.iter().map(|x| x.to_string()).collect::<Vec<_>>().join(";"));
    let mut n = 0;
    for &u in &us {
        let mut b = vec![]; u.encode(&mut b);
        if u <= u32::MAX as u64 { let mut b32 = vec![]; (u as u32).encode(&mut b32); if b32 != b { viol.push(Json::obj(vec![("class", Json::s("leb-u32-u64-differ")), ("props", Json::s("C11")), ("what", Json::s(format!("{}: u32 and u64 encodings differ", u)))])); } }
        let mut rd = wasmparser::BinaryReader::new(&b, 0, wasmparser::WasmFeatures::all());
        let back = rd.read_var_u64().ok(); let rest = rd.bytes_remaining();
        w.push(&format!("LebU {}%N {} {}", u, list(&b), match back { Some(v) if rest == 0 => format!("(Some {}%N)", v), _ => "None".into() })); n += 1;
    }
    let mut is: Vec<i64> = vec![0, -1, 1, i32::MAX as i64, i32::MIN as i64, i64::MAX, i64::MIN];
    for k in 1..10u32 { let b = 1i64 << (7 * k - 1); is.extend([b - 1, b, b + 1, -b - 1, -b, -b + 1]); }
    for _ in 0..n_rand { let bits = 1 + r.usize(64) as u32; let x = (((r.below(1 << 32) as u64) << 32 | r.below(1 << 32) as u64) as i64) >> (64 - bits); is.push(x); }
    for &i in &is {
        let mut b = vec![]; i.encode(&mut b);
        if i >= i32::MIN as i64 && i <= i32::MAX as i64 { let mut b32 = vec![]; (i as i32).encode(&mut b32); if b32 != b { viol.push(Json::obj(vec![("class", Json::s("leb-i32-i64-differ")), ("props", Json::s("C11")), ("what", Json::s(format!("{}: i32 and i64 encodings differ", i)))])); } }
        let mut rd = wasmparser::BinaryReader::new(&b, 0, wasmparser::WasmFeatures::all());
        let back = rd.read_var_i64().ok(); let rest = rd.bytes_remaining();
        w.push(&format!("LebS ({})%Z {} {}", i, list(&b), match back { Some(v) if rest == 0 => format!("(Some ({})%Z)", v), _ => "None".into() })); n += 1;
    }
    w.finish(); n
}
