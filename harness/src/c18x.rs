//! C18, behavioural half: the edited module executed against an expected-behaviour model.
//! `vh c18gen <dir> <seed> <n>`: executable-profile modules (they import `env.imp : [] -> []` and export most functions);
//!  * kind 1: replace_imported_func(env.imp) by the body `i32.const MARKER; drop` - every caller, table entry and export of the
//!    import now runs that body, so the edited module must behave exactly like the ORIGINAL module instantiated with a host
//!    function that does nothing (js/run18.mjs compares every call and the final state; the host-call trace of the edited
//!    module must be empty);
//!  * kind 2: replace_exported_func(f) by a body returning fixed constants: calling that export yields the constants (or the
//!    trap), every OTHER export - including internal callers of f - behaves as in the original.
use crate::amod::{self, AImportKind};
use crate::env::{self, Profile};
use crate::gen::{self, GenCfg};
use crate::rng::Rng;
use crate::sigs;
use crate::util::{catch, Json};
use walrus::ir::Value;
use walrus::*;

const MARKER: i32 = 24301;

pub fn gen_main(args: &[String]) {
    let dir = &args[0]; let seed: u64 = args[1].parse().unwrap(); let n: usize = args[2].parse().unwrap();
    std::fs::create_dir_all(dir).unwrap();
    let mut r = Rng::new(seed); let feats = env::walrus_features(false);
    let tab = sigs::build_table(Profile::Exec, false, 10);
    let gcfg = GenCfg { profile: Profile::Exec, max_funcs: 5, max_depth: 3, seq_len: 7, names: true, customs: false, start: false, active_segments: true };
    let mut index = vec![]; let mut k = 0; let mut id = 0usize; let (mut n1, mut n2) = (0u64, 0u64);
    while k < n {
        let (wasm, _) = gen::module(&mut r, &tab, &gcfg); if amod::validate(&wasm, feats).is_err() { continue; } k += 1;
        let a = match amod::decode(&wasm) { Ok(a) => a, Err(_) => continue };
        let nimp = a.imports.iter().filter(|i| matches!(i.2, AImportKind::Func(_))).count();
        let sig = |ix: u32| -> Option<(Vec<wasmparser::ValType>, Vec<wasmparser::ValType>)> { let ti = if (ix as usize) < nimp { a.imports.iter().filter_map(|i| if let AImportKind::Func(t) = i.2 { Some(t) } else { None }).nth(ix as usize)? } else { *a.funcs.get(ix as usize - nimp)? }; a.types.get(ti as usize).cloned() };
        let fexports: Vec<(String, u32)> = a.exports.iter().filter(|e| e.1 == 0).map(|e| (e.0.clone(), e.2)).collect();
        let js_ok = |ix: u32| sig(ix).map(|(p, q)| !p.iter().chain(q.iter()).any(|t| matches!(t, wasmparser::ValType::V128))).unwrap_or(false);
        // the edits: the import (function index 0), and up to two exported local functions
        let mut edits: Vec<(u8, u32, String)> = vec![(1, 0, String::new())];
        let locals: Vec<&(String, u32)> = fexports.iter().filter(|e| e.1 as usize >= nimp && js_ok(e.1)).collect();
        for _ in 0..2 { if !locals.is_empty() { let e = r.pick(&locals); if !edits.iter().any(|x| x.0 == 2 && x.1 == e.1) { edits.push((2, e.1, e.0.clone())); } } }
        for (kind, fidx, ename) in edits {
            let trap = kind == 2 && r.chance(1, 4);
            let res = catch(|| -> Option<Vec<u8>> {
                let mut cfg = ModuleConfig::new(); cfg.generate_producers_section(false);
                let (mut m, pm) = crate::irdump::parse_with_maps(&wasm, &mut cfg).ok()?;
                let fid_ix = *pm.funcs.get(fidx as usize)?; let fid = m.funcs.iter().find(|f| f.id().index() == fid_ix)?.id();
                let results: Vec<walrus::ValType> = m.types.get(m.funcs.get(fid).ty()).results().to_vec();
                let body = |(b, _args): (&mut InstrSeqBuilder, &Vec<LocalId>)| { b.i32_const(MARKER); b.drop(); if trap { b.unreachable(); } else { for t in &results { match t {
                    walrus::ValType::I32 => { b.i32_const(5); } walrus::ValType::I64 => { b.i64_const(6); } walrus::ValType::F32 => { b.f32_const(1.5); } walrus::ValType::F64 => { b.f64_const(2.5); }
                    walrus::ValType::V128 => { b.const_(Value::V128(7)); } walrus::ValType::Ref(rt) => { b.ref_null(*rt); } } } } };
                if kind == 1 { m.replace_imported_func(fid, body).ok()?; } else { m.replace_exported_func(fid, body).ok()?; }
                Some(m.emit_wasm()) });
            let edited = match res { Some(Some(o)) => o, _ => continue };
            if amod::validate(&edited, feats).is_err() { continue; }   // reported by the structural C18 run
            let sid = format!("{:05}", id); id += 1; if kind == 1 { n1 += 1; } else { n2 += 1; }
            std::fs::write(format!("{}/{}.in.wasm", dir, sid), &wasm).unwrap(); std::fs::write(format!("{}/{}.out.wasm", dir, sid), &edited).unwrap();
            let mut calls = vec![];
            for _ in 0..(4 * fexports.len()).min(40) { let (nm, ix) = r.pick(&fexports).clone(); if !js_ok(ix) { continue; } let (ps, _) = sig(ix).unwrap();
                let args: Vec<Json> = ps.iter().map(|t| match t { wasmparser::ValType::I32 => Json::obj(vec![("t", Json::s("i32")), ("v", Json::s(format!("{}", *r.pick(&[0i64, 1, -1, 7, 65536, 2147483647]))))]),
                    wasmparser::ValType::I64 => Json::obj(vec![("t", Json::s("i64")), ("v", Json::s(format!("{}", *r.pick(&[0i64, 1, -1, 4294967296]))))]), wasmparser::ValType::F32 | wasmparser::ValType::F64 => Json::obj(vec![("t", Json::s("f64")), ("v", Json::s(format!("{}", *r.pick(&[0.0f64, 1.5, -2.25]))))]),
                    _ => Json::obj(vec![("t", Json::s("ref")), ("v", Json::s("null"))]) }).collect();
                calls.push(Json::obj(vec![("f", Json::s(nm)), ("args", Json::Arr(args))])); }
            let expect: Vec<Json> = if kind == 2 { sig(fidx).map(|(_, q)| q.iter().map(|t| Json::s(match t { wasmparser::ValType::I32 => "5", wasmparser::ValType::I64 => "6n", wasmparser::ValType::F32 => "1.5", wasmparser::ValType::F64 => "2.5", _ => "null" })).collect()).unwrap_or_default() } else { vec![] };
            let globals: Vec<Json> = a.exports.iter().filter(|e| e.1 == 3).map(|e| Json::s(e.0.clone())).collect();
            let mems: Vec<Json> = a.exports.iter().filter(|e| e.1 == 2).map(|e| Json::s(e.0.clone())).collect();
            let tables: Vec<Json> = a.exports.iter().filter(|e| e.1 == 1).map(|e| Json::s(e.0.clone())).collect();
            std::fs::write(format!("{}/{}.plan.json", dir, sid), Json::obj(vec![("name", Json::s(format!("gen{} kind{} f{}", k, kind, fidx))), ("kind", Json::n(kind as f64)), ("replaced_export", Json::s(ename)), ("trap", Json::Bool(trap)), ("expect", Json::Arr(expect)),
                ("calls", Json::Arr(calls)), ("globals", Json::Arr(globals)), ("memories", Json::Arr(mems)), ("tables", Json::Arr(tables))]).to_string()).unwrap();
            index.push(Json::s(sid));
        }
    }
    std::fs::write(format!("{}/index.json", dir), Json::obj(vec![("ids", Json::Arr(index)), ("replace_imported", Json::n(n1 as f64)), ("replace_exported", Json::n(n2 as f64))]).to_string()).unwrap();
}
