//! Module-level correspondence and oracles: fixtures + generated modules through real walrus
//! (parse, optional GC, emit, under several configurations).
use crate::amod::{self, AMod};
use crate::env::{self, Profile};
use crate::gen::{self, GenCfg};
use crate::genattr;
use crate::rng::Rng;
use crate::sigs;
use crate::util::{catch, CaseWriter, Json};
use crate::wmodcoq;
use walrus::*;

pub fn fixtures() -> Vec<(String, Vec<u8>)> {
    let mut out = vec![];
    let root = std::path::Path::new("/repo/crates/tests/tests");
    let mut stack = vec![root.to_path_buf()];
    while let Some(d) = stack.pop() {
        let rd = match std::fs::read_dir(&d) { Ok(r) => r, Err(_) => continue };
        let mut entries: Vec<_> = rd.filter_map(|e| e.ok()).map(|e| e.path()).collect(); entries.sort();
        for p in entries {
            if p.is_dir() { if p.file_name().map(|n| n == "spec-tests").unwrap_or(false) { continue; } stack.push(p); continue; }
            let ext = p.extension().and_then(|e| e.to_str()).unwrap_or("");
            if ext == "wat" || ext == "wast" { if let Ok(src) = std::fs::read_to_string(&p) { if let Ok(bytes) = wat::parse_str(&src) { out.push((p.strip_prefix(root).unwrap().display().to_string(), bytes)); } } }
        }
    }
    out.sort_by(|a, b| a.0.cmp(&b.0));
    out
}

#[derive(Clone, Copy, Debug)]
pub struct Cfg { pub names: bool, pub producers: bool, pub gc: bool, pub only_stable: bool, pub synthetic: bool }
impl Cfg {
    pub fn coq(&self) -> String { format!("{{| cf_generate_dwarf := false; cf_synthetic_names := {}; cf_only_stable := {}; cf_skip_producers := {}; cf_skip_name := {}; cf_preserve_code_transform := false |}}", self.synthetic, self.only_stable, !self.producers, !self.names) }
    pub fn module_config(&self) -> ModuleConfig { let mut c = ModuleConfig::new(); c.generate_name_section(self.names).generate_producers_section(self.producers).only_stable_features(self.only_stable).generate_synthetic_names_for_anonymous_items(self.synthetic); c }
}
pub const VERSION: &str = "0.23.3";

pub enum Outcome { Out(Vec<u8>), Err(String), Panic }
pub fn run_walrus(wasm: &[u8], cfg: &Cfg) -> Outcome {
    match catch(|| -> std::result::Result<Vec<u8>, String> {
        let mut m = cfg.module_config().parse(wasm).map_err(|e| format!("{:#}", e))?;
        if cfg.gc { passes::gc::run(&mut m); }
        Ok(m.emit_wasm())
    }) { Some(Ok(o)) => Outcome::Out(o), Some(Err(e)) => Outcome::Err(e), None => Outcome::Panic }
}

fn section_inventory(a: &AMod) -> Vec<String> { a.sections.clone() }

pub fn main(args: &[String]) {
    let out_dir = &args[0]; let seed: u64 = args[1].parse().unwrap(); let n_attr: usize = args[2].parse().unwrap(); let n_body: usize = args[3].parse().unwrap();
    let mut r = Rng::new(seed);
    let header = "From WV Require Import Gen.Ops Model.Common Model.IR Model.ModuleM Run.ModuleRun.\nOpen Scope N_scope.";
    let mut w = CaseWriter::new(out_dir, "mod", header, "mcase", "check_module", 12);
    let feats = env::walrus_features(false);
    let mut viol: Vec<Json> = vec![]; let mut samples: Vec<String> = vec![];
    // the corpus of minimised past failures / known findings runs first
    let mut inputs: Vec<(String, Vec<u8>)> = vec![];
    if let Ok(rd) = std::fs::read_dir("/verif/corpus/mod") { let mut ps: Vec<_> = rd.filter_map(|e| e.ok()).map(|e| e.path()).collect(); ps.sort();
        for p in ps { let nm = format!("corpus:{}", p.file_name().unwrap().to_string_lossy());
            match p.extension().and_then(|e| e.to_str()) { Some("wat") => if let Ok(b) = std::fs::read_to_string(&p).map_err(|e| e.to_string()).and_then(|t| wat::parse_str(&t).map_err(|e| e.to_string())) { inputs.push((nm, b)); },
                Some("hex") => if let Ok(t) = std::fs::read_to_string(&p) { let t = t.trim(); inputs.push((nm, (0..t.len() / 2).filter_map(|i| u8::from_str_radix(&t[2 * i..2 * i + 2], 16).ok()).collect())); }, _ => {} } } }
    inputs.extend(fixtures());
    let n_fix = inputs.len();
    let mut ai = genattr::AInfo::default(); let mut n_invalid = 0u64;
    let mut k = 0; while k < n_attr { let (wasm, info) = genattr::module(&mut r, true);
        if amod::validate(&wasm, feats).is_err() { n_invalid += 1; if std::env::var("VH_DEBUG").is_ok() { eprintln!("invalid attr module: {:?}", amod::validate(&wasm, feats)); } if n_invalid > 20 * n_attr as u64 + 100 { break; } continue; }
        ai.n_imports += info.n_imports; ai.n_elems += info.n_elems; ai.n_data += info.n_data; ai.n_customs += info.n_customs; ai.mem64 += info.mem64; ai.shared += info.shared; ai.table64 += info.table64;
        ai.elem_flags.extend(info.elem_flags.iter()); if info.has_names { ai.n_funcs += 1; } if info.has_producers { ai.n_tables += 1; }
        inputs.push((format!("attr{}", k), wasm)); k += 1; }
    if n_body > 0 { let tab = sigs::build_table(Profile::Full, false, 6);
        let gcfg = GenCfg { profile: Profile::Full, max_funcs: 3, max_depth: 3, seq_len: 5, names: true, customs: true, start: true, active_segments: true };
        let mut k = 0; while k < n_body { let (wasm, _) = gen::module(&mut r, &tab, &gcfg); if amod::validate(&wasm, feats).is_err() { continue; } inputs.push((format!("body{}", k), wasm)); k += 1; } }
    let (mut n_cases, mut n_unmodelled, mut n_err, mut n_panic) = (0u64, 0u64, 0u64, 0u64);
    for (idx, (name, wasm)) in inputs.iter().enumerate() {
        let valid = amod::validate(wasm, feats).is_ok();
        if !valid && name.starts_with("corpus:") { viol.push(Json::obj(vec![("class", Json::s("corpus-input-invalid")), ("props", Json::s("C02 C04 C06 C07 C08 C12 C13 C14 C19 C20")), ("what", Json::s(format!("{}: a corpus input does not validate (it would be skipped silently): {:?}", name, amod::validate(wasm, feats).err()))), ("input", Json::s(crate::c03::hex(wasm)))])); }
        crate::oracles::all_module_oracles(name, wasm, &mut viol);
        let win = match wmodcoq::wmod(wasm, false) { Some(s) => s, None => { n_unmodelled += 1; continue } };
        // configurations: fixtures get the default-like config and GC; generated inputs rotate through all combinations
        let cfgs: Vec<Cfg> = if idx < n_fix { vec![Cfg { names: true, producers: false, gc: false, only_stable: false, synthetic: false }, Cfg { names: true, producers: true, gc: true, only_stable: false, synthetic: false }, Cfg { names: true, producers: false, gc: false, only_stable: false, synthetic: true }] }
            else { let b = r.below(16); vec![Cfg { names: b & 1 == 0, producers: b & 2 == 0, gc: b & 4 != 0, only_stable: false, synthetic: b & 8 != 0 && r.chance(1, 2) }] };
        for cfg in cfgs {
            let (obs, wout, out_bytes) = match run_walrus(wasm, &cfg) {
                Outcome::Out(o) => { match wmodcoq::wmod(&o, false) { Some(s) => (0, s, Some(o)), None => { viol.push(Json::obj(vec![("class", Json::s("output-undecodable")), ("props", Json::s("C02")), ("what", Json::s(format!("{}: emitted module cannot be decoded", name))), ("input", Json::s(crate::c03::hex(wasm)))])); continue } } }
                Outcome::Err(e) => { n_err += 1; if valid { viol.push(Json::obj(vec![("class", Json::s("walrus-rejects-valid-module")), ("props", Json::s("C05")), ("what", Json::s(format!("{}: walrus rejects a module the reference validator accepts: {}", name, e))), ("input", Json::s(crate::c03::hex(wasm)))])); } (1, "[]".to_string(), None) }
                Outcome::Panic => { n_panic += 1; viol.push(Json::obj(vec![("class", Json::s(if cfg.gc { "walrus-panics-after-gc" } else { "walrus-panics-on-valid-module" })), ("props", Json::s("C02 C05 C06")), ("what", Json::s(format!("{}: walrus panics (gc={})", name, cfg.gc))), ("input", Json::s(crate::c03::hex(wasm)))])); (2, "[]".to_string(), None) }
            };
            if let Some(o) = &out_bytes { if let Err(e) = amod::validate(o, feats) { viol.push(Json::obj(vec![("class", Json::s(if cfg.gc { if e.contains("undeclared function reference") { amod::decode(wasm).map(|a| crate::oracles::undeclared_class(&a)).unwrap_or("output-invalid-after-gc") } else { "output-invalid-after-gc" } } else { "output-invalid" })), ("props", Json::s(if cfg.gc { "C02 C06" } else { "C02" })), ("what", Json::s(format!("{}: emitted module does not validate (gc={}): {}", name, cfg.gc, e))), ("input", Json::s(crate::c03::hex(wasm)))])); } }
            let ver = format!("[{}]", VERSION.bytes().map(|b| b.to_string()).collect::<Vec<_>>().join(";"));
            let line = format!("Build_mcase {} {} {} {} [] {} {}", cfg.coq(), ver, win, cfg.gc, obs, wout);
            if !valid { continue; }   // the models take validation as a premise; verdicts on invalid inputs are compared by the C05 oracle
            w.push(&line); n_cases += 1;
            if samples.len() < 2 && line.len() < 1500 && idx >= n_fix { samples.push(line.chars().take(1200).collect()); }
        }
    }
    w.finish();
    let mut flags = [0u64; 9]; for f in &ai.elem_flags { flags[*f as usize] += 1; }
    let meta = Json::obj(vec![("cases", Json::n(n_cases as f64)), ("fixtures", Json::u(n_fix)), ("attr_modules", Json::u(n_attr)), ("body_modules", Json::u(n_body)), ("attr_invalid_discarded", Json::n(n_invalid as f64)),
        ("outside_modelled_universe", Json::n(n_unmodelled as f64)), ("walrus_errors", Json::n(n_err as f64)), ("walrus_panics", Json::n(n_panic as f64)),
        ("attr_distribution", Json::obj(vec![("imports", Json::u(ai.n_imports)), ("elements", Json::u(ai.n_elems)), ("data", Json::u(ai.n_data)), ("customs", Json::u(ai.n_customs)), ("memory64", Json::u(ai.mem64)), ("shared", Json::u(ai.shared)), ("table64", Json::u(ai.table64)),
            ("with_names", Json::u(ai.n_funcs)), ("with_producers", Json::u(ai.n_tables)), ("element_flag_histogram", Json::Arr(flags.iter().map(|x| Json::n(*x as f64)).collect()))])),
        ("samples", Json::Arr(samples.into_iter().map(Json::Str).collect())), ("oracle_violations", Json::Arr(viol))]);
    std::fs::write(format!("{}/meta.json", out_dir), meta.to_string()).unwrap();
    let _ = section_inventory;
}
