//! Generic machinery over the whole `wasmparser::Operator` universe, generated
//! by expanding `for_each_operator!`: print an operator as a Coq term of the
//! translated `wop`/`wins` types, and build an operator from abstract immediates.
use wasmparser::{BlockType, HeapType, AbstractHeapType, MemArg, Operator, RefType, ValType, V128, Ieee32, Ieee64};

pub trait CoqArg { fn coq(&self) -> Option<String>; }
impl CoqArg for u32 { fn coq(&self) -> Option<String> { Some(self.to_string()) } }
impl CoqArg for u8 { fn coq(&self) -> Option<String> { Some(self.to_string()) } }
impl CoqArg for i32 { fn coq(&self) -> Option<String> { Some(format!("({})%Z", self)) } }
impl CoqArg for i64 { fn coq(&self) -> Option<String> { Some(format!("({})%Z", self)) } }
impl CoqArg for Ieee32 { fn coq(&self) -> Option<String> { Some(self.bits().to_string()) } }
impl CoqArg for Ieee64 { fn coq(&self) -> Option<String> { Some(self.bits().to_string()) } }
impl CoqArg for V128 { fn coq(&self) -> Option<String> { Some(u128::from_le_bytes(*self.bytes()).to_string()) } }
impl CoqArg for [u8; 16] { fn coq(&self) -> Option<String> { Some(format!("[{}]", self.iter().map(|b| b.to_string()).collect::<Vec<_>>().join(";"))) } }
impl CoqArg for MemArg { fn coq(&self) -> Option<String> { Some(format!("{{| wa_align := {}; wa_offset := {}; wa_memory := {} |}}", self.align, self.offset, self.memory)) } }
pub fn valty_coq(v: &ValType) -> Option<String> {
    Some(match v { ValType::I32 => "VT_I32", ValType::I64 => "VT_I64", ValType::F32 => "VT_F32", ValType::F64 => "VT_F64", ValType::V128 => "VT_V128",
        ValType::Ref(r) if *r == RefType::FUNCREF => "VT_Funcref", ValType::Ref(r) if *r == RefType::EXTERNREF => "VT_Externref", _ => return None }.to_string())
}
impl CoqArg for ValType { fn coq(&self) -> Option<String> { valty_coq(self) } }
impl CoqArg for RefType { fn coq(&self) -> Option<String> { None } }
impl CoqArg for HeapType { fn coq(&self) -> Option<String> { Some(match self {
    HeapType::Abstract { shared: false, ty: AbstractHeapType::Func } => "HT_Func".into(),
    HeapType::Abstract { shared: false, ty: AbstractHeapType::Extern } => "HT_Extern".into(),
    _ => "(HT_Other 0)".to_string() }) } }
impl CoqArg for BlockType { fn coq(&self) -> Option<String> { Some(match self { BlockType::Empty => "BT_Empty".into(), BlockType::Type(t) => format!("(BT_Val {})", valty_coq(t)?), BlockType::FuncType(i) => format!("(BT_Func {})", i) }) } }
impl<'a> CoqArg for wasmparser::BrTable<'a> { fn coq(&self) -> Option<String> { None } }
impl CoqArg for wasmparser::Ordering { fn coq(&self) -> Option<String> { None } }
impl CoqArg for wasmparser::TryTable { fn coq(&self) -> Option<String> { None } }

fn paren(s: String) -> String { if s.contains(' ') && !s.starts_with('(') && !s.starts_with('[') && !s.starts_with('{') { format!("({})", s) } else { s } }

macro_rules! define_plain_coq {
    ($( @$proposal:ident $op:ident $({ $($arg:ident: $argty:ty),* })? => $visit:ident)*) => {
        /// `W_Name imm...` for any operator whose immediates are printable; control operators are handled by `ins_coq`.
        pub fn plain_coq(op: &Operator) -> Option<String> {
            match op {
                $( Operator::$op $({ $($arg),* })? => {
                    #[allow(unused_mut)] let mut s = format!("W_{}", stringify!($op));
                    $( $( s.push(' '); s.push_str(&paren($arg.coq()?)); )* )?
                    Some(s)
                } )*
            }
        }
        pub fn op_name(op: &Operator) -> &'static str { match op { $( Operator::$op $({ $($arg: _),* })? => stringify!($op), )* } }
        pub fn op_proposal(op: &Operator) -> &'static str { match op { $( Operator::$op $({ $($arg: _),* })? => stringify!($proposal), )* } }
        pub fn all_op_names() -> Vec<(&'static str, &'static str)> { vec![ $( (stringify!($op), stringify!($proposal)) ),* ] }
    }
}
wasmparser::for_each_operator!(define_plain_coq);

/// An operator as a term of Model/IR.v `wins` (control operators by hand, the rest `WOp (W_..)`).
pub fn ins_coq(op: &Operator) -> Option<String> {
    Some(match op {
        Operator::Block { blockty } => format!("WBlock {}", blockty.coq()?),
        Operator::Loop { blockty } => format!("WLoop {}", blockty.coq()?),
        Operator::If { blockty } => format!("WIf {}", blockty.coq()?),
        Operator::Else => "WElse".into(), Operator::End => "WEnd".into(), Operator::Nop => "WNop".into(),
        Operator::Br { relative_depth } => format!("WBr {}", relative_depth),
        Operator::BrIf { relative_depth } => format!("WBrIf {}", relative_depth),
        Operator::BrTable { targets } => {
            let ts: Vec<String> = targets.targets().map(|t| t.unwrap().to_string()).collect();
            format!("WBrTable [{}] {}", ts.join(";"), targets.default())
        }
        o => format!("WOp ({})", plain_coq(o)?),
    })
}

// ---------------------------------------------------------------- building operators
#[derive(Clone, Debug)]
pub enum ArgVal { U32(u32), U8(u8), I32(i32), I64(i64), F32(u32), F64(u64), V128([u8; 16]), Lanes([u8; 16]), Mem(u8, u64, u32), Heap(u8), Val(u8) }

pub struct ArgSrc<'a> { pub vals: &'a [ArgVal], pub pos: usize }
pub trait FromSrc: Sized { fn from_src(s: &mut ArgSrc) -> Option<Self>; }
macro_rules! from_src { ($t:ty, $p:pat => $e:expr) => { impl FromSrc for $t { fn from_src(s: &mut ArgSrc) -> Option<Self> { let v = s.vals.get(s.pos)?.clone(); s.pos += 1; match v { $p => Some($e), _ => None } } } } }
from_src!(u32, ArgVal::U32(x) => x);
from_src!(u8, ArgVal::U8(x) => x);
from_src!(i32, ArgVal::I32(x) => x);
from_src!(i64, ArgVal::I64(x) => x);
from_src!(Ieee32, ArgVal::F32(x) => Ieee32::from(f32::from_bits(x)));
from_src!(Ieee64, ArgVal::F64(x) => Ieee64::from(f64::from_bits(x)));
from_src!([u8; 16], ArgVal::Lanes(x) => x);
from_src!(MemArg, ArgVal::Mem(a, o, m) => MemArg { align: a, max_align: a, offset: o, memory: m });
pub fn valtype_of(c: u8) -> ValType { match c { 0 => ValType::I32, 1 => ValType::I64, 2 => ValType::F32, 3 => ValType::F64, 4 => ValType::V128, 5 => ValType::Ref(RefType::FUNCREF), _ => ValType::Ref(RefType::EXTERNREF) } }
from_src!(ValType, ArgVal::Val(c) => valtype_of(c));
from_src!(HeapType, ArgVal::Heap(c) => if c == 0 { HeapType::FUNC } else { HeapType::EXTERN });
impl FromSrc for V128 { fn from_src(s: &mut ArgSrc) -> Option<Self> { let v = s.vals.get(s.pos)?.clone(); s.pos += 1; match v { ArgVal::V128(b) => {
    // V128 has no public constructor: parse it out of an encoded v128.const
    let mut bytes = vec![0xfd, 0x0c]; bytes.extend_from_slice(&b);
    let mut r = wasmparser::BinaryReader::new(&bytes, 0, wasmparser::WasmFeatures::all());
    match r.read_operator().ok()? { Operator::V128Const { value } => Some(value), _ => None } } _ => None } } }
impl FromSrc for BlockType { fn from_src(_: &mut ArgSrc) -> Option<Self> { None } }
impl FromSrc for RefType { fn from_src(_: &mut ArgSrc) -> Option<Self> { None } }
impl<'a> FromSrc for wasmparser::BrTable<'a> { fn from_src(_: &mut ArgSrc) -> Option<Self> { None } }
impl FromSrc for wasmparser::Ordering { fn from_src(_: &mut ArgSrc) -> Option<Self> { None } }
impl FromSrc for wasmparser::TryTable { fn from_src(_: &mut ArgSrc) -> Option<Self> { None } }

macro_rules! define_build {
    ($( @$proposal:ident $op:ident $({ $($arg:ident: $argty:ty),* })? => $visit:ident)*) => {
        /// Build `Operator::<name>` from positional abstract immediates.
        pub fn build<'a>(name: &str, vals: &[ArgVal]) -> Option<Operator<'a>> {
            #[allow(unused_mut, unused_variables)] let mut s = ArgSrc { vals, pos: 0 };
            $( if name == stringify!($op) { return Some(Operator::$op $({ $($arg: <$argty as FromSrc>::from_src(&mut s)?),* })?); } )*
            None
        }
        /// (arg name, arg type) list of an operator.
        pub fn op_args(name: &str) -> Vec<(&'static str, String)> {
            $( if name == stringify!($op) { return vec![ $( $( (stringify!($arg), stringify!($argty).replace(' ', "")) ),* )? ]; } )*
            vec![]
        }
    }
}
wasmparser::for_each_operator!(define_build);

/// Candidate immediates for one argument (boundary values; validity is decided by the validator later).
pub fn candidates(op: &str, arg: &str, ty: &str, thorough: bool) -> Vec<ArgVal> {
    let t = ty.replace("$crate::", "");
    match t.as_str() {
        "u32" => (0..4u32).map(ArgVal::U32).collect(),
        "u8" => (0..=32u8).filter(|l| thorough || [0, 1, 3, 7, 15, 16, 31, 32].contains(l) || *l < 4).map(ArgVal::U8).collect(),
        "i32" => [0, 1, -1, i32::MIN, i32::MAX, 0x7fff, -65].iter().map(|x| ArgVal::I32(*x)).collect(),
        "i64" => [0, 1, -1, i64::MIN, i64::MAX, 1 << 32, -(1 << 33) - 1].iter().map(|x| ArgVal::I64(*x)).collect(),
        "Ieee32" => [0u32, 0x80000000, 0x3f800000, 0x7f800000, 0xff800000, 0x7fc00000, 0x7fa00001, 0xffc12345, 0x7f800001, 1].iter().map(|x| ArgVal::F32(*x)).collect(),
        "Ieee64" => [0u64, 1 << 63, 0x3ff0000000000000, 0x7ff0000000000000, 0xfff0000000000000, 0x7ff8000000000000, 0x7ff4000000000001, 0xfff8123456789abc, 0x7ff0000000000001, 1].iter().map(|x| ArgVal::F64(*x)).collect(),
        "V128" => vec![ArgVal::V128([0; 16]), ArgVal::V128([0xff; 16]), ArgVal::V128([1, 2, 3, 4, 5, 6, 7, 8, 9, 10, 11, 12, 13, 14, 15, 16]), ArgVal::V128([0, 0, 0xa0, 0x7f, 1, 0, 0x80, 0xff, 0, 0, 0, 0, 0, 0, 0xf4, 0x7f]), ArgVal::V128([0x80, 0, 0, 0, 0, 0, 0, 0, 0, 0, 0, 0, 0, 0, 0, 0x80])],
        "[u8;16]" => vec![ArgVal::Lanes([0; 16]), ArgVal::Lanes([31; 16]), ArgVal::Lanes([0, 1, 2, 3, 4, 5, 6, 7, 8, 9, 10, 11, 12, 13, 14, 15]), ArgVal::Lanes([31, 30, 29, 28, 27, 26, 25, 24, 23, 22, 21, 20, 19, 18, 17, 16]), ArgVal::Lanes([32; 16])],
        "MemArg" => {
            let mut v = vec![];
            let offs32: &[u64] = &[0, 1, 0xffff_ffff];
            let offs64: &[u64] = &[0, 1, 0xffff_ffff, 0x1_0000_0000, 0x1_0000_0001, u64::MAX];
            for a in 0..=5u8 { for m in 0..3u32 { for o in if m == 1 { offs64 } else { offs32 } {
                if !thorough && a > 0 && *o != 0 && *o != 0xffff_ffff && m != 1 { continue; }
                v.push(ArgVal::Mem(a, *o, m)); } } }
            v
        }
        "HeapType" => vec![ArgVal::Heap(0), ArgVal::Heap(1)],
        "ValType" => (0..7u8).map(ArgVal::Val).collect(),
        _ => { let _ = (op, arg); vec![] }
    }
}
