//! developer helper: dump a module (hex file) before/after gc
pub fn main(args: &[String]) {
    let hex = std::fs::read_to_string(&args[0]).unwrap(); let bytes: Vec<u8> = (0..hex.trim().len() / 2).map(|i| u8::from_str_radix(&hex[2 * i..2 * i + 2], 16).unwrap()).collect();
    let a = crate::amod::decode(&bytes).unwrap();
    println!("IN elems: {:?}", a.elems); println!("IN exports: {:?}", a.exports); println!("IN data: {:?}", a.data.iter().map(|d| &d.kind).collect::<Vec<_>>());
    for (i, b) in a.code.iter().enumerate() { let v: Vec<_> = b.ops.iter().filter(|o| o.2.contains("Table") || o.2.contains("Elem") || o.2.contains("RefFunc")).map(|o| o.0.clone()).collect(); println!("IN code {}: {:?}", i, v); }
    let mut m = walrus::Module::from_buffer(&bytes).unwrap(); walrus::passes::gc::run(&mut m); let o = m.emit_wasm(); let b = crate::amod::decode(&o).unwrap();
    println!("OUT elems: {:?}", b.elems);
    if std::env::var("VH_FULL").is_ok() { for (i, c) in a.code.iter().enumerate() { println!("IN  f{} locals {:?}: {}", i, c.locals, c.ops.iter().map(|o| o.0.clone().unwrap_or(o.2.to_string())).collect::<Vec<_>>().join(" ; ")); } for (i, c) in b.code.iter().enumerate() { println!("OUT f{} locals {:?}: {}", i, c.locals, c.ops.iter().map(|o| o.0.clone().unwrap_or(o.2.to_string())).collect::<Vec<_>>().join(" ; ")); } println!("IN tables {:?}\nOUT tables {:?}\nOUT exports {:?}", a.tables, b.tables, b.exports); }
    println!("reach: {:?}", crate::oracles::reachable(&a));
}
