//! Byte-level encoding of function bodies (Model/Bytes.v) against wasmparser's reader and the bytes wasm-encoder / walrus write:
//!  * `vh optable`  : the operator universe as wasmparser's reader sees it: name, first byte, sub-opcode, immediate types (input of the table generator);
//!  * `vh bytes <outdir> <seed> <n>` : one case per function body (locals, operators, bytes, operator offsets) of every input module and of walrus's output of it.
use crate::modrun::fixtures;
use crate::rng::Rng;
use crate::util::{catch, CaseWriter, Json};
use wasm_encoder as we;
use we::Instruction as I;

fn list(b: &[u8]) -> String { format!("[{}]", b.iter().map(|x| x.to_string()).collect::<Vec<_>>().join(";")) }
fn leb(mut n: u32) -> Vec<u8> { let mut v = vec![]; loop { let b = (n & 127) as u8; n >>= 7; if n == 0 { v.push(b); break; } v.push(b | 128); } v }

/// every (first byte, sub-opcode) wasmparser's operator reader accepts, with the operator's name and immediate types
pub fn optable_main() {
    let fillers: Vec<Vec<u8>> = vec![vec![0; 24], { let mut v = vec![1u8, 0x7f]; v.extend([0; 22]); v }, { let mut v = vec![0x70u8]; v.extend([0; 22]); v }, { let mut v = vec![0x40u8]; v.extend([0; 22]); v }];
    let mut seen = std::collections::BTreeSet::new();
    let mut keys: Vec<(u8, u32)> = (0..=255u8).filter(|b| ![0xfbu8, 0xfc, 0xfd, 0xfe].contains(b)).map(|b| (b, 0)).collect();
    for p in [0xfcu8, 0xfd, 0xfe] { for s in 0..0x200u32 { keys.push((p, s)); } }
    for (b, s) in keys {
        for f in &fillers {
            let mut bytes = vec![b]; if b >= 0xfc { bytes.extend(leb(s)); } let klen = bytes.len(); bytes.extend(f.iter());
            let mut r = wasmparser::BinaryReader::new(&bytes, 0, wasmparser::WasmFeatures::all());
            if let Ok(op) = r.read_operator() {
                let name = crate::ops::op_name(&op);
                if seen.insert((b, s)) {
                    let args: Vec<String> = crate::ops::op_args(name).iter().map(|(_, t)| t.replace("$crate::", "")).collect();
                    println!("{} {} {} {} {}", name, b, s, r.original_position() - klen, args.join(","));
                }
                break;
            }
        }
    }
}

/// one case line: `BIn`/`BOut` locals ops bytes offsets
fn case_of(kind: &str, wasm: &[u8], b: &crate::amod::ABody) -> Result<String, Vec<&'static str>> {
    let missing: Vec<&'static str> = b.ops.iter().filter(|(t, _, _)| t.is_none()).map(|(_, _, n)| *n).collect();
    if !missing.is_empty() { return Err(missing); }
    let mut locals = vec![];
    for (n, t) in &b.locals { match crate::ops::valty_coq(t) { Some(s) => locals.push(format!("({}, {})", n, s)), None => return Err(vec!["local-of-unmodelled-type"]) } }
    let ops: Vec<String> = b.ops.iter().map(|(t, _, _)| t.clone().unwrap()).collect();
    let offs: Vec<String> = b.ops.iter().map(|(_, o, _)| (o - b.range.0).to_string()).collect();
    Ok(format!("{} [{}] [{}] {} [{}]", kind, locals.join(";"), ops.join(";"), list(&wasm[b.range.0..b.range.1]), offs.join(";")))
}

// ------------------------------------------------------------------ dense generator over the covered subset
struct Gen<'a> { r: &'a mut Rng, v: Vec<I<'static>>, depth: u32, n_types: u32, labels: Vec<usize> }
impl<'a> Gen<'a> {
    fn i32v(&mut self) -> i32 { let k = self.r.below(10); match k { 0 => i32::MAX, 1 => i32::MIN, 2 => -1, 3 => 0, 4 => 63, 5 => 64, 6 => -64, 7 => -65, 8 => { let s = self.r.below(32); (1i64 << s) as i32 } _ => self.r.next() as i32 } }
    fn i64v(&mut self) -> i64 { let k = self.r.below(10); match k { 0 => i64::MAX, 1 => i64::MIN, 2 => -1, 3 => 0, 4 => 63, 5 => 64, 6 => -64, 7 => -65, 8 => { let s = self.r.below(64); 1i64 << s } _ => { let s = self.r.below(64); (self.r.next() as i64) >> s } } }
    fn memarg(&mut self, max_align: u32) -> we::MemArg {
        let memory_index = *self.r.pick(&[0u32, 0, 1, 2]);
        let offset = if memory_index == 1 { *self.r.pick(&[0u64, 1, 127, 128, 0xffff_ffff, 0x1_0000_0000, u64::MAX, 1 << 35]) } else { *self.r.pick(&[0u64, 1, 127, 128, 16383, 16384, 0xffff_ffff, 0x7fff_ffff]) };
        we::MemArg { offset, align: self.r.below(max_align as u64 + 1) as u32, memory_index }
    }
    /// address operand for memory `m` (memory 1 is 64-bit)
    fn addr(&mut self, m: u32) { if m == 1 { self.v.push(I::I64Const(0)); } else { self.v.push(I::I32Const(0)); } }
    fn bt(&mut self) -> we::BlockType { match self.r.below(4) { 0 => we::BlockType::Empty, 1 => we::BlockType::Result(*self.r.pick(&[we::ValType::I32, we::ValType::I64, we::ValType::F32, we::ValType::F64, we::ValType::V128, we::ValType::Ref(we::RefType::FUNCREF), we::ValType::Ref(we::RefType::EXTERNREF)])), _ => we::BlockType::FunctionType(self.r.below(self.n_types as u64) as u32) } }
    fn konst(&mut self, t: we::ValType) { let i = match t { we::ValType::I32 => I::I32Const(self.i32v()), we::ValType::I64 => I::I64Const(self.i64v()), we::ValType::F32 => I::F32Const(f32::from_bits(self.r.next() as u32)), we::ValType::F64 => I::F64Const(f64::from_bits(self.r.next())),
        we::ValType::V128 => I::V128Const(((self.r.next() as u128) << 64 | self.r.next() as u128) as i128), we::ValType::Ref(rt) if rt == we::RefType::FUNCREF => I::RefNull(we::HeapType::Abstract { shared: false, ty: we::AbstractHeapType::Func }), _ => I::RefNull(we::HeapType::Abstract { shared: false, ty: we::AbstractHeapType::Extern }) }; self.v.push(i); }
    /// a stack-neutral snippet
    fn snippet(&mut self, budget: &mut i32) {
        *budget -= 1;
        match self.r.below(24) {
            0 => { let x = self.i32v(); self.v.push(I::I32Const(x)); self.v.push(I::Drop); }
            1 => { let x = self.i64v(); self.v.push(I::I64Const(x)); self.v.push(I::Drop); }
            2 => { let m = self.memarg(2); self.addr(m.memory_index); self.v.push(I::I32Load(m)); self.v.push(I::Drop); }
            3 => { let m = self.memarg(3); self.addr(m.memory_index); self.v.push(I::I64Const(1)); self.v.push(I::I64Store(m)); }
            4 => { let m = self.memarg(0); self.addr(m.memory_index); self.v.push(I::I32Load8U(m)); self.v.push(I::Drop); }
            5 if self.depth < 5 => { // block / loop with a block type
                let bt = self.bt(); let (ps, rs) = self.sig(bt);
                for p in &ps { self.konst(*p); }
                let is_loop = self.r.chance(1, 2);
                self.v.push(if is_loop { I::Loop(bt) } else { I::Block(bt) }); self.depth += 1; self.labels.push(if is_loop { ps.len() } else { rs.len() });
                for _ in &ps { self.v.push(I::Drop); }
                let n = self.r.below(3); for _ in 0..n { if *budget > 0 { self.snippet(budget); } }
                if self.r.chance(1, 3) { if let Some(d) = self.target() { self.v.push(I::I32Const(0)); self.v.push(I::If(we::BlockType::Empty)); self.v.push(I::Br(d + 1)); self.v.push(I::End); } }
                for q in &rs { self.konst(*q); }
                self.v.push(I::End); self.depth -= 1; self.labels.pop();
                for _ in &rs { self.v.push(I::Drop); }
            }
            6 if self.depth < 5 => { // if / else
                let bt = self.bt(); let (ps, rs) = self.sig(bt);
                for p in &ps { self.konst(*p); }
                self.v.push(I::I32Const(1)); self.v.push(I::If(bt)); self.depth += 1; self.labels.push(rs.len());
                for _ in &ps { self.v.push(I::Drop); }
                if *budget > 0 { self.snippet(budget); }
                for q in &rs { self.konst(*q); }
                if !(ps.is_empty() && rs.is_empty()) || self.r.chance(1, 2) { self.v.push(I::Else); for _ in &ps { self.v.push(I::Drop); } for q in &rs { self.konst(*q); } }
                self.v.push(I::End); self.depth -= 1; self.labels.pop();
                for _ in &rs { self.v.push(I::Drop); }
            }
            7 => { // br_table inside an empty block nest
                let n = self.r.below(4) as usize + 1;
                for _ in 0..n { self.v.push(I::Block(we::BlockType::Empty)); }
                let k = *self.r.pick(&[0usize, 1, 2, 5, 130]);
                let ts: Vec<u32> = (0..k).map(|_| self.r.below(n as u64) as u32).collect();
                self.v.push(I::I32Const(0)); self.v.push(I::BrTable(ts.into(), self.r.below(n as u64) as u32));
                for _ in 0..n { self.v.push(I::End); }
            }
            8 => { if let Some(d) = self.target() { self.v.push(I::I32Const(0)); self.v.push(I::BrIf(d)); } }
            9 => { self.v.push(I::Nop); }
            10 => { self.v.push(I::I32Const(0)); self.v.push(I::CallIndirect { type_index: 0, table_index: *self.r.pick(&[0u32, 1]) }); }
            11 => { self.v.push(I::Call(*self.r.pick(&[0u32, 1]))); }
            12 => { let l = self.r.below(7) as u32; self.v.push(I::LocalGet(l)); if self.r.chance(1, 2) { self.v.push(I::LocalTee(l)); } self.v.push(I::LocalSet(l)); }
            13 => { let g = self.r.below(2) as u32; self.v.push(I::GlobalGet(g)); self.v.push(I::GlobalSet(g)); }
            14 => { let t = *self.r.pick(&[we::ValType::I32, we::ValType::I64, we::ValType::F32, we::ValType::F64, we::ValType::V128, we::ValType::Ref(we::RefType::FUNCREF)]); self.konst(t); self.konst(t); self.v.push(I::I32Const(1)); self.v.push(I::TypedSelect(t)); self.v.push(I::Drop); }
            15 => { let m = *self.r.pick(&[0u32, 1, 2]); self.v.push(I::MemorySize(m)); self.v.push(I::MemoryGrow(m)); self.v.push(I::Drop); }
            16 => { let (d, s) = (*self.r.pick(&[0u32, 2]), *self.r.pick(&[0u32, 2])); self.v.push(I::I32Const(0)); self.v.push(I::I32Const(0)); self.v.push(I::I32Const(0)); self.v.push(I::MemoryCopy { src_mem: s, dst_mem: d }); }
            17 => { let m = *self.r.pick(&[0u32, 2]); self.v.push(I::I32Const(0)); self.v.push(I::I32Const(0)); self.v.push(I::I32Const(0)); if self.r.chance(1, 2) { self.v.push(I::MemoryFill(m)); } else { self.v.push(I::MemoryInit { mem: m, data_index: self.r.below(2) as u32 }); } }
            18 => { self.v.push(I::DataDrop(self.r.below(2) as u32)); self.v.push(I::ElemDrop(self.r.below(2) as u32)); }
            19 => { let t = self.r.below(2) as u32; self.v.push(I::I32Const(0)); self.v.push(I::TableGet(t)); self.v.push(I::RefIsNull); self.v.push(I::Drop); self.v.push(I::TableSize(t)); self.v.push(I::Drop); }
            20 => { let (d, s) = (self.r.below(2) as u32, self.r.below(2) as u32); self.v.push(I::I32Const(0)); self.v.push(I::I32Const(0)); self.v.push(I::I32Const(0)); if self.r.chance(1, 2) { self.v.push(I::TableCopy { src_table: s, dst_table: d }); } else { self.v.push(I::TableInit { elem_index: s, table: d }); } }
            21 => { let t = self.r.below(2) as u32; self.v.push(I::RefFunc(0)); self.v.push(I::I32Const(1)); self.v.push(I::TableGrow(t)); self.v.push(I::Drop); self.v.push(I::I32Const(0)); self.v.push(I::RefNull(we::HeapType::Abstract { shared: false, ty: we::AbstractHeapType::Func })); self.v.push(I::I32Const(0)); self.v.push(I::TableFill(t)); }
            22 => { self.konst(we::ValType::F32); self.v.push(I::I32TruncSatF32S); self.v.push(I::Drop); self.konst(we::ValType::F64); self.v.push(I::F64Sqrt); self.v.push(I::I64TruncSatF64U); self.v.push(I::I64Extend32S); self.v.push(I::Drop); }
            _ => { let m = self.memarg(2); self.addr(m.memory_index); self.konst(we::ValType::F32); self.v.push(I::F32Store(m)); }
        }
    }
    /// a relative depth whose label carries no values (the function's own label is the outermost one)
    fn target(&mut self) -> Option<u32> { let c: Vec<u32> = (0..=self.labels.len()).filter(|d| if *d == self.labels.len() { true } else { self.labels[self.labels.len() - 1 - d] == 0 }).map(|d| d as u32).collect(); if c.is_empty() { None } else { Some(*self.r.pick(&c)) } }
    /// the function types of `dense_module`, by index
    fn sig(&self, bt: we::BlockType) -> (Vec<we::ValType>, Vec<we::ValType>) {
        match bt { we::BlockType::Empty => (vec![], vec![]), we::BlockType::Result(t) => (vec![], vec![t]), we::BlockType::FunctionType(i) => dense_types()[i as usize].clone() }
    }
}
fn dense_types() -> Vec<(Vec<we::ValType>, Vec<we::ValType>)> {
    use we::ValType::*;
    let mut v = vec![(vec![], vec![]), (vec![I32], vec![I32]), (vec![I32, I64], vec![I64]), (vec![], vec![I32, I64]), (vec![F64], vec![])];
    // enough types for two-byte (signed!) type indices in block types: 64 needs two bytes as an s33
    for k in 0..70u32 { let mut ps = vec![]; let mut x = k + 1; while x > 0 { ps.push(if x & 1 == 1 { I32 } else { F32 }); x >>= 1; } v.push((ps, vec![I64])); }
    v
}
/// a module with one generated function over the covered subset: three memories (the second 64-bit), two funcref tables, two globals, two passive data / element segments
fn dense_module(r: &mut Rng) -> Vec<u8> {
    let tys = dense_types();
    let mut g = Gen { r, v: vec![], depth: 0, n_types: tys.len() as u32, labels: vec![] };
    let mut budget = 14 + g.r.below(10) as i32;
    while budget > 0 { g.snippet(&mut budget); }
    let body = g.v;
    let mut m = we::Module::new();
    let mut t = we::TypeSection::new(); for (p, q) in &tys { t.function(p.iter().copied(), q.iter().copied()); } m.section(&t);
    let mut f = we::FunctionSection::new(); f.function(0); f.function(0); m.section(&f);
    let mut tb = we::TableSection::new();
    for _ in 0..2 { tb.table(we::TableType { element_type: we::RefType::FUNCREF, table64: false, minimum: 4, maximum: None, shared: false }); } m.section(&tb);
    let mut ms = we::MemorySection::new();
    ms.memory(we::MemoryType { minimum: 1, maximum: None, memory64: false, shared: false, page_size_log2: None });
    ms.memory(we::MemoryType { minimum: 1, maximum: None, memory64: true, shared: false, page_size_log2: None });
    ms.memory(we::MemoryType { minimum: 1, maximum: None, memory64: false, shared: false, page_size_log2: None }); m.section(&ms);
    let mut gs = we::GlobalSection::new();
    gs.global(we::GlobalType { val_type: we::ValType::I32, mutable: true, shared: false }, &we::ConstExpr::i32_const(1));
    gs.global(we::GlobalType { val_type: we::ValType::I64, mutable: true, shared: false }, &we::ConstExpr::i64_const(2)); m.section(&gs);
    let mut e = we::ExportSection::new(); e.export("f", we::ExportKind::Func, 0); e.export("g", we::ExportKind::Func, 1); m.section(&e);
    let mut el = we::ElementSection::new(); for _ in 0..2 { el.passive(we::Elements::Functions(&[0, 1])); } m.section(&el);
    m.section(&we::DataCountSection { count: 2 });
    let mut c = we::CodeSection::new();
    let locals = [(1u32, we::ValType::I32), (2, we::ValType::I64), (1, we::ValType::F32), (3, we::ValType::F64)];
    let mut wf = we::Function::new(locals.iter().copied());
    // local types by index: 0 i32, 1-2 i64, 3 f32, 4-6 f64 : `12` above gets / sets the same local, so any index is fine
    for i in &body { wf.instruction(i); } wf.instruction(&I::End); c.function(&wf);
    let mut h = we::Function::new([(200u32, we::ValType::I32), (40000, we::ValType::Ref(we::RefType::EXTERNREF))]); h.instruction(&I::End); c.function(&h);
    m.section(&c);
    let mut d = we::DataSection::new(); for k in 0..2u8 { d.passive([k, k + 1]); } m.section(&d);
    m.finish()
}

/// one generated integer-core module (extended: with a memory), as `gen_main` builds them; used by `vh bytes`
fn core_module(r: &mut Rng) -> Option<Vec<u8>> {
    use crate::c01core::{block_types, vt, Label, G, T};
    let ext = true;
    let np = r.usize(4); let params: Vec<T> = (0..np).map(|_| if r.chance(2, 3) { T::I32 } else { T::I64 }).collect();
    let results: Vec<T> = match r.below(6) { 0 => vec![], 1 | 2 | 3 => vec![T::I32], 4 => vec![T::I64], _ => vec![T::I32, T::I64] };
    let locals: Vec<T> = vec![T::I32, T::I64, T::I32, T::I64, T::I32, T::I32, T::I32];
    let btys = block_types();
    let mut g = G { r: &mut *r, params: params.clone(), locals: locals.clone(), n_counters: 3, counters_used: 0, results: results.clone(), btys: btys.clone(), budget: 60, dead_ops: 0, n_loops: 0, n_br: 0, ext, n_mem: 0, sabotage_at: None, sabotaged: None, bt_base: 1, callees: vec![], sigs: vec![], table_len: 0, n_calls: 0, self_idx: None, slot_types: vec![] };
    let mut labels = vec![Label { tys: results.clone(), is_loop: false }];
    let body = g.seq(&mut labels, vec![], &results, 0);
    let mut m = we::Module::new();
    let mut t = we::TypeSection::new(); t.function(params.iter().map(|x| vt(*x)), results.iter().map(|x| vt(*x)));
    for (p, q) in &btys { t.function(p.iter().map(|x| vt(*x)), q.iter().map(|x| vt(*x))); }
    m.section(&t);
    let mut f = we::FunctionSection::new(); f.function(0); m.section(&f);
    let mut ms = we::MemorySection::new(); ms.memory(we::MemoryType { minimum: 1, maximum: Some(3), memory64: false, shared: false, page_size_log2: None }); m.section(&ms);
    let mut gs = we::GlobalSection::new();
    gs.global(we::GlobalType { val_type: we::ValType::I32, mutable: true, shared: false }, &we::ConstExpr::i32_const(5));
    gs.global(we::GlobalType { val_type: we::ValType::I64, mutable: true, shared: false }, &we::ConstExpr::i64_const(9));
    gs.global(we::GlobalType { val_type: we::ValType::I32, mutable: false, shared: false }, &we::ConstExpr::i32_const(7));
    m.section(&gs);
    let mut e = we::ExportSection::new(); e.export("f", we::ExportKind::Func, 0); e.export("g0", we::ExportKind::Global, 0); e.export("g1", we::ExportKind::Global, 1); e.export("m", we::ExportKind::Memory, 0); m.section(&e);
    let mut c = we::CodeSection::new(); let mut wf = we::Function::new(locals.iter().map(|x| (1u32, vt(*x))));
    for i in &body.w { wf.instruction(i); } wf.instruction(&I::End); c.function(&wf); m.section(&c);
    let wasm = m.finish();
    if crate::amod::validate(&wasm, crate::env::walrus_features(false)).is_err() { return None; }
    Some(wasm)
}

/// an input with padded (non-minimal) LEB128 everywhere the binary format has a LEB128: wasmparser accepts it, wasm-encoder never writes it
fn padded_module() -> Vec<u8> {
    let mut m = we::Module::new();
    let mut t = we::TypeSection::new(); t.function([], []); m.section(&t);
    let mut f = we::FunctionSection::new(); f.function(0); m.section(&f);
    let mut ms = we::MemorySection::new(); ms.memory(we::MemoryType { minimum: 1, maximum: None, memory64: false, shared: false, page_size_log2: None }); m.section(&ms);
    let body: Vec<u8> = vec![
        0x81, 0x00, 0x82, 0x80, 0x00, 0x7f,                 // one local group (count padded): 2 x i32 (padded)
        0x41, 0xff, 0x7f, 0x1a,                             // i32.const -1 (padded), drop
        0x42, 0x80, 0x80, 0x80, 0x00, 0x1a,                 // i64.const 0 (padded), drop
        0x41, 0x80, 0x00, 0x41, 0x00, 0x41, 0x00, 0xfc, 0x8a, 0x00, 0x80, 0x00, 0x00,   // memory.copy, sub-opcode and first index padded
        0x02, 0x80, 0x00, 0x0b,                             // block (type 0, padded s33) end
        0x41, 0x00, 0x28, 0x82, 0x00, 0x80, 0x80, 0x00, 0x1a,     // i32.load align=2 (padded) offset=0 (padded)
        0x41, 0x00, 0x28, 0xc2, 0x00, 0x80, 0x00, 0x05, 0x1a,     // i32.load align=2 | bit 6 (padded), explicit memory index 0 (padded), offset 5
        0x02, 0x40, 0x41, 0x00, 0x0e, 0x81, 0x00, 0x80, 0x00, 0x80, 0x00, 0x0b,   // block: br_table [0] 0, everything padded
        0x41, 0x00, 0x41, 0x00, 0x41, 0x00, 0x1c, 0x81, 0x00, 0x7f, 0x1a,   // select (result i32), vector length padded
        0x20, 0x81, 0x00, 0x21, 0x80, 0x00,                 // local.get 1, local.set 0 (padded)
        0x0b];
    let mut c = we::CodeSection::new(); c.raw(&body); m.section(&c);
    m.finish()
}

/// the body of the `Example`s of Proofs/Bytes.v, written by wasm-encoder
fn example_module() -> Vec<u8> {
    let mut m = we::Module::new();
    let mut t = we::TypeSection::new(); t.function([], []); t.function([we::ValType::I32], [we::ValType::I32]); m.section(&t);
    let mut f = we::FunctionSection::new(); f.function(0); m.section(&f);
    let mut tb = we::TableSection::new(); tb.table(we::TableType { element_type: we::RefType::FUNCREF, table64: false, minimum: 1, maximum: None, shared: false }); m.section(&tb);
    let mut ms = we::MemorySection::new(); for _ in 0..2 { ms.memory(we::MemoryType { minimum: 1, maximum: None, memory64: false, shared: false, page_size_log2: None }); } m.section(&ms);
    let mut e = we::ExportSection::new(); e.export("f", we::ExportKind::Func, 0); m.section(&e);
    let mut c = we::CodeSection::new(); let mut wf = we::Function::new([(2u32, we::ValType::I32), (1, we::ValType::I64)]);
    for i in [I::Block(we::BlockType::Empty), I::Loop(we::BlockType::Empty), I::I32Const(i32::MAX), I::BrTable(vec![0u32, 1, 0].into(), 1), I::End, I::End,
        I::I64Const(-1), I::Drop, I::I32Const(i32::MIN), I::I32Load(we::MemArg { offset: 0xffff_ffff, align: 2, memory_index: 1 }), I::Drop,
        I::I32Const(0), I::CallIndirect { type_index: 0, table_index: 0 }, I::I32Const(5), I::Block(we::BlockType::FunctionType(1)), I::End, I::Drop, I::End] { wf.instruction(&i); }
    c.function(&wf); m.section(&c);
    m.finish()
}

pub fn main(args: &[String]) {
    let out_dir = &args[0]; let seed: u64 = args[1].parse().unwrap(); let n_gen: usize = args[2].parse().unwrap();
    let mut r = Rng::new(seed ^ 0xB17E5);
    let header = "From WV Require Import Gen.Ops Model.IR Model.Bytes Run.BytesRun.\nOpen Scope N_scope.";
    let mut w = CaseWriter::new(out_dir, "bytes", header, "bcase", "check_bytes", 40);
    let mut inputs: Vec<(String, Vec<u8>)> = vec![];
    if let Ok(rd) = std::fs::read_dir("/verif/corpus/mod") { let mut ps: Vec<_> = rd.filter_map(|e| e.ok()).map(|e| e.path()).collect(); ps.sort();
        for p in ps { let nm = format!("corpus:{}", p.file_name().unwrap().to_string_lossy()); match p.extension().and_then(|e| e.to_str()) {
            Some("wat") => if let Ok(b) = std::fs::read_to_string(&p).map_err(|e| e.to_string()).and_then(|t| wat::parse_str(&t).map_err(|e| e.to_string())) { inputs.push((nm, b)); },
            Some("hex") => if let Ok(t) = std::fs::read_to_string(&p) { let t = t.trim(); inputs.push((nm, (0..t.len() / 2).filter_map(|i| u8::from_str_radix(&t[2 * i..2 * i + 2], 16).ok()).collect())); }, _ => {} } } }
    inputs.extend(fixtures());
    inputs.push(("padded".into(), padded_module())); inputs.push(("example".into(), example_module()));
    let n_fixed = inputs.len();
    let mut n_dense_invalid = 0u64; let mut n_sweep_invalid = 0u64;
    let feats = crate::env::walrus_features(false);
    // generated: attribute modules, whole-universe bodies, integer-core bodies, dense bodies over the covered subset
    for k in 0..n_gen { let (wasm, _) = crate::genattr::module(&mut r, false); inputs.push((format!("attr{}", k), wasm)); }
    { let tab = crate::sigs::build_table(crate::env::Profile::Full, false, 6);
      let gcfg = crate::gen::GenCfg { profile: crate::env::Profile::Full, max_funcs: 3, max_depth: 3, seq_len: 5, names: true, customs: false, start: true, active_segments: true };
      let mut k = 0; let mut tries = 0; while k < n_gen && tries < 50 * n_gen + 100 { tries += 1; let (wasm, _) = crate::gen::module(&mut r, &tab, &gcfg); if crate::amod::validate(&wasm, feats).is_err() { continue; } inputs.push((format!("body{}", k), wasm)); k += 1; } }
    for k in 0..n_gen { if let Some(wasm) = core_module(&mut r) { inputs.push((format!("core{}", k), wasm)); } }
    // every operator instance of the signature table (operator x boundary immediates), a dozen per body: operands, operator, drops
    { let tab = crate::sigs::build_table(crate::env::Profile::Full, false, 12); let mut k = 0; let mut body: Vec<I<'static>> = vec![]; let mut cnt = 0;
      let mut flush = |body: &mut Vec<I<'static>>, k: &mut usize, inputs: &mut Vec<(String, Vec<u8>)>| { if body.is_empty() { return; } let wasm = crate::env::universe(crate::env::Profile::Full, body); if crate::amod::validate(&wasm, feats).is_ok() { inputs.push((format!("sweep{}", *k), wasm)); *k += 1; } else { n_sweep_invalid += 1; } body.clear(); };
      for inst in &tab.insts { for c in &inst.params { body.push(crate::env::const_of(*c)); } body.push(inst.ins.clone());
          match &inst.results { Some(rs) => { for _ in rs { body.push(I::Drop); } cnt += 1; if cnt >= 12 || body.len() >= 24 { cnt = 0; flush(&mut body, &mut k, &mut inputs); } } None => { cnt = 0; flush(&mut body, &mut k, &mut inputs); } } }
      flush(&mut body, &mut k, &mut inputs); }
    for k in 0..2 * n_gen { let wasm = dense_module(&mut r); match crate::amod::validate(&wasm, feats) { Ok(_) => inputs.push((format!("dense{}", k), wasm)), Err(e) => { n_dense_invalid += 1; if std::env::var("VH_DEBUG").is_ok() { eprintln!("invalid dense module: {}", e); } } } }
    let cap = 600usize;
    let (mut n_in, mut n_out, mut n_big, mut n_ops, mut n_skipped, mut n_modules, mut n_walrus_fail) = (0u64, 0u64, 0u64, 0u64, 0u64, 0u64, 0u64);
    let mut unmodelled: std::collections::BTreeMap<&'static str, u64> = Default::default();
    let mut samples = vec![]; let mut names: Vec<String> = vec![];
    for (idx, (name, wasm)) in inputs.iter().enumerate() {
        if crate::amod::validate(wasm, feats).is_err() { continue; }
        let a = match crate::amod::decode(wasm) { Ok(a) => a, Err(_) => continue };
        n_modules += 1;
        let mut emit = |kind: &str, bytes: &[u8], a: &crate::amod::AMod, w: &mut CaseWriter, cnt: &mut u64| {
            for (fi, b) in a.code.iter().enumerate() {
                if b.range.1 - b.range.0 > cap { n_big += 1; continue; }
                match case_of(kind, bytes, b) { Ok(line) => { if samples.len() < 3 && line.len() < 500 { samples.push(line.clone()); } w.push(&line); names.push(format!("{}:{}:{}", name, kind, fi)); *cnt += 1; n_ops += b.ops.len() as u64; }
                    Err(ms) => { n_skipped += 1; for m in ms { *unmodelled.entry(m).or_insert(0) += 1; } } }
            }
        };
        emit("BIn", wasm, &a, &mut w, &mut n_in);
        // walrus's output: the default-like configuration of the other subcommands, and (for the fixed inputs) also with the GC pass
        let cfgs: Vec<bool> = if idx < n_fixed { vec![false, true] } else { vec![idx % 5 == 0] };
        for gc in cfgs {
            let out = catch(|| { let mut c = walrus::ModuleConfig::new(); c.generate_producers_section(false); c.parse(wasm).ok().map(|mut m| { if gc { walrus::passes::gc::run(&mut m); } m.emit_wasm() }) });
            match out { Some(Some(o)) => { if let Ok(ao) = crate::amod::decode(&o) { emit("BOut", &o, &ao, &mut w, &mut n_out); } } _ => { n_walrus_fail += 1; } }
        }
    }
    w.finish();
    std::fs::write(format!("{}/names.txt", out_dir), names.join("\n")).unwrap();
    let meta = Json::obj(vec![("cases", Json::n((n_in + n_out) as f64)), ("modules", Json::n(n_modules as f64)), ("input_bodies", Json::n(n_in as f64)), ("output_bodies", Json::n(n_out as f64)), ("operators", Json::n(n_ops as f64)),
        ("bodies_too_large", Json::n(n_big as f64)), ("bodies_with_unmodelled_operator_terms", Json::n(n_skipped as f64)), ("dense_invalid", Json::n(n_dense_invalid as f64)), ("sweep_invalid", Json::n(n_sweep_invalid as f64)), ("walrus_failures", Json::n(n_walrus_fail as f64)), ("shards", Json::u(w.shards)),
        ("unmodelled_operator_terms", Json::Obj(unmodelled.iter().map(|(k, v)| (k.to_string(), Json::n(*v as f64))).collect())),
        ("samples", Json::Arr(samples.into_iter().map(Json::Str).collect()))]);
    std::fs::write(format!("{}/meta.json", out_dir), meta.to_string()).unwrap();
}
