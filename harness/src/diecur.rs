//! C10 (DIE cursor): gimli units of random shape; the visiting order of walrus' DebuggingInformationCursor (hook) is printed
//! with the shape as a case for Model/DieCursor.v (Run/DieCursorRun.v).
use crate::rng::Rng;
use crate::util::{CaseWriter, Json};
use gimli::write::{Unit, UnitEntryId, LineProgram};
use gimli::{Encoding, Format};

fn shape(unit: &Unit, id: UnitEntryId, ix: &dyn Fn(UnitEntryId) -> usize) -> String {
    let kids: Vec<String> = unit.get(id).children().map(|k| shape(unit, *k, ix)).collect();
    format!("DNode {} [{}]", ix(id), kids.join("; "))
}
pub fn main(args: &[String]) {
    let out_dir = &args[0]; let seed: u64 = args[1].parse().unwrap(); let n: usize = args[2].parse().unwrap();
    let mut r = Rng::new(seed);
    let mut w = CaseWriter::new(out_dir, "diecur", "From WV Require Import Model.DieCursor Run.DieCursorRun.\nOpen Scope N_scope.", "kcase", "check_cursor", 200);
    let mut sizes: std::collections::BTreeMap<usize, u64> = Default::default(); let mut depths: std::collections::BTreeMap<usize, u64> = Default::default();
    for case in 0..n {
        let encoding = Encoding { format: Format::Dwarf32, version: 4, address_size: 4 };
        let mut unit = Unit::new(encoding, LineProgram::none());
        let mut ids = vec![unit.root()]; let mut depth = vec![0usize];
        // shapes: root only, chains, stars, random trees (parent drawn among all / among the most recent entries)
        let total = match case % 7 { 0 => 0, 1 => 1, _ => 1 + r.usize(24) }; let mode = r.usize(4);
        for _ in 0..total { let p = match mode { 0 => ids.len() - 1, 1 => 0, 2 => r.usize(ids.len()), _ => ids.len() - 1 - r.usize(ids.len().min(3)) };
            let id = unit.add(ids[p], gimli::DW_TAG_lexical_block); ids.push(id); depth.push(depth[p] + 1); }
        *sizes.entry(ids.len()).or_default() += 1; *depths.entry(*depth.iter().max().unwrap()).or_default() += 1;
        let ids2 = ids.clone(); let ix = move |id: UnitEntryId| ids2.iter().position(|x| *x == id).unwrap();
        let tree = shape(&unit, unit.root(), &ix);
        let order = walrus::verif_hooks::die_cursor_order(&mut unit);
        w.push(&format!("Build_kcase ({}) [{}]", tree, order.iter().map(|i| ix(*i).to_string()).collect::<Vec<_>>().join("; ")));
    }
    w.finish();
    let hist = |m: &std::collections::BTreeMap<usize, u64>| Json::obj(m.iter().map(|(k, v)| (Box::leak(k.to_string().into_boxed_str()) as &str, Json::n(*v as f64))).collect());
    let meta = Json::obj(vec![("cases", Json::u(w.total)), ("entries_per_unit", hist(&sizes)), ("max_depth", hist(&depths))]);
    std::fs::write(format!("{}/meta.json", out_dir), meta.to_string()).unwrap();
}
