mod rng; mod util; mod c17; mod oplist; mod ops; mod amod; mod c03; mod env; mod sigs; mod gen; mod gen_ir_print; mod irdump; mod body; mod c15; mod wmodcoq; mod genattr; mod modrun; mod oracles; mod dbg; mod c18; mod c11; mod c05; mod c10; mod c09; mod c01; mod deep; mod c18x; mod c14; mod diecur; mod c01core; mod c01inst; mod c01bulk; mod frame; mod bytes; mod modbytes;
fn main() {
    util::quiet_panics();
    let args: Vec<String> = std::env::args().collect();
    match args.get(1).map(|s| s.as_str()) {
        Some("c17") => c17::main(&args[2..]),
        Some("oplist") => oplist::main(),
        Some("c03") => c03::main(&args[2..]),
        Some("opgc") => c03::gc_sweep_main(&args[2..]),
        Some("body") => body::main(&args[2..]),
        Some("c15") => c15::main(&args[2..]),
        Some("mod") => modrun::main(&args[2..]),
        Some("dbg") => dbg::main(&args[2..]),
        Some("c11") => c11::main(&args[2..]),
        Some("c05") => c05::main(&args[2..]),
        Some("c10") => c10::main(&args[2..]),
        Some("c14cfg") => c14::main(&args[2..]),
        Some("diecur") => diecur::main(&args[2..]),
        Some("c09gen") => c09::gen_main(&args[2..]),
        Some("c01gen") => c01::gen_main(&args[2..]),
        Some("c01core") => c01core::gen_main(&args[2..]),
        Some("c01mod") => c01core::gen_mod_main(&args[2..]),
        Some("c01inst") => c01inst::gen_main(&args[2..]),
        Some("frame") => frame::main(&args[2..]),
        Some("c01bulk") => c01bulk::gen_main(&args[2..]),
        Some("bytes") => bytes::main(&args[2..]),
        Some("optable") => bytes::optable_main(),
        Some("modbytes") => modbytes::main(&args[2..]),
        Some("modbytes-example") => modbytes::example_main(),
        Some("deep") => deep::main(&args[2..]),
        Some("c18gen") => c18x::gen_main(&args[2..]),
        Some("c09run") => c09::run_main(&args[2..]),
        Some("c18") => c18::main(&args[2..]),
        _ => { eprintln!("usage: vh <subcommand> ..."); std::process::exit(2) }
    }
}
