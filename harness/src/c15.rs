//! C15: rebuild every function of generated modules through the public builder API
//! (append / positional insert, nested block/loop/if_else and their *_at forms, dangling
//! sequences attached later) in arbitrary insertion orders, emit, and compare.
use crate::amod;
use crate::body::observe_module;
use crate::env::{self, Profile};
use crate::gen::{self, GenCfg};
use crate::irdump;
use crate::rng::Rng;
use crate::sigs;
use crate::util::{catch, CaseWriter, Json};
use std::cell::RefCell;
use std::collections::HashMap;
use walrus::ir::*;
use walrus::*;

struct St { r: Rng, lmap: HashMap<LocalId, LocalId>, idmap: HashMap<InstrSeqId, InstrSeqId>, pre: HashMap<InstrSeqId, InstrSeqId>, n_at: u64, n_dangling: u64, n_early: u64, n_calls: u64 }

/// all sequences of the subtree rooted at `s`, and all branch targets used inside it
fn subtree(orig: &LocalFunction, s: InstrSeqId, seqs: &mut Vec<InstrSeqId>, targets: &mut Vec<InstrSeqId>) {
    seqs.push(s);
    for (i, _) in &orig.block(s).instrs { match i {
        Instr::Block(Block { seq }) | Instr::Loop(Loop { seq }) => subtree(orig, *seq, seqs, targets),
        Instr::IfElse(IfElse { consequent, alternative }) => { subtree(orig, *consequent, seqs, targets); subtree(orig, *alternative, seqs, targets); }
        Instr::Br(b) => targets.push(b.block), Instr::BrIf(b) => targets.push(b.block),
        Instr::BrTable(b) => { targets.extend(b.blocks.iter().cloned()); targets.push(b.default); }
        _ => {} } }
}


fn remap_locals(i: &Instr, l: &HashMap<LocalId, LocalId>) -> Instr {
    let f = |x: LocalId| *l.get(&x).unwrap_or(&x);
    match i { Instr::LocalGet(e) => Instr::LocalGet(LocalGet { local: f(e.local) }), Instr::LocalSet(e) => Instr::LocalSet(LocalSet { local: f(e.local) }), Instr::LocalTee(e) => Instr::LocalTee(LocalTee { local: f(e.local) }), other => other.clone() }
}
fn remap(i: &Instr, m: &HashMap<InstrSeqId, InstrSeqId>) -> Instr {
    match i {
        Instr::Br(b) => Instr::Br(Br { block: m[&b.block] }),
        Instr::BrIf(b) => Instr::BrIf(BrIf { block: m[&b.block] }),
        Instr::BrTable(b) => Instr::BrTable(BrTable { blocks: b.blocks.iter().map(|x| m[x]).collect(), default: m[&b.default] }),
        other => other.clone(),
    }
}

/// Replays the sequence `src` of `orig` onto the builder `b`; returns the calls issued, as Coq `bop` terms.
fn replay(b: &mut InstrSeqBuilder, orig: &LocalFunction, src: InstrSeqId, st: &RefCell<St>) -> Vec<String> {
    st.borrow_mut().idmap.insert(src, b.id());
    let items: Vec<Instr> = orig.block(src).instrs.iter().map(|(i, _)| i.clone()).collect();
    let n = items.len();
    let mut calls = vec![];
    // "late attach": a block/loop that sits two levels further down is created NOW, as a dangling sequence, i.e. BEFORE the
    // sequence that will enclose it exists (so sequence ids are not monotone along the nesting), and is attached when its place is reached
    for it in &items { if let Instr::Block(Block { seq: c }) | Instr::Loop(Loop { seq: c }) = it {
        for (g_it, _) in &orig.block(*c).instrs { if let Instr::Block(Block { seq: g }) | Instr::Loop(Loop { seq: g }) = g_it {
            if !st.borrow_mut().r.chance(1, 3) || st.borrow().pre.contains_key(g) { continue; }
            let (mut seqs, mut targets) = (vec![], vec![]); subtree(orig, *g, &mut seqs, &mut targets);
            let ok = targets.iter().all(|t| seqs.contains(t) || st.borrow().idmap.contains_key(t));   // its body may only mention labels that exist already
            if !ok { continue; }
            let ty = orig.block(*g).ty;
            let (id, body) = { let mut d = b.dangling_instr_seq(ty); let id = d.id(); let body = replay(&mut d, orig, *g, st); (id, body) };
            st.borrow_mut().pre.insert(*g, id); st.borrow_mut().n_early += 1;
            calls.push(format!("BDangling ({}) [{}]", irdump::seqty_coq(&ty), body.join("; ")));
        } }
    } }
    // insertion order: in order (append) or a random permutation (positional inserts)
    let permute = st.borrow_mut().r.chance(1, 2);
    let mut order: Vec<usize> = (0..n).collect();
    if permute { for k in (1..n).rev() { let j = st.borrow_mut().r.usize(k + 1); order.swap(k, j); } }
    let mut placed: Vec<usize> = vec![];
    for &k in &order {
        let pos = placed.iter().filter(|p| **p < k).count(); placed.push(k);
        let at_end = pos == placed.len() - 1;
        let use_at = !at_end || st.borrow_mut().r.chance(1, 3);
        if use_at { st.borrow_mut().n_at += 1; }
        st.borrow_mut().n_calls += 1;
        match &items[k] {
            Instr::Block(Block { seq }) | Instr::Loop(Loop { seq }) => {
                let is_loop = matches!(&items[k], Instr::Loop(_));
                let ty = orig.block(*seq).ty; let child = *seq;
                let dangling = st.borrow_mut().r.chance(1, 4);
                let early = st.borrow().pre.get(&child).cloned();
                if let Some(id) = early {
                    let ins: Instr = if is_loop { Instr::Loop(Loop { seq: id }) } else { Instr::Block(Block { seq: id }) };
                    let term = irdump::instr_coq(&ins);
                    if use_at { b.instr_at(pos, ins); calls.push(format!("BInstrAt {} ({})", pos, term)); } else { b.instr(ins); calls.push(format!("BInstr ({})", term)); }
                } else if dangling {
                    st.borrow_mut().n_dangling += 1;
                    let (id, body) = { let mut d = b.dangling_instr_seq(ty); let id = d.id(); let body = replay(&mut d, orig, child, st); (id, body) };
                    calls.push(format!("BDangling ({}) [{}]", irdump::seqty_coq(&ty), body.join("; ")));
                    let ins: Instr = if is_loop { Instr::Loop(Loop { seq: id }) } else { Instr::Block(Block { seq: id }) };
                    let term = irdump::instr_coq(&ins);
                    if use_at { b.instr_at(pos, ins); calls.push(format!("BInstrAt {} ({})", pos, term)); } else { b.instr(ins); calls.push(format!("BInstr ({})", term)); }
                } else {
                    let body = RefCell::new(vec![]);
                    let f = |nb: &mut InstrSeqBuilder| { *body.borrow_mut() = replay(nb, orig, child, st); };
                    match (is_loop, use_at) { (false, false) => { b.block(ty, f); } (false, true) => { b.block_at(pos, ty, f); } (true, false) => { b.loop_(ty, f); } (true, true) => { b.loop_at(pos, ty, f); } }
                    let name = match (is_loop, use_at) { (false, false) => "BBlock".to_string(), (false, true) => format!("BBlockAt {}", pos), (true, false) => "BLoop".to_string(), (true, true) => format!("BLoopAt {}", pos) };
                    calls.push(format!("{} ({}) [{}]", name, irdump::seqty_coq(&ty), body.borrow().join("; ")));
                }
            }
            Instr::IfElse(IfElse { consequent, alternative }) => {
                let ty = orig.block(*consequent).ty; let (c, a) = (*consequent, *alternative);
                let bc = RefCell::new(vec![]); let ba = RefCell::new(vec![]);
                let fc = |nb: &mut InstrSeqBuilder| { *bc.borrow_mut() = replay(nb, orig, c, st); };
                let fa = |nb: &mut InstrSeqBuilder| { *ba.borrow_mut() = replay(nb, orig, a, st); };
                if use_at { b.if_else_at(pos, ty, fc, fa); } else { b.if_else(ty, fc, fa); }
                calls.push(format!("{} ({}) [{}] [{}]", if use_at { format!("BIfElseAt {}", pos) } else { "BIfElse".to_string() }, irdump::seqty_coq(&ty), bc.borrow().join("; "), ba.borrow().join("; ")));
            }
            other => {
                let ins = remap_locals(&remap(other, &st.borrow().idmap), &st.borrow().lmap); let term = irdump::instr_coq(&ins);
                if use_at { b.instr_at(pos, ins); calls.push(format!("BInstrAt {} ({})", pos, term)); } else { b.instr(ins); calls.push(format!("BInstr ({})", term)); }
            }
        }
    }
    calls
}

/// C15: what the builder API was told to build is what is emitted, ALSO behind an unconditional transfer: a parsed body never has such a tail
/// (the parser drops unreachable operators), a built one may
pub fn dead_tail_scenarios(viol: &mut Vec<Json>) {
    let cases: [(&str, u8); 4] = [("br", 0), ("return", 1), ("unreachable", 2), ("br_table", 3)];
    for (what, k) in cases { let r = catch(|| -> Option<Vec<String>> {
            let mut m = Module::default(); let mut fb = FunctionBuilder::new(&mut m.types, &[], &[]);
            { let mut body = fb.func_body(); body.block(None, |b| { let id = b.id(); b.i32_const(1).drop();
                    match k { 0 => { b.br(id); } 1 => { b.return_(); } 2 => { b.unreachable(); } _ => { b.i32_const(0); b.br_table(vec![id].into(), id); } }
                    // the dead tail: well typed, with a nested block of its own
                    b.i32_const(MARKER_TAIL).drop(); b.block(None, |c| { c.i32_const(MARKER_TAIL + 1).drop(); }); });
              body.i32_const(MARKER_TAIL + 2).drop(); }
            let f = fb.finish(vec![], &mut m.funcs); m.exports.add("f", f);
            let o = m.emit_wasm(); amod::validate(&o, env::walrus_features(false)).ok()?; let a = amod::decode(&o).ok()?;
            Some(a.code[0].ops.iter().map(|o| o.0.clone().unwrap_or_else(|| o.2.to_string())).collect()) });
        let consts = |v: &Vec<String>| -> Vec<i32> { v.iter().filter_map(|t| t.strip_prefix("WOp (W_I32Const (").and_then(|r| r.split(')').next()).and_then(|n| n.parse::<i32>().ok())).collect() };
        match r { Some(Some(ops)) => { let c = consts(&ops); let want: Vec<i32> = if k == 3 { vec![1, 0, MARKER_TAIL, MARKER_TAIL + 1, MARKER_TAIL + 2] } else { vec![1, MARKER_TAIL, MARKER_TAIL + 1, MARKER_TAIL + 2] };
                if c != want { viol.push(Json::obj(vec![("class", Json::s("builder-dead-tail-not-emitted")), ("props", Json::s("C15 C16")), ("what", Json::s(format!("a body built with instructions after `{}` is emitted with the constants {:?}, built were {:?}", what, c, want))), ("input", Json::s(String::new())), ("observed", Json::s(ops.join("; ")))])); } }
            Some(None) => viol.push(Json::obj(vec![("class", Json::s("output-invalid-after-build")), ("props", Json::s("C15 C02")), ("what", Json::s(format!("a body built with a well-typed tail after `{}` does not emit as a valid module", what))), ("input", Json::s(String::new()))])),
            None => viol.push(Json::obj(vec![("class", Json::s("emit-panics-after-build")), ("props", Json::s("C15 C02")), ("what", Json::s(format!("building or emitting a body with a tail after `{}` panics", what))), ("input", Json::s(String::new()))])) } }
}
const MARKER_TAIL: i32 = 424_200;

pub fn main(args: &[String]) {
    let out_dir = &args[0]; let seed: u64 = args[1].parse().unwrap(); let n_modules: usize = args[2].parse().unwrap();
    let mut r = Rng::new(seed);
    let tab = sigs::build_table(Profile::Full, false, 12);
    let cfg = GenCfg { profile: Profile::Full, max_funcs: 3, max_depth: 4, seq_len: 6, names: false, customs: false, start: false, active_segments: false };
    let header = "From WV Require Import Gen.Ops Model.Common Model.IR Model.Builder Run.BodyRun Run.BuilderRun.\nOpen Scope N_scope.";
    let mut w = CaseWriter::new(out_dir, "c15", header, "kcase", "check_builder", 40);
    let feats = env::walrus_features(false);
    let mut viol: Vec<Json> = vec![]; dead_tail_scenarios(&mut viol); let mut samples = vec![];
    let (mut n_gen, mut n_invalid, mut n_funcs, mut n_at, mut n_dang, mut n_calls, mut n_early) = (0u64, 0u64, 0u64, 0u64, 0u64, 0u64, 0u64);
    let mut distinct = std::collections::HashSet::new();
    while (n_gen as usize) < n_modules {
        n_gen += 1;
        let (wasm, _info) = gen::module(&mut r, &tab, &cfg);
        if amod::validate(&wasm, feats).is_err() { n_invalid += 1; continue; }
        let mut mcfg = ModuleConfig::new(); mcfg.generate_producers_section(false).generate_name_section(false);
        // every other module is emitted with the code transform recorded: builder-made sequences carry no source locations, which must not matter
        if n_gen % 2 == 0 { mcfg.preserve_code_transform(true); }
        let mut module = match catch(|| mcfg.parse(&wasm)) { Some(Ok(m)) => m, _ => continue };
        // rebuild every local function through the builder API
        let ids: Vec<FunctionId> = module.funcs.iter_local().map(|(id, _)| id).collect();
        let mut pairs: Vec<(FunctionId, FunctionId, String)> = vec![];
        for fid in ids {
            let st = RefCell::new(St { r: r.fork(), lmap: HashMap::new(), idmap: HashMap::new(), pre: HashMap::new(), n_at: 0, n_dangling: 0, n_early: 0, n_calls: 0 });
            let res = catch(|| {
                let (params, results, args) = { let lf = module.funcs.get(fid).kind.unwrap_local(); let t = module.types.get(lf.ty()); (t.params().to_vec(), t.results().to_vec(), lf.args.clone()) };
                // sometimes the parameters of the twin are fresh locals allocated in REVERSE order (their ids are not ascending in parameter order)
                let args = if args.len() >= 2 && st.borrow_mut().r.chance(1, 2) { let mut fresh = vec![None; args.len()]; for k in (0..args.len()).rev() { fresh[k] = Some(module.locals.add(params[k])); }
                    let fresh: Vec<LocalId> = fresh.into_iter().map(|x| x.unwrap()).collect(); for (o, n) in args.iter().zip(&fresh) { st.borrow_mut().lmap.insert(*o, *n); } fresh } else { args };
                let mut fb = FunctionBuilder::new(&mut module.types, &params, &results);
                let calls = { let orig = module.funcs.get(fid).kind.unwrap_local(); let entry = orig.entry_block(); let mut body = fb.func_body(); replay(&mut body, orig, entry, &st) };
                let new_id = fb.finish(args, &mut module.funcs);
                (new_id, calls)
            });
            match res {
                Some((new_id, calls)) => { module.exports.add(&format!("rebuilt{}", new_id.index()), new_id); pairs.push((fid, new_id, calls.join("; "))); }
                None => viol.push(Json::obj(vec![("class", Json::s("builder-panics")), ("props", Json::s("C15")), ("what", Json::s("the builder API panics while re-building a parsed function")), ("input", Json::s(crate::c03::hex(&wasm)))])),
            }
            let s = st.borrow(); n_at += s.n_at; n_dang += s.n_dangling; n_calls += s.n_calls; n_early += s.n_early;
        }
        // builder use AFTER the GC pass: a function is built for every signature the input declared (the pass may have collected
        // some of them; adding a signature again must give a live type) and the module must still emit and validate
        {   let sigs: Vec<(Vec<ValType>, Vec<ValType>)> = match mcfg.parse(&wasm) { Ok(m0) => m0.types.iter().map(|t| (t.params().to_vec(), t.results().to_vec())).collect(), Err(_) => vec![] };
            let r2 = catch(|| { let mut m2 = mcfg.parse(&wasm).ok()?; passes::gc::run(&mut m2);
                for (k, (ps, rs)) in sigs.iter().enumerate() { let mut fb = FunctionBuilder::new(&mut m2.types, ps, rs); fb.func_body().unreachable(); let args: Vec<LocalId> = ps.iter().map(|t| m2.locals.add(*t)).collect(); let f = fb.finish(args, &mut m2.funcs); m2.exports.add(&format!("after_gc{}", k), f); }
                Some(m2.emit_wasm()) });
            match r2 { Some(Some(o)) => if let Err(e) = amod::validate(&o, feats) { viol.push(Json::obj(vec![("class", Json::s("output-invalid-after-gc-then-build")), ("props", Json::s("C15 C02")), ("what", Json::s(format!("functions built after the GC pass: the module does not validate: {}", e))), ("input", Json::s(crate::c03::hex(&wasm)))])); },
                Some(None) => {}, None => viol.push(Json::obj(vec![("class", Json::s("emit-panics-after-gc-then-build")), ("props", Json::s("C15 C02")), ("what", Json::s("gc, then FunctionBuilder::new for every signature of the input, then emit_wasm: panics")), ("input", Json::s(crate::c03::hex(&wasm)))])) } }
        // the constructors of sequence types denote the signature they were given: InstrSeqType::new / existing on (params, results) is the one-byte form
        // exactly for ([], []) and ([], [t]), and otherwise a type of the module with exactly those parameters and results
        {   let r4 = catch(|| -> Option<Option<String>> { let mut m4 = mcfg.parse(&wasm).ok()?; let mut sigs: Vec<(Vec<ValType>, Vec<ValType>)> = m4.types.iter().map(|t| (t.params().to_vec(), t.results().to_vec())).collect();
                for (ps, rs) in sigs.clone() { if let Some(r) = rs.first() { sigs.push((ps.clone(), vec![*r])); sigs.push((vec![], vec![*r])); } if let Some(p) = ps.first() { sigs.push((vec![*p], vec![*p])); } }
                for (ps, rs) in &sigs { for which in 0..2 { let t = if which == 0 { Some(InstrSeqType::new(&mut m4.types, ps, rs)) } else { InstrSeqType::existing(&m4.types, ps, rs) };
                    let ok = match (t, ps.len(), rs.len()) { (None, _, _) => which == 1, (Some(InstrSeqType::Simple(None)), 0, 0) => true, (Some(InstrSeqType::Simple(Some(v))), 0, 1) => v == rs[0],
                        (Some(InstrSeqType::MultiValue(id)), np, nr) if !(np == 0 && nr <= 1) => { let ty = m4.types.get(id); ty.params() == &ps[..] && ty.results() == &rs[..] } _ => false };
                    if !ok { return Some(Some(format!("InstrSeqType::{} on {:?} -> {:?} gives {:?}", if which == 0 { "new" } else { "existing" }, ps, rs, t))); } } }
                Some(None) });
            match r4 { Some(Some(Some(what))) => viol.push(Json::obj(vec![("class", Json::s("sequence-type-constructor-wrong")), ("props", Json::s("C15 C20")), ("what", Json::s(what)), ("input", Json::s(crate::c03::hex(&wasm)))])),
                None => viol.push(Json::obj(vec![("class", Json::s("sequence-type-constructor-panics")), ("props", Json::s("C15")), ("what", Json::s("InstrSeqType::new / existing panics on a signature of the module")), ("input", Json::s(crate::c03::hex(&wasm)))])), _ => {} } }
        // a type FOUND by signature (ModuleTypes::find, InstrSeqType::existing) is a type that will be emitted: using it for an import or a block type must
        // leave an emittable, valid module (the hidden per-function entry types `() -> results` are never handed out)
        {   let r3 = catch(|| { let mut m3 = mcfg.parse(&wasm).ok()?; let mut sigs: Vec<(Vec<ValType>, Vec<ValType>)> = vec![];
                for f in m3.funcs.iter() { let t = m3.types.get(f.ty()); sigs.push((t.params().to_vec(), t.results().to_vec())); sigs.push((vec![], t.results().to_vec())); }
                let mut n = 0; for (k, (ps, rs)) in sigs.iter().enumerate() { if let Some(t) = m3.types.find(ps, rs) { m3.add_import_func("verif", &format!("found-type-{}", k), t); n += 1; }
                    if let Some(InstrSeqType::MultiValue(t)) = InstrSeqType::existing(&m3.types, ps, rs) { m3.add_import_func("verif", &format!("existing-type-{}", k), t); n += 1; } }
                Some((m3.emit_wasm(), n)) });
            match r3 { Some(Some((o, _))) => if let Err(e) = amod::validate(&o, feats) { viol.push(Json::obj(vec![("class", Json::s("output-invalid-after-using-a-found-type")), ("props", Json::s("C15 C02")), ("what", Json::s(format!("imports typed with ModuleTypes::find / InstrSeqType::existing results: the module does not validate: {}", e))), ("input", Json::s(crate::c03::hex(&wasm)))])); },
                Some(None) => {}, None => viol.push(Json::obj(vec![("class", Json::s("emit-panics-after-using-a-found-type")), ("props", Json::s("C15 C02")), ("what", Json::s("a type returned by ModuleTypes::find / InstrSeqType::existing, used as the type of a new import: emit_wasm panics")), ("input", Json::s(crate::c03::hex(&wasm)))])) } }
        let obs = match catch(|| observe_module(module)) { Some(Ok(o)) => o, Some(Err(e)) => { viol.push(Json::obj(vec![("class", Json::s("emit-fails-after-build")), ("props", Json::s("C15 C02")), ("what", Json::s(e)), ("input", Json::s(crate::c03::hex(&wasm)))])); continue; }
            None => { viol.push(Json::obj(vec![("class", Json::s("emit-panics-after-build")), ("props", Json::s("C15 C02")), ("what", Json::s("emit_wasm panics after functions were built with the builder API")), ("input", Json::s(crate::c03::hex(&wasm)))])); continue; } };
        if let Err(e) = amod::validate(&obs.out, feats) { viol.push(Json::obj(vec![("class", Json::s("output-invalid-after-build")), ("props", Json::s("C15 C02")), ("what", Json::s(format!("module with builder-made functions does not validate: {}", e))), ("input", Json::s(crate::c03::hex(&wasm)))])); }
        let n_imp = obs.aout.imports.iter().filter(|i| matches!(i.2, amod::AImportKind::Func(_))).count();
        for (orig, newf, calls) in pairs {
            n_funcs += 1;
            let (oi, ni) = match (obs.em.funcs.get(&orig.index()), obs.em.funcs.get(&newf.index())) { (Some(a), Some(b)) => (*a as usize, *b as usize), _ => continue };
            let (bo, bn) = (&obs.aout.code[oi - n_imp], &obs.aout.code[ni - n_imp]);
            let to: Vec<String> = bo.ops.iter().map(|o| o.0.clone().unwrap_or_else(|| o.2.to_string())).collect();
            let tn: Vec<String> = bn.ops.iter().map(|o| o.0.clone().unwrap_or_else(|| o.2.to_string())).collect();
            // independent oracle: what the twin is emitted as is the INPUT body in normal form (nop / dead code dropped, `else` added) - an error of the
            // emitter that hits original and twin alike does not cancel out
            if let Ok(ain) = amod::decode(&wasm) { let nin = ain.imports.iter().filter(|i| matches!(i.2, amod::AImportKind::Func(_))).count();
                if let Some(body_in) = orig.index().checked_sub(nin).and_then(|k| ain.code.get(k)) {
                    let name_of = |s: &String| -> String { let t = s.trim_start_matches("WOp (").trim_start_matches("W_"); t.split(|c: char| c == ' ' || c == ')').next().unwrap_or("").to_string() };
                    let want: Vec<String> = crate::body::normal_form(&body_in.ops).iter().map(name_of).collect(); let got: Vec<String> = tn.iter().map(name_of).collect();
                    if want != got { viol.push(Json::obj(vec![("class", Json::s("builder-twin-not-the-normal-form-of-the-input")), ("props", Json::s("C15")), ("what", Json::s("a function re-built through the builder API is not emitted as the in-order flattening of its tree (the input body with nop / dead code dropped and `else` added)")),
                        ("input", Json::s(crate::c03::hex(&wasm))), ("expected", Json::s(want.join(" "))), ("observed", Json::s(got.join(" ")))])); } } }
            // independent oracle: the builder-made twin emits exactly what the parsed original emits
            if to != tn || bo.locals != bn.locals {
                viol.push(Json::obj(vec![("class", Json::s("builder-twin-differs")), ("props", Json::s("C15")), ("what", Json::s("a function re-built through the builder API (same tree, arbitrary insertion order) is not emitted as the same operator stream as the parsed original")),
                    ("input", Json::s(crate::c03::hex(&wasm))), ("expected", Json::s(to.join("; "))), ("observed", Json::s(tn.join("; "))), ("builder_calls", Json::s(calls.clone()))]));
            }
            // the Coq case
            let lf = obs.module.funcs.get(newf).kind.unwrap_local();
            let entry_ty_idx = match lf.block(lf.entry_block()).ty { InstrSeqType::MultiValue(t) => t.index(), _ => 0 };
            let ir = irdump::reachable(lf);
            let args: Vec<usize> = lf.args.iter().map(|a| a.index()).collect();
            let mut lids: Vec<usize> = vec![]; { let mut rec = irdump::Rec::default(); dfs_in_order(&mut rec, lf, lf.entry_block()); for e in rec.log { if let Some(x) = e.strip_prefix("ERef S_local ") { let v: usize = x.parse().unwrap(); if !lids.contains(&v) { lids.push(v); } } } }
            for a in &args { if !lids.contains(a) { lids.push(*a); } }
            let local_tys: Vec<String> = lids.iter().map(|l| { let loc = obs.module.locals.iter().find(|x| x.id().index() == *l).unwrap(); format!("({}, {})", l, crate::gen_ir_print::valty(&loc.ty())) }).collect();
            let out_locals: Vec<String> = bn.locals.iter().map(|(c, t)| format!("({}, {})", c, crate::ops::valty_coq(t).unwrap())).collect();
            let line = format!("Build_kcase {} [{}] [{}] {} [{}] [{}] [{}] [{}]", entry_ty_idx, calls, ir.iter().map(|(k, v)| format!("({}, {})", k, v)).collect::<Vec<_>>().join("; "),
                crate::body::id2i_coq(&obs.em), args.iter().map(|x| x.to_string()).collect::<Vec<_>>().join(";"), local_tys.join("; "), out_locals.join("; "), tn.join("; "));
            if distinct.insert(calls.clone()) { w.push(&line); if samples.len() < 2 && calls.len() < 700 && calls.contains("At") { samples.push(calls); } }
        }
    }
    w.finish();
    let meta = Json::obj(vec![("modules_generated", Json::n(n_gen as f64)), ("modules_invalid_discarded", Json::n(n_invalid as f64)), ("functions_rebuilt", Json::n(n_funcs as f64)), ("cases", Json::u(w.total)),
        ("builder_calls", Json::n(n_calls as f64)), ("positional_inserts", Json::n(n_at as f64)), ("dangling_then_attached", Json::n(n_dang as f64)), ("created_before_its_enclosing_sequence", Json::n(n_early as f64)),
        ("samples", Json::Arr(samples.into_iter().map(Json::Str).collect())), ("oracle_violations", Json::Arr(viol))]);
    std::fs::write(format!("{}/meta.json", out_dir), meta.to_string()).unwrap();
}
