//! Model-independent property oracles at module level. Everything here is computed from the two
//! binaries decoded with wasmparser only (`AMod`), plus the index maps walrus itself exposes to
//! extension code (parse-time through on_parse, emit-time through CustomSection::data).
use crate::amod::{self, ADataKind, AElemItems, AElemKind, AImportKind, AMod};
use crate::body::{observe, Observed};
use crate::env;
use crate::util::{catch, Json};
use std::collections::{BTreeMap, BTreeSet};
use walrus::*;
use wasmparser::WasmFeatures;

pub const RECORDER: &str = "verif-index-recorder";
fn v(class: &str, props: &str, what: String, wasm: &[u8], observed: String, expected: String) -> Json {
    Json::obj(vec![("class", Json::s(class)), ("props", Json::s(props)), ("what", Json::s(what)), ("input", Json::s(crate::c03::hex(wasm))), ("observed", Json::s(observed)), ("expected", Json::s(expected))])
}
fn raw_customs(a: &AMod) -> Vec<(String, Vec<u8>)> {
    a.customs.iter().filter(|c| c.0 != "name" && c.0 != "producers" && !c.0.starts_with(".debug") && c.0 != RECORDER).map(|c| (c.0.clone(), c.1.clone())).collect()
}
fn n_imp(a: &AMod, k: u8) -> usize { a.imports.iter().filter(|i| match (&i.2, k) { (AImportKind::Func(_), 0) | (AImportKind::Table(_), 1) | (AImportKind::Mem(_), 2) | (AImportKind::Global(_), 3) => true, _ => false }).count() }
fn func_sig(a: &AMod, idx: u32) -> Option<(Vec<wasmparser::ValType>, Vec<wasmparser::ValType>)> {
    let ni = n_imp(a, 0);
    let ti = if (idx as usize) < ni { a.imports.iter().filter_map(|i| if let AImportKind::Func(t) = i.2 { Some(t) } else { None }).nth(idx as usize)? } else { *a.funcs.get(idx as usize - ni)? };
    a.types.get(ti as usize).cloned()
}
/// rename the function index inside a decoded constant expression term ("W_RefFunc 3")
fn map_const(c: &[String], rf: &dyn Fn(u32) -> Option<u32>) -> Vec<String> {
    c.iter().map(|t| if let Some(x) = t.strip_prefix("W_RefFunc ") { match x.parse::<u32>().ok().and_then(|i| rf(i)) { Some(j) => format!("W_RefFunc {}", j), None => format!("W_RefFunc ?{}", x) } } else { t.clone() }).collect()
}

/// C04 (no pass requested): module-level structure preserved up to consistent renumbering.
pub fn structure(name: &str, wasm: &[u8], obs: &Observed, out: &mut Vec<Json>) {
    let (a, b) = (&obs.ain, &obs.aout);
    let rf = |i: u32| -> Option<u32> { let id = obs.pm.funcs.get(i as usize)?; obs.em.funcs.get(id).copied() };
    let mut bad = |what: String, o: String, e: String| out.push(v("structure-not-preserved", "C04", format!("{}: {}", name, what), wasm, o, e));
    // imports: module, field, kind, full type, order
    let ia: Vec<String> = a.imports.iter().map(|i| format!("{}.{} {:?}", i.0, i.1, match &i.2 { AImportKind::Func(t) => format!("func {:?}", a.types.get(*t as usize)), k => format!("{:?}", k) })).collect();
    let ib: Vec<String> = b.imports.iter().map(|i| format!("{}.{} {:?}", i.0, i.1, match &i.2 { AImportKind::Func(t) => format!("func {:?}", b.types.get(*t as usize)), k => format!("{:?}", k) })).collect();
    if ia != ib { let k = ia.iter().zip(&ib).position(|(x, y)| x != y).unwrap_or(ia.len().min(ib.len())); bad(format!("import {} differs", k), format!("{:?}", ib.get(k)), format!("{:?}", ia.get(k))); }
    // function signatures
    for i in 0..(n_imp(a, 0) + a.funcs.len()) as u32 { match rf(i) { Some(j) => if func_sig(a, i) != func_sig(b, j) { bad(format!("signature of function {} changed", i), format!("{:?}", func_sig(b, j)), format!("{:?}", func_sig(a, i))); }, None => bad(format!("function {} was dropped", i), String::new(), String::new()) } }
    if n_imp(a, 0) + a.funcs.len() != n_imp(b, 0) + b.funcs.len() { bad("number of functions changed".into(), format!("{}", b.funcs.len()), format!("{}", a.funcs.len())); }
    if a.tables != b.tables { bad("table section differs".into(), format!("{:?}", b.tables), format!("{:?}", a.tables)); }
    if a.mems != b.mems { bad("memory section differs".into(), format!("{:?}", b.mems), format!("{:?}", a.mems)); }
    let ga: Vec<_> = a.globals.iter().map(|g| (g.ty, g.mutable, g.shared, g.init.as_ref().map(|c| map_const(c, &rf)))).collect();
    let gb: Vec<_> = b.globals.iter().map(|g| (g.ty, g.mutable, g.shared, g.init.clone())).collect();
    if ga != gb { bad("global section differs".into(), format!("{:?}", gb), format!("{:?}", ga)); }
    let ea: Vec<_> = a.exports.iter().map(|e| (e.0.clone(), e.1, if e.1 == 0 { rf(e.2) } else { Some(e.2) })).collect();
    let eb: Vec<_> = b.exports.iter().map(|e| (e.0.clone(), e.1, Some(e.2))).collect();
    if ea != eb { bad("export section differs".into(), format!("{:?}", eb), format!("{:?}", ea)); }
    if a.start.and_then(|s| rf(s)) != b.start { bad("start function differs".into(), format!("{:?}", b.start), format!("{:?}", a.start)); }
    let norm_tbl = |k: &AElemKind| match k { AElemKind::Active { table, offset } => AElemKind::Active { table: Some(table.unwrap_or(0)), offset: map_const(offset, &rf) }, x => x.clone() };
    let la: Vec<_> = a.elems.iter().map(|e| (norm_tbl(&e.kind), match &e.items { AElemItems::Funcs(f) => AElemItems::Funcs(f.iter().map(|x| rf(*x).unwrap_or(u32::MAX)).collect()), AElemItems::Exprs(t, es) => AElemItems::Exprs(t.clone(), es.iter().map(|c| map_const(c, &rf)).collect()) })).collect();
    let lb: Vec<_> = b.elems.iter().map(|e| (match &e.kind { AElemKind::Active { table, offset } => AElemKind::Active { table: Some(table.unwrap_or(0)), offset: offset.clone() }, x => x.clone() }, e.items.clone())).collect();
    if la != lb { let k = la.iter().zip(&lb).position(|(x, y)| x != y).unwrap_or(la.len().min(lb.len())); bad(format!("element segment {} differs", k), format!("{:?}", lb.get(k)), format!("{:?}", la.get(k))); }
    let da: Vec<_> = a.data.iter().map(|d| (match &d.kind { ADataKind::Active { memory, offset } => ADataKind::Active { memory: *memory, offset: map_const(offset, &rf) }, x => x.clone() }, d.bytes.clone())).collect();
    let db: Vec<_> = b.data.iter().map(|d| (d.kind.clone(), d.bytes.clone())).collect();
    if da != db { bad("data section differs".into(), format!("{:?}", db), format!("{:?}", da)); }
}

/// C12: unknown custom sections survive untouched: emit, GC+emit, emit twice.
pub fn customs(name: &str, wasm: &[u8], out: &mut Vec<Json>) {
    let a = match amod::decode(wasm) { Ok(a) => a, Err(_) => return };
    let want = raw_customs(&a);
    for (label, gc, twice, pct) in [("emit", false, false, false), ("gc+emit", true, false, false), ("second emit on the same Module", false, true, false), ("emit with preserve_code_transform", false, false, true), ("gc+emit with preserve_code_transform", true, false, true), ("second emit on the same Module with preserve_code_transform", false, true, true)] {
        let r = catch(|| { let mut c = ModuleConfig::new(); c.preserve_code_transform(pct); let mut m = c.parse(wasm).ok()?; if gc { passes::gc::run(&mut m); } let first = m.emit_wasm(); Some(if twice { m.emit_wasm() } else { first }) });
        if let Some(Some(o)) = r { if let Ok(b) = amod::decode(&o) { let got = raw_customs(&b);
            if got != want { out.push(v(if twice { "customs-lost-on-second-emit" } else { "customs-not-preserved" }, if twice { "C12 C08" } else { "C12" }, format!("{}: custom sections after {}: {} of {} survive unchanged and in order", name, label, got.iter().zip(&want).filter(|(x, y)| x == y).count(), want.len()), wasm,
                format!("{:?}", got.iter().map(|c| (&c.0, c.1.len())).collect::<Vec<_>>()), format!("{:?}", want.iter().map(|c| (&c.0, c.1.len())).collect::<Vec<_>>()))); } } }
    }
}

/// C19 (a typed custom section under a CONVENTIONAL name - dylink.0, linking, target_features, reloc.CODE - sees the same, complete emit-time map as any other)
pub fn index_maps_under_conventional_names(name: &str, wasm: &[u8], out: &mut Vec<Json>) {
    use std::sync::{Arc, Mutex};
    #[derive(Debug)] struct Named { name: String, funcs: Vec<walrus::FunctionId>, globals: Vec<walrus::GlobalId>, out: Arc<Mutex<Vec<Option<u32>>>> }
    impl CustomSection for Named { fn name(&self) -> &str { &self.name }
        fn data(&self, ids: &IdsToIndices) -> std::borrow::Cow<[u8]> { let mut o = self.out.lock().unwrap(); o.clear();
            for f in &self.funcs { o.push(catch(|| ids.get_func_index(*f))); } for g in &self.globals { o.push(catch(|| ids.get_global_index(*g))); } std::borrow::Cow::Borrowed(&[]) } }
    let mut reference: Option<Vec<Option<u32>>> = None;
    for sec in ["verif-plain-name", "dylink.0", "linking", "target_features", "reloc.CODE"] {
        let r = catch(|| { let mut m = Module::from_buffer(wasm).ok()?; let o = Arc::new(Mutex::new(vec![]));
            let rec = Named { name: sec.to_string(), funcs: m.funcs.iter().map(|f| f.id()).collect(), globals: m.globals.iter().map(|g| g.id()).collect(), out: o.clone() };
            m.customs.add(rec); let bytes = m.emit_wasm(); let got = o.lock().unwrap().clone(); Some((got, bytes)) });
        match r { Some(Some((got, bytes))) => { if got.iter().any(|x| x.is_none()) { out.push(v("index-map-wrong", "C19", format!("{}: a typed custom section named {:?} finds {} of {} function / global identifiers without an emit-time index when its data() is called", name, sec, got.iter().filter(|x| x.is_none()).count(), got.len()), wasm, String::new(), String::new())); }
                else if let Some(rf) = &reference { if *rf != got { out.push(v("index-map-wrong", "C19", format!("{}: a typed custom section named {:?} is handed other emit-time indices than one under a plain name", name, sec), wasm, format!("{:?}", got), format!("{:?}", rf))); } } else { reference = Some(got); }
                if amod::decode(&bytes).is_err() { out.push(v("output-undecodable", "C02 C19", format!("{}: with a typed custom section named {:?} the emitted module cannot be decoded", name, sec), wasm, String::new(), String::new())); } }
            Some(None) => return,
            None => out.push(v("walrus-panics-on-valid-module", "C02 C19", format!("{}: emitting with a typed custom section named {:?} panics", name, sec), wasm, String::new(), String::new())) }
    }
}

/// C12 / C14 (API): a raw section with a `.debug*` name ADDED to module.customs is not written while DWARF generation is off, and it does not stop
/// the sections stored after it from being written
pub fn customs_added_debug_named(name: &str, wasm: &[u8], out: &mut Vec<Json>) {
    let a = match amod::decode(wasm) { Ok(a) => a, Err(_) => return }; let want = raw_customs(&a);
    for gd in [false, true] {
        let r = catch(|| { let mut c = ModuleConfig::new(); c.generate_dwarf(gd); let mut m = c.parse(wasm).ok()?;
            m.customs.add(walrus::RawCustomSection { name: ".debug_tool_private".into(), data: vec![1, 2, 3] }); m.customs.add(walrus::RawCustomSection { name: "verif-after-debug".into(), data: vec![9] });
            let o1 = m.emit_wasm(); passes::gc::run(&mut m); let o2 = m.emit_wasm(); Some((o1, o2)) });
        if let Some(Some((o1, o2))) = r { for (label, o) in [("emit", &o1), ("gc + second emit", &o2)] { if let Ok(b) = amod::decode(o) { let got = raw_customs(&b);
            let mut expect = want.clone(); expect.push(("verif-after-debug".to_string(), vec![9]));
            if got != expect { out.push(v("customs-not-preserved", "C12", format!("{}: after adding a raw `.debug_tool_private` section and then a raw `verif-after-debug` section through module.customs ({}; generate_dwarf({})): the other uninterpreted sections of the output are {:?}", name, label, gd, got.iter().map(|c| &c.0).collect::<Vec<_>>()), wasm, String::new(), format!("{:?}", expect.iter().map(|c| &c.0).collect::<Vec<_>>()))); }
            if !gd && b.customs.iter().any(|c| c.0 == ".debug_tool_private") { out.push(v("dwarf-switch-wrong", "C14", format!("{}: a `.debug_tool_private` section held in module.customs is written to the output ({}) although DWARF generation is off", name, label), wasm, String::new(), String::new())); } } } }
    }
}

/// C12 (API): removing ONE raw custom section by name takes out exactly the first section of that name, and asking for an absent name takes out nothing
pub fn customs_remove_raw(name: &str, wasm: &[u8], out: &mut Vec<Json>) {
    let a = match amod::decode(wasm) { Ok(a) => a, Err(_) => return };
    let want = raw_customs(&a);
    if want.is_empty() { return; }
    let mut targets: Vec<Option<String>> = vec![None]; for k in [0usize, want.len() / 2, want.len() - 1] { targets.push(Some(want[k].0.clone())); }
    for t in targets {
        let tn = t.clone().unwrap_or_else(|| "a-section-name-that-does-not-occur".to_string());
        let r = catch(|| { let mut m = Module::from_buffer(wasm).ok()?; let removed = m.customs.remove_raw(&tn).map(|s| (s.name.clone(), s.data.clone())); Some((removed, m.emit_wasm())) });
        if let Some(Some((removed, o))) = r { if let Ok(b) = amod::decode(&o) { let got = raw_customs(&b);
            let mut expect = want.clone(); let first = expect.iter().position(|c| c.0 == tn); let exp_removed = first.map(|i| { let c = expect.remove(i); (c.0, c.1) });
            if removed != exp_removed || got != expect { out.push(v("customs-remove-raw-wrong", "C12", format!("{}: remove_raw({:?}) returned {:?} (expected {:?}); {} of {} remaining sections as expected", name, tn, removed.as_ref().map(|x| &x.0), exp_removed.as_ref().map(|x| &x.0), got.iter().zip(&expect).filter(|(x, y)| x == y).count(), expect.len()), wasm, String::new(), String::new())); } } }
    }
}

/// C12 (API): a typed custom section can be added, found and removed by type without touching the uninterpreted ones
pub fn customs_typed(name: &str, wasm: &[u8], out: &mut Vec<Json>) {
    #[derive(Debug)] struct Probe(Vec<u8>);
    impl CustomSection for Probe { fn name(&self) -> &str { "verif-typed-probe" } fn data(&self, _: &IdsToIndices) -> std::borrow::Cow<[u8]> { std::borrow::Cow::Borrowed(&self.0) } }
    let a = match amod::decode(wasm) { Ok(a) => a, Err(_) => return }; let want = raw_customs(&a);
    let r = catch(|| { let mut m = Module::from_buffer(wasm).ok()?; m.customs.add(Probe(vec![1, 2, 3])); let found = m.customs.get_typed::<Probe>().map(|p| p.0.clone());
        let with = m.emit_wasm(); let removed = m.customs.delete_typed::<Probe>().map(|p| p.0.clone()); let still = m.customs.get_typed::<Probe>().is_some(); let without = m.emit_wasm(); Some((found, with, removed, still, without)) });
    if let Some(Some((found, with, removed, still, without))) = r {
        let rc = |b: &[u8]| amod::decode(b).ok().map(|x| { let mut v = raw_customs(&x); let probe = v.iter().filter(|c| c.0 == "verif-typed-probe").count(); v.retain(|c| c.0 != "verif-typed-probe"); (v, probe) });
        let ok = found == Some(vec![1, 2, 3]) && removed == Some(vec![1, 2, 3]) && !still && rc(&with) == Some((want.clone(), 1)) && rc(&without) == Some((want.clone(), 0));
        if !ok { out.push(v("customs-typed-api-wrong", "C12", format!("{}: add / get_typed / delete_typed of a typed custom section: found {:?}, removed {:?}, still there {}, uninterpreted sections with it {:?}, without it {:?}", name, found, removed, still, rc(&with).map(|x| (x.0.len(), x.1)), rc(&without).map(|x| (x.0.len(), x.1))), wasm, String::new(), String::new())); } }
}

/// C08: repeated emits on one Module are byte-identical; re-parsing the output and emitting again reproduces it.
pub fn determinism(name: &str, wasm: &[u8], out: &mut Vec<Json>) {
    for pct in [false, true] {
        let r = catch(|| { let mut cfg = ModuleConfig::new(); cfg.preserve_code_transform(pct); let mut m = cfg.parse(wasm).ok()?; let a = m.emit_wasm(); let b = m.emit_wasm(); let c = m.emit_wasm(); Some((a, b, c)) });
        if let Some(Some((a, b, c))) = r { if a != b || b != c { out.push(v("repeated-emit-differs", "C08", format!("{}: emitting the same in-memory module again gives different bytes (lengths {} {} {}; preserve_code_transform={})", name, a.len(), b.len(), c.len(), pct), wasm, crate::c03::hex(&b), crate::c03::hex(&a))); } }
    }
    let r = catch(|| { let mut m = Module::from_buffer(wasm).ok()?; let a = m.emit_wasm(); let b = m.emit_wasm(); let c = m.emit_wasm(); Some((a, b, c)) });
    if let Some(Some((a, _b, _c))) = r {
        let r2 = catch(|| { let mut m = Module::from_buffer(&a).ok()?; Some(m.emit_wasm()) });
        match r2 { Some(Some(a2)) => if a2 != a { let da = amod::decode(&a).ok(); let db = amod::decode(&a2).ok();
                out.push(v("not-a-fixpoint", "C08", format!("{}: re-parsing walrus's own output and emitting again does not reproduce it ({} vs {} bytes; sections {:?} vs {:?})", name, a.len(), a2.len(), da.map(|x| x.sections), db.map(|x| x.sections)), wasm, crate::c03::hex(&a2), crate::c03::hex(&a))); },
            _ => out.push(v("own-output-rejected", "C08 C02", format!("{}: walrus cannot re-parse its own output", name), wasm, String::new(), String::new())) }
    }
    // ... under the synthetic-names configuration too (names invented at parse time must be the names the second trip invents or reads back)
    if let Some(Some((a, a2))) = catch(|| { let mk = || { let mut c = ModuleConfig::new(); c.generate_synthetic_names_for_anonymous_items(true); c };
            let a = mk().parse(wasm).ok()?.emit_wasm(); let a2 = mk().parse(&a).ok()?.emit_wasm(); Some((a, a2)) }) {
        if a != a2 { let (da, db) = (amod::decode(&a).ok(), amod::decode(&a2).ok());
            let which: Vec<String> = match (&da, &db) { (Some(x), Some(y)) => x.customs.iter().zip(y.customs.iter()).filter(|(p, q)| p != q).map(|(p, _)| format!("custom section `{}`", p.0)).collect(), _ => vec![] };
            out.push(v("not-a-fixpoint", "C08", format!("{}: with generate_synthetic_names_for_anonymous_items, re-parsing walrus's own output and emitting again does not reproduce it ({} vs {} bytes; differing: {:?})", name, a.len(), a2.len(), which), wasm, crate::c03::hex(&a2), crate::c03::hex(&a))); } }
    // the file entry points read and write the very same bytes: emit_wasm_file = emit_wasm, Module::from_file = Module::from_buffer
    { let path = std::env::temp_dir().join(format!("vh-emit-file-{}.wasm", std::process::id()));
      if let Some(Some((direct, via_file, reread))) = catch(|| { let mut m = Module::from_buffer(wasm).ok()?; let direct = m.emit_wasm();
            // the path already holds a LONGER file (an earlier, larger build of the same output path): it must be replaced, not overwritten in place
            std::fs::write(&path, vec![0xAAu8; direct.len() + 97]).ok()?; m.emit_wasm_file(&path).ok()?; let via_file = std::fs::read(&path).ok()?;
            let reread = Module::from_file(&path).ok().map(|mut m2| m2.emit_wasm()).unwrap_or_default(); Some((direct, via_file, reread)) }) {
          if direct != via_file { out.push(v("repeated-emit-differs", "C08", format!("{}: emit_wasm_file writes other bytes ({}) than emit_wasm returns ({})", name, via_file.len(), direct.len()), wasm, crate::c03::hex(&via_file), crate::c03::hex(&direct))); }
          if let Some(Some(a2)) = catch(|| { Some(Module::from_buffer(&direct).ok()?.emit_wasm()) }) { if a2 != reread { out.push(v("not-a-fixpoint", "C08", format!("{}: Module::from_file and Module::from_buffer of the same bytes are emitted differently", name), wasm, crate::c03::hex(&reread), crate::c03::hex(&a2))); } } }
      let _ = std::fs::remove_file(&path); }
    // ... and so is the output of a module the GC pass has run on
    if let Some(Some(g)) = catch(|| { let mut m = Module::from_buffer(wasm).ok()?; passes::gc::run(&mut m); Some(m.emit_wasm()) }) { fixpoint_of_output(&format!("{} (after gc)", name), wasm, &g, out); }
}

/// C08: walrus's own output - also of an EDITED module - is reproduced byte for byte by one more round trip
pub fn fixpoint_of_output(what: &str, wasm: &[u8], output: &[u8], out: &mut Vec<Json>) {
    match catch(|| { let mut m = Module::from_buffer(output).ok()?; Some(m.emit_wasm()) }) {
        Some(Some(again)) => if again != output { let da = amod::decode(output).ok(); let db = amod::decode(&again).ok();
            let which: Vec<String> = match (&da, &db) { (Some(a), Some(b)) => { let mut w = vec![]; if a.customs != b.customs { for (x, y) in a.customs.iter().zip(b.customs.iter()) { if x != y { w.push(format!("custom section `{}`", x.0)); } } } if a.sections != b.sections { w.push("section list".into()); } w } _ => vec![] };
            out.push(v("not-a-fixpoint", "C08", format!("{}: re-parsing walrus's own output and emitting again does not reproduce it ({} vs {} bytes; differing: {:?})", what, output.len(), again.len(), which), wasm, crate::c03::hex(&again), crate::c03::hex(output))); },
        _ => out.push(v("own-output-rejected", "C08 C02", format!("{}: walrus cannot re-parse its own output", what), wasm, String::new(), String::new())) }
}

/// C14: configuration switches.
pub fn config(name: &str, wasm: &[u8], out: &mut Vec<Json>) {
    // DWARF: debug sections are carried over exactly when generate_dwarf is on, whatever the other switches say
    if let Ok(a0) = amod::decode(wasm) { if !a0.code.is_empty() && a0.code.len() < 40 { if let Some(input) = crate::c10::synthesize(wasm, &a0, crate::c10::DCfg { version: 4, one_seq: false, file0: false, pair_seq: false, nested: false, two_units: false }) {
        for (gd, pct, names) in [(false, false, true), (false, true, true), (true, false, false), (true, true, true), (false, true, false)] {
            let r = catch(|| { let mut c = ModuleConfig::new(); c.generate_dwarf(gd).preserve_code_transform(pct).generate_name_section(names).generate_producers_section(false); let mut m = c.parse(&input).ok()?; amod::decode(&m.emit_wasm()).ok() }).flatten();
            if let Some(b) = r { let has = b.customs.iter().any(|c| c.0.starts_with(".debug")); if has != gd { out.push(v("dwarf-switch-ignored", "C14", format!("{}: generate_dwarf({}) preserve_code_transform({}) generate_name_section({}): the output {} .debug sections", name, gd, pct, names, if has { "has" } else { "has no" }), &input, format!("{:?}", b.sections), String::new())); } } }
        // the LAST call of the DWARF setter decides, however often it was called before on the same configuration
        for seq in [vec![true, false], vec![false, true], vec![true, false, true], vec![true, true, false]] {
            let want = *seq.last().unwrap(); let sq = seq.clone();
            let r = catch(|| { let mut c = ModuleConfig::new(); c.generate_producers_section(false); for g in &sq { c.generate_dwarf(*g); } let mut m = c.parse(&input).ok()?; amod::decode(&m.emit_wasm()).ok() }).flatten();
            if let Some(b) = r { let has = b.customs.iter().any(|c| c.0.starts_with(".debug")); if has != want { out.push(v("dwarf-switch-ignored", "C14", format!("{}: generate_dwarf called with {:?} in this order on one configuration: the output {} .debug sections", name, seq, if has { "has" } else { "has no" }), wasm, format!("{:?}", b.sections), String::new())); } } }
        // the switch does not depend on what is left of the code: with every function unexported and collected, the debug sections are still carried over
        for gd in [true, false] {
            let r = catch(|| { let mut c = ModuleConfig::new(); c.generate_dwarf(gd).generate_producers_section(false); let mut m = c.parse(&input).ok()?;
                let ex: Vec<_> = m.exports.iter().map(|e| e.id()).collect(); for e in ex { m.exports.delete(e); } m.start = None; let el: Vec<_> = m.elements.iter().map(|e| e.id()).collect(); for e in el { m.elements.delete(e); }
                passes::gc::run(&mut m); let nf = m.funcs.iter_local().count(); amod::decode(&m.emit_wasm()).ok().map(|b| (b, nf)) }).flatten();
            if let Some((b, nf)) = r { let has = b.customs.iter().any(|c| c.0.starts_with(".debug")); if has != gd { out.push(v("dwarf-switch-ignored", "C14", format!("{}: generate_dwarf({}) after every export was removed and the GC pass left {} local functions: the output {} .debug sections", name, gd, nf, if has { "has" } else { "has no" }), &input, format!("{:?}", b.sections), String::new())); } } }
        } } }
    let run = |names: bool, prod: bool| -> Option<AMod> { catch(|| { let mut c = ModuleConfig::new(); c.generate_name_section(names).generate_producers_section(prod); let mut m = c.parse(wasm).ok()?; amod::decode(&m.emit_wasm()).ok() }).flatten() };
    let strip = |a: &AMod, what: &str| -> Vec<(String, Vec<u8>)> { let mut v: Vec<(String, Vec<u8>)> = vec![]; for s in &a.sections { if s == &format!("custom:{}", what) { continue; } v.push((s.clone(), vec![])); } v };
    if let (Some(full), Some(no_names), Some(no_prod)) = (run(true, true), run(false, true), run(true, false)) {
        if strip(&full, "name") != strip(&no_names, "name") || no_names.sections.iter().any(|s| s == "custom:name") { out.push(v("name-switch-wrong", "C14", format!("{}: disabling name generation does not remove exactly the name section", name), wasm, format!("{:?}", no_names.sections), format!("{:?}", full.sections))); }
        if strip(&full, "producers") != strip(&no_prod, "producers") || no_prod.sections.iter().any(|s| s == "custom:producers") { out.push(v("producers-switch-wrong", "C14", format!("{}: disabling producers generation does not remove exactly the producers section", name), wasm, format!("{:?}", no_prod.sections), format!("{:?}", full.sections))); }
        // everything but the switched section must be byte-identical in content
        let content = |a: &AMod, skip: &str| { let mut b = a.clone(); b.customs.retain(|c| c.0 != skip); b.sections.retain(|s| s != &format!("custom:{}", skip)); for c in b.customs.iter_mut() { c.2 = 0; } for f in b.code.iter_mut() { f.range = (0, 0); f.entry_start = 0; for o in f.ops.iter_mut() { o.1 = 0; } } b.code_section = None; b };
        if content(&full, "name") != content(&no_names, "name") { out.push(v("name-switch-wrong", "C14", format!("{}: disabling name generation changes something besides the name section", name), wasm, String::new(), String::new())); }
        if content(&full, "producers") != content(&no_prod, "producers") { out.push(v("producers-switch-wrong", "C14", format!("{}: disabling producers generation changes something besides the producers section", name), wasm, String::new(), String::new())); }
    }
    // the switches are independent of each other and of the order in which they are set: whatever the other setters say, and in
    // whichever order they are called, a disabled section is absent
    for mask in 0u32..16 { for order in 0..2 {
        let (names, prod, synth, stable) = (mask & 1 != 0, mask & 2 != 0, mask & 4 != 0, mask & 8 != 0);
        let r = catch(|| { let mut c = ModuleConfig::new();
            let mut setters: Vec<Box<dyn Fn(&mut ModuleConfig)>> = vec![Box::new(move |c| { c.generate_name_section(names); }), Box::new(move |c| { c.generate_producers_section(prod); }), Box::new(move |c| { c.generate_synthetic_names_for_anonymous_items(synth); }), Box::new(move |c| { c.only_stable_features(stable); })];
            if order == 1 { setters.reverse(); } for f in &setters { f(&mut c); }
            let mut m = c.parse(wasm).ok()?; amod::decode(&m.emit_wasm()).ok() }).flatten();
        if let Some(b) = r {
            let how = format!("generate_name_section({}) generate_producers_section({}) generate_synthetic_names_for_anonymous_items({}) only_stable_features({}) set in {} order", names, prod, synth, stable, if order == 0 { "this" } else { "the reverse" });
            if !names && b.sections.iter().any(|s| s == "custom:name") { out.push(v("name-switch-wrong", "C14", format!("{}: {}: the output has a name section", name, how), wasm, format!("{:?}", b.sections), String::new())); }
            if !prod && b.sections.iter().any(|s| s == "custom:producers") { out.push(v("producers-switch-wrong", "C14", format!("{}: {}: the output has a producers section", name, how), wasm, format!("{:?}", b.sections), String::new())); }
            if prod && !b.sections.iter().any(|s| s == "custom:producers") { out.push(v("producers-switch-wrong", "C14", format!("{}: {}: the output has no producers section", name, how), wasm, format!("{:?}", b.sections), String::new())); }
        } } }
    // processed-by exactly once however often round-tripped; other fields preserved in order
    let prod_of = |bytes: &[u8]| -> Option<Vec<(String, Vec<(String, String)>)>> { let a = amod::decode(bytes).ok()?; if !a.customs.iter().any(|c| c.0 == "producers") { return None; }
        // EVERY producers section of the module contributes its fields, in order (walrus appends them; an unreadable section contributes what was read before the error - nothing, here)
        let mut fs = vec![];
        for c in a.customs.iter().filter(|c| c.0 == "producers") { let r = match wasmparser::ProducersSectionReader::new(wasmparser::BinaryReader::new(&c.1, 0, WasmFeatures::all())) { Ok(r) => r, Err(_) => continue }; let mut part = vec![]; let mut ok = true;
            for f in r { let f = match f { Ok(f) => f, Err(_) => { ok = false; break } }; let mut vs = vec![]; for x in f.values { match x { Ok(x) => vs.push((x.name.to_string(), x.version.to_string())), Err(_) => { ok = false; break } } } if !ok { break; } part.push((f.name.to_string(), vs)); }
            if ok { fs.extend(part); } else if a.customs.iter().filter(|c| c.0 == "producers").count() == 1 { return None; } }
        Some(fs) };
    let input_prod = prod_of(wasm).unwrap_or_default();
    let mut cur = wasm.to_vec();
    for round in 1..=3 {
        let r = catch(|| { let mut m = Module::from_buffer(&cur).ok()?; Some(m.emit_wasm()) });
        match r { Some(Some(o)) => { let p = prod_of(&o).unwrap_or_default();
                let n_walrus: usize = p.iter().filter(|f| f.0 == "processed-by").map(|f| f.1.iter().filter(|x| x.0 == "walrus").count()).sum();
                let others = |p: &Vec<(String, Vec<(String, String)>)>| -> Vec<(String, Vec<(String, String)>)> { p.iter().map(|f| (f.0.clone(), f.1.iter().filter(|x| !(f.0 == "processed-by" && x.0 == "walrus")).cloned().collect::<Vec<_>>())).filter(|f: &(String, Vec<(String, String)>)| !(f.0 == "processed-by" && f.1.is_empty())).collect() };
                if n_walrus != 1 { out.push(v("processed-by-count", "C14", format!("{}: after {} round trip(s) walrus is recorded {} times as processing tool", name, round, n_walrus), wasm, format!("{:?}", p), String::new())); }
                if others(&p) != others(&input_prod) { out.push(v("producers-fields-changed", "C14", format!("{}: producers fields of the input are not preserved after {} round trip(s)", name, round), wasm, format!("{:?}", p), format!("{:?}", input_prod))); }
                cur = o; }
            _ => break }
    }
    // the producers API: add_language / add_sdk / add_processed_by record (name, version) in their field exactly once (the version of an existing
    // name is replaced in place, a new name is appended, a missing field is created at the end), every other entry stays
    { let r = catch(|| { let mut m = Module::from_buffer(wasm).ok()?; m.producers.add_language("verif-lang", "1"); m.producers.add_sdk("verif-sdk", "2"); m.producers.add_processed_by("verif-tool", "3");
            m.producers.add_language("verif-lang", "1.1"); Some(m.emit_wasm()) });
      if let Some(Some(o)) = r { if let Some(p) = prod_of(&o) {
          let cnt = |field: &str, nm: &str, ver: &str| p.iter().filter(|f| f.0 == field).map(|f| f.1.iter().filter(|x| x.0 == nm && x.1 == ver).count()).sum::<usize>();
          let any = |field: &str, nm: &str| p.iter().filter(|f| f.0 == field).map(|f| f.1.iter().filter(|x| x.0 == nm).count()).sum::<usize>();
          let fields_once = ["language", "sdk", "processed-by"].iter().all(|f| p.iter().filter(|x| &x.0 == f).count() <= 1 || input_prod.iter().filter(|x| &x.0 == f).count() > 1);
          let kept = input_prod.iter().all(|f| f.1.iter().all(|x| x.0 == "walrus" || p.iter().any(|g| g.0 == f.0 && g.1.iter().any(|y| y.0 == x.0))));
          if cnt("language", "verif-lang", "1.1") != 1 || any("language", "verif-lang") != 1 || cnt("sdk", "verif-sdk", "2") != 1 || cnt("processed-by", "verif-tool", "3") != 1 || !fields_once || !kept {
              out.push(v("producers-api-wrong", "C14", format!("{}: after add_language / add_sdk / add_processed_by the producers section is {:?}", name, p), wasm, String::new(), format!("{:?}", input_prod))); } } } }
    // the parse callback: exactly once per successful parse, never on a failed one
    use std::sync::atomic::{AtomicUsize, Ordering}; use std::sync::Arc;
    // two inputs that only the END-of-module checks of the validator reject: a function section without a code section, a data count without data
    let no_code: Vec<u8> = vec![0x00, 0x61, 0x73, 0x6d, 0x01, 0x00, 0x00, 0x00, 0x01, 0x04, 0x01, 0x60, 0x00, 0x00, 0x03, 0x02, 0x01, 0x00];
    let no_data: Vec<u8> = vec![0x00, 0x61, 0x73, 0x6d, 0x01, 0x00, 0x00, 0x00, 0x05, 0x03, 0x01, 0x00, 0x01, 0x0c, 0x01, 0x01];
    for (bytes, label) in [(wasm.to_vec(), "valid"), ({ let mut t = wasm.to_vec(); let n = t.len(); if n > 12 { t.truncate(n - 3); } t }, "truncated"), (no_code, "function section without code section"), (no_data, "data count without data section")] {
        let calls = Arc::new(AtomicUsize::new(0)); let c2 = calls.clone();
        let r = catch(|| { let mut c = ModuleConfig::new(); c.on_parse(move |_, _| { c2.fetch_add(1, Ordering::SeqCst); Ok(()) }); c.parse(&bytes).is_ok() });
        if let Some(ok) = r { let n = calls.load(Ordering::SeqCst); if (ok && n != 1) || (!ok && n != 0) { out.push(v("on-parse-call-count", "C14", format!("{}: parse callback ran {} times on a {} parse of a {} input", name, n, if ok { "successful" } else { "failed" }, label), &bytes, String::new(), String::new())); } }
        // every other entry point that takes a configuration: from a buffer, from a file (both spellings)
        let path = std::env::temp_dir().join(format!("vh-on-parse-{}-{}.wasm", std::process::id(), label.len()));
        if std::fs::write(&path, &bytes).is_ok() {
            for entry in 0..3u8 {
                let calls = Arc::new(AtomicUsize::new(0)); let c2 = calls.clone(); let pth = path.clone(); let b2 = bytes.clone();
                let r = catch(move || { let mut c = ModuleConfig::new(); c.on_parse(move |_, _| { c2.fetch_add(1, Ordering::SeqCst); Ok(()) });
                    match entry { 0 => Module::from_buffer_with_config(&b2, &c).is_ok(), 1 => c.parse_file(&pth).is_ok(), _ => Module::from_file_with_config(&pth, &c).is_ok() } });
                if let Some(ok) = r { let n = calls.load(Ordering::SeqCst); if (ok && n != 1) || (!ok && n != 0) { out.push(v("on-parse-call-count", "C14", format!("{}: parse callback ran {} times on a {} parse of a {} input through {}", name, n, if ok { "successful" } else { "failed" }, label, ["Module::from_buffer_with_config", "ModuleConfig::parse_file", "Module::from_file_with_config"][entry as usize]), &bytes, String::new(), String::new())); } }
            }
            let _ = std::fs::remove_file(&path);
        }
    }
}

/// C20: the round trip never escalates the features a module needs.
pub fn features(name: &str, wasm: &[u8], outb: &[u8], out: &mut Vec<Json>) {
    let full = env::walrus_features(false);
    let flags: [(&str, WasmFeatures); 12] = [("mutable-global", WasmFeatures::MUTABLE_GLOBAL), ("saturating-float-to-int", WasmFeatures::SATURATING_FLOAT_TO_INT), ("sign-extension", WasmFeatures::SIGN_EXTENSION), ("multi-value", WasmFeatures::MULTI_VALUE),
        ("reference-types", WasmFeatures::REFERENCE_TYPES), ("bulk-memory", WasmFeatures::BULK_MEMORY), ("simd", WasmFeatures::SIMD), ("relaxed-simd", WasmFeatures::RELAXED_SIMD), ("tail-call", WasmFeatures::TAIL_CALL), ("multi-memory", WasmFeatures::MULTI_MEMORY), ("memory64", WasmFeatures::MEMORY64), ("threads", WasmFeatures::THREADS)];
    let mut sets: Vec<(String, WasmFeatures)> = vec![];
    for (n, f) in flags.iter() { let mut s = full; s.remove(*f); sets.push((format!("all but {}", n), s)); }
    let mut mvp = WasmFeatures::empty(); mvp.insert(WasmFeatures::FLOATS); sets.push(("MVP".into(), mvp)); mvp.insert(WasmFeatures::MUTABLE_GLOBAL); sets.push(("MVP + mutable-global".into(), mvp));
    let mut s2 = mvp; s2.insert(WasmFeatures::SIGN_EXTENSION); s2.insert(WasmFeatures::SATURATING_FLOAT_TO_INT); s2.insert(WasmFeatures::MULTI_VALUE); sets.push(("MVP + mutable-global + sign-ext + sat-float + multi-value".into(), s2));
    // encodings (wasmparser 0.214 accepts the newer element encodings under every feature set, so these are compared directly):
    // a plain round trip keeps each element segment's encoding or moves it to the older one for table 0; no data-count section appears from nothing
    if let (Ok(a), Ok(b)) = (amod::decode(wasm), amod::decode(outb)) {
        if a.elem_flags.len() == b.elem_flags.len() { for (k, (fa, fb)) in a.elem_flags.iter().zip(&b.elem_flags).enumerate() { let ok = fa == fb || (*fa == 2 && *fb == 0) || (*fa == 6 && *fb == 4);
            if !ok { out.push(v("feature-escalation:element-encoding", "C20", format!("{}: element segment {} is encoded with flag {} in the input and flag {} in the output", name, k, fa, fb), wasm, crate::c03::hex(outb), String::new())); } } }
        if a.data_count.is_none() && b.data_count.is_some() && !a.data.iter().any(|d| matches!(d.kind, ADataKind::Passive)) && amod::validate(wasm, { let mut s = full; s.remove(WasmFeatures::BULK_MEMORY); s }).is_ok() { out.push(v("feature-escalation:data-count", "C20", format!("{}: a data-count section appears in the output of a module without passive data segments, memory.init or data.drop", name), wasm, crate::c03::hex(outb), String::new())); }
    }
    for (label, s) in sets {
        if amod::validate(wasm, s).is_ok() { if let Err(e) = amod::validate(outb, s) { out.push(v(&format!("feature-escalation:{}", label), "C20", format!("{}: the input validates under [{}] but the output does not: {}", name, label, e), wasm, crate::c03::hex(outb), String::new())); } }
    }
}

/// C19: the index maps exposed to extension code agree with the binaries.
pub fn index_maps(name: &str, wasm: &[u8], obs: &Observed, out: &mut Vec<Json>) {
    let (a, b, m) = (&obs.ain, &obs.aout, &obs.module);
    let mut bad = |what: String| out.push(v("index-map-wrong", "C19", format!("{}: {}", name, what), wasm, String::new(), String::new()));
    let cnt = |x: usize, y: usize, what: &str, bad: &mut dyn FnMut(String)| if x != y { bad(format!("parse-time map has {} {} but the input defines {}", x, what, y)); };
    cnt(obs.pm.types.len(), a.types.len(), "types", &mut bad); cnt(obs.pm.funcs.len(), n_imp(a, 0) + a.funcs.len(), "functions", &mut bad); cnt(obs.pm.tables.len(), n_imp(a, 1) + a.tables.len(), "tables", &mut bad);
    cnt(obs.pm.memories.len(), n_imp(a, 2) + a.mems.len(), "memories", &mut bad); cnt(obs.pm.globals.len(), n_imp(a, 3) + a.globals.len(), "globals", &mut bad); cnt(obs.pm.elements.len(), a.elems.len(), "element segments", &mut bad); cnt(obs.pm.data.len(), a.data.len(), "data segments", &mut bad);
    let wvt = |t: &walrus::ValType| -> wasmparser::ValType { match t { walrus::ValType::I32 => wasmparser::ValType::I32, walrus::ValType::I64 => wasmparser::ValType::I64, walrus::ValType::F32 => wasmparser::ValType::F32, walrus::ValType::F64 => wasmparser::ValType::F64, walrus::ValType::V128 => wasmparser::ValType::V128,
        walrus::ValType::Ref(walrus::RefType::Externref) => wasmparser::ValType::Ref(wasmparser::RefType::EXTERNREF), _ => wasmparser::ValType::Ref(wasmparser::RefType::FUNCREF) } };
    // parse-time: types by structure, functions by (import name | signature), tables/memories/globals by attributes, segments by payload, locals by type
    for (i, id) in obs.pm.types.iter().enumerate() { if let (Some(t), Some(want)) = (m.types.iter().find(|t| t.id().index() == *id), a.types.get(i)) { let got = (t.params().iter().map(wvt).collect::<Vec<_>>(), t.results().iter().map(wvt).collect::<Vec<_>>()); if &got != want { bad(format!("parse-time type index {} maps to a type with another signature", i)); } } }
    // two indices of one space never denote the same entity (types excepted: equal signatures are merged)
    for (what, ids) in [("function", &obs.pm.funcs), ("table", &obs.pm.tables), ("memory", &obs.pm.memories), ("global", &obs.pm.globals), ("element segment", &obs.pm.elements), ("data segment", &obs.pm.data)] {
        let mut seen = std::collections::HashMap::new(); for (i, id) in ids.iter().enumerate() { if let Some(j) = seen.insert(*id, i) { bad(format!("parse-time {} indices {} and {} map to the same entity", what, j, i)); } } }
    let fimps: Vec<_> = a.imports.iter().filter(|i| matches!(i.2, AImportKind::Func(_))).collect();
    for (i, id) in obs.pm.funcs.iter().enumerate() { if let Some(f) = m.funcs.iter().find(|f| f.id().index() == *id) { match &f.kind {
        FunctionKind::Import(im) => { let imp = m.imports.get(im.import);
            { let t = m.types.get(f.ty()); let got = (t.params().iter().map(wvt).collect::<Vec<_>>(), t.results().iter().map(wvt).collect::<Vec<_>>()); if i < fimps.len() && Some(got) != func_sig(a, i as u32) { bad(format!("parse-time function index {} maps to an imported function with another signature", i)); } }
            match fimps.get(i) { Some(w) => if w.0 != imp.module || w.1 != imp.name { bad(format!("parse-time function index {} maps to import {}.{} but the binary imports {}.{} there", i, imp.module, imp.name, w.0, w.1)); }, None => bad(format!("parse-time function index {} maps to an import but the binary defines a local function there", i)) } }
        FunctionKind::Local(l) => { if i < fimps.len() { bad(format!("parse-time function index {} maps to a local function but the binary imports a function there", i)); } else { let t = m.types.get(l.ty()); let got = (t.params().iter().map(wvt).collect::<Vec<_>>(), t.results().iter().map(wvt).collect::<Vec<_>>()); if Some(got) != func_sig(a, i as u32) { bad(format!("parse-time function index {} maps to a function with another signature", i)); }
            // locals: params then declared, by type
            if obs.pm.locals.get(id).is_none() { if let Some(body) = a.code.get(i - fimps.len()) { let n = func_sig(a, i as u32).map(|s| s.0.len()).unwrap_or(0) + body.locals.iter().map(|(c, _)| *c as usize).sum::<usize>(); if n > 0 { bad(format!("parse-time local map of function {} is empty inside the on_parse callback although the function has {} parameters and declared locals", i, n)); } } }
            if let (Some(ls), Some(body)) = (obs.pm.locals.get(id), a.code.get(i - fimps.len())) { let mut want: Vec<wasmparser::ValType> = func_sig(a, i as u32).map(|s| s.0).unwrap_or_default(); for (c, t) in &body.locals { for _ in 0..*c { want.push(*t); } }
                let got: Vec<wasmparser::ValType> = ls.iter().map(|l| wvt(&m.locals.iter().find(|x| x.id().index() == *l).unwrap().ty())).collect(); if got != want { bad(format!("parse-time local map of function {} does not list params then declared locals", i)); } } } }
        _ => {} } } }
    for (i, id) in obs.pm.data.iter().enumerate() { if let (Some(d), Some(w)) = (m.data.iter().find(|d| d.id().index() == *id), a.data.get(i)) { if d.value != w.bytes { bad(format!("parse-time data index {} maps to a segment with another payload", i)); } } }
    for (i, id) in obs.pm.globals.iter().enumerate() { if let Some(g) = m.globals.iter().find(|g| g.id().index() == *id) { let ni = n_imp(a, 3); let want = if i < ni { a.imports.iter().filter_map(|x| if let AImportKind::Global(g) = &x.2 { Some((g.ty, g.mutable)) } else { None }).nth(i) } else { a.globals.get(i - ni).map(|g| (g.ty, g.mutable)) };
        if Some((wvt(&g.ty), g.mutable)) != want { bad(format!("parse-time global index {} maps to a global of another type", i)); } } }
    for (i, id) in obs.pm.memories.iter().enumerate() { if let Some(g) = m.memories.iter().find(|g| g.id().index() == *id) { let ni = n_imp(a, 2); let want = if i < ni { a.imports.iter().filter_map(|x| if let AImportKind::Mem(g) = &x.2 { Some((g.initial, g.maximum, g.shared, g.memory64)) } else { None }).nth(i) } else { a.mems.get(i - ni).map(|g| (g.initial, g.maximum, g.shared, g.memory64)) };
        if Some((g.initial, g.maximum, g.shared, g.memory64)) != want { bad(format!("parse-time memory index {} maps to a memory with other attributes", i)); } } }
    for (i, id) in obs.pm.tables.iter().enumerate() { if let Some(g) = m.tables.iter().find(|g| g.id().index() == *id) { let ni = n_imp(a, 1); let want = if i < ni { a.imports.iter().filter_map(|x| if let AImportKind::Table(g) = &x.2 { Some((g.initial, g.maximum, g.table64)) } else { None }).nth(i) } else { a.tables.get(i - ni).map(|g| (g.initial, g.maximum, g.table64)) };
        if Some((g.initial, g.maximum, g.table64)) != want { bad(format!("parse-time table index {} maps to a table with other attributes", i)); } } }
    emit_maps(name, wasm, m, &obs.em, b, out);
}

/// C19, emit-time half: what sits at the index the map reports, in the emitted binary `b`
pub fn emit_maps(name: &str, wasm: &[u8], m: &Module, em: &crate::irdump::EmitMaps, b: &AMod, out: &mut Vec<Json>) {
    let mut bad = |what: String| out.push(v("index-map-wrong", "C19", format!("{}: {}", name, what), wasm, String::new(), String::new()));
    let wvt = |t: &walrus::ValType| -> wasmparser::ValType { match t { walrus::ValType::I32 => wasmparser::ValType::I32, walrus::ValType::I64 => wasmparser::ValType::I64, walrus::ValType::F32 => wasmparser::ValType::F32, walrus::ValType::F64 => wasmparser::ValType::F64, walrus::ValType::V128 => wasmparser::ValType::V128,
        walrus::ValType::Ref(walrus::RefType::Externref) => wasmparser::ValType::Ref(wasmparser::RefType::EXTERNREF), _ => wasmparser::ValType::Ref(wasmparser::RefType::FUNCREF) } };
    // imported entities are identified by their import's (module, field): the k-th import of a kind in the emitted binary must be the
    // one the map sends to index k
    {   let kth = |kind: u8, k: usize| -> Option<(String, String)> { b.imports.iter().filter(|i| match (&i.2, kind) { (AImportKind::Func(_), 0) | (AImportKind::Table(_), 1) | (AImportKind::Mem(_), 2) | (AImportKind::Global(_), 3) => true, _ => false }).nth(k).map(|i| (i.0.clone(), i.1.clone())) };
        for im in m.imports.iter() { let (kind, ix) = match im.kind { ImportKind::Function(f) => (0u8, em.funcs.get(&f.index())), ImportKind::Table(t) => (1, em.tables.get(&t.index())), ImportKind::Memory(x) => (2, em.memories.get(&x.index())), ImportKind::Global(g) => (3, em.globals.get(&g.index())) };
            if let Some(ix) = ix { if kth(kind, *ix as usize) != Some((im.module.clone(), im.name.clone())) { bad(format!("the imported {} {}.{} is given emit-time index {}, but the emitted import section has {:?} there", ["function", "table", "memory", "global"][kind as usize], im.module, im.name, ix, kth(kind, *ix as usize))); } } } }
    // emit-time: what sits at the reported index in the emitted binary
    for f in m.funcs.iter() { if let Some(ix) = em.funcs.get(&f.id().index()) { let t = m.types.get(f.ty()); let got = (t.params().iter().map(wvt).collect::<Vec<_>>(), t.results().iter().map(wvt).collect::<Vec<_>>()); if Some(got) != func_sig(b, *ix) { bad(format!("emit-time index {} of function id {} holds a function with another signature", ix, f.id().index())); }
        let is_imp = matches!(f.kind, FunctionKind::Import(_)); if is_imp != ((*ix as usize) < n_imp(b, 0)) { bad(format!("emit-time index {} of function id {} is on the wrong side of the import boundary", ix, f.id().index())); } } else { bad(format!("function id {} has no emit-time index", f.id().index())); } }
    for d in m.data.iter() { match em.data.get(&d.id().index()) { Some(ix) => if b.data.get(*ix as usize).map(|x| &x.bytes) != Some(&d.value) { bad(format!("emit-time index {} of data id {} holds another payload", ix, d.id().index())); }, None => bad(format!("data id {} has no emit-time index", d.id().index())) } }
    for g in m.globals.iter() { match em.globals.get(&g.id().index()) { Some(ix) => { let ni = n_imp(b, 3); let got = if (*ix as usize) < ni { b.imports.iter().filter_map(|x| if let AImportKind::Global(g) = &x.2 { Some((g.ty, g.mutable)) } else { None }).nth(*ix as usize) } else { b.globals.get(*ix as usize - ni).map(|g| (g.ty, g.mutable)) }; if got != Some((wvt(&g.ty), g.mutable)) { bad(format!("emit-time index {} of global id {} holds a global of another type", ix, g.id().index())); } } None => bad(format!("global id {} has no emit-time index", g.id().index())) } }
    for g in m.memories.iter() { match em.memories.get(&g.id().index()) { Some(ix) => { let ni = n_imp(b, 2); let got = if (*ix as usize) < ni { b.imports.iter().filter_map(|x| if let AImportKind::Mem(g) = &x.2 { Some((g.initial, g.maximum, g.shared)) } else { None }).nth(*ix as usize) } else { b.mems.get(*ix as usize - ni).map(|g| (g.initial, g.maximum, g.shared)) }; if got != Some((g.initial, g.maximum, g.shared)) { bad(format!("emit-time index {} of memory id {} holds another memory", ix, g.id().index())); } } None => bad(format!("memory id {} has no emit-time index", g.id().index())) } }
    for g in m.tables.iter() { match em.tables.get(&g.id().index()) { Some(ix) => { let ni = n_imp(b, 1); let got = if (*ix as usize) < ni { b.imports.iter().filter_map(|x| if let AImportKind::Table(g) = &x.2 { Some((g.initial, g.maximum)) } else { None }).nth(*ix as usize) } else { b.tables.get(*ix as usize - ni).map(|g| (g.initial, g.maximum)) }; if got != Some((g.initial, g.maximum)) { bad(format!("emit-time index {} of table id {} holds another table", ix, g.id().index())); } } None => bad(format!("table id {} has no emit-time index", g.id().index())) } }
    for t in m.types.iter().filter(|t| !t.verif_is_for_function_entry()) { match em.types.get(&t.id().index()) { Some(ix) => { let got = (t.params().iter().map(wvt).collect::<Vec<_>>(), t.results().iter().map(wvt).collect::<Vec<_>>()); if b.types.get(*ix as usize) != Some(&got) { bad(format!("emit-time index {} of type id {} holds another signature", ix, t.id().index())); } } None => bad(format!("type id {} has no emit-time index", t.id().index())) } }
    for e in m.elements.iter() { match em.elements.get(&e.id().index()).and_then(|ix| b.elems.get(*ix as usize).map(|x| (*ix, x))) { None => bad(format!("element id {} has no valid emit-time index", e.id().index())),
        Some((ix, x)) => { let kind_ok = match (&e.kind, &x.kind) { (walrus::ElementKind::Passive, AElemKind::Passive) | (walrus::ElementKind::Declared, AElemKind::Declared) | (walrus::ElementKind::Active { .. }, AElemKind::Active { .. }) => true, _ => false };
            let n_ok = match (&e.items, &x.items) { (walrus::ElementItems::Functions(f), AElemItems::Funcs(g)) => f.len() == g.len() && f.iter().zip(g).all(|(id, j)| em.funcs.get(&id.index()) == Some(j)), (walrus::ElementItems::Expressions(_, f), AElemItems::Exprs(_, g)) => f.len() == g.len(), _ => false };
            if !kind_ok || !n_ok { bad(format!("emit-time index {} of element id {} holds another segment", ix, e.id().index())); } } } }
}

/// C19, emit-time half after a well-formed edit: one import of each kind is MOVED (its import entry deleted and re-created under another
/// name, so that the imports arena and the entity arenas no longer list the imported entities in the same order)
pub fn emit_maps_after_import_move(name: &str, wasm: &[u8], out: &mut Vec<Json>) {
    let r = catch(|| { let mut m = Module::from_buffer(wasm).ok()?;
        let mut moved = 0;
        for kind in 0..4u8 { let ims: Vec<ImportId> = m.imports.iter().filter(|i| matches!((&i.kind, kind), (ImportKind::Function(_), 0) | (ImportKind::Table(_), 1) | (ImportKind::Memory(_), 2) | (ImportKind::Global(_), 3))).map(|i| i.id()).collect();
            if ims.len() < 2 { continue; }
            let old = ims[0]; let (md, nm, k) = { let i = m.imports.get(old); (i.module.clone(), i.name.clone(), i.kind.clone()) };
            m.imports.delete(old);
            let new = match k { ImportKind::Function(f) => { let n = m.imports.add(&md, &format!("{}_moved", nm), f); if let FunctionKind::Import(i) = &mut m.funcs.get_mut(f).kind { i.import = n; } n }
                ImportKind::Table(t) => { let n = m.imports.add(&md, &format!("{}_moved", nm), t); m.tables.get_mut(t).import = Some(n); n }
                ImportKind::Memory(x) => { let n = m.imports.add(&md, &format!("{}_moved", nm), x); m.memories.get_mut(x).import = Some(n); n }
                ImportKind::Global(g) => { let n = m.imports.add(&md, &format!("{}_moved", nm), g); m.globals.get_mut(g).kind = GlobalKind::Import(n); n } };
            let _ = new; moved += 1; }
        if moved == 0 { return None; }
        Some(crate::body::observe_module(m)) });
    match r { Some(Some(Ok(oo))) => emit_maps(&format!("{} (after moving an import)", name), wasm, &oo.module, &oo.em, &oo.aout, out),
        Some(Some(Err(e))) => out.push(v("output-undecodable", "C02 C19", format!("{}: after moving an import the emitted module cannot be decoded: {}", name, e), wasm, String::new(), String::new())),
        Some(None) => {}, None => out.push(v("walrus-panics-on-valid-module", "C02 C19", format!("{}: moving an import then emitting panics", name), wasm, String::new(), String::new())) }
}

/// C19 / C04 / C02: entities imported through the API AFTER parsing sit behind the local ones in their arenas; emission still lists every entity exactly
/// once (imports first) and the emit-time maps agree with the binary
pub fn emit_maps_after_import_added(name: &str, wasm: &[u8], out: &mut Vec<Json>) {
    let a = match amod::decode(wasm) { Ok(a) => a, Err(_) => return };
    let r = catch(|| { let mut m = Module::from_buffer(wasm).ok()?;
        let ty = m.types.iter().next().map(|t| t.id());
        if let Some(ty) = ty { m.add_import_func("added", "f", ty); }
        m.add_import_table("added", "t", false, 1, Some(2), RefType::Funcref);
        m.add_import_memory("added", "m", false, false, 1, Some(2), None);
        let (g, _) = m.add_import_global("added", "g", ValType::I32, false, false);
        // the added entities carry debug names (C08 / C13: the name maps list them at their emitted index, in index order)
        m.globals.get_mut(g).name = Some("added_global".into());
        if let Some(t) = m.tables.iter().last().map(|t| t.id()) { m.tables.get_mut(t).name = Some("added_table".into()); }
        if let Some(x) = m.memories.iter().last().map(|x| x.id()) { m.memories.get_mut(x).name = Some("added_memory".into()); }
        Some((ty.is_some(), crate::body::observe_module(m))) });
    match r { Some(Some((with_f, Ok(oo)))) => { let what = format!("{} (after importing a function, a table, a memory and a global through the API)", name);
            emit_maps(&what, wasm, &oo.module, &oo.em, &oo.aout, out);
            let b = &oo.aout;
            let got = ((n_imp(b, 0), b.funcs.len()), (n_imp(b, 1), b.tables.len()), (n_imp(b, 2), b.mems.len()), (n_imp(b, 3), b.globals.len()));
            let want = ((n_imp(&a, 0) + with_f as usize, a.funcs.len()), (n_imp(&a, 1) + 1, a.tables.len()), (n_imp(&a, 2) + 1, a.mems.len()), (n_imp(&a, 3) + 1, a.globals.len()));
            if got != want { out.push(v("entities-duplicated-or-lost-after-import", "C19 C04 C02", format!("{}: (imported, local) counts of functions / tables / memories / globals are {:?}, expected {:?}", what, got, want), wasm, format!("{:?}", got), format!("{:?}", want))); }
            // names stay on their entities: an import added through the API is emitted behind the existing imports and in front of the local entities,
            // so every LOCAL entity moves up by one and takes its name along (C13 through the emit-time maps)
            { let (na, nb) = (entity_names(&a), entity_names(b)); let added = [with_f as u32, 1, 1, 1]; let kinds = ["function", "table", "memory", "global"];
              for k in 1..4 {   // functions are left out: walrus re-orders the local functions when it emits (C19's emit-time maps cover them)
                  let ni = n_imp(&a, k as u8) as u32; let mut want: BTreeMap<u32, String> = na[k].iter().filter(|(i, _)| match k { 0 => (**i as usize) < n_imp(&a, 0) + a.funcs.len(), 1 => (**i as usize) < n_imp(&a, 1) + a.tables.len(), 2 => (**i as usize) < n_imp(&a, 2) + a.mems.len(), _ => (**i as usize) < n_imp(&a, 3) + a.globals.len() }).map(|(i, n)| (if *i < ni { *i } else { *i + added[k] }, n.clone())).collect();
                  match k { 1 => { want.insert(ni, "added_table".into()); }, 2 => { want.insert(ni, "added_memory".into()); }, 3 => { want.insert(ni, "added_global".into()); }, _ => {} }
                  let got: BTreeMap<u32, String> = if k == 0 { nb[k].clone() } else { nb[k].clone() };
                  if got != want && !(k == 0 && !with_f && got == na[0]) { out.push(v("names-not-preserved", "C13 C19", format!("{}: {} names are {:?}, expected {:?}", what, kinds[k], got, want), wasm, format!("{:?}", got), format!("{:?}", want))); break; } } }
            fixpoint_of_output(&what, wasm, &oo.out, out); }
        Some(Some((_, Err(e)))) => out.push(v("output-undecodable", "C02 C19", format!("{}: after importing entities through the API the emitted module cannot be decoded: {}", name, e), wasm, String::new(), String::new())),
        Some(None) => {}, None => out.push(v("walrus-panics-on-valid-module", "C02 C19", format!("{}: importing entities through the API then emitting panics", name), wasm, String::new(), String::new())) }
}

/// the function / table / memory / global name maps of a decoded module's `name` section(s)
pub fn entity_names(a: &AMod) -> [BTreeMap<u32, String>; 4] {
    use wasmparser::{BinaryReader, Name, NameSectionReader};
    let mut n: [BTreeMap<u32, String>; 4] = Default::default();
    for c in a.customs.iter().filter(|c| c.0 == "name") { for s in NameSectionReader::new(BinaryReader::new(&c.1, 0, WasmFeatures::all())) {
        let (k, m) = match s { Ok(Name::Function(m)) => (0, m), Ok(Name::Table(m)) => (1, m), Ok(Name::Memory(m)) => (2, m), Ok(Name::Global(m)) => (3, m), _ => continue };
        for x in m.into_iter().filter_map(|x| x.ok()) { n[k].insert(x.index, x.name.to_string()); } } }
    n
}

/// the function-name map of a decoded module's `name` section(s)
pub fn function_names(a: &AMod) -> BTreeMap<u32, String> {
    use wasmparser::{BinaryReader, Name, NameSectionReader};
    let mut n = BTreeMap::new();
    for c in a.customs.iter().filter(|c| c.0 == "name") { for s in NameSectionReader::new(BinaryReader::new(&c.1, 0, WasmFeatures::all())) { if let Ok(Name::Function(m)) = s { for x in m.into_iter().filter_map(|x| x.ok()) { n.insert(x.index, x.name.to_string()); } } } }
    n
}

/// C13: debug names stay attached to the same entities.
/// `synthetic`: the module was parsed with generate_synthetic_names_for_anonymous_items(true): every NON-EMPTY input name must still be attached to the
/// corresponding entity; unnamed (or empty-named) entities may carry an invented name, so the converse checks are skipped
pub fn names(name: &str, wasm: &[u8], obs: &Observed, synthetic: bool, out: &mut Vec<Json>) {
    use wasmparser::{BinaryReader, Name, NameSectionReader};
    type NM = BTreeMap<u32, String>;
    #[derive(Default, Debug)] struct N { module: Option<String>, funcs: NM, locals: BTreeMap<u32, NM>, types: NM, tables: NM, mems: NM, globals: NM, elems: NM, data: NM }
    let read = |a: &AMod| -> Option<N> { if !a.customs.iter().any(|c| c.0 == "name") { return None; } let mut n = N::default(); for c in a.customs.iter().filter(|c| c.0 == "name") {
        let nm = |m: wasmparser::NameMap| -> NM { m.into_iter().filter_map(|x| x.ok()).map(|x| (x.index, x.name.to_string())).collect() };
        for s in NameSectionReader::new(BinaryReader::new(&c.1, 0, WasmFeatures::all())) { match s.ok()? { Name::Module { name, .. } => n.module = Some(name.to_string()), Name::Function(m) => n.funcs = nm(m), Name::Type(m) => n.types = nm(m), Name::Table(m) => n.tables = nm(m), Name::Memory(m) => n.mems = nm(m),
            Name::Global(m) => n.globals = nm(m), Name::Element(m) => n.elems = nm(m), Name::Data(m) => n.data = nm(m), Name::Local(l) => { for f in l { let f = f.ok()?; n.locals.insert(f.index, nm(f.names)); } } _ => {} } } } Some(n) };
    let (na, nb) = match (read(&obs.ain), read(&obs.aout)) { (Some(a), b) => (a, b.unwrap_or_default()), (None, _) => return };
    let mut bad = |what: String, o: String, e: String| out.push(v("names-not-preserved", "C13", format!("{}: {}", name, what), wasm, o, e));
    if na.module != nb.module && !(synthetic && na.module.is_none()) { bad("module name differs".into(), format!("{:?}", nb.module), format!("{:?}", na.module)); }
    let chk = |kind: &str, a: &NM, b: &NM, map: &dyn Fn(u32) -> Option<u32>, limit: usize, bad: &mut dyn FnMut(String, String, String)| {
        let mut want: NM = NM::new(); for (i, n) in a { if (*i as usize) < limit { if let Some(j) = map(*i) { want.insert(j, n.clone()); } } }   // later entries win when indices merge (type de-duplication)
        if kind == "type" { for (j, n) in b { if synthetic { continue; } let ok = a.iter().any(|(i, m)| map(*i) == Some(*j) && m == n); if !ok { bad(format!("{} {} carries name {:?} which no corresponding input {} has", kind, j, n, kind), String::new(), String::new()); } }
            for (i, _) in a { if let Some(j) = map(*i) { if !b.contains_key(&j) { bad(format!("{} {} lost its name", kind, i), String::new(), String::new()); } } } }
        else if synthetic { for (j, n) in &want { if !n.is_empty() && b.get(j) != Some(n) { bad(format!("{} {} lost or changed its name {:?} (synthetic names on)", kind, j, n), format!("{:?}", b.get(j)), format!("{:?}", n)); } } }
        else if &want != b { bad(format!("{} names differ", kind), format!("{:?}", b), format!("{:?}", want)); } };
    let rf = |i: u32| -> Option<u32> { let id = obs.pm.funcs.get(i as usize)?; obs.em.funcs.get(id).copied() };
    let rt = |i: u32| -> Option<u32> { let id = obs.pm.types.get(i as usize)?; obs.em.types.get(id).copied() };
    let idn = |i: u32| Some(i);
    let (a, _b) = (&obs.ain, &obs.aout);
    chk("function", &na.funcs, &nb.funcs, &rf, n_imp(a, 0) + a.funcs.len(), &mut bad);
    chk("type", &na.types, &nb.types, &rt, a.types.len(), &mut bad);
    chk("table", &na.tables, &nb.tables, &idn, n_imp(a, 1) + a.tables.len(), &mut bad);
    chk("memory", &na.mems, &nb.mems, &idn, n_imp(a, 2) + a.mems.len(), &mut bad);
    chk("global", &na.globals, &nb.globals, &idn, n_imp(a, 3) + a.globals.len(), &mut bad);
    chk("element", &na.elems, &nb.elems, &idn, a.elems.len(), &mut bad);
    chk("data", &na.data, &nb.data, &idn, a.data.len(), &mut bad);
    // no local name migrates: every name the OUTPUT attaches to a local of function j is a name the input attached to a local of the
    // corresponding function (same slot for parameters)
    if !synthetic {   let ni0 = n_imp(a, 0); let total = ni0 + a.funcs.len();
        for fi in 0..total as u32 { let fo = match rf(fi) { Some(x) => x, None => continue }; let outn = match nb.locals.get(&fo) { Some(x) => x, None => continue };
            let empty = NM::new(); let inn = na.locals.get(&fi).unwrap_or(&empty); let nparams = func_sig(a, fi).map(|s| s.0.len()).unwrap_or(0) as u32;
            for (slot, n) in outn { if *slot < nparams { if inn.get(slot) != Some(n) { bad(format!("output function {} (input function {}): parameter {} is named {:?} in the output, {:?} in the input", fo, fi, slot, n, inn.get(slot)), format!("{:?}", n), format!("{:?}", inn.get(slot))); } }
                else if !inn.values().any(|m| m == n) { bad(format!("output function {} (input function {}): local slot {} carries name {:?} which no local of that function has in the input", fo, fi, slot, n), format!("{:?}", n), String::new()); } } } }
    // locals: parameters keep their index; every emitted (= used or parameter) named local keeps its name.
    // Alignment of non-parameter locals through the operator streams: the k-th local.get/set/tee of the normal form.
    let ni = n_imp(a, 0);
    for (fi, lnames) in &na.locals { if (*fi as usize) < ni { continue; } let fo = match rf(*fi) { Some(x) => x, None => continue };
        let (bi, bo) = match (obs.ain.code.get(*fi as usize - ni), obs.aout.code.get(fo as usize - n_imp(&obs.aout, 0))) { (Some(x), Some(y)) => (x, y), _ => continue };
        let nparams = func_sig(a, *fi).map(|s| s.0.len()).unwrap_or(0) as u32;
        let outn = nb.locals.get(&fo).cloned().unwrap_or_default();
        for (li, n) in lnames { if synthetic && n.is_empty() { continue; } if *li < nparams && outn.get(li) != Some(n) { bad(format!("parameter {} of function {} lost or changed its name {:?}", li, fi, n), format!("{:?}", outn.get(li)), format!("{:?}", n)); } }
        let locs = |ops: &Vec<(Option<String>, usize, &'static str)>| -> Vec<u32> { crate::body::normal_form(ops).iter().filter_map(|t| { for p in ["WOp (W_LocalGet ", "WOp (W_LocalSet ", "WOp (W_LocalTee "] { if let Some(x) = t.strip_prefix(p) { return x.trim_end_matches(')').parse().ok(); } } None }).collect() };
        let (li, lo) = (locs(&bi.ops), locs(&bo.ops));
        if li.len() == lo.len() { for (x, y) in li.iter().zip(&lo) { if let Some(n) = lnames.get(x) { if synthetic && n.is_empty() { continue; } if outn.get(y) != Some(n) { bad(format!("local {} of function {} (named {:?}) is slot {} in the output, which is named {:?}", x, fi, n, y, outn.get(y)), format!("{:?}", outn.get(y)), format!("{:?}", n)); break; } } else if synthetic { continue; } else if let Some(m) = outn.get(y) { bad(format!("output slot {} of function {} carries name {:?} but the corresponding input local {} is unnamed", y, fo, m, x), m.clone(), String::new()); break; } } }
    }
}

/// Independent reachability on the decoded input (roots: exports, start, active data, active elements
/// of imported tables, declared elements), for C06/C07.
pub fn reachable(a: &AMod) -> (BTreeSet<u32>, BTreeSet<u32>, BTreeSet<u32>, BTreeSet<u32>, BTreeSet<u32>, BTreeSet<u32>) {
    let (mut f, mut t, mut m, mut g, mut d, mut e) = (BTreeSet::new(), BTreeSet::new(), BTreeSet::new(), BTreeSet::new(), BTreeSet::new(), BTreeSet::new());
    let mut todo: Vec<(u8, u32)> = vec![];
    for x in &a.exports { todo.push((x.1, x.2)); }
    if let Some(s) = a.start { todo.push((0, s)); }
    for (i, x) in a.data.iter().enumerate() { if matches!(x.kind, ADataKind::Active { .. }) { todo.push((5, i as u32)); } }
    let nt = n_imp(a, 1) as u32;
    for (i, x) in a.elems.iter().enumerate() { match &x.kind { AElemKind::Active { table, .. } => if table.unwrap_or(0) < nt { todo.push((6, i as u32)); }, AElemKind::Declared => todo.push((6, i as u32)), AElemKind::Passive => {} } }
    let const_refs = |c: &Vec<String>, todo: &mut Vec<(u8, u32)>| { for t in c { if let Some(x) = t.strip_prefix("W_RefFunc ") { if let Ok(i) = x.parse() { todo.push((0, i)); } } if let Some(x) = t.strip_prefix("W_GlobalGet ") { if let Ok(i) = x.parse() { todo.push((3, i)); } } } };
    let nf = n_imp(a, 0) as u32; let ng = n_imp(a, 3) as u32;
    while let Some((k, i)) = todo.pop() {
        let fresh = match k { 0 => f.insert(i), 1 => t.insert(i), 2 => m.insert(i), 3 => g.insert(i), 5 => d.insert(i), _ => e.insert(i) }; if !fresh { continue; }
        match k {
            0 => if i >= nf { if let Some(b) = a.code.get((i - nf) as usize) { let live = crate::body::live_mask(&b.ops); for (ok, o) in b.ops.iter().enumerate() { if !live[ok] { continue; } let args = crate::ops::op_args(o.2); if let Some(term) = &o.0 {
                // index immediates by argument name
                let toks: Vec<&str> = term.trim_start_matches("WOp (").trim_end_matches(')').split_whitespace().collect(); let mut pos = 1;
                for (an, at) in &args { if at.ends_with("MemArg") { if let Some(p) = term.find("wa_memory := ") { if let Ok(x) = term[p + 13..].split(|c: char| !c.is_ascii_digit()).next().unwrap_or("").parse() { todo.push((2, x)); } } pos += 9; continue; }
                    if at == "u32" { if let Some(tok) = toks.get(pos) { if let Ok(x) = tok.trim_matches(|c| c == '(' || c == ')').parse::<u32>() { match *an { "function_index" => todo.push((0, x)), "table_index" | "table" | "src_table" | "dst_table" => todo.push((1, x)), "mem" | "src_mem" | "dst_mem" => todo.push((2, x)), "global_index" => todo.push((3, x)), "data_index" => todo.push((5, x)), "elem_index" => todo.push((6, x)), _ => {} } } } }
                    pos += 1; } } } } },
            1 => for (j, x) in a.elems.iter().enumerate() { if let AElemKind::Active { table, .. } = &x.kind { if table.unwrap_or(0) == i { todo.push((6, j as u32)); } } },
            2 => for (j, x) in a.data.iter().enumerate() { if let ADataKind::Active { memory, .. } = &x.kind { if *memory == i { todo.push((5, j as u32)); } } },
            3 => if i >= ng { if let Some(gl) = a.globals.get((i - ng) as usize) { if let Some(c) = &gl.init { const_refs(c, &mut todo); } } },
            5 => if let Some(x) = a.data.get(i as usize) { if let ADataKind::Active { memory, offset } = &x.kind { todo.push((2, *memory)); const_refs(offset, &mut todo); } },
            _ => if let Some(x) = a.elems.get(i as usize) { match &x.items { AElemItems::Funcs(fs) => for y in fs { todo.push((0, *y)); }, AElemItems::Exprs(_, es) => for c in es { const_refs(c, &mut todo); } } if let AElemKind::Active { table, offset } = &x.kind { todo.push((1, table.unwrap_or(0))); const_refs(offset, &mut todo); } },
        }
    }
    (f, t, m, g, d, e)
}

/// For an "undeclared function reference" after GC: is it explained by the recorded finding, i.e. does the input
/// contain a `ref.func f` in reachable live code such that every element segment / global initialiser that
/// declares f is unreachable from the roots (so the pass legitimately drops it) and f is not exported?
/// Computed on the INPUT with the independent reachability analysis.
pub fn orphaned_reffuncs(a: &AMod) -> Vec<u32> {
    let (f, _t, _m, g, _d, e) = reachable(a);
    let nf = n_imp(a, 0) as u32; let ng = n_imp(a, 3) as u32;
    let mut refd: BTreeSet<u32> = BTreeSet::new();
    for i in &f { if *i >= nf { if let Some(b) = a.code.get((*i - nf) as usize) { let live = crate::body::live_mask(&b.ops); for (k, o) in b.ops.iter().enumerate() { if !live[k] { continue; } if let Some(t) = &o.0 { if let Some(p) = t.find("W_RefFunc ") { if let Ok(x) = t[p + 10..].split(|c: char| !c.is_ascii_digit()).next().unwrap_or("").parse::<u32>() { refd.insert(x); } } } } } } }
    let const_decl = |c: &Vec<String>, x: u32| c.iter().any(|t| t.strip_prefix("W_RefFunc ").and_then(|y| y.parse::<u32>().ok()) == Some(x));
    refd.into_iter().filter(|x| {
        let exported = a.exports.iter().any(|ex| ex.1 == 0 && ex.2 == *x);
        let by_elem = a.elems.iter().enumerate().any(|(j, el)| e.contains(&(j as u32)) && match &el.items { AElemItems::Funcs(fs) => fs.contains(x), AElemItems::Exprs(_, es) => es.iter().any(|c| const_decl(c, *x)) });
        let by_global = a.globals.iter().enumerate().any(|(j, gl)| g.contains(&(j as u32 + ng)) && gl.init.as_ref().map(|c| const_decl(c, *x)).unwrap_or(false));
        !exported && !by_elem && !by_global }).collect()
}
/// functions that some function body of the module (reachable or not) takes a `ref.func` of in live code and that no export, element segment
/// or global initialiser of the module declares: what the validator reports as "undeclared function reference"
pub fn undeclared_reffuncs_all(a: &AMod) -> Vec<u32> {
    let mut refd: BTreeSet<u32> = BTreeSet::new();
    for b in &a.code { let live = crate::body::live_mask(&b.ops); for (k, o) in b.ops.iter().enumerate() { if !live[k] { continue; } if let Some(t) = &o.0 { if let Some(p) = t.find("W_RefFunc ") { if let Ok(x) = t[p + 10..].split(|c: char| !c.is_ascii_digit()).next().unwrap_or("").parse::<u32>() { refd.insert(x); } } } } }
    let const_decl = |c: &Vec<String>, x: u32| c.iter().any(|t| t.strip_prefix("W_RefFunc ").and_then(|y| y.parse::<u32>().ok()) == Some(x));
    refd.into_iter().filter(|x| {
        let exported = a.exports.iter().any(|ex| ex.1 == 0 && ex.2 == *x);
        let by_elem = a.elems.iter().any(|el| match &el.items { AElemItems::Funcs(fs) => fs.contains(x), AElemItems::Exprs(_, es) => es.iter().any(|c| const_decl(c, *x)) });
        let by_global = a.globals.iter().any(|gl| gl.init.as_ref().map(|c| const_decl(c, *x)).unwrap_or(false));
        !exported && !by_elem && !by_global }).collect()
}
pub fn undeclared_class(a: &AMod) -> &'static str {
    if orphaned_reffuncs(a).is_empty() { "gc-output-invalid:undeclared-function-reference:no-declarer-was-unreachable" } else { "gc-output-invalid:undeclared-function-reference:every-declarer-unreachable" }
}

/// C06 (validity + exports), C07 (precision, idempotence) of the GC pass.
pub fn gc(name: &str, wasm: &[u8], out: &mut Vec<Json>) {
    let feats = env::walrus_features(false);
    let a = match amod::decode(wasm) { Ok(a) => a, Err(_) => return };
    let r = catch(|| { let mut m = Module::from_buffer(wasm).ok()?; passes::gc::run(&mut m); let o1 = m.emit_wasm(); passes::gc::run(&mut m); let o2 = m.emit_wasm(); Some((o1, o2)) });
    let (o1, o2) = match r { Some(Some(x)) => x, Some(None) => return, None => { out.push(v("gc-panics", "C06 C02", format!("{}: gc + emit panics", name), wasm, String::new(), String::new())); return; } };
    if let Err(e) = amod::validate(&o1, feats) { let class = if e.contains("undeclared function reference") { undeclared_class(&a) } else { "gc-output-invalid" };
        out.push(v(class, "C06 C02", format!("{}: module is invalid after gc: {}", name, e), wasm, crate::c03::hex(&o1), String::new())); }
    // roots contributed by a CUSTOM SECTION (CustomSection::add_gc_roots): with every export, the start function and every segment-independent root gone,
    // a custom section roots every local function, table, memory and global - everything they refer to must be kept: emit must not panic, the output validates,
    // and no rooted function is lost
    { #[derive(Debug)] struct RootAll { funcs: Vec<FunctionId>, tables: Vec<TableId>, mems: Vec<MemoryId>, globals: Vec<GlobalId> }
      impl CustomSection for RootAll { fn name(&self) -> &str { "verif-root-all" } fn data(&self, _: &IdsToIndices) -> std::borrow::Cow<[u8]> { std::borrow::Cow::Borrowed(&[]) }
          fn add_gc_roots(&self, roots: &mut passes::Roots) { for f in &self.funcs { roots.push_func(*f); } for t in &self.tables { roots.push_table(*t); } for x in &self.mems { roots.push_memory(*x); } for g in &self.globals { roots.push_global(*g); } } }
      let r = catch(|| { let mut m = Module::from_buffer(wasm).ok()?; let ex: Vec<_> = m.exports.iter().map(|e| e.id()).collect(); for e in ex { m.exports.delete(e); } m.start = None;
            let funcs: Vec<FunctionId> = m.funcs.iter_local().map(|(id, _)| id).collect(); let n = funcs.len();
            m.customs.add(RootAll { funcs, tables: m.tables.iter().map(|t| t.id()).collect(), mems: m.memories.iter().map(|x| x.id()).collect(), globals: m.globals.iter().map(|g| g.id()).collect() });
            passes::gc::run(&mut m); let kept = m.funcs.iter_local().count(); Some((m.emit_wasm(), n, kept)) });
      match r { None => out.push(v("gc-panics", "C06 C02", format!("{}: gc + emit panics when a custom section roots every local function, table, memory and global", name), wasm, String::new(), String::new())),
          Some(Some((o, n, kept))) => { if kept != n { out.push(v("gc-drops-reachable", "C06", format!("{}: a custom section roots {} local functions, {} are left after gc", name, n, kept), wasm, String::new(), String::new())); }
              if let Err(e) = amod::validate(&o, feats) { if !e.contains("undeclared function reference") || undeclared_class(&a) != "gc-output-invalid:undeclared-function-reference:every-declarer-unreachable" { out.push(v("gc-output-invalid", "C06 C02", format!("{}: module is invalid after gc with roots from a custom section: {}", name, e), wasm, crate::c03::hex(&o), String::new())); } } }
          _ => {} } }
    // the emit-time maps seen by a custom section when the module is emitted after the pass (C19)
    if let Some(Some(Ok(oo))) = catch(|| { let mut m = Module::from_buffer(wasm).ok()?; passes::gc::run(&mut m); Some(crate::body::observe_module(m)) }) { emit_maps(&format!("{} (after gc)", name), wasm, &oo.module, &oo.em, &oo.aout, out); }
    let b = match amod::decode(&o1) { Ok(b) => b, Err(_) => return };
    if a.exports.iter().map(|e| (&e.0, e.1)).collect::<Vec<_>>() != b.exports.iter().map(|e| (&e.0, e.1)).collect::<Vec<_>>() { out.push(v("gc-changes-exports", "C06", format!("{}: exports differ after gc", name), wasm, format!("{:?}", b.exports), format!("{:?}", a.exports))); }
    // idempotence: a second run changes nothing (customs are compared by C12)
    let strip = |x: &[u8]| amod::decode(x).ok().map(|mut m| { m.customs.clear(); m.sections.retain(|s| !s.starts_with("custom")); for f in m.code.iter_mut() { f.range = (0, 0); f.entry_start = 0; for o in f.ops.iter_mut() { o.1 = 0; } } m.code_section = None; m });
    if strip(&o1) != strip(&o2) { out.push(v("gc-not-idempotent", "C07", format!("{}: a second gc run changes the module", name), wasm, crate::c03::hex(&o2), crate::c03::hex(&o1))); }
    // precision and completeness against independent reachability on the INPUT
    let (f, t, m, g, d, e) = reachable(&a);
    let mem_residue = if !d.is_empty() && m.is_empty() && (n_imp(&a, 2) + a.mems.len()) > 0 { 1 } else { 0 };
    let got = (n_imp(&b, 0) + b.funcs.len(), n_imp(&b, 1) + b.tables.len(), n_imp(&b, 2) + b.mems.len(), n_imp(&b, 3) + b.globals.len(), b.data.len(), b.elems.len());
    // functions that a kept body takes a reference of (`ref.func`) while everything that declared them is unreachable: the pass declares
    // exactly those in ONE new declared element segment (a root by definition), appended after the kept segments
    let orphans = orphaned_reffuncs(&a); let declares = if orphans.is_empty() { 0 } else { 1 };
    let want = (f.len(), t.len(), m.len() + mem_residue, g.len(), d.len(), e.len() + declares);
    if declares == 1 && b.elems.len() == e.len() + 1 {
        let ok = match b.elems.last() { Some(crate::amod::AElem { kind: crate::amod::AElemKind::Declared, items: AElemItems::Funcs(fs), .. }) => { let mut b2 = b.clone(); b2.elems.pop(); let mut o = orphaned_reffuncs(&b2); o.sort(); let mut fs = fs.clone(); fs.sort(); fs == o && fs.len() == orphans.len() }, _ => false };
        if !ok { out.push(v("gc-declares-wrong-functions", "C06 C07", format!("{}: the element segment added by gc is not a declared segment listing exactly the {} functions that would otherwise be undeclared", name, orphans.len()), wasm, format!("{:?}", b.elems.last()), format!("{:?}", orphans))); }
    }
    if got != want {
        let class = if got.0 > want.0 || got.1 > want.1 || got.2 > want.2 || got.3 > want.3 || got.4 > want.4 || got.5 > want.5 { "gc-keeps-unreachable" } else { "gc-drops-reachable" };
        out.push(v(class, if class == "gc-keeps-unreachable" { "C07" } else { "C06 C07" }, format!("{}: after gc the module has (funcs, tables, memories, globals, data, elements) = {:?}; reachable from the roots: {:?}", name, got, want), wasm, format!("{:?}", got), format!("{:?}", want)));
    }
    // types: exactly the types of kept functions, call_indirect types and multi-value block types
    if got.0 == want.0 { let mut used: BTreeSet<(Vec<wasmparser::ValType>, Vec<wasmparser::ValType>)> = BTreeSet::new();
        for i in 0..got.0 as u32 { if let Some(s) = func_sig(&b, i) { used.insert(s); } }
        for body in &b.code { for o in &body.ops { if let Some(t) = &o.0 { for p in ["BT_Func ", "W_CallIndirect ", "W_ReturnCallIndirect "] { if let Some(k) = t.find(p) { if let Ok(ix) = t[k + p.len()..].split(|c: char| !c.is_ascii_digit()).next().unwrap_or("").parse::<usize>() { if let Some(s) = b.types.get(ix) { used.insert(s.clone()); } } } } } } }
        let have: BTreeSet<_> = b.types.iter().cloned().collect();
        if have != used { out.push(v("gc-keeps-unused-type", "C07", format!("{}: after gc the type section has {} types, {} are used", name, have.len(), used.len()), wasm, String::new(), String::new())); } }
}

/// C19 / C17 (lookups by identity, by name, by kind): `get_exported_*`, `get_imported_func`, `funcs.by_name`, `tables.main_function_table`, `iter_local_mut`,
/// `types.params_results`, `exports.remove_root` agree with the decoded binary read through the parse-time index maps
pub fn lookups(name: &str, wasm: &[u8], out: &mut Vec<Json>) {
    let a = match amod::decode(wasm) { Ok(a) => a, Err(_) => return };
    let r = catch(|| -> Option<Vec<String>> {
        let mut cfg = ModuleConfig::new(); cfg.generate_producers_section(false);
        let (mut m, pm) = crate::irdump::parse_with_maps(wasm, &mut cfg).ok()?; let mut bad: Vec<String> = vec![];
        let first_export = |k: u8, i: usize| a.exports.iter().find(|e| e.1 == k && e.2 as usize == i).map(|e| e.0.clone());
        // exports by the identity of what they export: the FIRST export of that entity, none if it is not exported
        for (i, ix) in pm.funcs.iter().enumerate() { let id = m.funcs.iter().find(|f| f.id().index() == *ix)?.id(); let got = m.exports.get_exported_func(id).map(|e| e.name.clone()); if got != first_export(0, i) { bad.push(format!("get_exported_func(function {}) = {:?}, the binary's first export of it is {:?}", i, got, first_export(0, i))); } }
        for (i, ix) in pm.tables.iter().enumerate() { let id = m.tables.iter().find(|f| f.id().index() == *ix)?.id(); let got = m.exports.get_exported_table(id).map(|e| e.name.clone()); if got != first_export(1, i) { bad.push(format!("get_exported_table(table {}) = {:?}, expected {:?}", i, got, first_export(1, i))); } }
        for (i, ix) in pm.memories.iter().enumerate() { let id = m.memories.iter().find(|f| f.id().index() == *ix)?.id(); let got = m.exports.get_exported_memory(id).map(|e| e.name.clone()); if got != first_export(2, i) { bad.push(format!("get_exported_memory(memory {}) = {:?}, expected {:?}", i, got, first_export(2, i))); } }
        for (i, ix) in pm.globals.iter().enumerate() { let id = m.globals.iter().find(|f| f.id().index() == *ix)?.id(); let got = m.exports.get_exported_global(id).map(|e| e.name.clone()); if got != first_export(3, i) { bad.push(format!("get_exported_global(global {}) = {:?}, expected {:?}", i, got, first_export(3, i))); } }
        // imports by the function they import
        let imp_funcs: Vec<(String, String)> = a.imports.iter().filter(|i| matches!(i.2, AImportKind::Func(_))).map(|i| (i.0.clone(), i.1.clone())).collect();
        for (i, ix) in pm.funcs.iter().enumerate() { let id = m.funcs.iter().find(|f| f.id().index() == *ix)?.id(); let got = m.imports.get_imported_func(id).map(|im| (im.module.clone(), im.name.clone())); let want = imp_funcs.get(i).cloned();
            if got != want { bad.push(format!("get_imported_func(function {}) = {:?}, the binary imports it as {:?}", i, got, want)); } }
        // by_name: the first function (in index order) carrying that name; an absent name resolves to nothing
        let named: Vec<(usize, String)> = pm.funcs.iter().enumerate().filter_map(|(i, ix)| m.funcs.iter().find(|f| f.id().index() == *ix).and_then(|f| f.name.clone()).map(|n| (i, n))).collect();
        for (i, n) in &named { let first = named.iter().find(|x| &x.1 == n).map(|x| x.0); let got = m.funcs.by_name(n).and_then(|id| pm.funcs.iter().position(|ix| *ix == id.index())); if got != first { bad.push(format!("funcs.by_name({:?}) = function {:?}, the first function with that name is {:?} (asked for function {})", n, got, first, i)); } }
        if m.funcs.by_name("a-name-no-function-has\u{1}").is_some() { bad.push("funcs.by_name of an absent name resolves to a function".into()); }
        // main_function_table: none / the only funcref table / an error for two
        let n_func_tables = a.imports.iter().filter(|i| matches!(&i.2, AImportKind::Table(t) if t.elem == "funcref")).count() + a.tables.iter().filter(|t| t.elem == "funcref").count();
        let all_tables: Vec<&crate::amod::ATable> = a.imports.iter().filter_map(|i| if let AImportKind::Table(t) = &i.2 { Some(t) } else { None }).chain(a.tables.iter()).collect();
        match (n_func_tables, m.tables.main_function_table()) { (0, Ok(None)) => {}, (1, Ok(Some(id))) => { let want = all_tables.iter().position(|t| t.elem == "funcref").map(|k| pm.tables[k]); if Some(id.index()) != want { bad.push(format!("main_function_table = table id {}, the only funcref table has id {:?}", id.index(), want)); } },
            (n, Err(_)) if n >= 2 => {}, (n, r) => bad.push(format!("main_function_table = {:?} for a module with {} funcref tables", r.map(|o| o.map(|i| i.index())).map_err(|e| e.to_string()), n)) }
        // the local functions: shared and mutable iteration agree with each other and with the code section
        let l1: Vec<usize> = m.funcs.iter_local().map(|(id, _)| id.index()).collect(); let l2: Vec<usize> = m.funcs.iter_local_mut().map(|(id, _)| id.index()).collect();
        let ni = imp_funcs.len(); let want: Vec<usize> = pm.funcs[ni.min(pm.funcs.len())..].to_vec(); let mut l1s = l1.clone(); l1s.sort(); let mut ws = want.clone(); ws.sort();
        if l1 != l2 || l1s != ws { bad.push(format!("iter_local yields function ids {:?}, iter_local_mut {:?}, the locally defined functions are {:?}", l1, l2, want)); }
        // params_results of every type
        for (i, ix) in pm.types.iter().enumerate() { if let Some(t) = m.types.iter().find(|t| t.id().index() == *ix) { let (p, q) = m.types.params_results(t.id()); let vs = |x: &wasmparser::ValType| -> String { match x { wasmparser::ValType::Ref(r) if *r == wasmparser::RefType::FUNCREF => "funcref".into(), wasmparser::ValType::Ref(r) if *r == wasmparser::RefType::EXTERNREF => "externref".into(), o => format!("{:?}", o).to_lowercase() } }; let wp: Vec<String> = a.types[i].0.iter().map(vs).collect(); let wq: Vec<String> = a.types[i].1.iter().map(vs).collect();
            let gp: Vec<String> = p.iter().map(|x| format!("{}", x)).collect(); let gq: Vec<String> = q.iter().map(|x| format!("{}", x)).collect(); if gp != wp || gq != wq { bad.push(format!("types.params_results(type {}) = {:?} -> {:?}, the binary says {:?} -> {:?}", i, gp, gq, wp, wq)); } } }
        // remove_root (deprecated alias of delete): exactly that export goes
        let mid = m.exports.iter().map(|e| e.id()).nth(a.exports.len() / 2); if let Some(e) = mid { #[allow(deprecated)] m.exports.remove_root(e); let o = m.emit_wasm(); let b = amod::decode(&o).ok()?; let mut want: Vec<String> = a.exports.iter().map(|x| x.0.clone()).collect(); want.remove(a.exports.len() / 2); let got: Vec<String> = b.exports.iter().map(|x| x.0.clone()).collect();
            if got != want { bad.push(format!("after exports.remove_root of export {} the exports are {:?}, expected {:?}", a.exports.len() / 2, got, want)); } }
        Some(bad) });
    match r { Some(Some(bad)) => for b in bad.into_iter().take(3) { out.push(v("lookup-wrong", "C19 C17", format!("{}: {}", name, b), wasm, String::new(), String::new())); },
        Some(None) => {}, None => out.push(v("lookup-panics", "C19 C17 C02", format!("{}: a lookup by identity / name / kind panics", name), wasm, String::new(), String::new())) }
}

/// C14 (a module made with Module::with_config instead of a parse): the switches act on it the same way
pub fn with_config_switches(out: &mut Vec<Json>) {
    static DONE: std::sync::atomic::AtomicBool = std::sync::atomic::AtomicBool::new(false);
    if DONE.swap(true, std::sync::atomic::Ordering::SeqCst) { return; }
    for names in [false, true] { for prod in [false, true] {
        let r = catch(|| { let mut c = ModuleConfig::new(); c.generate_name_section(names).generate_producers_section(prod); let mut m = Module::with_config(c);
            let mut b = walrus::FunctionBuilder::new(&mut m.types, &[], &[]); b.name("made".to_string()); b.func_body().i32_const(1).drop(); let f = b.finish(vec![], &mut m.funcs); m.exports.add("made", f); m.name = Some("mod".into()); m.producers.add_sdk("verif-sdk", "1");   // something for the producers section to hold (nothing was parsed, so walrus has not recorded itself)
            let o = m.emit_wasm(); let o2 = m.emit_wasm(); (o, o2) });
        match r { None => out.push(v("with-config-panics", "C14 C02", format!("Module::with_config(names={}, producers={}): build or emit panics", names, prod), &[], String::new(), String::new())),
            Some((o, o2)) => match amod::decode(&o) { Err(e) => out.push(v("with-config-output-undecodable", "C14 C02", format!("Module::with_config(names={}, producers={}): {}", names, prod, e), &o, String::new(), String::new())),
                Ok(b) => { let has = |n: &str| b.sections.iter().filter(|s| *s == n).count();
                    if has("custom:name") != names as usize || has("custom:producers") != prod as usize || o != o2 || amod::validate(&o, env::walrus_features(false)).is_err() || b.exports.len() != 1 || b.code.len() != 1 {
                        out.push(v("config-switch-wrong", "C14", format!("Module::with_config(generate_name_section({}), generate_producers_section({})): the emitted sections are {:?}", names, prod, b.sections), &o, String::new(), String::new())); } } } } } }
}

pub fn all_module_oracles(name: &str, wasm: &[u8], out: &mut Vec<Json>) {
    let feats = env::walrus_features(false);
    if amod::validate(wasm, feats).is_err() { return; }
    let mut mcfg = ModuleConfig::new(); mcfg.generate_producers_section(false);
    match catch(|| observe(wasm, &mut mcfg)) {
        Some(Ok(obs)) => { structure(name, wasm, &obs, out); index_maps(name, wasm, &obs, out); names(name, wasm, &obs, false, out); features(name, wasm, &obs.out, out); }
        Some(Err(e)) => if e.starts_with("parse:") { out.push(v("walrus-rejects-valid-module", "C05", format!("{}: {}", name, e), wasm, String::new(), String::new())) } else { out.push(v("output-undecodable", "C02", format!("{}: emitted module cannot be decoded: {}", name, e), wasm, String::new(), String::new())) },
        None => out.push(v("walrus-panics-on-valid-module", "C02 C05", format!("{}: parse or emit panics", name), wasm, String::new(), String::new())),
    }
    // names again with synthetic names switched on: every real name of the input stays where it was
    { let mut scfg = ModuleConfig::new(); scfg.generate_producers_section(false).generate_synthetic_names_for_anonymous_items(true); if let Some(Ok(obs)) = catch(|| observe(wasm, &mut scfg)) { names(&format!("{} (synthetic names on)", name), wasm, &obs, true, out); } }
    with_config_switches(out); lookups(name, wasm, out); index_maps_under_conventional_names(name, wasm, out); customs(name, wasm, out); customs_added_debug_named(name, wasm, out); customs_remove_raw(name, wasm, out); customs_typed(name, wasm, out); determinism(name, wasm, out); config(name, wasm, out); gc(name, wasm, out); emit_maps_after_import_move(name, wasm, out); emit_maps_after_import_added(name, wasm, out);
}
