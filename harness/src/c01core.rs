//! C01, integer core: generated functions over the operators that Model/SemCore.v interprets (i32 / i64 arithmetic, comparisons,
//! locals, globals, drop / select, block / loop / if / br / br_if / br_table / return / unreachable, nop, dead code), written both as a
//! wasm module (wasm-encoder) and as a Coq term (`list rt`).  node executes the input and walrus's output; the Coq interpreter
//! evaluates the term on the same arguments; the driver compares all three.  Loops are counter-bounded so that every call terminates.
use crate::rng::Rng;
use crate::util::{catch, Json};
use wasm_encoder as we;
use we::Instruction as I;

#[derive(Clone, Copy, PartialEq, Debug)]
enum T { I32, I64 }
fn vt(t: T) -> we::ValType { match t { T::I32 => we::ValType::I32, T::I64 => we::ValType::I64 } }
fn coq_vt(t: T) -> &'static str { match t { T::I32 => "VT_I32", T::I64 => "VT_I64" } }

/// function types available as block types (index = position); 0 is reserved for the function itself
fn block_types() -> Vec<(Vec<T>, Vec<T>)> {
    vec![(vec![T::I32], vec![T::I32]), (vec![T::I32, T::I32], vec![T::I32]), (vec![], vec![T::I32, T::I64]), (vec![T::I64], vec![T::I32]), (vec![T::I32], vec![])]
}

struct G<'a> { r: &'a mut Rng, params: Vec<T>, locals: Vec<T>, n_counters: usize, counters_used: usize, results: Vec<T>, btys: Vec<(Vec<T>, Vec<T>)>, budget: usize, dead_ops: usize, n_loops: usize, n_br: usize }
#[derive(Clone)]
struct Label { tys: Vec<T>, is_loop: bool }

/// one generated instruction: wasm + Coq text
struct Out { w: Vec<I<'static>>, c: Vec<String> }
impl Out { fn new() -> Out { Out { w: vec![], c: vec![] } }
    fn op(&mut self, i: I<'static>, c: &str) { self.w.push(i); self.c.push(format!("RPlain ({}) 0", c)); } }

impl<'a> G<'a> {
    fn local_of(&mut self, t: T) -> u32 {
        let all: Vec<(usize, T)> = self.params.iter().cloned().chain(self.locals.iter().cloned()).enumerate().collect();
        let n_all = all.len(); let first_counter = n_all - self.n_counters;
        let c: Vec<u32> = all.iter().filter(|(i, x)| *x == t && *i < first_counter).map(|(i, _)| *i as u32).collect();
        *self.r.pick(&c)
    }
    fn konst(&mut self, o: &mut Out, t: T) {
        match t {
            T::I32 => { let v = *self.r.pick(&[0i32, 1, -1, 2, 3, 7, 31, 32, 33, 255, 65536, i32::MAX, i32::MIN, -128, 1000]); o.op(I::I32Const(v), &format!("W_I32Const ({})%Z", v)); }
            T::I64 => { let v = *self.r.pick(&[0i64, 1, -1, 2, 5, 1 << 32, (1 << 32) + 7, i64::MAX, i64::MIN, -9, 1 << 40]); o.op(I::I64Const(v), &format!("W_I64Const ({})%Z", v)); }
        }
    }
    fn push_val(&mut self, o: &mut Out, t: T) {
        match self.r.below(10) {
            0..=4 => self.konst(o, t),
            5..=7 => { let l = self.local_of(t); o.op(I::LocalGet(l), &format!("W_LocalGet {}", l)); }
            _ => { let g = if t == T::I32 { 0 } else { 1 }; o.op(I::GlobalGet(g), &format!("W_GlobalGet {}", g)); }
        }
    }
    fn bt(&mut self, st: &Vec<T>) -> (we::BlockType, String, Vec<T>, Vec<T>) {
        match self.r.below(10) {
            0..=3 => (we::BlockType::Empty, "BT_Empty".into(), vec![], vec![]),
            4..=6 => { let t = if self.r.chance(2, 3) { T::I32 } else { T::I64 }; (we::BlockType::Result(vt(t)), format!("(BT_Val {})", coq_vt(t)), vec![], vec![t]) }
            _ => { // a function type whose parameters are on the stack
                let cands: Vec<usize> = (0..self.btys.len()).filter(|k| { let p = &self.btys[*k].0; st.len() >= p.len() && st[st.len() - p.len()..] == p[..] }).collect();
                if cands.is_empty() { return (we::BlockType::Empty, "BT_Empty".into(), vec![], vec![]); }
                let k = *self.r.pick(&cands); let (p, q) = self.btys[k].clone();
                (we::BlockType::FunctionType(k as u32 + 1), format!("(BT_Func {})", k + 1), p, q) }
        }
    }
    /// bring the block-local stack `st` to exactly `want`
    fn fix(&mut self, o: &mut Out, st: &mut Vec<T>, want: &[T]) {
        // keep the longest prefix of `want` that is a prefix of st? values are positional from the bottom: keep common prefix, drop the rest
        let mut k = 0; while k < st.len() && k < want.len() && st[k] == want[k] { k += 1; }
        while st.len() > k { o.op(I::Drop, "W_Drop"); st.pop(); }
        for t in &want[k..] { self.push_val(o, *t); st.push(*t); }
    }
    fn dead(&mut self, o: &mut Out) {
        for _ in 0..self.r.usize(3) { self.dead_ops += 1; match self.r.below(4) {
            0 => { o.w.push(I::Nop); o.c.push("RNop 0".into()); }
            1 => { o.op(I::I32Const(9), "W_I32Const (9)%Z"); o.op(I::Drop, "W_Drop"); }
            2 => { o.op(I::Unreachable, "W_Unreachable"); }
            _ => { o.op(I::I32Const(1), "W_I32Const (1)%Z"); o.op(I::I32Const(0), "W_I32Const (0)%Z"); o.op(I::I32DivU, "W_I32DivU"); o.op(I::Drop, "W_Drop"); } } }
    }
    /// a sequence transforming the block-local stack `st0` into `want`; labels: innermost LAST
    fn seq(&mut self, labels: &mut Vec<Label>, st0: Vec<T>, want: &[T], depth: usize) -> Out {
        let mut o = Out::new(); let mut st = st0;
        let n = 1 + self.r.usize(6);
        for _ in 0..n {
            if self.budget == 0 { break; } self.budget -= 1;
            let top = st.last().cloned(); let top2 = if st.len() >= 2 { Some(st[st.len() - 2]) } else { None };
            match self.r.below(26) {
                0..=3 => { let t = if self.r.chance(3, 4) { T::I32 } else { T::I64 }; self.push_val(&mut o, t); st.push(t); }
                4..=6 if top.is_some() && top == top2 => { let t = top.unwrap();
                    if t == T::I32 { let (i, c, res): (I, &str, T) = match self.r.below(15) { 0 => (I::I32Add, "W_I32Add", T::I32), 1 => (I::I32Sub, "W_I32Sub", T::I32), 2 => (I::I32Mul, "W_I32Mul", T::I32), 3 => (I::I32And, "W_I32And", T::I32), 4 => (I::I32Or, "W_I32Or", T::I32), 5 => (I::I32Xor, "W_I32Xor", T::I32),
                            6 => (I::I32Eq, "W_I32Eq", T::I32), 7 => (I::I32Ne, "W_I32Ne", T::I32), 8 => (I::I32LtU, "W_I32LtU", T::I32), 9 => (I::I32LtS, "W_I32LtS", T::I32), 10 => (I::I32DivU, "W_I32DivU", T::I32), 11 => (I::I32RemU, "W_I32RemU", T::I32), 12 => (I::I32Shl, "W_I32Shl", T::I32), 13 => (I::I32ShrU, "W_I32ShrU", T::I32), _ => (I::I32Add, "W_I32Add", T::I32) };
                        o.op(i, c); st.pop(); st.pop(); st.push(res); }
                    else { let (i, c): (I, &str) = match self.r.below(6) { 0 => (I::I64Add, "W_I64Add"), 1 => (I::I64Sub, "W_I64Sub"), 2 => (I::I64Mul, "W_I64Mul"), 3 => (I::I64And, "W_I64And"), 4 => (I::I64Or, "W_I64Or"), _ => (I::I64Xor, "W_I64Xor") }; o.op(i, c); st.pop(); } }
                7 if top == Some(T::I32) => { if self.r.chance(1, 2) { o.op(I::I32Eqz, "W_I32Eqz"); } else { o.op(I::I64ExtendI32U, "W_I64ExtendI32U"); st.pop(); st.push(T::I64); } }
                8 if top == Some(T::I64) => { o.op(I::I32WrapI64, "W_I32WrapI64"); st.pop(); st.push(T::I32); }
                9..=10 if top.is_some() => { let t = top.unwrap(); match self.r.below(4) {
                    0 => { let l = self.local_of(t); o.op(I::LocalSet(l), &format!("W_LocalSet {}", l)); st.pop(); }
                    1 => { let l = self.local_of(t); o.op(I::LocalTee(l), &format!("W_LocalTee {}", l)); }
                    2 => { let g = if t == T::I32 { 0 } else { 1 }; o.op(I::GlobalSet(g), &format!("W_GlobalSet {}", g)); st.pop(); }
                    _ => { o.op(I::Drop, "W_Drop"); st.pop(); } } }
                11 if st.len() >= 3 && top == Some(T::I32) && st[st.len() - 2] == st[st.len() - 3] => { o.op(I::Select, "W_Select"); st.pop(); st.pop(); }
                12 => { o.w.push(I::Nop); o.c.push("RNop 0".into()); }
                13..=15 if depth < 4 => { // block / if
                    let is_if = self.r.chance(1, 2);
                    if is_if { self.push_val(&mut o, T::I32); }
                    let (wbt, cbt, ps, rs) = self.bt(&st);
                    let inner0: Vec<T> = ps.clone();
                    for _ in 0..ps.len() { st.pop(); }
                    labels.push(Label { tys: rs.clone(), is_loop: false });
                    let th = self.seq(labels, inner0.clone(), &rs, depth + 1);
                    if is_if {
                        // an else-less `if` needs params = results
                        let with_else = ps != rs || self.r.chance(2, 3);
                        o.w.push(I::If(wbt)); o.w.extend(th.w);
                        if with_else { let el = self.seq(labels, inner0, &rs, depth + 1); o.w.push(I::Else); o.w.extend(el.w); o.w.push(I::End);
                            o.c.push(format!("RIf {} [{}] (Some (0, [{}])) 0 0", cbt, th.c.join("; "), el.c.join("; "))); }
                        else { o.w.push(I::End); o.c.push(format!("RIf {} [{}] None 0 0", cbt, th.c.join("; "))); }
                    } else { o.w.push(I::Block(wbt)); o.w.extend(th.w); o.w.push(I::End); o.c.push(format!("RBlock {} [{}] 0 0", cbt, th.c.join("; "))); }
                    labels.pop(); st.extend(rs);
                }
                16 if depth < 3 && self.counters_used < self.n_counters => { // counter-bounded loop: `i32.const k; local.set cnt; loop bt  body ; cnt := cnt - 1 ; br_if 0 (cnt != 0) ; end`
                    let cnt = (self.params.len() + self.locals.len() - self.n_counters + self.counters_used) as u32; self.counters_used += 1; self.n_loops += 1;
                    let k = 1 + self.r.below(4) as i32;
                    o.op(I::I32Const(k), &format!("W_I32Const ({})%Z", k)); o.op(I::LocalSet(cnt), &format!("W_LocalSet {}", cnt));
                    // loop type: empty, or [i32] -> [i32] when an i32 is on top
                    let with_param = top == Some(T::I32) && self.r.chance(1, 2);
                    let (wbt, cbt, ps, rs) = if with_param { (we::BlockType::FunctionType(1), "(BT_Func 1)".to_string(), vec![T::I32], vec![T::I32]) } else { (we::BlockType::Empty, "BT_Empty".to_string(), vec![], vec![]) };
                    for _ in 0..ps.len() { st.pop(); }
                    labels.push(Label { tys: ps.clone(), is_loop: true });
                    let mut body = self.seq(labels, ps.clone(), &ps, depth + 1);
                    body.op(I::LocalGet(cnt), &format!("W_LocalGet {}", cnt)); body.op(I::I32Const(1), "W_I32Const (1)%Z"); body.op(I::I32Sub, "W_I32Sub"); body.op(I::LocalTee(cnt), &format!("W_LocalTee {}", cnt));
                    body.w.push(I::BrIf(0)); body.c.push("RBrIf 0 0".into());
                    labels.pop(); self.counters_used -= 1;
                    o.w.push(I::Loop(wbt)); o.w.extend(body.w); o.w.push(I::End); o.c.push(format!("RLoop {} [{}] 0 0", cbt, body.c.join("; ")));
                    st.extend(rs);
                }
                17..=19 => { // a branch to a label whose types are on top of the stack (extra values may lie below: the machine must unwind them)
                    let cands: Vec<usize> = (0..labels.len()).filter(|k| !labels[*k].is_loop).collect();
                    if cands.is_empty() { continue; }
                    let li = *self.r.pick(&cands); let d = (labels.len() - 1 - li) as u32; let lt = labels[li].tys.clone();
                    let kind = self.r.below(4);
                    // make the label's values: push them on top of whatever is there
                    for t in &lt { self.push_val(&mut o, *t); st.push(*t); }
                    self.n_br += 1;
                    match kind {
                        0 | 1 => { self.push_val(&mut o, T::I32); o.w.push(I::BrIf(d)); o.c.push(format!("RBrIf {} 0", d)); for _ in 0..lt.len() { st.pop(); o.op(I::Drop, "W_Drop"); } }
                        2 => { o.w.push(I::Br(d)); o.c.push(format!("RBr {} 0", d)); self.dead(&mut o); return o; }
                        _ => { // br_table over labels with the same types
                            let same: Vec<u32> = (0..labels.len()).filter(|k| !labels[*k].is_loop && labels[*k].tys == lt).map(|k| (labels.len() - 1 - k) as u32).collect();
                            let ds: Vec<u32> = (0..self.r.usize(4)).map(|_| *self.r.pick(&same)).collect();
                            self.push_val(&mut o, T::I32);
                            o.c.push(format!("RBrTable [{}] {} 0", ds.iter().map(|x| x.to_string()).collect::<Vec<_>>().join("; "), d));
                            o.w.push(I::BrTable(ds.into(), d)); self.dead(&mut o); return o; }
                    }
                }
                20 if self.r.chance(1, 3) => { // return with the results on top (and possibly more below)
                    let rs = self.results.clone(); for t in &rs { self.push_val(&mut o, *t); } o.op(I::Return, "W_Return"); self.dead(&mut o); return o; }
                21 if self.r.chance(1, 6) => { o.op(I::Unreachable, "W_Unreachable"); self.dead(&mut o); return o; }
                22 | 23 => { // directed: an OUTER value, then a block that branches to its own end with surplus values above the label height, then an
                    // operator that consumes the outer value together with the block's result (a machine that does not unwind gets this wrong)
                    self.push_val(&mut o, T::I32); 
                    let mut b = Out::new();
                    let n_junk = 1 + self.r.usize(3);
                    for _ in 0..n_junk { let t = if self.r.chance(1, 2) { T::I32 } else { T::I64 }; self.push_val(&mut b, t); }
                    self.push_val(&mut b, T::I32);
                    if self.r.chance(1, 2) { b.w.push(I::Br(0)); b.c.push("RBr 0 0".into()); }
                    else { // conditional: taken or not; when not taken, drop the surplus and leave the value
                        let l = self.local_of(T::I32); b.op(I::LocalGet(l), &format!("W_LocalGet {}", l)); b.w.push(I::BrIf(0)); b.c.push("RBrIf 0 0".into());
                        let l2 = self.local_of(T::I32); b.op(I::LocalSet(l2), &format!("W_LocalSet {}", l2));
                        for _ in 0..n_junk { b.op(I::Drop, "W_Drop"); }
                        b.op(I::LocalGet(l2), &format!("W_LocalGet {}", l2)); }
                    o.w.push(I::Block(we::BlockType::Result(we::ValType::I32))); o.w.extend(b.w); o.w.push(I::End);
                    o.c.push(format!("RBlock (BT_Val VT_I32) [{}] 0 0", b.c.join("; ")));
                    let (i, c): (I, &str) = match self.r.below(3) { 0 => (I::I32Sub, "W_I32Sub"), 1 => (I::I32Xor, "W_I32Xor"), _ => (I::I32Add, "W_I32Add") };
                    o.op(i, c); st.push(T::I32); self.n_br += 1;
                }
                _ => {}
            }
        }
        self.fix(&mut o, &mut st, want);
        o
    }
}

pub fn gen_main(args: &[String]) {
    let dir = &args[0]; let seed: u64 = args[1].parse().unwrap(); let n: usize = args[2].parse().unwrap();
    std::fs::create_dir_all(dir).unwrap();
    let mut r = Rng::new(seed ^ 0xC01C0DE);
    let mut index = vec![]; let (mut n_ops, mut n_loops, mut n_br, mut n_dead, mut n_panics) = (0usize, 0usize, 0usize, 0usize, 0usize);
    for k in 0..n {
        let np = r.usize(4); let params: Vec<T> = (0..np).map(|_| if r.chance(2, 3) { T::I32 } else { T::I64 }).collect();
        let results: Vec<T> = match r.below(6) { 0 => vec![], 1 | 2 | 3 => vec![T::I32], 4 => vec![T::I64], _ => vec![T::I32, T::I64] };
        let n_counters = 3;
        let locals: Vec<T> = vec![T::I32, T::I64, T::I32, T::I64, T::I32, T::I32, T::I32];   // the last three are loop counters
        let btys = block_types();
        let mut g = G { r: &mut r, params: params.clone(), locals: locals.clone(), n_counters, counters_used: 0, results: results.clone(), btys: btys.clone(), budget: 60, dead_ops: 0, n_loops: 0, n_br: 0 };
        let mut labels = vec![Label { tys: results.clone(), is_loop: false }];
        let body = g.seq(&mut labels, vec![], &results, 0);
        n_ops += body.w.len(); n_loops += g.n_loops; n_br += g.n_br; n_dead += g.dead_ops;
        // the module
        let mut m = we::Module::new();
        let mut t = we::TypeSection::new(); t.function(params.iter().map(|x| vt(*x)), results.iter().map(|x| vt(*x)));
        for (p, q) in &btys { t.function(p.iter().map(|x| vt(*x)), q.iter().map(|x| vt(*x))); }
        m.section(&t);
        let mut f = we::FunctionSection::new(); f.function(0); m.section(&f);
        let g0 = *r.pick(&[0i32, 5, -3, 1 << 20]); let g1 = *r.pick(&[0i64, 9, -1, 1 << 35]);
        let mut gs = we::GlobalSection::new();
        gs.global(we::GlobalType { val_type: we::ValType::I32, mutable: true, shared: false }, &we::ConstExpr::i32_const(g0));
        gs.global(we::GlobalType { val_type: we::ValType::I64, mutable: true, shared: false }, &we::ConstExpr::i64_const(g1));
        m.section(&gs);
        let mut e = we::ExportSection::new(); e.export("f", we::ExportKind::Func, 0); e.export("g0", we::ExportKind::Global, 0); e.export("g1", we::ExportKind::Global, 1); m.section(&e);
        let mut c = we::CodeSection::new(); let mut wf = we::Function::new(locals.iter().map(|x| (1u32, vt(*x))));
        for i in &body.w { wf.instruction(i); } wf.instruction(&I::End); c.function(&wf); m.section(&c);
        let wasm = m.finish();
        if crate::amod::validate(&wasm, crate::env::walrus_features(false)).is_err() {
            if std::env::var("VH_DEBUG").is_ok() { eprintln!("invalid generated core module {}: {:?}", k, crate::amod::validate(&wasm, crate::env::walrus_features(false))); }
            continue; }
        let out = match catch(|| { let mut c = walrus::ModuleConfig::new(); c.generate_producers_section(false); c.parse(&wasm).map(|mut m| m.emit_wasm()).map_err(|e| e.to_string()) }) { Some(Ok(o)) => o, _ => { n_panics += 1; continue } };
        let id = format!("{:05}", k);
        std::fs::write(format!("{}/{}.in.wasm", dir, id), &wasm).unwrap(); std::fs::write(format!("{}/{}.out.wasm", dir, id), &out).unwrap();
        // argument vectors
        let mut calls = vec![];
        for _ in 0..3 { let a: Vec<Json> = params.iter().map(|t| match t {
                T::I32 => Json::obj(vec![("t", Json::s("i32")), ("v", Json::s((*r.pick(&[0i32, 1, 2, 3, -1, 7, 100, i32::MAX, i32::MIN])).to_string()))]),
                T::I64 => Json::obj(vec![("t", Json::s("i64")), ("v", Json::s((*r.pick(&[0i64, 1, -1, 5, 1 << 33, i64::MAX, i64::MIN])).to_string()))]) }).collect(); calls.push(Json::Arr(a)); }
        let tys_coq = { let mut v = vec![format!("([{}], [{}])", params.iter().map(|x| coq_vt(*x)).collect::<Vec<_>>().join("; "), results.iter().map(|x| coq_vt(*x)).collect::<Vec<_>>().join("; "))];
            for (p, q) in &btys { v.push(format!("([{}], [{}])", p.iter().map(|x| coq_vt(*x)).collect::<Vec<_>>().join("; "), q.iter().map(|x| coq_vt(*x)).collect::<Vec<_>>().join("; "))); } format!("[{}]", v.join("; ")) };
        index.push(Json::obj(vec![("id", Json::s(id)), ("calls", Json::Arr(calls)),
            ("params", Json::Arr(params.iter().map(|x| Json::s(coq_vt(*x))).collect())), ("locals", Json::Arr(locals.iter().map(|x| Json::s(coq_vt(*x))).collect())),
            ("results", Json::Arr(results.iter().map(|x| Json::s(coq_vt(*x))).collect())), ("g0", Json::s(g0.to_string())), ("g1", Json::s(g1.to_string())),
            ("tys", Json::s(tys_coq)), ("body", Json::s(format!("[{}]", body.c.join("; "))))]));
    }
    std::fs::write(format!("{}/index.json", dir), Json::obj(vec![("cases", Json::Arr(index)), ("operators", Json::u(n_ops)), ("loops", Json::u(n_loops)), ("branches", Json::u(n_br)), ("dead_ops", Json::u(n_dead)), ("walrus_failures", Json::u(n_panics))]).to_string()).unwrap();
}
