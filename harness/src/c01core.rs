//! C01, integer core: generated functions over the operators that Model/SemCore.v interprets (i32 / i64 arithmetic, comparisons,
//! locals, globals, drop / select, block / loop / if / br / br_if / br_table / return / unreachable, nop, dead code), written both as a
//! wasm module (wasm-encoder) and as a Coq term (`list rt`).  node executes the input and walrus's output; the Coq interpreter
//! evaluates the term on the same arguments; the driver compares all three.  Loops are counter-bounded so that every call terminates.
use crate::rng::Rng;
use crate::util::{catch, Json};
use wasm_encoder as we;
use we::Instruction as I;

#[derive(Clone, Copy, PartialEq, Debug)]
pub(crate) enum T { I32, I64 }
pub(crate) fn vt(t: T) -> we::ValType { match t { T::I32 => we::ValType::I32, T::I64 => we::ValType::I64 } }
pub(crate) fn coq_vt(t: T) -> &'static str { match t { T::I32 => "VT_I32", T::I64 => "VT_I64" } }

/// function types available as block types (index = position); 0 is reserved for the function itself
pub(crate) fn block_types() -> Vec<(Vec<T>, Vec<T>)> {
    vec![(vec![T::I32], vec![T::I32]), (vec![T::I32, T::I32], vec![T::I32]), (vec![], vec![T::I32, T::I64]), (vec![T::I64], vec![T::I32]), (vec![T::I32], vec![])]
}

pub(crate) struct G<'a> { pub(crate) r: &'a mut Rng, pub(crate) params: Vec<T>, pub(crate) locals: Vec<T>, pub(crate) n_counters: usize, pub(crate) counters_used: usize, pub(crate) results: Vec<T>, pub(crate) btys: Vec<(Vec<T>, Vec<T>)>, pub(crate) budget: usize, pub(crate) dead_ops: usize, pub(crate) n_loops: usize, pub(crate) n_br: usize, pub(crate) ext: bool, pub(crate) n_mem: usize, pub(crate) sabotage_at: Option<usize>, pub(crate) sabotaged: Option<&'static str>,
    /// index of the first block type in the type section; functions that may be called (index, params, results); signatures for call_indirect (type index = position); table length
    pub(crate) bt_base: u32, pub(crate) callees: Vec<(u32, Vec<T>, Vec<T>)>, pub(crate) sigs: Vec<(Vec<T>, Vec<T>)>, pub(crate) table_len: u32, pub(crate) n_calls: usize, pub(crate) self_idx: Option<u32>,
    /// for every table slot: the type index of the function stored there (callable lower-numbered functions only), for mostly-matching call_indirect
    pub(crate) slot_types: Vec<Option<usize>> }
#[derive(Clone)]
pub(crate) struct Label { pub(crate) tys: Vec<T>, pub(crate) is_loop: bool }

/// one generated instruction: wasm + Coq text
pub(crate) struct Out { pub(crate) w: Vec<I<'static>>, pub(crate) c: Vec<String> }
impl Out { fn new() -> Out { Out { w: vec![], c: vec![] } }
    fn op(&mut self, i: I<'static>, c: &str) { self.w.push(i); self.c.push(format!("RPlain ({}) 0", c)); } }

impl<'a> G<'a> {
    fn local_of(&mut self, t: T) -> u32 {
        let all: Vec<(usize, T)> = self.params.iter().cloned().chain(self.locals.iter().cloned()).enumerate().collect();
        let n_all = all.len(); let first_counter = n_all - self.n_counters;
        let c: Vec<u32> = all.iter().filter(|(i, x)| *x == t && *i < first_counter).map(|(i, _)| *i as u32).collect();
        *self.r.pick(&c)
    }
    fn konst(&mut self, o: &mut Out, t: T) {
        match t {
            T::I32 => { let v = *self.r.pick(&[0i32, 1, -1, 2, 3, 7, 31, 32, 33, 255, 65536, i32::MAX, i32::MIN, -128, 1000, 0, -1, i32::MIN, 0x80, 0x8000, 0x7f]); o.op(I::I32Const(v), &format!("W_I32Const ({})%Z", v)); }
            T::I64 => { let v = *self.r.pick(&[0i64, 1, -1, 2, 5, 1 << 32, (1 << 32) + 7, i64::MAX, i64::MIN, -9, 1 << 40, 0, -1, i64::MIN, 63, 64, 65, 0x80, 0x8000, 0x8000_0000]); o.op(I::I64Const(v), &format!("W_I64Const ({})%Z", v)); }
        }
    }
    fn push_val(&mut self, o: &mut Out, t: T) {
        match self.r.below(10) {
            0..=4 => self.konst(o, t),
            5..=7 => { let l = self.local_of(t); o.op(I::LocalGet(l), &format!("W_LocalGet {}", l)); }
            _ => { let g = if t == T::I32 { 0 } else { 1 }; o.op(I::GlobalGet(g), &format!("W_GlobalGet {}", g)); }
        }
    }
    fn bt(&mut self, st: &Vec<T>) -> (we::BlockType, String, Vec<T>, Vec<T>) {
        match self.r.below(10) {
            0..=3 => (we::BlockType::Empty, "BT_Empty".into(), vec![], vec![]),
            4..=6 => { let t = if self.r.chance(2, 3) { T::I32 } else { T::I64 }; (we::BlockType::Result(vt(t)), format!("(BT_Val {})", coq_vt(t)), vec![], vec![t]) }
            _ => { // a function type whose parameters are on the stack
                let cands: Vec<usize> = (0..self.btys.len()).filter(|k| { let p = &self.btys[*k].0; st.len() >= p.len() && st[st.len() - p.len()..] == p[..] }).collect();
                if cands.is_empty() { return (we::BlockType::Empty, "BT_Empty".into(), vec![], vec![]); }
                let k = *self.r.pick(&cands); let (p, q) = self.btys[k].clone();
                (we::BlockType::FunctionType(k as u32 + self.bt_base), format!("(BT_Func {})", k as u32 + self.bt_base), p, q) }
        }
    }
    /// bring the block-local stack `st` to exactly `want`
    fn fix(&mut self, o: &mut Out, st: &mut Vec<T>, want: &[T]) {
        // keep the longest prefix of `want` that is a prefix of st? values are positional from the bottom: keep common prefix, drop the rest
        let mut k = 0; while k < st.len() && k < want.len() && st[k] == want[k] { k += 1; }
        while st.len() > k { o.op(I::Drop, "W_Drop"); st.pop(); }
        for t in &want[k..] { self.push_val(o, *t); st.push(*t); }
    }
    fn dead(&mut self, o: &mut Out) {
        for _ in 0..self.r.usize(3) { self.dead_ops += 1; match self.r.below(7) {
            0 => { o.w.push(I::Nop); o.c.push("RNop 0".into()); }
            1 => { o.op(I::I32Const(9), "W_I32Const (9)%Z"); o.op(I::Drop, "W_Drop"); }
            2 => { o.op(I::Unreachable, "W_Unreachable"); }
            // operators that take their operands from the polymorphic stack of dead code (valid there, nowhere else)
            4 => { o.op(I::I32Add, "W_I32Add"); o.op(I::Drop, "W_Drop"); }
            5 => { o.op(I::Drop, "W_Drop"); }
            6 => { o.op(I::I64Const(3), "W_I64Const (3)%Z"); o.op(I::I64Mul, "W_I64Mul"); o.op(I::I32WrapI64, "W_I32WrapI64"); o.op(I::Drop, "W_Drop"); }
            _ => { o.op(I::I32Const(1), "W_I32Const (1)%Z"); o.op(I::I32Const(0), "W_I32Const (0)%Z"); o.op(I::I32DivU, "W_I32DivU"); o.op(I::Drop, "W_Drop"); } } }
    }
    /// a sequence transforming the block-local stack `st0` into `want`; labels: innermost LAST
    pub(crate) fn seq(&mut self, labels: &mut Vec<Label>, st0: Vec<T>, want: &[T], depth: usize) -> Out {
        let mut o = Out::new(); let mut st = st0;
        let n = 1 + self.r.usize(6);
        for _ in 0..n {
            if self.budget == 0 { break; } self.budget -= 1;
            if self.sabotage_at == Some(self.budget) && self.sabotaged.is_none() {
                // ONE deliberate type error (for the validator model): the instruction list stays in sync with the Coq term
                let kind = self.r.below(9);
                match kind {
                    0 => { o.op(I::I64Const(1), "W_I64Const (1)%Z"); o.op(I::I32Eqz, "W_I32Eqz"); st.push(T::I32); self.sabotaged = Some("i32.eqz on an i64"); }
                    1 => { let mut b = Out::new(); b.op(I::Drop, "W_Drop"); o.w.push(I::Block(we::BlockType::Empty)); o.w.extend(b.w); o.w.push(I::End); o.c.push(format!("RBlock BT_Empty [{}] 0 0", b.c.join("; "))); self.sabotaged = Some("drop on an empty block-local stack"); }
                    2 => { let mut b = Out::new(); b.op(I::I32Const(1), "W_I32Const (1)%Z"); b.op(I::I32Add, "W_I32Add"); b.op(I::Drop, "W_Drop"); o.w.push(I::Block(we::BlockType::Empty)); o.w.extend(b.w); o.w.push(I::End); o.c.push(format!("RBlock BT_Empty [{}] 0 0", b.c.join("; "))); self.sabotaged = Some("binary operator with one operand"); }
                    3 => { let mut b = Out::new(); b.op(I::I64Const(5), "W_I64Const (5)%Z"); b.w.push(I::Br(0)); b.c.push("RBr 0 0".into()); o.w.push(I::Block(we::BlockType::Result(we::ValType::I32))); o.w.extend(b.w); o.w.push(I::End); o.c.push(format!("RBlock (BT_Val VT_I32) [{}] 0 0", b.c.join("; "))); st.push(T::I32); self.sabotaged = Some("br with a value of the wrong type"); }
                    4 => { o.op(I::LocalGet(99), "W_LocalGet 99"); o.op(I::Drop, "W_Drop"); self.sabotaged = Some("local index out of range"); }
                    5 => { o.op(I::I32Const(1), "W_I32Const (1)%Z"); o.op(I::GlobalSet(2), "W_GlobalSet 2"); self.sabotaged = Some("global.set of an immutable global"); }
                    6 => { let mut b = Out::new(); b.op(I::I32Const(1), "W_I32Const (1)%Z"); o.op(I::I32Const(1), "W_I32Const (1)%Z"); o.w.push(I::If(we::BlockType::Result(we::ValType::I32))); o.w.extend(b.w); o.w.push(I::End); o.c.push(format!("RIf (BT_Val VT_I32) [{}] None 0 0", b.c.join("; "))); st.push(T::I32); self.sabotaged = Some("else-less if with a result"); }
                    7 if self.ext => { o.op(I::I32Const(0), "W_I32Const (0)%Z"); o.op(I::I32Load(we::MemArg { offset: 0, align: 3, memory_index: 0 }), "W_I32Load {| wa_align := 3; wa_offset := 0; wa_memory := 0 |}"); st.push(T::I32); self.sabotaged = Some("over-aligned load"); }
                    _ => { o.op(I::I32Const(1), "W_I32Const (1)%Z"); o.op(I::I64Const(1), "W_I64Const (1)%Z"); o.op(I::I32Add, "W_I32Add"); st.push(T::I32); self.sabotaged = Some("i32.add on (i32, i64)"); }
                }
            }
            let top = st.last().cloned(); let top2 = if st.len() >= 2 { Some(st[st.len() - 2]) } else { None };
            match self.r.below(if !self.sigs.is_empty() { 38 } else if self.ext { 33 } else { 26 }) {
                0..=3 => { let t = if self.r.chance(3, 4) { T::I32 } else { T::I64 }; self.push_val(&mut o, t); st.push(t); }
                4..=6 if top.is_some() && top == top2 => { let t = top.unwrap();
                    if t == T::I32 { let tab: [(I, &str); 25] = [(I::I32Add, "W_I32Add"), (I::I32Sub, "W_I32Sub"), (I::I32Mul, "W_I32Mul"), (I::I32And, "W_I32And"), (I::I32Or, "W_I32Or"), (I::I32Xor, "W_I32Xor"),
                            (I::I32Eq, "W_I32Eq"), (I::I32Ne, "W_I32Ne"), (I::I32LtU, "W_I32LtU"), (I::I32LtS, "W_I32LtS"), (I::I32DivU, "W_I32DivU"), (I::I32RemU, "W_I32RemU"), (I::I32Shl, "W_I32Shl"), (I::I32ShrU, "W_I32ShrU"),
                            (I::I32DivS, "W_I32DivS"), (I::I32RemS, "W_I32RemS"), (I::I32ShrS, "W_I32ShrS"), (I::I32Rotl, "W_I32Rotl"), (I::I32Rotr, "W_I32Rotr"), (I::I32LeS, "W_I32LeS"), (I::I32LeU, "W_I32LeU"), (I::I32GtS, "W_I32GtS"), (I::I32GtU, "W_I32GtU"), (I::I32GeS, "W_I32GeS"), (I::I32GeU, "W_I32GeU")];
                        let k = self.r.usize(if self.ext { 25 } else { 14 }); let (i, c) = tab[k].clone(); o.op(i, c); st.pop(); }
                    else { let tab: [(I, &str, bool); 25] = [(I::I64Add, "W_I64Add", false), (I::I64Sub, "W_I64Sub", false), (I::I64Mul, "W_I64Mul", false), (I::I64And, "W_I64And", false), (I::I64Or, "W_I64Or", false), (I::I64Xor, "W_I64Xor", false),
                            (I::I64DivS, "W_I64DivS", false), (I::I64DivU, "W_I64DivU", false), (I::I64RemS, "W_I64RemS", false), (I::I64RemU, "W_I64RemU", false), (I::I64Shl, "W_I64Shl", false), (I::I64ShrS, "W_I64ShrS", false), (I::I64ShrU, "W_I64ShrU", false), (I::I64Rotl, "W_I64Rotl", false), (I::I64Rotr, "W_I64Rotr", false),
                            (I::I64Eq, "W_I64Eq", true), (I::I64Ne, "W_I64Ne", true), (I::I64LtS, "W_I64LtS", true), (I::I64LtU, "W_I64LtU", true), (I::I64LeS, "W_I64LeS", true), (I::I64LeU, "W_I64LeU", true), (I::I64GtS, "W_I64GtS", true), (I::I64GtU, "W_I64GtU", true), (I::I64GeS, "W_I64GeS", true), (I::I64GeU, "W_I64GeU", true)];
                        let k = self.r.usize(if self.ext { 25 } else { 6 }); let (i, c, cmp) = tab[k].clone(); o.op(i, c); st.pop(); if cmp { st.pop(); st.push(T::I32); } } }
                7 if top == Some(T::I32) => { let tab: [(I, &str, bool); 8] = [(I::I32Eqz, "W_I32Eqz", false), (I::I64ExtendI32U, "W_I64ExtendI32U", true), (I::I32Clz, "W_I32Clz", false), (I::I32Ctz, "W_I32Ctz", false), (I::I32Popcnt, "W_I32Popcnt", false), (I::I32Extend8S, "W_I32Extend8S", false), (I::I32Extend16S, "W_I32Extend16S", false), (I::I64ExtendI32S, "W_I64ExtendI32S", true)];
                    let k = self.r.usize(if self.ext { 8 } else { 2 }); let (i, c, to64) = tab[k].clone(); o.op(i, c); if to64 { st.pop(); st.push(T::I64); } }
                8 if top == Some(T::I64) => { let tab: [(I, &str, bool); 8] = [(I::I32WrapI64, "W_I32WrapI64", true), (I::I64Eqz, "W_I64Eqz", true), (I::I64Clz, "W_I64Clz", false), (I::I64Ctz, "W_I64Ctz", false), (I::I64Popcnt, "W_I64Popcnt", false), (I::I64Extend8S, "W_I64Extend8S", false), (I::I64Extend16S, "W_I64Extend16S", false), (I::I64Extend32S, "W_I64Extend32S", false)];
                    let k = self.r.usize(if self.ext { 8 } else { 1 }); let (i, c, to32) = tab[k].clone(); o.op(i, c); if to32 { st.pop(); st.push(T::I32); } }
                9..=10 if top.is_some() => { let t = top.unwrap(); match self.r.below(4) {
                    0 => { let l = self.local_of(t); o.op(I::LocalSet(l), &format!("W_LocalSet {}", l)); st.pop(); }
                    1 => { let l = self.local_of(t); o.op(I::LocalTee(l), &format!("W_LocalTee {}", l)); }
                    2 => { let g = if t == T::I32 { 0 } else { 1 }; o.op(I::GlobalSet(g), &format!("W_GlobalSet {}", g)); st.pop(); }
                    _ => { o.op(I::Drop, "W_Drop"); st.pop(); } } }
                11 if st.len() >= 3 && top == Some(T::I32) && st[st.len() - 2] == st[st.len() - 3] => { o.op(I::Select, "W_Select"); st.pop(); st.pop(); }
                12 => { o.w.push(I::Nop); o.c.push("RNop 0".into()); }
                13..=15 if depth < 4 => { // block / if
                    let is_if = self.r.chance(1, 2);
                    if is_if { self.push_val(&mut o, T::I32); }
                    let (wbt, cbt, ps, rs) = self.bt(&st);
                    let inner0: Vec<T> = ps.clone();
                    for _ in 0..ps.len() { st.pop(); }
                    labels.push(Label { tys: rs.clone(), is_loop: false });
                    let empty_then = is_if && ps == rs && self.r.chance(1, 6);
                    let th = if empty_then { Out::new() } else { self.seq(labels, inner0.clone(), &rs, depth + 1) };
                    if is_if {
                        // an else-less `if` needs params = results
                        let with_else = empty_then || ps != rs || self.r.chance(2, 3);
                        o.w.push(I::If(wbt)); o.w.extend(th.w);
                        if with_else { let el = self.seq(labels, inner0, &rs, depth + 1); o.w.push(I::Else); o.w.extend(el.w); o.w.push(I::End);
                            o.c.push(format!("RIf {} [{}] (Some (0, [{}])) 0 0", cbt, th.c.join("; "), el.c.join("; "))); }
                        else { o.w.push(I::End); o.c.push(format!("RIf {} [{}] None 0 0", cbt, th.c.join("; "))); }
                    } else { o.w.push(I::Block(wbt)); o.w.extend(th.w); o.w.push(I::End); o.c.push(format!("RBlock {} [{}] 0 0", cbt, th.c.join("; "))); }
                    labels.pop(); st.extend(rs);
                }
                16 if depth < 3 && self.counters_used < self.n_counters => { // counter-bounded loop: `i32.const k; local.set cnt; loop bt  body ; cnt := cnt - 1 ; br_if 0 (cnt != 0) ; end`
                    let cnt = (self.params.len() + self.locals.len() - self.n_counters + self.counters_used) as u32; self.counters_used += 1; self.n_loops += 1;
                    let k = 1 + self.r.below(4) as i32;
                    o.op(I::I32Const(k), &format!("W_I32Const ({})%Z", k)); o.op(I::LocalSet(cnt), &format!("W_LocalSet {}", cnt));
                    // loop type: empty, or [i32] -> [i32] when an i32 is on top
                    let with_param = top == Some(T::I32) && self.r.chance(1, 2);
                    let (wbt, cbt, ps, rs) = if with_param { (we::BlockType::FunctionType(self.bt_base), format!("(BT_Func {})", self.bt_base), vec![T::I32], vec![T::I32]) } else { (we::BlockType::Empty, "BT_Empty".to_string(), vec![], vec![]) };
                    for _ in 0..ps.len() { st.pop(); }
                    labels.push(Label { tys: ps.clone(), is_loop: true });
                    let mut body = self.seq(labels, ps.clone(), &ps, depth + 1);
                    body.op(I::LocalGet(cnt), &format!("W_LocalGet {}", cnt)); body.op(I::I32Const(1), "W_I32Const (1)%Z"); body.op(I::I32Sub, "W_I32Sub"); body.op(I::LocalTee(cnt), &format!("W_LocalTee {}", cnt));
                    body.w.push(I::BrIf(0)); body.c.push("RBrIf 0 0".into());
                    labels.pop(); self.counters_used -= 1;
                    o.w.push(I::Loop(wbt)); o.w.extend(body.w); o.w.push(I::End); o.c.push(format!("RLoop {} [{}] 0 0", cbt, body.c.join("; ")));
                    st.extend(rs);
                }
                17..=19 => { // a branch to a label whose types are on top of the stack (extra values may lie below: the machine must unwind them)
                    let cands: Vec<usize> = (0..labels.len()).filter(|k| !labels[*k].is_loop).collect();
                    if cands.is_empty() { continue; }
                    let li = *self.r.pick(&cands); let d = (labels.len() - 1 - li) as u32; let lt = labels[li].tys.clone();
                    let kind = self.r.below(4);
                    // make the label's values: push them on top of whatever is there
                    for t in &lt { self.push_val(&mut o, *t); st.push(*t); }
                    self.n_br += 1;
                    match kind {
                        0 | 1 => { self.push_val(&mut o, T::I32); o.w.push(I::BrIf(d)); o.c.push(format!("RBrIf {} 0", d)); for _ in 0..lt.len() { st.pop(); o.op(I::Drop, "W_Drop"); } }
                        2 => { o.w.push(I::Br(d)); o.c.push(format!("RBr {} 0", d)); self.dead(&mut o); return o; }
                        _ => { // br_table over labels with the same types
                            let same: Vec<u32> = (0..labels.len()).filter(|k| !labels[*k].is_loop && labels[*k].tys == lt).map(|k| (labels.len() - 1 - k) as u32).collect();
                            let ds: Vec<u32> = (0..self.r.usize(4)).map(|_| *self.r.pick(&same)).collect();
                            self.push_val(&mut o, T::I32);
                            o.c.push(format!("RBrTable [{}] {} 0", ds.iter().map(|x| x.to_string()).collect::<Vec<_>>().join("; "), d));
                            o.w.push(I::BrTable(ds.into(), d)); self.dead(&mut o); return o; }
                    }
                }
                20 if self.r.chance(1, 3) => { // return with the results on top (and possibly more below)
                    let rs = self.results.clone(); for t in &rs { self.push_val(&mut o, *t); } o.op(I::Return, "W_Return"); self.dead(&mut o); return o; }
                21 if self.r.chance(1, 6) => { o.op(I::Unreachable, "W_Unreachable"); self.dead(&mut o); return o; }
                26 | 27 if self.ext => { // load: address constant (mostly in bounds, sometimes at / beyond the end), offset immediate
                    let a = if self.r.chance(1, 10) { *self.r.pick(&[65533i32, 65535, 65536, 70000, -1, -4]) } else { *self.r.pick(&[0i32, 1, 2, 8, 100, 1000, 4096, 65520, 65528]) }; let off = if self.r.chance(1, 12) { 65500u64 } else { *self.r.pick(&[0u64, 0, 0, 1, 4, 8, 100]) };
                    o.op(I::I32Const(a), &format!("W_I32Const ({})%Z", a));
                    let tab: [(&str, u32, T); 14] = [("I32Load", 2, T::I32), ("I64Load", 3, T::I64), ("I32Load8S", 0, T::I32), ("I32Load8U", 0, T::I32), ("I32Load16S", 1, T::I32), ("I32Load16U", 1, T::I32), ("I64Load8S", 0, T::I64), ("I64Load8U", 0, T::I64), ("I64Load16S", 1, T::I64), ("I64Load16U", 1, T::I64), ("I64Load32S", 2, T::I64), ("I64Load32U", 2, T::I64), ("I32Load", 2, T::I32), ("I64Load", 3, T::I64)];
                    let (nm, nat, t) = tab[self.r.usize(14)]; let al = self.r.usize(nat as usize + 1) as u32; let m = we::MemArg { offset: off, align: al, memory_index: 0 };
                    let i = match nm { "I32Load" => I::I32Load(m), "I64Load" => I::I64Load(m), "I32Load8S" => I::I32Load8S(m), "I32Load8U" => I::I32Load8U(m), "I32Load16S" => I::I32Load16S(m), "I32Load16U" => I::I32Load16U(m), "I64Load8S" => I::I64Load8S(m), "I64Load8U" => I::I64Load8U(m),
                        "I64Load16S" => I::I64Load16S(m), "I64Load16U" => I::I64Load16U(m), "I64Load32S" => I::I64Load32S(m), _ => I::I64Load32U(m) };
                    o.op(i, &format!("W_{} {{| wa_align := {}; wa_offset := {}; wa_memory := 0 |}}", nm, al, off)); st.push(t); self.n_mem += 1; }
                28 | 29 if self.ext => { // store: address constant, value of the right type
                    let a = if self.r.chance(1, 10) { *self.r.pick(&[65533i32, 65535, 65536, -1]) } else { *self.r.pick(&[0i32, 1, 2, 8, 100, 1000, 4096, 65520, 65528]) }; let off = *self.r.pick(&[0u64, 0, 0, 1, 4, 8, 100]);
                    let tab: [(&str, u32, T); 9] = [("I32Store", 2, T::I32), ("I64Store", 3, T::I64), ("I32Store8", 0, T::I32), ("I32Store16", 1, T::I32), ("I64Store8", 0, T::I64), ("I64Store16", 1, T::I64), ("I64Store32", 2, T::I64), ("I32Store", 2, T::I32), ("I64Store", 3, T::I64)];
                    let (nm, nat, t) = tab[self.r.usize(9)]; let al = self.r.usize(nat as usize + 1) as u32; let m = we::MemArg { offset: off, align: al, memory_index: 0 };
                    o.op(I::I32Const(a), &format!("W_I32Const ({})%Z", a)); self.push_val(&mut o, t);
                    let i = match nm { "I32Store" => I::I32Store(m), "I64Store" => I::I64Store(m), "I32Store8" => I::I32Store8(m), "I32Store16" => I::I32Store16(m), "I64Store8" => I::I64Store8(m), "I64Store16" => I::I64Store16(m), _ => I::I64Store32(m) };
                    o.op(i, &format!("W_{} {{| wa_align := {}; wa_offset := {}; wa_memory := 0 |}}", nm, al, off)); self.n_mem += 1; }
                30 if self.ext => { if self.r.chance(1, 2) { o.op(I::MemorySize(0), "W_MemorySize 0"); } else { let d = *self.r.pick(&[0i32, 1, 1, 2, 5, -1]); o.op(I::I32Const(d), &format!("W_I32Const ({})%Z", d)); o.op(I::MemoryGrow(0), "W_MemoryGrow 0"); } st.push(T::I32); self.n_mem += 1; }
                31 | 32 if self.ext => { // directed: a division / remainder whose divisor is a boundary constant (0, -1, 1, 2) and whose dividend may be the most negative number
                    let t = if self.r.chance(1, 2) { T::I32 } else { T::I64 };
                    if self.r.chance(1, 3) { if t == T::I32 { o.op(I::I32Const(i32::MIN), &format!("W_I32Const ({})%Z", i32::MIN)); } else { o.op(I::I64Const(i64::MIN), &format!("W_I64Const ({})%Z", i64::MIN)); } } else { self.push_val(&mut o, t); }
                    let d = *self.r.pick(&[0i64, -1, 1, 2, -2, 7]);
                    if t == T::I32 { o.op(I::I32Const(d as i32), &format!("W_I32Const ({})%Z", d)); } else { o.op(I::I64Const(d), &format!("W_I64Const ({})%Z", d)); }
                    let (i, c): (I, &str) = if t == T::I32 { match self.r.below(4) { 0 => (I::I32DivS, "W_I32DivS"), 1 => (I::I32DivU, "W_I32DivU"), 2 => (I::I32RemS, "W_I32RemS"), _ => (I::I32RemU, "W_I32RemU") } }
                        else { match self.r.below(4) { 0 => (I::I64DivS, "W_I64DivS"), 1 => (I::I64DivU, "W_I64DivU"), 2 => (I::I64RemS, "W_I64RemS"), _ => (I::I64RemU, "W_I64RemU") } };
                    o.op(i, c); st.push(t); }
                33 | 34 if !self.callees.is_empty() => { // a direct call: arguments pushed, results on the stack
                    let (fi, ps, rs) = self.r.pick(&self.callees.clone()).clone();
                    for t in &ps { self.push_val(&mut o, *t); }
                    o.op(I::Call(fi), &format!("W_Call {}", fi)); st.extend(rs); self.n_calls += 1; }
                35 if self.self_idx.is_some() && self.params.first() == Some(&T::I32) && depth < 3 => { // bounded self-recursion: `if (p0 & 3) then call self (p0 & 3) - 1, other params ... end`
                    let me = self.self_idx.unwrap(); let ps = self.params.clone(); let rs = self.results.clone();
                    let mut b = Out::new();
                    b.op(I::LocalGet(0), "W_LocalGet 0"); b.op(I::I32Const(3), "W_I32Const (3)%Z"); b.op(I::I32And, "W_I32And"); b.op(I::I32Const(1), "W_I32Const (1)%Z"); b.op(I::I32Sub, "W_I32Sub");
                    for t in &ps[1..] { self.push_val(&mut b, *t); }
                    b.op(I::Call(me), &format!("W_Call {}", me)); for _ in 0..rs.len() { b.op(I::Drop, "W_Drop"); }
                    o.op(I::LocalGet(0), "W_LocalGet 0"); o.op(I::I32Const(3), "W_I32Const (3)%Z"); o.op(I::I32And, "W_I32And");
                    o.w.push(I::If(we::BlockType::Empty)); o.w.extend(b.w); o.w.push(I::End); o.c.push(format!("RIf BT_Empty [{}] None 0 0", b.c.join("; "))); self.n_calls += 1; }
                36 | 37 if self.table_len > 0 => { // call_indirect: arguments, then the table index (in range, sometimes the first index out of range)
                    // mostly a slot holding a callable function of the chosen type; sometimes any slot (signature mismatch / empty slot) or the first index out of range
                    let good: Vec<(usize, usize)> = self.slot_types.iter().enumerate().filter_map(|(i, t)| t.map(|t| (i, t))).collect();
                    let (ti, idx) = if !good.is_empty() && self.r.chance(4, 5) { let (i, t) = *self.r.pick(&good); (t, i as i32) } else if self.r.chance(1, 4) { (self.r.usize(self.sigs.len()), self.table_len as i32) } else { (self.r.usize(self.sigs.len()), self.r.usize(self.table_len as usize) as i32) };
                    let (ps, rs) = self.sigs[ti].clone();
                    for t in &ps { self.push_val(&mut o, *t); }
                    o.op(I::I32Const(idx), &format!("W_I32Const ({})%Z", idx));
                    o.op(I::CallIndirect { type_index: ti as u32, table_index: 0 }, &format!("W_CallIndirect {} 0", ti)); st.extend(rs); self.n_calls += 1; }
                22 | 23 => { // directed: an OUTER value, then a block that branches to its own end with surplus values above the label height, then an
                    // operator that consumes the outer value together with the block's result (a machine that does not unwind gets this wrong)
                    self.push_val(&mut o, T::I32); 
                    let mut b = Out::new();
                    let n_junk = 1 + self.r.usize(3);
                    for _ in 0..n_junk { let t = if self.r.chance(1, 2) { T::I32 } else { T::I64 }; self.push_val(&mut b, t); }
                    self.push_val(&mut b, T::I32);
                    if self.r.chance(1, 2) { b.w.push(I::Br(0)); b.c.push("RBr 0 0".into()); }
                    else { // conditional: taken or not; when not taken, drop the surplus and leave the value
                        let l = self.local_of(T::I32); b.op(I::LocalGet(l), &format!("W_LocalGet {}", l)); b.w.push(I::BrIf(0)); b.c.push("RBrIf 0 0".into());
                        let l2 = self.local_of(T::I32); b.op(I::LocalSet(l2), &format!("W_LocalSet {}", l2));
                        for _ in 0..n_junk { b.op(I::Drop, "W_Drop"); }
                        b.op(I::LocalGet(l2), &format!("W_LocalGet {}", l2)); }
                    o.w.push(I::Block(we::BlockType::Result(we::ValType::I32))); o.w.extend(b.w); o.w.push(I::End);
                    o.c.push(format!("RBlock (BT_Val VT_I32) [{}] 0 0", b.c.join("; ")));
                    let (i, c): (I, &str) = match self.r.below(3) { 0 => (I::I32Sub, "W_I32Sub"), 1 => (I::I32Xor, "W_I32Xor"), _ => (I::I32Add, "W_I32Add") };
                    o.op(i, c); st.push(T::I32); self.n_br += 1;
                }
                _ => {}
            }
        }
        self.fix(&mut o, &mut st, want);
        o
    }
}

pub fn gen_main(args: &[String]) {
    let dir = &args[0]; let seed: u64 = args[1].parse().unwrap(); let n: usize = args[2].parse().unwrap(); let ext = args.get(3).map(|s| s == "ext").unwrap_or(false); let sabotage = args.get(4).map(|s| s == "sabotage").unwrap_or(false);
    std::fs::create_dir_all(dir).unwrap();
    let mut r = Rng::new(seed ^ 0xC01C0DE); let mut n_mem = 0usize;
    let mut index = vec![]; let (mut n_ops, mut n_loops, mut n_br, mut n_dead, mut n_panics) = (0usize, 0usize, 0usize, 0usize, 0usize);
    for k in 0..n {
        let np = r.usize(4); let params: Vec<T> = (0..np).map(|_| if r.chance(2, 3) { T::I32 } else { T::I64 }).collect();
        let results: Vec<T> = match r.below(6) { 0 => vec![], 1 | 2 | 3 => vec![T::I32], 4 => vec![T::I64], _ => vec![T::I32, T::I64] };
        let n_counters = 3;
        let locals: Vec<T> = vec![T::I32, T::I64, T::I32, T::I64, T::I32, T::I32, T::I32];   // the last three are loop counters
        let btys = block_types();
        let r_sab = r.chance(2, 3); let sab_at = 59 - r.usize(7);
        let mut g = G { r: &mut r, params: params.clone(), locals: locals.clone(), n_counters, counters_used: 0, results: results.clone(), btys: btys.clone(), budget: 60, dead_ops: 0, n_loops: 0, n_br: 0, ext, n_mem: 0, sabotage_at: if sabotage && r_sab { Some(sab_at) } else { None }, sabotaged: None, bt_base: 1, callees: vec![], sigs: vec![], table_len: 0, n_calls: 0, self_idx: None, slot_types: vec![] };
        let mut labels = vec![Label { tys: results.clone(), is_loop: false }];
        let body = g.seq(&mut labels, vec![], &results, 0);
        let sabotaged = g.sabotaged;
        n_mem += g.n_mem; n_ops += body.w.len(); n_loops += g.n_loops; n_br += g.n_br; n_dead += g.dead_ops;
        // the module
        let mut m = we::Module::new();
        let mut t = we::TypeSection::new(); t.function(params.iter().map(|x| vt(*x)), results.iter().map(|x| vt(*x)));
        for (p, q) in &btys { t.function(p.iter().map(|x| vt(*x)), q.iter().map(|x| vt(*x))); }
        m.section(&t);
        let mut f = we::FunctionSection::new(); f.function(0); m.section(&f);
        if ext { let mut ms = we::MemorySection::new(); ms.memory(we::MemoryType { minimum: 1, maximum: Some(3), memory64: false, shared: false, page_size_log2: None }); m.section(&ms); }
        let g0 = *r.pick(&[0i32, 5, -3, 1 << 20]); let g1 = *r.pick(&[0i64, 9, -1, 1 << 35]);
        let mut gs = we::GlobalSection::new();
        gs.global(we::GlobalType { val_type: we::ValType::I32, mutable: true, shared: false }, &we::ConstExpr::i32_const(g0));
        gs.global(we::GlobalType { val_type: we::ValType::I64, mutable: true, shared: false }, &we::ConstExpr::i64_const(g1));
        gs.global(we::GlobalType { val_type: we::ValType::I32, mutable: false, shared: false }, &we::ConstExpr::i32_const(7));
        m.section(&gs);
        let mut e = we::ExportSection::new(); e.export("f", we::ExportKind::Func, 0); e.export("g0", we::ExportKind::Global, 0); e.export("g1", we::ExportKind::Global, 1); if ext { e.export("m", we::ExportKind::Memory, 0); } m.section(&e);
        let mut c = we::CodeSection::new(); let mut wf = we::Function::new(locals.iter().map(|x| (1u32, vt(*x))));
        for i in &body.w { wf.instruction(i); } wf.instruction(&I::End); c.function(&wf); m.section(&c);
        let wasm = m.finish();
        if sabotage { let verdict = crate::amod::validate(&wasm, crate::env::walrus_features(false));
            let tys_coq = { let mut v = vec![format!("([{}], [{}])", params.iter().map(|x| coq_vt(*x)).collect::<Vec<_>>().join("; "), results.iter().map(|x| coq_vt(*x)).collect::<Vec<_>>().join("; "))];
                for (p, q) in &btys { v.push(format!("([{}], [{}])", p.iter().map(|x| coq_vt(*x)).collect::<Vec<_>>().join("; "), q.iter().map(|x| coq_vt(*x)).collect::<Vec<_>>().join("; "))); } format!("[{}]", v.join("; ")) };
            index.push(Json::obj(vec![("id", Json::s(format!("{:05}", k))), ("valid", Json::Bool(verdict.is_ok())), ("why", Json::s(verdict.err().unwrap_or_default())), ("sabotage", Json::s(sabotaged.unwrap_or(""))),
                ("locals", Json::Arr(params.iter().chain(locals.iter()).map(|x| Json::s(coq_vt(*x))).collect())), ("results", Json::Arr(results.iter().map(|x| Json::s(coq_vt(*x))).collect())),
                ("has_mem", Json::Bool(ext)), ("tys", Json::s(tys_coq)), ("body", Json::s(format!("[{}]", body.c.join("; "))))]));
            continue; }
        if crate::amod::validate(&wasm, crate::env::walrus_features(false)).is_err() {
            if std::env::var("VH_DEBUG").is_ok() { eprintln!("invalid generated core module {}: {:?}", k, crate::amod::validate(&wasm, crate::env::walrus_features(false))); }
            continue; }
        let out = match catch(|| { let mut c = walrus::ModuleConfig::new(); c.generate_producers_section(false); c.parse(&wasm).map(|mut m| m.emit_wasm()).map_err(|e| e.to_string()) }) { Some(Ok(o)) => o, _ => { n_panics += 1; continue } };
        let id = format!("{:05}", k);
        std::fs::write(format!("{}/{}.in.wasm", dir, id), &wasm).unwrap(); std::fs::write(format!("{}/{}.out.wasm", dir, id), &out).unwrap();
        // argument vectors
        let mut calls = vec![];
        for _ in 0..3 { let a: Vec<Json> = params.iter().map(|t| match t {
                T::I32 => Json::obj(vec![("t", Json::s("i32")), ("v", Json::s((*r.pick(&[0i32, 1, 2, 3, -1, 7, 100, i32::MAX, i32::MIN])).to_string()))]),
                T::I64 => Json::obj(vec![("t", Json::s("i64")), ("v", Json::s((*r.pick(&[0i64, 1, -1, 5, 1 << 33, i64::MAX, i64::MIN])).to_string()))]) }).collect(); calls.push(Json::Arr(a)); }
        let tys_coq = { let mut v = vec![format!("([{}], [{}])", params.iter().map(|x| coq_vt(*x)).collect::<Vec<_>>().join("; "), results.iter().map(|x| coq_vt(*x)).collect::<Vec<_>>().join("; "))];
            for (p, q) in &btys { v.push(format!("([{}], [{}])", p.iter().map(|x| coq_vt(*x)).collect::<Vec<_>>().join("; "), q.iter().map(|x| coq_vt(*x)).collect::<Vec<_>>().join("; "))); } format!("[{}]", v.join("; ")) };
        index.push(Json::obj(vec![("id", Json::s(id)), ("calls", Json::Arr(calls)),
            ("params", Json::Arr(params.iter().map(|x| Json::s(coq_vt(*x))).collect())), ("locals", Json::Arr(locals.iter().map(|x| Json::s(coq_vt(*x))).collect())),
            ("results", Json::Arr(results.iter().map(|x| Json::s(coq_vt(*x))).collect())), ("g0", Json::s(g0.to_string())), ("g1", Json::s(g1.to_string())), ("pages", Json::u(if ext { 1 } else { 0 })), ("maxpages", Json::u(if ext { 3 } else { 0 })),
            ("tys", Json::s(tys_coq)), ("body", Json::s(format!("[{}]", body.c.join("; "))))]));
    }
    std::fs::write(format!("{}/index.json", dir), Json::obj(vec![("cases", Json::Arr(index)), ("operators", Json::u(n_ops)), ("loops", Json::u(n_loops)), ("branches", Json::u(n_br)), ("dead_ops", Json::u(n_dead)), ("memory_ops", Json::u(n_mem)), ("walrus_failures", Json::u(n_panics))]).to_string()).unwrap();
}

/// Modules of several functions over the core operators WITH calls: direct calls to lower-numbered functions, bounded self-recursion, call_indirect through a
/// table that lists every function (in a shuffled order, one slot left empty), one memory, two globals.  Function k may call functions < k, so every call terminates.
pub fn gen_mod_main(args: &[String]) {
    let dir = &args[0]; let seed: u64 = args[1].parse().unwrap(); let n: usize = args[2].parse().unwrap();
    std::fs::create_dir_all(dir).unwrap();
    let mut r = Rng::new(seed ^ 0xCA115);
    let mut index = vec![]; let (mut n_ops, mut n_calls, mut n_funcs, mut n_fail) = (0usize, 0usize, 0usize, 0usize);
    let sigs: Vec<(Vec<T>, Vec<T>)> = vec![(vec![T::I32], vec![T::I32]), (vec![], vec![T::I32]), (vec![T::I32, T::I64], vec![T::I64]), (vec![T::I32], vec![]), (vec![T::I64], vec![T::I32, T::I64])];
    let btys = block_types(); let bt_base = sigs.len() as u32;
    let locals: Vec<T> = vec![T::I32, T::I64, T::I32, T::I64, T::I32, T::I32, T::I32];
    for k in 0..n {
        let nf = 2 + r.usize(4);
        let ftys: Vec<usize> = (0..nf).map(|_| r.usize(sigs.len())).collect();
        // the table: every function once, shuffled, plus one empty slot at the end
        let mut order: Vec<u32> = (0..nf as u32).collect(); for i in (1..order.len()).rev() { let j = r.usize(i + 1); order.swap(i, j); }
        let table_len = nf as u32 + 1;
        let mut bodies = vec![]; let mut coq_funcs = vec![];
        for fi in 0..nf { let (ps, rs) = sigs[ftys[fi]].clone();
            let callees: Vec<(u32, Vec<T>, Vec<T>)> = (0..fi).map(|j| (j as u32, sigs[ftys[j]].0.clone(), sigs[ftys[j]].1.clone())).collect();
            let mut g = G { r: &mut r, params: ps.clone(), locals: locals.clone(), n_counters: 3, counters_used: 0, results: rs.clone(), btys: btys.clone(), budget: 40, dead_ops: 0, n_loops: 0, n_br: 0, ext: true, n_mem: 0, sabotage_at: None, sabotaged: None,
                bt_base, callees, sigs: sigs.clone(), table_len, n_calls: 0, self_idx: Some(fi as u32),
                slot_types: order.iter().map(|f| if (*f as usize) < fi { Some(ftys[*f as usize]) } else { None }).chain(std::iter::once(None)).collect() };
            let mut labels = vec![Label { tys: rs.clone(), is_loop: false }];
            let body = g.seq(&mut labels, vec![], &rs, 0);
            n_ops += body.w.len(); n_calls += g.n_calls; n_funcs += 1;
            coq_funcs.push(format!("({}, [{}], [{}])", ftys[fi], locals.iter().map(|x| coq_vt(*x)).collect::<Vec<_>>().join("; "), body.c.join("; ")));
            bodies.push(body.w); }
        let mut m = we::Module::new();
        let mut t = we::TypeSection::new(); for (p, q) in sigs.iter().chain(btys.iter()) { t.function(p.iter().map(|x| vt(*x)), q.iter().map(|x| vt(*x))); } m.section(&t);
        let mut f = we::FunctionSection::new(); for fi in 0..nf { f.function(ftys[fi] as u32); } m.section(&f);
        let mut tb = we::TableSection::new(); tb.table(we::TableType { element_type: we::RefType::FUNCREF, table64: false, minimum: table_len as u64, maximum: Some(table_len as u64), shared: false }); m.section(&tb);
        let mut ms = we::MemorySection::new(); ms.memory(we::MemoryType { minimum: 1, maximum: Some(3), memory64: false, shared: false, page_size_log2: None }); m.section(&ms);
        let g0 = *r.pick(&[0i32, 5, -3]); let g1 = *r.pick(&[0i64, 9, -1]);
        let mut gs = we::GlobalSection::new();
        gs.global(we::GlobalType { val_type: we::ValType::I32, mutable: true, shared: false }, &we::ConstExpr::i32_const(g0));
        gs.global(we::GlobalType { val_type: we::ValType::I64, mutable: true, shared: false }, &we::ConstExpr::i64_const(g1));
        gs.global(we::GlobalType { val_type: we::ValType::I32, mutable: false, shared: false }, &we::ConstExpr::i32_const(7));
        m.section(&gs);
        let mut e = we::ExportSection::new(); for fi in 0..nf { e.export(&format!("f{}", fi), we::ExportKind::Func, fi as u32); } e.export("g0", we::ExportKind::Global, 0); e.export("g1", we::ExportKind::Global, 1); e.export("m", we::ExportKind::Memory, 0); m.section(&e);
        let mut el = we::ElementSection::new(); el.active(Some(0), &we::ConstExpr::i32_const(0), we::Elements::Functions(&order)); m.section(&el);
        let mut c = we::CodeSection::new(); for b in &bodies { let mut wf = we::Function::new(locals.iter().map(|x| (1u32, vt(*x)))); for i in b { wf.instruction(i); } wf.instruction(&I::End); c.function(&wf); } m.section(&c);
        let wasm = m.finish();
        if let Err(e) = crate::amod::validate(&wasm, crate::env::walrus_features(false)) { if std::env::var("VH_DEBUG").is_ok() { eprintln!("invalid generated module {}: {}", k, e); } n_fail += 1; continue; }
        let out = match catch(|| { let mut c = walrus::ModuleConfig::new(); c.generate_producers_section(false); c.parse(&wasm).map(|mut m| m.emit_wasm()).map_err(|e| e.to_string()) }) { Some(Ok(o)) => o, _ => { n_fail += 1; continue } };
        let id = format!("{:05}", k);
        std::fs::write(format!("{}/{}.in.wasm", dir, id), &wasm).unwrap(); std::fs::write(format!("{}/{}.out.wasm", dir, id), &out).unwrap();
        // calls: every function, two argument vectors each
        let mut calls = vec![];
        for fi in 0..nf { for _ in 0..2 { let a: Vec<Json> = sigs[ftys[fi]].0.iter().map(|t| match t {
                T::I32 => Json::obj(vec![("t", Json::s("i32")), ("v", Json::s((*r.pick(&[0i32, 1, 2, 3, -1, 7, 100, i32::MAX, i32::MIN])).to_string()))]),
                T::I64 => Json::obj(vec![("t", Json::s("i64")), ("v", Json::s((*r.pick(&[0i64, 1, -1, 5, 1 << 33, i64::MAX, i64::MIN])).to_string()))]) }).collect();
            calls.push(Json::obj(vec![("f", Json::u(fi)), ("args", Json::Arr(a))])); } }
        let tys_coq = format!("[{}]", sigs.iter().chain(btys.iter()).map(|(p, q)| format!("([{}], [{}])", p.iter().map(|x| coq_vt(*x)).collect::<Vec<_>>().join("; "), q.iter().map(|x| coq_vt(*x)).collect::<Vec<_>>().join("; "))).collect::<Vec<_>>().join("; "));
        index.push(Json::obj(vec![("id", Json::s(id)), ("calls", Json::Arr(calls)), ("g0", Json::s(g0.to_string())), ("g1", Json::s(g1.to_string())), ("tys", Json::s(tys_coq)),
            ("funcs", Json::s(format!("[{}]", coq_funcs.join("; ")))), ("table", Json::s(format!("[{}; None]", order.iter().map(|x| format!("Some {}", x)).collect::<Vec<_>>().join("; "))))]));
    }
    std::fs::write(format!("{}/index.json", dir), Json::obj(vec![("cases", Json::Arr(index)), ("operators", Json::u(n_ops)), ("call_sites", Json::u(n_calls)), ("functions", Json::u(n_funcs)), ("failures", Json::u(n_fail))]).to_string()).unwrap();
}
