//! Attribute cross-product generator: small modules exercising every entity kind x imported/local
//! x 32/64-bit x shared x every element/data segment encoding x names x customs x producers,
//! with simple bodies that create (or withhold) references so that GC has something to decide.
use crate::env::vt;
use crate::rng::Rng;
use wasm_encoder as we;
use we::Instruction as I;

#[derive(Default, Clone, Debug)]
pub struct AInfo { pub n_imports: usize, pub n_funcs: usize, pub n_tables: usize, pub n_mems: usize, pub n_globals: usize, pub n_elems: usize, pub n_data: usize, pub n_customs: usize, pub has_names: bool, pub has_producers: bool, pub has_start: bool, pub has_datacount: bool, pub elem_flags: Vec<u8>, pub mem64: usize, pub shared: usize, pub table64: usize }

fn name(r: &mut Rng) -> String { let n = 1 + r.usize(3); (0..n).map(|_| (b'a' + r.below(4) as u8) as char).collect() }
fn limits(r: &mut Rng, big: bool) -> (u64, Option<u64>) { let min = r.below(3); let max = if r.chance(1, 2) { Some(min + r.below(3) + if big && r.chance(1, 4) { 1 << 33 } else { 0 }) } else { None }; (min, max) }

pub fn module(r: &mut Rng, allow_unstable: bool) -> (Vec<u8>, AInfo) {
    let mut info = AInfo::default();
    let mut m = we::Module::new();
    let mut customs_left = r.usize(4);
    let custom = |m: &mut we::Module, r: &mut Rng, info: &mut AInfo, left: &mut usize| { if *left > 0 && r.chance(1, 3) { *left -= 1; info.n_customs += 1;
        let nm = match r.below(9) { 0 => "".to_string(), 1 => ".debu".to_string(), 2 => "nam".to_string(), 3 => "dup".to_string(),
            // names that merely CONTAIN or resemble the names walrus treats specially (relocatable objects have `reloc..debug_info`)
            4 => r.pick(&["reloc..debug_info", "x.debug_line", "name2", "names", "producers2", "my.producers", "linking", "target_features", "Name", "PRODUCERS", " name", "name "]).to_string(),
            _ => name(r) };
        let len = r.usize(5); m.section(&we::CustomSection { name: nm.into(), data: (0..len).map(|_| r.below(256) as u8).collect::<Vec<u8>>().into() }); } };
    custom(&mut m, r, &mut info, &mut customs_left);
    // types (some duplicates on purpose: walrus de-duplicates)
    let mut types: Vec<(Vec<u8>, Vec<u8>)> = vec![(vec![], vec![])];
    for _ in 0..r.usize(4) { let np = r.usize(3); let nr = r.usize(3); types.push(((0..np).map(|_| r.below(4) as u8).collect(), (0..nr).map(|_| r.below(4) as u8).collect())); }
    if r.chance(1, 3) { let t = types[r.usize(types.len())].clone(); types.push(t); }
    let mut ts = we::TypeSection::new(); for (p, q) in &types { ts.function(p.iter().map(|c| vt(*c)), q.iter().map(|c| vt(*c))); } m.section(&ts);
    custom(&mut m, r, &mut info, &mut customs_left);
    // imports
    let mut funcs: Vec<u32> = vec![]; let mut tables: Vec<(bool, bool)> = vec![]; /* (externref, table64) */ let mut mems: Vec<(bool, bool)> = vec![]; /* (memory64, shared) */ let mut globals: Vec<(u8, bool, bool)> = vec![]; /* (type, mutable, imported) */
    let mut is = we::ImportSection::new(); let n_imp = r.usize(5);
    let mut prev_names: Vec<(String, String)> = vec![];
    for k in 0..n_imp {
        // wasm allows several imports with the same (module, field) pair, of the same or of different kinds
        let (md, nm) = if !prev_names.is_empty() && r.chance(1, 4) { r.pick(&prev_names).clone() } else { (name(r), format!("i{}", k)) };
        prev_names.push((md.clone(), nm.clone()));
        match r.below(4) {
            0 => { let t = r.usize(types.len()) as u32; is.import(&md, &nm, we::EntityType::Function(t)); funcs.push(t); }
            1 => { let ext = r.chance(1, 3); let t64 = allow_unstable && r.chance(1, 5); let (min, max) = limits(r, t64); if t64 { info.table64 += 1; }
                   is.import(&md, &nm, we::EntityType::Table(we::TableType { element_type: if ext { we::RefType::EXTERNREF } else { we::RefType::FUNCREF }, table64: t64, minimum: min, maximum: max, shared: false })); tables.push((ext, t64)); }
            2 => { if !mems.is_empty() && !allow_unstable { continue; } let m64 = allow_unstable && r.chance(1, 3); let sh = allow_unstable && r.chance(1, 3); let (min, mut max) = limits(r, m64); if sh && max.is_none() { max = Some(min + 1); }
                   if m64 { info.mem64 += 1; } if sh { info.shared += 1; }
                   is.import(&md, &nm, we::EntityType::Memory(we::MemoryType { minimum: min, maximum: max, memory64: m64, shared: sh, page_size_log2: None })); mems.push((m64, sh)); }
            _ => { let t = *r.pick(&[0u8, 0, 1, 2, 3, 5, 6, 6]); let mu = r.chance(1, 3); is.import(&md, &nm, we::EntityType::Global(we::GlobalType { val_type: vt(t), mutable: mu, shared: false })); globals.push((t, mu, true)); }
        }
        info.n_imports += 1;
    }
    if info.n_imports > 0 { m.section(&is); }
    let n_imp_funcs = funcs.len();
    // local function declarations
    let n_local = 1 + r.usize(4); for _ in 0..n_local { funcs.push(r.usize(types.len()) as u32); }
    let mut fs = we::FunctionSection::new(); for t in &funcs[n_imp_funcs..] { fs.function(*t); } m.section(&fs);
    info.n_funcs = n_local;
    custom(&mut m, r, &mut info, &mut customs_left);
    // tables
    let n_t = r.usize(3); if n_t > 0 { let mut s = we::TableSection::new(); for _ in 0..n_t { let ext = r.chance(1, 3); let t64 = allow_unstable && r.chance(1, 6); let (min, max) = limits(r, t64); if t64 { info.table64 += 1; }
        s.table(we::TableType { element_type: if ext { we::RefType::EXTERNREF } else { we::RefType::FUNCREF }, table64: t64, minimum: min + 2, maximum: max.map(|x| x + 2), shared: false }); tables.push((ext, t64)); } m.section(&s); }
    // memories
    let n_m = if allow_unstable { r.usize(3) } else if mems.is_empty() { r.usize(2) } else { 0 };
    if n_m > 0 { let mut s = we::MemorySection::new(); for _ in 0..n_m { let m64 = allow_unstable && r.chance(1, 3); let sh = allow_unstable && r.chance(1, 4); let (min, mut max) = limits(r, m64); if sh && max.is_none() { max = Some(min + 1); }
        if m64 { info.mem64 += 1; } if sh { info.shared += 1; }
        s.memory(we::MemoryType { minimum: min + 1, maximum: max.map(|x| x + 1), memory64: m64, shared: sh, page_size_log2: None }); mems.push((m64, sh)); } m.section(&s); }
    // globals
    let n_g = r.usize(4); if n_g > 0 { let mut s = we::GlobalSection::new(); for _ in 0..n_g { let t = r.below(6) as u8; let mu = r.chance(1, 2);   // 4 = v128: a constant whose sixteen bytes are all different
        let imm: Vec<usize> = globals.iter().enumerate().filter(|(_, g)| g.2 && !g.1 && g.0 == t).map(|(i, _)| i).collect();
        let init = if !imm.is_empty() && r.chance(1, 2) { we::ConstExpr::global_get(*r.pick(&imm) as u32) } else { match t { 0 => we::ConstExpr::i32_const(r.below(100) as i32 - 50), 1 => we::ConstExpr::i64_const(r.below(100) as i64), 2 => we::ConstExpr::f32_const(f32::from_bits(0x7fa00001)), 3 => we::ConstExpr::f64_const(1.5), 4 => we::ConstExpr::v128_const(0x0f0e0d0c0b0a09080706050403020100u128 as i128 + r.below(200) as i128),
            _ => if r.chance(1, 2) { we::ConstExpr::ref_func(r.usize(funcs.len()) as u32) } else { we::ConstExpr::ref_null(we::HeapType::Abstract { shared: false, ty: we::AbstractHeapType::Func }) } } };
        s.global(we::GlobalType { val_type: vt(t), mutable: mu, shared: false }, &init); globals.push((t, mu, false)); } m.section(&s); }
    info.n_tables = tables.len(); info.n_mems = mems.len(); info.n_globals = globals.len();
    // exports
    let mut es = we::ExportSection::new(); let mut n_e = 0;
    for k in 0..funcs.len() { if r.chance(1, 2) { es.export(&format!("f{}", k), we::ExportKind::Func, k as u32); n_e += 1;
        // the same function under a second (and third) name
        if r.chance(1, 4) { es.export(&format!("f{}again", k), we::ExportKind::Func, k as u32); n_e += 1; if r.chance(1, 3) { es.export(&format!("f{}thrice", k), we::ExportKind::Func, k as u32); n_e += 1; } } } }
    for k in 0..tables.len() { if r.chance(1, 2) { es.export(&format!("t{}", k), we::ExportKind::Table, k as u32); n_e += 1; } }
    for k in 0..mems.len() { if r.chance(1, 2) { es.export(&format!("m{}", k), we::ExportKind::Memory, k as u32); n_e += 1; } }
    for k in 0..globals.len() { if r.chance(1, 2) { es.export(&format!("g{}", k), we::ExportKind::Global, k as u32); n_e += 1; } }
    if n_e > 0 { m.section(&es); }
    let starts: Vec<u32> = (0..funcs.len() as u32).filter(|k| types[funcs[*k as usize] as usize] == (vec![], vec![])).collect();
    if !starts.is_empty() && r.chance(1, 4) { m.section(&we::StartSection { function_index: *r.pick(&starts) }); info.has_start = true; }
    // element segments: every encoding
    let ftabs: Vec<u32> = tables.iter().enumerate().filter(|(_, t)| !t.0).map(|(i, _)| i as u32).collect();
    let etabs: Vec<u32> = tables.iter().enumerate().filter(|(_, t)| t.0).map(|(i, _)| i as u32).collect();
    let mut el = we::ElementSection::new(); let n_el = r.usize(5); let mut n_elems = 0;
    let iglob: Vec<u32> = globals.iter().enumerate().filter(|(_, g)| g.2 && !g.1 && g.0 == 0).map(|(i, _)| i as u32).collect();
    let iglob64: Vec<u32> = globals.iter().enumerate().filter(|(_, g)| g.2 && !g.1 && g.0 == 1).map(|(i, _)| i as u32).collect();
    let eglob: Vec<u32> = globals.iter().enumerate().filter(|(_, g)| g.2 && !g.1 && g.0 == 6).map(|(i, _)| i as u32).collect();
    for _ in 0..n_el {
        let fl: Vec<u32> = (0..r.usize(3)).map(|_| r.usize(funcs.len()) as u32).collect();
        let fexprs: Vec<we::ConstExpr> = fl.iter().map(|f| if r.chance(1, 4) { we::ConstExpr::ref_null(we::HeapType::Abstract { shared: false, ty: we::AbstractHeapType::Func }) } else { we::ConstExpr::ref_func(*f) }).collect();
        let eexprs: Vec<we::ConstExpr> = (0..r.usize(3)).map(|_| if !eglob.is_empty() && r.chance(1, 2) { we::ConstExpr::global_get(*r.pick(&eglob)) } else { we::ConstExpr::ref_null(we::HeapType::Abstract { shared: false, ty: we::AbstractHeapType::Extern }) }).collect();
        let flag = r.below(9) as u8;
        let off = |r: &mut Rng, t64: bool| if t64 { if !iglob64.is_empty() && r.chance(1, 2) { we::ConstExpr::global_get(*r.pick(&iglob64)) } else { we::ConstExpr::i64_const(0) } } else if !iglob.is_empty() && r.chance(1, 3) { we::ConstExpr::global_get(*r.pick(&iglob)) } else { we::ConstExpr::i32_const(r.below(2) as i32) };
        match flag {
            0 | 2 if !ftabs.is_empty() => { let t = if flag == 0 && ftabs.contains(&0) { 0 } else { *r.pick(&ftabs) }; let o = off(r, tables[t as usize].1); el.active(if t == 0 && flag == 0 { None } else { Some(t) }, &o, we::Elements::Functions(&fl)); }
            1 => { el.passive(we::Elements::Functions(&fl)); }
            3 => { el.declared(we::Elements::Functions(&fl)); }
            4 | 6 if !ftabs.is_empty() => { let t = if flag == 4 && ftabs.contains(&0) { 0 } else { *r.pick(&ftabs) }; let o = off(r, tables[t as usize].1); el.active(if t == 0 && flag == 4 { None } else { Some(t) }, &o, we::Elements::Expressions(we::RefType::FUNCREF, &fexprs)); }
            5 => { el.passive(we::Elements::Expressions(we::RefType::FUNCREF, &fexprs)); }
            7 => { el.declared(we::Elements::Expressions(we::RefType::FUNCREF, &fexprs)); }
            8 if !etabs.is_empty() => { let t = *r.pick(&etabs); let o = off(r, tables[t as usize].1); if r.chance(1, 2) { el.active(Some(t), &o, we::Elements::Expressions(we::RefType::EXTERNREF, &eexprs)); } else { el.passive(we::Elements::Expressions(we::RefType::EXTERNREF, &eexprs)); } }
            _ => continue,
        }
        info.elem_flags.push(flag); n_elems += 1;
    }
    if n_elems > 0 { m.section(&el); }
    info.n_elems = n_elems;
    // data
    let n_d = r.usize(4); let mut dkinds: Vec<Option<u32>> = vec![];
    for _ in 0..n_d { if mems.is_empty() || r.chance(1, 3) { dkinds.push(None); } else { dkinds.push(Some(r.usize(mems.len()) as u32)); } }
    info.n_data = n_d;
    // bodies decide whether a data count is needed
    let mut bodies: Vec<Vec<I<'static>>> = vec![]; let mut uses_data = false;
    for fi in n_imp_funcs..funcs.len() {
        let (_ps, rs) = types[funcs[fi] as usize].clone(); let mut b: Vec<I<'static>> = vec![];
        for _ in 0..r.usize(4) {
            match r.below(9) {
                0 => { let f = r.usize(funcs.len()); let (p, q) = types[funcs[f] as usize].clone(); for c in p { b.push(crate::env::const_of(c)); } b.push(I::Call(f as u32)); for _ in q { b.push(I::Drop); } }
                1 if !globals.is_empty() => { let g = r.usize(globals.len()); b.push(I::GlobalGet(g as u32)); b.push(I::Drop); }
                2 if n_d > 0 && !mems.is_empty() => { let mi = r.usize(mems.len()); let d = r.usize(n_d); b.push(if mems[mi].0 { I::I64Const(0) } else { I::I32Const(0) }); b.push(I::I32Const(0)); b.push(I::I32Const(0)); b.push(I::MemoryInit { mem: mi as u32, data_index: d as u32 }); uses_data = true; }
                3 if n_d > 0 => { b.push(I::DataDrop(r.usize(n_d) as u32)); uses_data = true; }
                4 if n_elems > 0 => { b.push(I::ElemDrop(r.usize(n_elems) as u32)); }
                5 => { let f = r.usize(funcs.len()); let declared = true; if declared { b.push(I::RefFunc(f as u32)); b.push(I::Drop); } }
                6 if !mems.is_empty() => { let mi = r.usize(mems.len()); b.push(I::MemorySize(mi as u32)); b.push(I::Drop); }
                7 if !tables.is_empty() => { let t = r.usize(tables.len()); b.push(I::TableSize(t as u32)); b.push(I::Drop); }
                _ => { b.push(I::Nop); }
            }
        }
        if !rs.is_empty() { b.push(I::Unreachable); }
        bodies.push(b);
    }
    let passive = dkinds.iter().any(|d| d.is_none());
    if n_d > 0 && (uses_data || (passive && r.chance(3, 4)) || r.chance(1, 4)) { m.section(&we::DataCountSection { count: n_d as u32 }); info.has_datacount = true; }
    let mut cs = we::CodeSection::new();
    for (k, b) in bodies.iter().enumerate() { let np = types[funcs[n_imp_funcs + k] as usize].0.len(); let _ = np;
        let mut f = we::Function::new(if r.chance(1, 2) { vec![(1 + r.below(2) as u32, we::ValType::I32), (1, we::ValType::F64)] } else { vec![] }); for i in b { f.instruction(i); } f.instruction(&I::End); cs.function(&f); }
    m.section(&cs);
    if n_d > 0 { let mut ds = we::DataSection::new(); for d in &dkinds { let bytes: Vec<u8> = (0..r.usize(4)).map(|_| r.below(256) as u8).collect();
        match d { None => { ds.passive(bytes); } Some(mi) => { let o = if mems[*mi as usize].0 { if !iglob64.is_empty() && r.chance(1, 2) { we::ConstExpr::global_get(*r.pick(&iglob64)) } else { we::ConstExpr::i64_const(r.below(3) as i64) } } else if !iglob.is_empty() && r.chance(1, 3) { we::ConstExpr::global_get(*r.pick(&iglob)) } else { we::ConstExpr::i32_const(r.below(3) as i32) }; ds.active(*mi, &o, bytes); } } } m.section(&ds); }
    custom(&mut m, r, &mut info, &mut customs_left);
    // names
    if r.chance(1, 2) {
        info.has_names = true; let mut ns = we::NameSection::new();
        // sparse mode: exactly one kind of entity is named (each subsection must work on its own)
        let only: Option<u64> = if r.chance(1, 3) { Some(r.below(8)) } else { None };
        // tools leave stale entries behind (an index that no longer exists): they must be ignored without affecting other names
        let stale = r.chance(1, 5);
        if only.is_none() && r.chance(1, 2) { ns.module(&name(r)); }
        let mk = |r: &mut Rng, n: usize, kind: u64| { let mut nm = we::NameMap::new(); let on = only.map(|o| o == kind).unwrap_or(true); for k in 0..n as u32 { if on && (only.is_some() || r.chance(1, 2)) { let nm_s = if r.chance(1, 6) { String::new() } else { format!("{}{}", name(r), k) }; nm.append(k, &nm_s); } }   // sometimes the EMPTY name (legal; with synthetic names on, walrus treats an empty local name as absent)
            if on && stale { nm.append(n as u32 + 3, "stale-entry-for-an-index-that-does-not-exist"); } nm };
        let fm = mk(r, funcs.len(), 0); if !fm.is_empty() || only.is_none() { ns.functions(&fm); }
        let mut ind = we::IndirectNameMap::new(); let mut any_l = false; for fi in n_imp_funcs..funcs.len() { if only.map(|o| o == 1).unwrap_or(r.chance(1, 2)) { let np = types[funcs[fi] as usize].0.len(); let lm = mk(r, np + 2, 1); if !lm.is_empty() { any_l = true; ind.append(fi as u32, &lm); } } }
        if stale && only.map(|o| o == 1).unwrap_or(true) { let mut lm = we::NameMap::new(); lm.append(0, "local-of-a-function-that-does-not-exist"); ind.append(funcs.len() as u32 + 2, &lm); any_l = true; }
        if any_l || only.is_none() { ns.locals(&ind); }
        // subsections walrus does not interpret (labels: id 3, between locals and types; fields and tags at the end): they may be dropped, but must not
        // disturb any other subsection
        let uninterpreted = only.is_none() && r.chance(1, 3);
        if uninterpreted && n_imp_funcs < funcs.len() { let mut lm = we::NameMap::new(); lm.append(0, "exit"); lm.append(1, "again"); let mut il = we::IndirectNameMap::new(); il.append(n_imp_funcs as u32, &lm); ns.labels(&il); }
        // sometimes the names are spread over TWO `name` custom sections (legal: every one of them is read)
        let split = only.is_none() && r.chance(1, 4); let mut ns2 = we::NameSection::new();
        for (kind, n) in [(2u64, types.len()), (3, tables.len()), (4, mems.len()), (5, globals.len()), (6, n_elems), (7, n_d)] { let nm = mk(r, n, kind); if nm.is_empty() && only.is_some() { continue; }
            let t = if split && kind >= 4 { &mut ns2 } else { &mut ns };
            match kind { 2 => { t.types(&nm); } 3 => { t.tables(&nm); } 4 => { t.memories(&nm); } 5 => { t.globals(&nm); } 6 => { t.elements(&nm); } _ => { t.data(&nm); } } }
        if uninterpreted && r.chance(1, 2) { let mut fm = we::NameMap::new(); fm.append(0, "field0"); let mut il = we::IndirectNameMap::new(); il.append(0, &fm); ns.fields(&il); let mut tg = we::NameMap::new(); tg.append(0, "tag0"); ns.tags(&tg); }
        m.section(&ns); if split { m.section(&ns2); }
    }
    custom(&mut m, r, &mut info, &mut customs_left);
    if r.chance(1, 3) { info.has_producers = true; let mut p = we::ProducersSection::new();
        // only the three field names of the tool-conventions document exist (wasmparser rejects any other); a field may have no value at all, and a
        // value name may occur twice in one field
        let mut f = we::ProducersField::new(); f.value("rustc", "1.70"); if r.chance(1, 4) { f.value("rustc", "1.71"); } p.field("language", &f);
        match r.below(4) { 0 => { let f = we::ProducersField::new(); p.field("sdk", &f); } 1 => { let mut f = we::ProducersField::new(); f.value("emscripten", "3.1"); f.value("emscripten", "3.1"); p.field("sdk", &f); } _ => {} }
        if r.chance(1, 2) { let mut f = we::ProducersField::new(); f.value("clang", "15"); if r.chance(1, 2) { f.value("walrus", "0.0.1"); } if r.chance(1, 4) { f.value("clang", "16"); } p.field("processed-by", &f); }
        m.section(&p); }
    while customs_left > 0 { let before = customs_left; custom(&mut m, r, &mut info, &mut customs_left); if before == customs_left && r.chance(1, 2) { break; } }
    (m.finish(), info)
}
