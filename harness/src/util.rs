use std::fmt::Write as _;
use std::io::Write as _;
use std::panic::{catch_unwind, AssertUnwindSafe};

pub fn quiet_panics() { if std::env::var("VH_PANIC").is_err() { std::panic::set_hook(Box::new(|_| {})); } }
pub fn catch<T>(f: impl FnOnce() -> T) -> Option<T> { catch_unwind(AssertUnwindSafe(f)).ok() }

/// Minimal JSON value + printer (no serde dependency needed).
#[derive(Clone, Debug)]
pub enum Json { Null, Bool(bool), Num(f64), Str(String), Arr(Vec<Json>), Obj(Vec<(String, Json)>) }
impl Json {
    pub fn obj(v: Vec<(&str, Json)>) -> Json { Json::Obj(v.into_iter().map(|(k, v)| (k.to_string(), v)).collect()) }
    pub fn s(x: impl Into<String>) -> Json { Json::Str(x.into()) }
    pub fn n(x: impl Into<f64>) -> Json { Json::Num(x.into()) }
    pub fn u(x: usize) -> Json { Json::Num(x as f64) }
}
impl std::fmt::Display for Json {
    fn fmt(&self, f: &mut std::fmt::Formatter) -> std::fmt::Result {
        match self {
            Json::Null => write!(f, "null"), Json::Bool(b) => write!(f, "{}", b),
            Json::Num(n) => if n.fract() == 0.0 && n.abs() < 1e15 { write!(f, "{}", *n as i64) } else { write!(f, "{}", n) },
            Json::Str(s) => { let mut o = String::from("\""); for c in s.chars() { match c { '"' => o.push_str("\\\""), '\\' => o.push_str("\\\\"), '\n' => o.push_str("\\n"), '\t' => o.push_str("\\t"), '\r' => o.push_str("\\r"), c if (c as u32) < 0x20 => { let _ = write!(o, "\\u{:04x}", c as u32); } c => o.push(c) } } o.push('"'); write!(f, "{}", o) }
            Json::Arr(a) => { write!(f, "[")?; for (i, x) in a.iter().enumerate() { if i > 0 { write!(f, ",")?; } write!(f, "{}", x)?; } write!(f, "]") }
            Json::Obj(a) => { write!(f, "{{")?; for (i, (k, x)) in a.iter().enumerate() { if i > 0 { write!(f, ",")?; } write!(f, "{}:{}", Json::Str(k.clone()), x)?; } write!(f, "}}") }
        }
    }
}

/// Writes sharded `cases_<name>_<k>.v` files: each defines `cases` and evaluates
/// `map <check> cases` with vm_compute; the driver runs one coqc per shard.
pub struct CaseWriter { dir: String, name: String, header: String, ty: String, check: String, per: usize, cur: Vec<String>, pub total: usize, pub shards: usize }
impl CaseWriter {
    pub fn new(dir: &str, name: &str, header: &str, ty: &str, check: &str, per: usize) -> CaseWriter {
        std::fs::create_dir_all(dir).unwrap();
        CaseWriter { dir: dir.into(), name: name.into(), header: header.into(), ty: ty.into(), check: check.into(), per, cur: vec![], total: 0, shards: 0 }
    }
    pub fn push(&mut self, case: &str) { self.cur.push(case.to_string()); self.total += 1; if self.cur.len() >= self.per { self.flush(); } }
    fn flush(&mut self) {
        if self.cur.is_empty() { return; }
        let path = format!("{}/cases_{}_{}.v", self.dir, self.name, self.shards);
        let mut f = std::io::BufWriter::new(std::fs::File::create(path).unwrap());
        writeln!(f, "From Coq Require Import List NArith ZArith String. Import ListNotations.\n{}", self.header).unwrap();
        writeln!(f, "Definition cases : list {} := [", self.ty).unwrap();
        for (i, c) in self.cur.iter().enumerate() { writeln!(f, "  {}{}", c, if i + 1 < self.cur.len() { ";" } else { "" }).unwrap(); }
        writeln!(f, "].\nEval vm_compute in (List.map {} cases).", self.check).unwrap();
        self.cur.clear(); self.shards += 1;
    }
    pub fn finish(&mut self) { self.flush(); }
}
