//! C01 / C06, BULK MEMORY: the modules of c01inst.rs plus 1-4 PASSIVE data segments (lengths 0-40) interleaved with the active ones, a data-count
//! section, and function bodies into which memory.init / data.drop / memory.copy / memory.fill sequences are spliced at top-level positions (also
//! into the start function): operands mostly in bounds, some at the exact end of the memory / of the segment, some one past it, n = 0 at the
//! boundary and one past it, overlapping copies in both directions, memory.init after data.drop, memory.init / data.drop of ACTIVE segments.
//! Half of the modules go through walrus's GC pass: unused passive segments are deleted, the others renumbered (Model/SemBulk.v).
use crate::c01core::{block_types, coq_vt, vt, Label, Out, G, T};
use crate::rng::Rng;
use crate::util::{catch, Json};
use wasm_encoder as we;
use we::Instruction as I;

#[derive(Clone)]
enum Off { Const(i32), Global(u32) }
impl Off {
    fn we(&self) -> we::ConstExpr { match self { Off::Const(v) => we::ConstExpr::i32_const(*v), Off::Global(g) => we::ConstExpr::global_get(*g) } }
    fn coq(&self) -> String { match self { Off::Const(v) => format!("(CI32 ({})%Z)", v), Off::Global(g) => format!("(CGlobalGet {})", g) } }
    fn value(&self, imp: i32) -> i64 { match self { Off::Const(v) => (*v as u32) as i64, Off::Global(_) => (imp as u32) as i64 } }
}
enum ESeg { Active { explicit_table: bool, exprs: bool, off: Off, items: Vec<Option<u32>> }, Passive { exprs: bool, items: Vec<Option<u32>> }, Declared { items: Vec<Option<u32>> } }
enum DSeg { Active { off: Off, bytes: Vec<u8> }, Passive { bytes: Vec<u8> } }
impl DSeg { fn len(&self) -> i64 { match self { DSeg::Active { bytes, .. } | DSeg::Passive { bytes } => bytes.len() as i64 } } fn passive(&self) -> bool { matches!(self, DSeg::Passive { .. }) } }

fn coq_items(items: &[Option<u32>]) -> String { format!("[{}]", items.iter().map(|x| match x { Some(f) => format!("Some {}", f), None => "None".to_string() }).collect::<Vec<_>>().join("; ")) }
fn coq_bytes(b: &[u8]) -> String { format!("[{}]", b.iter().map(|x| x.to_string()).collect::<Vec<_>>().join("; ")) }

fn shift_globals(o: &mut Out, gb: u32) {
    if gb == 0 { return; }
    for i in o.w.iter_mut() { match i { I::GlobalGet(g) => *g += gb, I::GlobalSet(g) => *g += gb, _ => {} } }
    for c in o.c.iter_mut() {
        for key in ["W_GlobalGet ", "W_GlobalSet "] {
            let mut out = String::new(); let mut rest = c.as_str();
            while let Some(p) = rest.find(key) {
                out.push_str(&rest[..p + key.len()]); rest = &rest[p + key.len()..];
                let nd = rest.chars().take_while(|ch| ch.is_ascii_digit()).count();
                let n: u32 = rest[..nd].parse().unwrap(); out.push_str(&(n + gb).to_string()); rest = &rest[nd..];
            }
            out.push_str(rest); *c = out;
        }
    }
}

/// the Coq text of a function with its data indices renamed as walrus's output has them (index d -> position of d among the survivors; a site in dead
/// code may name a deleted segment: walrus never sees it, the text keeps a placeholder that is never executed)
fn rename_data_sites(c: &str, survivors: &[usize]) -> String {
    let mut cur = c.to_string();
    for key in ["W_MemoryInit ", "W_DataDrop "] {
        let mut out = String::new(); let mut rest = cur.as_str();
        while let Some(p) = rest.find(key) {
            out.push_str(&rest[..p + key.len()]); rest = &rest[p + key.len()..];
            let nd = rest.chars().take_while(|ch| ch.is_ascii_digit()).count();
            let n: usize = rest[..nd].parse().unwrap(); out.push_str(&survivors.iter().position(|x| *x == n).unwrap_or(0).to_string()); rest = &rest[nd..];
        }
        out.push_str(rest); cur = out;
    }
    cur
}

/// statistics of the generated bulk sequences
#[derive(Default)]
struct Stats { fill: usize, copy: usize, init: usize, drop: usize, init_active: usize, init_after_drop: usize, overlap_fwd: usize, overlap_bwd: usize, at_end: usize, past_end: usize, zero_at_boundary: usize, zero_past_boundary: usize, computed_operand: usize }

/// one spliced group of instructions (stack neutral)
struct Seq { w: Vec<I<'static>>, c: Vec<String> }
impl Seq {
    fn op(&mut self, i: I<'static>, c: String) { self.w.push(i); self.c.push(format!("RPlain ({}) 0", c)); }
    fn k(&mut self, v: i64) { let v = v as i32; self.op(I::I32Const(v), format!("W_I32Const ({})%Z", v)); }
    /// an operand: a constant, or (when the first parameter is an i32) `(p0 & 7) + base` - a value known only at run time
    fn operand(&mut self, r: &mut Rng, v: i64, p0_i32: bool, st: &mut Stats) {
        if p0_i32 && r.chance(1, 6) { st.computed_operand += 1; self.op(I::LocalGet(0), "W_LocalGet 0".into()); self.k(7); self.op(I::I32And, "W_I32And".into()); self.k(v); self.op(I::I32Add, "W_I32Add".into()); }
        else { self.k(v); }
    }
    fn fill(&mut self, r: &mut Rng, d: i64, v: i64, n: i64, p0: bool, st: &mut Stats) { self.operand(r, d, p0, st); self.k(v); self.k(n); self.op(I::MemoryFill(0), "W_MemoryFill 0".into()); st.fill += 1; }
    fn copy(&mut self, r: &mut Rng, d: i64, s: i64, n: i64, p0: bool, st: &mut Stats) { self.operand(r, d, p0, st); self.k(s); self.k(n); self.op(I::MemoryCopy { src_mem: 0, dst_mem: 0 }, "W_MemoryCopy 0 0".into()); st.copy += 1; }
    fn init(&mut self, r: &mut Rng, seg: u32, d: i64, s: i64, n: i64, p0: bool, st: &mut Stats) { self.operand(r, d, p0, st); self.k(s); self.k(n); self.op(I::MemoryInit { mem: 0, data_index: seg }, format!("W_MemoryInit {} 0", seg)); st.init += 1; }
    fn drop(&mut self, seg: u32, st: &mut Stats) { self.op(I::DataDrop(seg), format!("W_DataDrop {}", seg)); st.drop += 1; }
}

const MEM: i64 = 65536;
/// a destination for `n` bytes: mostly in bounds (near the addresses the generated loads read), sometimes ending exactly at the end of the memory, sometimes one past it
fn dest(r: &mut Rng, n: i64, calm: bool, st: &mut Stats) -> i64 {
    match r.below(12) { 0 => { st.at_end += 1; MEM - n } 1 if !calm => { st.past_end += 1; MEM - n + 1 } 2 => { let a = *r.pick(&[65500i64, 65520, 65528]); a.min(MEM - n) }
        _ => *r.pick(&[0i64, 1, 2, 8, 16, 96, 100, 104, 250, 1000, 1004, 4096, 4100]) }
}

fn bulk_seq(r: &mut Rng, dsegs: &[DSeg], sites: &mut Vec<u32>, p0: bool, calm: bool, st: &mut Stats) -> Seq {
    let mut q = Seq { w: vec![], c: vec![] };
    let passive: Vec<u32> = (0..dsegs.len() as u32).filter(|i| dsegs[*i as usize].passive()).collect();
    let active: Vec<u32> = (0..dsegs.len() as u32).filter(|i| !dsegs[*i as usize].passive()).collect();
    let val = |r: &mut Rng| *r.pick(&[0i64, 1, 7, 127, 128, 255, 256, 511, -1, 0x1234]);
    match r.below(16) {
        0 | 1 => { let n = *r.pick(&[0i64, 1, 2, 3, 5, 8, 17, 33]); let d = dest(r, n, calm, st); let v = val(r); q.fill(r, d, v, n, p0, st); }
        2 => { // n = 0 at the boundary (fine) or one past it (trap); a huge n
            match if calm { 0 } else { r.below(3) } { 0 => { st.zero_at_boundary += 1; let v = val(r); q.fill(r, MEM, v, 0, false, st); } 1 => { st.zero_past_boundary += 1; let v = val(r); q.fill(r, MEM + 1, v, 0, false, st); } _ => { st.past_end += 1; let big = *r.pick(&[-1i64, 65537, i32::MIN as i64]); q.fill(r, 0, 1, big, false, st); } } }
        3 | 4 => { // copy of what is there: make it non-uniform first
            let n = *r.pick(&[1i64, 2, 4, 7, 12, 20]); let s = *r.pick(&[0i64, 8, 96, 1000, 4096]);
            if r.chance(1, 2) { let v0 = 0xA0 + r.below(16) as i64; q.fill(r, s, v0, n, false, st); q.fill(r, s + n / 2, 0x51, 1, false, st); }
            let d = dest(r, n, calm, st); q.copy(r, d, s, n, p0, st); }
        5 | 6 => { // overlapping copies: the destination above / below the source by less than n
            let n = *r.pick(&[3i64, 5, 8, 13, 24]); let s = *r.pick(&[8i64, 100, 1000, 4096, 65536 - 64]); let k = 1 + r.below((n - 1) as u64) as i64;
            if let Some(seg) = passive.iter().cloned().find(|i| dsegs[*i as usize].len() >= n) { if r.chance(2, 3) { q.init(r, seg, s, 0, n, false, st); sites.push(seg); } else { q.fill(r, s, 3, n, false, st); q.fill(r, s + 1, 9, 1, false, st); q.fill(r, s + n - 1, 200, 1, false, st); } }
            else { q.fill(r, s, 3, n, false, st); q.fill(r, s + 1, 9, 1, false, st); q.fill(r, s + n - 1, 200, 1, false, st); }
            if r.chance(1, 2) { st.overlap_bwd += 1; q.copy(r, s + k, s, n, false, st); } else { st.overlap_fwd += 1; q.copy(r, s, s + k, n, false, st); }
            if r.chance(1, 3) { q.copy(r, s + 2, s + 2, n, false, st); } }
        7 => { // copy: source or destination at / past the end; n = 0 at the boundaries
            match if calm { 2 * r.below(2) } else { r.below(5) } { 0 => { st.at_end += 1; q.copy(r, 0, MEM - 4, 4, false, st); } 1 => { st.past_end += 1; q.copy(r, 0, MEM - 3, 4, false, st); } 2 => { st.zero_at_boundary += 1; q.copy(r, MEM, MEM, 0, false, st); }
                3 => { st.zero_past_boundary += 1; if r.chance(1, 2) { q.copy(r, MEM + 1, 0, 0, false, st); } else { q.copy(r, 0, MEM + 1, 0, false, st); } } _ => { st.past_end += 1; q.copy(r, 16, 0, -1, false, st); } } }
        8..=11 if !passive.is_empty() => { // memory.init from a passive segment
            let seg = *r.pick(&passive); let len = dsegs[seg as usize].len();
            let (s, n) = match { let x = r.below(8); if calm && (x == 1 || x == 3) { x - 1 } else { x } } { 0 => { st.at_end += 1; let n = r.below(len as u64 + 1) as i64; (len - n, n) }            // ends exactly at the end of the segment
                1 => { st.past_end += 1; let n = r.below(len as u64 + 1) as i64; (len - n + 1, n) }                                     // one past it
                2 => { st.zero_at_boundary += 1; (len, 0) } 3 => { st.zero_past_boundary += 1; (len + 1, 0) }
                _ => { let s = r.below(len as u64 + 1) as i64; (s, r.below((len - s) as u64 + 1) as i64) } };
            let d = dest(r, n, calm, st); q.init(r, seg, d, s, n, p0, st); sites.push(seg);
            if r.chance(1, 3) { // ... a second copy of the same segment elsewhere, then data.drop, then a third memory.init: traps unless n = 0 and s = 0
                q.init(r, seg, 200, 0, len.min(6), false, st); sites.push(seg); q.drop(seg, st); sites.push(seg);
                st.init_after_drop += 1; match if calm { 0 } else { r.below(3) } { 0 => q.init(r, seg, 300, 0, 0, false, st), 1 => q.init(r, seg, 300, 0, 1, false, st), _ => q.init(r, seg, 300, 1, 0, false, st) } sites.push(seg);
                if r.chance(1, 2) { q.drop(seg, st); sites.push(seg); } } }
        12 if !passive.is_empty() => { let seg = *r.pick(&passive); q.drop(seg, st); sites.push(seg); if r.chance(1, 2) { q.drop(seg, st); sites.push(seg); } }
        13 if !active.is_empty() => { // an ACTIVE segment is dropped after instantiation: traps unless n = 0 and offset 0
            let seg = *r.pick(&active); st.init_active += 1;
            match if calm { 0 } else { r.below(4) } { 0 | 1 => q.init(r, seg, 64, 0, 0, false, st), 2 => q.init(r, seg, 64, 0, 1, false, st), _ => q.init(r, seg, 64, 1, 0, false, st) } sites.push(seg);
            if r.chance(1, 3) { q.drop(seg, st); sites.push(seg); } }
        _ => { let n = *r.pick(&[1i64, 4, 9, 40]); let d = dest(r, n, calm, st); let v = val(r); q.fill(r, d, v, n, p0, st); }
    }
    q
}

/// the positions in `w` at which a top-level item of the body starts (one per entry of `c`), plus the end
fn top_level_starts(w: &[I<'static>]) -> Vec<usize> {
    let mut v = vec![]; let mut depth = 0usize;
    for (k, i) in w.iter().enumerate() { if depth == 0 { v.push(k); } match i { I::Block(_) | I::Loop(_) | I::If(_) => depth += 1, I::End => depth -= 1, _ => {} } }
    v.push(w.len()); v
}

fn splice(r: &mut Rng, body: &mut Out, dsegs: &[DSeg], sites: &mut Vec<u32>, p0: bool, n_seq: usize, st: &mut Stats) {
    for _ in 0..n_seq {
        let starts = top_level_starts(&body.w); assert_eq!(starts.len(), body.c.len() + 1);
        // mostly early in the body, so that the sequence runs before the function returns or traps
        let pos = if r.chance(1, 2) { 0 } else { r.usize(body.c.len() + 1) };
        let calm = r.chance(3, 4); let q = bulk_seq(r, dsegs, sites, p0, calm, st);
        let at = starts[pos]; body.w.splice(at..at, q.w); body.c.splice(pos..pos, q.c);
    }
}

/// A binary DECODED into the fields of a `bulkcase` (Run/BulkRun.v): what walrus really emitted, read back with wasmparser - functions possibly reordered,
/// globals / data segments possibly deleted and renumbered, bodies re-encoded.  `None` when the module uses something the model does not cover.
struct Decoded { tys: String, funcs: String, globals: String, mem: String, table: String, elems: String, datas: String, start: String, fexp: Vec<(String, u32)>, gexp: Vec<(String, u32)> }
fn dec_vt(v: &wasmparser::ValType) -> Option<&'static str> { match v { wasmparser::ValType::I32 => Some("VT_I32"), wasmparser::ValType::I64 => Some("VT_I64"), _ => None } }
fn dec_cexpr(e: &wasmparser::ConstExpr) -> Option<String> {
    let ops_: Vec<wasmparser::Operator> = e.get_operators_reader().into_iter().filter_map(|o| o.ok()).collect();
    if ops_.len() != 2 { return None; }
    match &ops_[0] { wasmparser::Operator::I32Const { value } => Some(format!("(CI32 ({})%Z)", value)), wasmparser::Operator::I64Const { value } => Some(format!("(CI64 ({})%Z)", value)),
        wasmparser::Operator::GlobalGet { global_index } => Some(format!("(CGlobalGet {})", global_index)), _ => None }
}
fn dec_item(e: &wasmparser::ConstExpr) -> Option<String> {
    let ops_: Vec<wasmparser::Operator> = e.get_operators_reader().into_iter().filter_map(|o| o.ok()).collect();
    match ops_.first()? { wasmparser::Operator::RefFunc { function_index } => Some(format!("Some {}", function_index)), wasmparser::Operator::RefNull { .. } => Some("None".into()), _ => None }
}
/// the operators from `pos` up to the matching `end` / `else` as a list of `rt` terms; returns the position after the terminator and whether it was `else`
fn dec_seq(ops_: &[wasmparser::Operator], mut pos: usize) -> Option<(Vec<String>, usize, bool)> {
    use wasmparser::Operator as O; use crate::ops::CoqArg;
    let mut v = vec![];
    loop { let op = ops_.get(pos)?; pos += 1; match op {
        O::End => return Some((v, pos, false)), O::Else => return Some((v, pos, true)),
        O::Block { blockty } => { let (b, p, _) = dec_seq(ops_, pos)?; pos = p; v.push(format!("RBlock {} [{}] 0 0", blockty.coq()?, b.join("; "))); }
        O::Loop { blockty } => { let (b, p, _) = dec_seq(ops_, pos)?; pos = p; v.push(format!("RLoop {} [{}] 0 0", blockty.coq()?, b.join("; "))); }
        O::If { blockty } => { let (th, p, is_else) = dec_seq(ops_, pos)?; pos = p;
            if is_else { let (el, p2, _) = dec_seq(ops_, pos)?; pos = p2; v.push(format!("RIf {} [{}] (Some (0, [{}])) 0 0", blockty.coq()?, th.join("; "), el.join("; "))); }
            else { v.push(format!("RIf {} [{}] None 0 0", blockty.coq()?, th.join("; "))); } }
        O::Nop => v.push("RNop 0".into()), O::Br { relative_depth } => v.push(format!("RBr {} 0", relative_depth)), O::BrIf { relative_depth } => v.push(format!("RBrIf {} 0", relative_depth)),
        O::BrTable { targets } => { let ts: Vec<String> = targets.targets().map(|t| t.unwrap().to_string()).collect(); v.push(format!("RBrTable [{}] {} 0", ts.join("; "), targets.default())); }
        o => v.push(format!("RPlain ({}) 0", crate::ops::plain_coq(o)?)) } }
}
fn decode_case(wasm: &[u8], imp: Option<i32>) -> Option<Decoded> {
    use wasmparser::Payload as P;
    let (mut tys, mut ftys, mut bodies, mut globals, mut elems, mut datas) = (vec![], vec![], vec![], vec![], vec![], vec![]);
    let (mut mem, mut table, mut start) = ("None".to_string(), "None".to_string(), "None".to_string()); let (mut fexp, mut gexp) = (vec![], vec![]);
    for p in wasmparser::Parser::new(0).parse_all(wasm) { match p.ok()? {
        P::TypeSection(r) => { for rg in r { for st in rg.ok()?.into_types() { match &st.composite_type.inner { wasmparser::CompositeInnerType::Func(f) => {
            let ps: Option<Vec<&str>> = f.params().iter().map(dec_vt).collect(); let rs: Option<Vec<&str>> = f.results().iter().map(dec_vt).collect();
            tys.push(format!("([{}], [{}])", ps?.join("; "), rs?.join("; "))); } _ => return None } } } }
        P::ImportSection(r) => { for i in r { let i = i.ok()?; match i.ty { wasmparser::TypeRef::Global(g) if g.content_type == wasmparser::ValType::I32 && !g.mutable => globals.push(format!("(VT_I32, false, CI32 ({})%Z)", imp?)), _ => return None } } }
        P::FunctionSection(r) => { for t in r { ftys.push(t.ok()?); } }
        P::TableSection(r) => { for t in r { let t = t.ok()?; table = format!("Some ({}, {})", t.ty.initial, match t.ty.maximum { Some(x) => format!("Some {}", x), None => "None".into() }); } }
        P::MemorySection(r) => { for m in r { let m = m.ok()?; mem = format!("Some ({}, {})", m.initial, match m.maximum { Some(x) => format!("Some {}", x), None => "None".into() }); } }
        P::GlobalSection(r) => { for g in r { let g = g.ok()?; globals.push(format!("({}, {}, {})", dec_vt(&g.ty.content_type)?, g.ty.mutable, { let c = dec_cexpr(&g.init_expr)?; c[1..c.len() - 1].to_string() })); } }
        P::ExportSection(r) => { for e in r { let e = e.ok()?; match e.kind { wasmparser::ExternalKind::Func => fexp.push((e.name.to_string(), e.index)), wasmparser::ExternalKind::Global => gexp.push((e.name.to_string(), e.index)), _ => {} } } }
        P::StartSection { func, .. } => start = format!("Some {}", func),
        P::ElementSection(r) => { for e in r { let e = e.ok()?;
            let items: Vec<String> = match e.items { wasmparser::ElementItems::Functions(fr) => fr.into_iter().map(|f| f.ok().map(|f| format!("Some {}", f))).collect::<Option<Vec<_>>>()?,
                wasmparser::ElementItems::Expressions(_, er) => er.into_iter().map(|x| x.ok().and_then(|x| dec_item(&x))).collect::<Option<Vec<_>>>()? };
            let it = format!("[{}]", items.join("; "));
            elems.push(match e.kind { wasmparser::ElementKind::Active { table_index, offset_expr } => format!("EActive {} {} {}", table_index.unwrap_or(0), dec_cexpr(&offset_expr)?, it),
                wasmparser::ElementKind::Passive => format!("EPassive {}", it), wasmparser::ElementKind::Declared => format!("EDeclared {}", it) }); } }
        P::CodeSectionEntry(body) => { let mut ls = vec![]; for l in body.get_locals_reader().ok()? { let (n, t) = l.ok()?; for _ in 0..n { ls.push(dec_vt(&t)?); } }
            let ops_: Vec<wasmparser::Operator> = body.get_operators_reader().ok()?.into_iter().collect::<Result<Vec<_>, _>>().ok()?;
            let (b, pos, is_else) = dec_seq(&ops_, 0)?; if is_else || pos != ops_.len() { return None; }
            bodies.push((ls.join("; "), b.join("; "))); }
        P::DataSection(r) => { for d in r { let d = d.ok()?; let bytes = coq_bytes(d.data);
            datas.push(match d.kind { wasmparser::DataKind::Active { memory_index, offset_expr } => format!("DActive {} {} {}", memory_index, dec_cexpr(&offset_expr)?, bytes), wasmparser::DataKind::Passive => format!("DPassive {}", bytes) }); } }
        _ => {} } }
    if ftys.len() != bodies.len() { return None; }
    let funcs: Vec<String> = ftys.iter().zip(bodies.iter()).map(|(t, (ls, b))| format!("({}, [{}], [{}])", t, ls, b)).collect();
    Some(Decoded { tys: format!("[{}]", tys.join("; ")), funcs: format!("[{}]", funcs.join("; ")), globals: format!("[{}]", globals.join("; ")), mem, table, elems: format!("[{}]", elems.join("; ")), datas: format!("[{}]", datas.join("; ")), start, fexp, gexp })
}
impl Decoded { fn json(&self) -> Json { Json::obj(vec![("tys", Json::s(self.tys.clone())), ("funcs", Json::s(self.funcs.clone())), ("globals", Json::s(self.globals.clone())), ("mem", Json::s(self.mem.clone())), ("table", Json::s(self.table.clone())),
    ("elems", Json::s(self.elems.clone())), ("datas", Json::s(self.datas.clone())), ("start", Json::s(self.start.clone())),
    ("fexp", Json::Arr(self.fexp.iter().map(|(n, i)| Json::obj(vec![("name", Json::s(n.clone())), ("index", Json::u(*i as usize))])).collect())),
    ("gexp", Json::Arr(self.gexp.iter().map(|(n, i)| Json::obj(vec![("name", Json::s(n.clone())), ("index", Json::u(*i as usize))])).collect()))]) } }

/// the data indices of the memory.init / data.drop operators of a binary, in code order (what walrus really emitted)
fn data_sites(wasm: &[u8]) -> Vec<u32> {
    let mut v = vec![];
    for p in wasmparser::Parser::new(0).parse_all(wasm) { if let Ok(wasmparser::Payload::CodeSectionEntry(body)) = p {
        if let Ok(rd) = body.get_operators_reader() { for op in rd { match op { Ok(wasmparser::Operator::MemoryInit { data_index, .. }) => v.push(data_index), Ok(wasmparser::Operator::DataDrop { data_index }) => v.push(data_index), _ => {} } } } } }
    v
}
/// the same per exported function name (no function imports here: body k belongs to function index k)
fn data_sites_by_export(wasm: &[u8]) -> std::collections::BTreeMap<String, Vec<u32>> {
    let mut bodies: Vec<Vec<u32>> = vec![]; let mut exports: Vec<(String, u32)> = vec![];
    for p in wasmparser::Parser::new(0).parse_all(wasm) { match p {
        Ok(wasmparser::Payload::ExportSection(r)) => { for e in r { if let Ok(e) = e { if e.kind == wasmparser::ExternalKind::Func { exports.push((e.name.to_string(), e.index)); } } } }
        Ok(wasmparser::Payload::CodeSectionEntry(body)) => { let mut v = vec![];
            if let Ok(rd) = body.get_operators_reader() { for op in rd { match op { Ok(wasmparser::Operator::MemoryInit { data_index, .. }) => v.push(data_index), Ok(wasmparser::Operator::DataDrop { data_index }) => v.push(data_index), _ => {} } } }
            bodies.push(v); }
        _ => {} } }
    exports.into_iter().filter_map(|(n, i)| bodies.get(i as usize).map(|b| (n, b.clone()))).collect()
}
fn data_count(wasm: &[u8]) -> usize {
    for p in wasmparser::Parser::new(0).parse_all(wasm) { if let Ok(wasmparser::Payload::DataSection(r)) = p { return r.count() as usize; } } 0
}

pub fn gen_main(args: &[String]) {
    let dir = &args[0]; let seed: u64 = args[1].parse().unwrap(); let n: usize = args[2].parse().unwrap();
    std::fs::create_dir_all(dir).unwrap();
    let mut r = Rng::new(seed ^ 0xB01C57A7E);
    let mut index = vec![]; let mut gen_viol: Vec<Json> = vec![]; let (mut n_fail, mut n_start, mut n_start_trap, mut n_import, mut n_eoob, mut n_doob, mut n_dseg, mut n_pseg, mut n_gc_dropped, mut n_renumbered_sites, mut n_sites, mut n_gc) = (0usize, 0usize, 0usize, 0usize, 0usize, 0usize, 0usize, 0usize, 0usize, 0usize, 0usize, 0usize);
    let mut st = Stats::default(); let (mut n_out_sites, mut n_out_renum, mut n_order_mismatch) = (0usize, 0usize, 0usize);
    let sigs: Vec<(Vec<T>, Vec<T>)> = vec![(vec![T::I32], vec![T::I32]), (vec![], vec![T::I32]), (vec![T::I32, T::I64], vec![T::I64]), (vec![T::I32], vec![]), (vec![T::I64], vec![T::I32, T::I64]), (vec![], vec![])];
    let btys = block_types(); let bt_base = sigs.len() as u32;
    let locals: Vec<T> = vec![T::I32, T::I64, T::I32, T::I64, T::I32, T::I32, T::I32];
    for k in 0..n {
        let nf0 = 2 + r.usize(4);
        let with_start = r.chance(1, 3); let start_traps = with_start && r.chance(1, 6);
        let nf = nf0 + if with_start { 1 } else { 0 };
        let mut ftys: Vec<usize> = (0..nf0).map(|_| r.usize(sigs.len())).collect(); if with_start { ftys.push(5); }
        let with_import = r.chance(1, 2); let imp: i32 = *r.pick(&[0i32, 1, 2, 3, 5]); let gb: u32 = if with_import { 1 } else { 0 };
        let tlen = 4 + r.usize(5) as u32; let tmax: Option<u32> = match r.below(3) { 0 => None, 1 => Some(tlen), _ => Some(tlen + 3) };
        // ---- element segments (as c01inst.rs; mostly in range)
        let items = |r: &mut Rng, allow_null: bool| -> Vec<Option<u32>> { (0..r.usize(4)).map(|_| if allow_null && r.chance(1, 4) { None } else { Some(r.usize(nf) as u32) }).collect() };
        let mut esegs: Vec<ESeg> = vec![];
        for _ in 0..r.usize(3) {
            let exprs = r.chance(1, 3); let it = items(&mut r, exprs); let len = it.len() as i64;
            let off = if with_import && r.chance(1, 5) { Off::Global(0) }
                else if r.chance(1, 30) { Off::Const((tlen as i64 - len + 1) as i32) }
                else { Off::Const(r.usize((tlen as i64 - len + 1).max(1) as usize) as i32) };
            esegs.push(ESeg::Active { explicit_table: r.chance(1, 2), exprs, off, items: it });
            if r.chance(1, 5) { let exprs = r.chance(1, 2); esegs.push(ESeg::Passive { exprs, items: items(&mut r, exprs) }); }
            if r.chance(1, 6) { esegs.push(ESeg::Declared { items: items(&mut r, false) }); }
        }
        let mut table: Vec<Option<u32>> = vec![None; tlen as usize]; let mut e_oob = false;
        for s in &esegs { if let ESeg::Active { off, items, .. } = s { let o = off.value(imp); if o + items.len() as i64 > tlen as i64 { e_oob = true; break; } for (i, x) in items.iter().enumerate() { table[o as usize + i] = *x; } } }
        // ---- data segments: 0-3 active ones (a few out of bounds), 1-4 passive ones of 0-40 bytes interleaved
        let mut dsegs: Vec<DSeg> = vec![]; let mut d_oob = false;
        for _ in 0..r.usize(4) {
            let bytes: Vec<u8> = (0..r.usize(7)).map(|_| *r.pick(&[0u8, 1, 2, 7, 127, 128, 200, 255])).collect();
            let off = if with_import && r.chance(1, 6) { Off::Global(0) }
                else if r.chance(1, 25) { Off::Const(*r.pick(&[65534i32, 65535, 65536, 65537])) }
                else if r.chance(1, 4) { Off::Const(65536 - bytes.len() as i32) }
                else { Off::Const(*r.pick(&[0i32, 1, 2, 3, 8, 100, 250, 251, 1000, 4096, 65520])) };
            if off.value(imp) + bytes.len() as i64 > 65536 { d_oob = true; }
            dsegs.push(DSeg::Active { off, bytes });
        }
        for _ in 0..(1 + r.usize(4)) {
            let len = match r.below(8) { 0 => 0, 1 => 1, 2 => 40, _ => r.usize(41) };
            let bytes: Vec<u8> = (0..len).map(|_| if r.chance(1, 4) { *r.pick(&[0u8, 1, 127, 128, 255]) } else { r.below(256) as u8 }).collect();
            let at = r.usize(dsegs.len() + 1); dsegs.insert(at, DSeg::Passive { bytes });
        }
        // ---- function bodies
        let mut bodies = vec![]; let mut coq_funcs = vec![]; let mut sites: Vec<u32> = vec![];
        for fi in 0..nf { let (ps, rs) = sigs[ftys[fi]].clone();
            let callees: Vec<(u32, Vec<T>, Vec<T>)> = (0..fi).map(|j| (j as u32, sigs[ftys[j]].0.clone(), sigs[ftys[j]].1.clone())).collect();
            let is_start = with_start && fi == nf - 1;
            let mut g = G { r: &mut r, params: ps.clone(), locals: locals.clone(), n_counters: 3, counters_used: 0, results: rs.clone(), btys: btys.clone(), budget: if is_start { 15 } else { 24 }, dead_ops: 0, n_loops: 0, n_br: 0, ext: true, n_mem: 0, sabotage_at: None, sabotaged: None,
                bt_base, callees, sigs: sigs.clone(), table_len: tlen, n_calls: 0, self_idx: if is_start { None } else { Some(fi as u32) },
                slot_types: table.iter().map(|f| match f { Some(f) if (*f as usize) < fi => Some(ftys[*f as usize]), _ => None }).collect() };
            let mut labels = vec![Label { tys: rs.clone(), is_loop: false }];
            let mut body = g.seq(&mut labels, vec![], &rs, 0);
            let p0 = ps.first() == Some(&T::I32);
            let n_seq = if is_start { 1 + r.usize(2) } else { r.usize(4) };
            splice(&mut r, &mut body, &dsegs, &mut sites, p0, n_seq, &mut st);
            if is_start && start_traps { body.w.push(I::Unreachable); body.c.push("RPlain (W_Unreachable) 0".to_string()); }
            shift_globals(&mut body, gb);
            coq_funcs.push(format!("({}, [{}], [{}])", ftys[fi], locals.iter().map(|x| coq_vt(*x)).collect::<Vec<_>>().join("; "), body.c.join("; ")));
            bodies.push(body.w); }
        // ---- the module
        let mut m = we::Module::new();
        let mut t = we::TypeSection::new(); for (p, q) in sigs.iter().chain(btys.iter()) { t.function(p.iter().map(|x| vt(*x)), q.iter().map(|x| vt(*x))); } m.section(&t);
        if with_import { let mut im = we::ImportSection::new(); im.import("env", "gi", we::GlobalType { val_type: we::ValType::I32, mutable: false, shared: false }); m.section(&im); }
        let mut f = we::FunctionSection::new(); for fi in 0..nf { f.function(ftys[fi] as u32); } m.section(&f);
        let mut tb = we::TableSection::new(); tb.table(we::TableType { element_type: we::RefType::FUNCREF, table64: false, minimum: tlen as u64, maximum: tmax.map(|x| x as u64), shared: false }); m.section(&tb);
        let mut ms = we::MemorySection::new(); ms.memory(we::MemoryType { minimum: 1, maximum: Some(3), memory64: false, shared: false, page_size_log2: None }); m.section(&ms);
        let g0 = *r.pick(&[0i32, 5, -3]); let g1 = *r.pick(&[0i64, 9, -1]);
        let mut gs = we::GlobalSection::new(); let mut coq_globals = vec![]; let mut gnames: Vec<(String, u32)> = vec![];
        if with_import { coq_globals.push(format!("(VT_I32, false, CI32 ({})%Z)", imp)); }
        gs.global(we::GlobalType { val_type: we::ValType::I32, mutable: true, shared: false }, &we::ConstExpr::i32_const(g0)); coq_globals.push(format!("(VT_I32, true, CI32 ({})%Z)", g0)); gnames.push(("g0".into(), gb));
        gs.global(we::GlobalType { val_type: we::ValType::I64, mutable: true, shared: false }, &we::ConstExpr::i64_const(g1)); coq_globals.push(format!("(VT_I64, true, CI64 ({})%Z)", g1)); gnames.push(("g1".into(), gb + 1));
        gs.global(we::GlobalType { val_type: we::ValType::I32, mutable: false, shared: false }, &we::ConstExpr::i32_const(7)); coq_globals.push("(VT_I32, false, CI32 (7)%Z)".to_string());
        m.section(&gs);
        let mut e = we::ExportSection::new(); for fi in 0..nf { e.export(&format!("f{}", fi), we::ExportKind::Func, fi as u32); }
        for (nm, gi) in &gnames { e.export(nm, we::ExportKind::Global, *gi); } e.export("m", we::ExportKind::Memory, 0); e.export("t", we::ExportKind::Table, 0); m.section(&e);
        if with_start { m.section(&we::StartSection { function_index: nf as u32 - 1 }); }
        let mut coq_elems = vec![];
        if !esegs.is_empty() { let mut el = we::ElementSection::new();
            for s in &esegs { match s {
                ESeg::Active { explicit_table, exprs, off, items } => {
                    let tix = if *explicit_table { Some(0) } else { None };
                    if *exprs { let ex: Vec<we::ConstExpr> = items.iter().map(|x| match x { Some(f) => we::ConstExpr::ref_func(*f), None => we::ConstExpr::ref_null(we::HeapType::FUNC) }).collect(); el.active(tix, &off.we(), we::Elements::Expressions(we::RefType::FUNCREF, &ex)); }
                    else { let fs: Vec<u32> = items.iter().map(|x| x.unwrap()).collect(); el.active(tix, &off.we(), we::Elements::Functions(&fs)); }
                    coq_elems.push(format!("EActive 0 {} {}", off.coq(), coq_items(items))); }
                ESeg::Passive { exprs, items } => {
                    if *exprs { let ex: Vec<we::ConstExpr> = items.iter().map(|x| match x { Some(f) => we::ConstExpr::ref_func(*f), None => we::ConstExpr::ref_null(we::HeapType::FUNC) }).collect(); el.passive(we::Elements::Expressions(we::RefType::FUNCREF, &ex)); }
                    else { let fs: Vec<u32> = items.iter().map(|x| x.unwrap()).collect(); el.passive(we::Elements::Functions(&fs)); }
                    coq_elems.push(format!("EPassive {}", coq_items(items))); }
                ESeg::Declared { items } => { let fs: Vec<u32> = items.iter().map(|x| x.unwrap()).collect(); el.declared(we::Elements::Functions(&fs)); coq_elems.push(format!("EDeclared {}", coq_items(items))); } } }
            m.section(&el); }
        // memory.init / data.drop need the data-count section (before the code section)
        m.section(&we::DataCountSection { count: dsegs.len() as u32 });
        let mut c = we::CodeSection::new(); for b in &bodies { let mut wf = we::Function::new(locals.iter().map(|x| (1u32, vt(*x)))); for i in b { wf.instruction(i); } wf.instruction(&I::End); c.function(&wf); } m.section(&c);
        let mut coq_datas = vec![];
        { let mut ds = we::DataSection::new();
            for s in &dsegs { match s {
                DSeg::Active { off, bytes } => { ds.active(0, &off.we(), bytes.iter().cloned()); coq_datas.push(format!("DActive 0 {} {}", off.coq(), coq_bytes(bytes))); }
                DSeg::Passive { bytes } => { ds.passive(bytes.iter().cloned()); coq_datas.push(format!("DPassive {}", coq_bytes(bytes))); } } }
            m.section(&ds); }
        let wasm = m.finish();
        if let Err(e) = crate::amod::validate(&wasm, crate::env::walrus_features(false)) { if std::env::var("VH_DEBUG").is_ok() { eprintln!("invalid generated module {}: {}", k, e); } n_fail += 1; continue; }
        // half of the modules additionally go through walrus's GC pass: unused passive segments are deleted, the others renumbered
        let do_gc = k % 2 == 1;
        let out = match catch(|| { let mut c = walrus::ModuleConfig::new(); c.generate_producers_section(false); c.parse(&wasm).map(|mut m| { if do_gc { walrus::passes::gc::run(&mut m); }
                let survivors: Vec<usize> = m.data.iter().map(|d| d.id().index()).collect(); (m.emit_wasm(), survivors) }).map_err(|e| e.to_string()) }) { Some(Ok(o)) => o, other => { if std::env::var("VH_DEBUG").is_ok() { eprintln!("walrus failed on module {}: {:?}", k, other.as_ref().map(|x| x.as_ref().err())); }
            gen_viol.push(Json::obj(vec![("class", Json::s(if other.is_none() { "walrus-panics-on-valid-module" } else { "walrus-rejects-valid-module" })), ("what", Json::s(format!("generated module {}: parse{} / emit {} on a module the reference validator accepts", k, if do_gc { " / gc" } else { "" }, if other.is_none() { "panics".to_string() } else { format!("fails: {:?}", other.as_ref().and_then(|x| x.as_ref().err())) }))), ("input", Json::s(crate::c03::hex(&wasm)))]));
            n_fail += 1; continue } };
        let (out, survivors) = out;
        let id = format!("{:05}", k);
        std::fs::write(format!("{}/{}.in.wasm", dir, id), &wasm).unwrap(); std::fs::write(format!("{}/{}.out.wasm", dir, id), &out).unwrap();
        if with_start { n_start += 1; } if start_traps { n_start_trap += 1; } if with_import { n_import += 1; } if e_oob { n_eoob += 1; } if d_oob { n_doob += 1; }
        n_dseg += dsegs.iter().filter(|d| !d.passive()).count(); n_pseg += dsegs.iter().filter(|d| d.passive()).count(); if do_gc { n_gc += 1; }
        let dropped = dsegs.len() - survivors.len(); n_gc_dropped += dropped; n_sites += sites.len();
        let renum = sites.iter().filter(|s| survivors.iter().position(|x| *x == **s as usize) != Some(**s as usize)).count(); n_renumbered_sites += renum;
        // measured on walrus's output: every emitted site names segment j of the output = segment survivors[j] of the input
        let out_sites = data_sites(&out); let in_sites = data_sites(&wasm);
        n_out_sites += out_sites.len(); n_out_renum += out_sites.iter().filter(|j| survivors.get(**j as usize) != Some(&(**j as usize))).count();
        if data_count(&out) != survivors.len() || !out_sites.iter().all(|j| (*j as usize) < survivors.len()) {
            gen_viol.push(Json::obj(vec![("class", Json::s("data-indices-wrong-in-output")), ("what", Json::s(format!("module {} (gc={}): walrus keeps {} data segments, its output has a data count of {} and memory.init / data.drop sites naming segments {:?}", id, do_gc, survivors.len(), data_count(&out), out_sites))), ("input", Json::s(crate::c03::hex(&wasm)))]));
            continue; }
        // function by function (through the export names; walrus reorders the code section): the sites of the output, mapped back through the survivors,
        // are a subsequence of the sites of the input (dead code is gone, nothing else)
        { let _ = &in_sites; let (bi, bo) = (data_sites_by_export(&wasm), data_sites_by_export(&out));
          for (name, o) in &bo { let i = bi.get(name).cloned().unwrap_or_default(); let back: Vec<u32> = o.iter().map(|j| survivors[*j as usize] as u32).collect(); let mut it = i.iter(); if !back.iter().all(|b| it.any(|a| a == b)) { n_order_mismatch += 1; } } }
        let mut calls = vec![];
        for fi in 0..nf { for _ in 0..(1 + r.usize(2)) { let a: Vec<Json> = sigs[ftys[fi]].0.iter().map(|t| match t {
                T::I32 => Json::obj(vec![("t", Json::s("i32")), ("v", Json::s((*r.pick(&[0i32, 1, 2, 3, -1, 7, 100, i32::MAX, i32::MIN])).to_string()))]),
                T::I64 => Json::obj(vec![("t", Json::s("i64")), ("v", Json::s((*r.pick(&[0i64, 1, -1, 5, 1 << 33, i64::MAX, i64::MIN])).to_string()))]) }).collect();
            calls.push(Json::obj(vec![("f", Json::u(fi)), ("args", Json::Arr(a))])); } }
        let tys_coq = format!("[{}]", sigs.iter().chain(btys.iter()).map(|(p, q)| format!("([{}], [{}])", p.iter().map(|x| coq_vt(*x)).collect::<Vec<_>>().join("; "), q.iter().map(|x| coq_vt(*x)).collect::<Vec<_>>().join("; "))).collect::<Vec<_>>().join("; "));
        index.push(Json::obj(vec![("id", Json::s(id)), ("calls", Json::Arr(calls)), ("tys", Json::s(tys_coq)), ("funcs", Json::s(format!("[{}]", coq_funcs.join("; ")))),
            ("globals", Json::s(format!("[{}]", coq_globals.join("; ")))), ("mem", Json::s("Some (1, Some 3)")),
            ("table", Json::s(format!("Some ({}, {})", tlen, match tmax { Some(x) => format!("Some {}", x), None => "None".to_string() }))),
            ("elems", Json::s(format!("[{}]", coq_elems.join("; ")))), ("datas", Json::s(format!("[{}]", coq_datas.join("; ")))),
            ("start", Json::s(if with_start { format!("Some {}", nf - 1) } else { "None".to_string() })),
            ("nfuncs", Json::u(nf)), ("tlen", Json::u(tlen as usize)), ("import_gi", if with_import { Json::s(imp.to_string()) } else { Json::Null }),
            ("gnames", Json::Arr(gnames.iter().map(|(nm, gi)| Json::obj(vec![("name", Json::s(nm.clone())), ("index", Json::u(*gi as usize))])).collect())),
            ("gc", Json::Bool(do_gc)), ("g0idx", Json::u(gb as usize)), ("g1idx", Json::u(gb as usize + 1)),
            ("funcs_out", Json::s(format!("[{}]", coq_funcs.iter().map(|f| rename_data_sites(f, &survivors)).collect::<Vec<_>>().join("; ")))),
            ("datas_out", Json::s(format!("[{}]", survivors.iter().map(|i| coq_datas[*i].clone()).collect::<Vec<_>>().join("; ")))),
            ("decoded_in", decode_case(&wasm, if with_import { Some(imp) } else { None }).map(|d| d.json()).unwrap_or(Json::Null)),
            ("decoded_out", decode_case(&out, if with_import { Some(imp) } else { None }).map(|d| d.json()).unwrap_or(Json::Null)),
            ("data_segments", Json::u(dsegs.len())), ("data_segments_after_walrus", Json::u(survivors.len())), ("data_sites", Json::u(sites.len())), ("data_sites_renumbered", Json::u(renum)),
            ("expect", Json::obj(vec![("elem_oob", Json::Bool(e_oob)), ("data_oob", Json::Bool(d_oob)), ("start", Json::Bool(with_start)), ("start_traps", Json::Bool(start_traps))]))]));
    }
    std::fs::write(format!("{}/index.json", dir), Json::obj(vec![("cases", Json::Arr(index)), ("oracle_violations", Json::Arr(gen_viol)), ("failures", Json::u(n_fail)), ("with_start", Json::u(n_start)), ("start_ends_in_unreachable", Json::u(n_start_trap)), ("with_imported_global", Json::u(n_import)),
        ("element_segment_out_of_bounds", Json::u(n_eoob)), ("active_data_segment_out_of_bounds", Json::u(n_doob)), ("active_data_segments", Json::u(n_dseg)), ("passive_data_segments", Json::u(n_pseg)),
        ("modules_through_gc", Json::u(n_gc)), ("data_segments_deleted_by_gc", Json::u(n_gc_dropped)), ("memory_init_and_data_drop_sites", Json::u(n_sites)), ("memory_init_and_data_drop_sites_renumbered", Json::u(n_renumbered_sites)),
        ("memory_init_and_data_drop_sites_in_walrus_output", Json::u(n_out_sites)), ("of_which_with_a_different_index_than_in_the_input", Json::u(n_out_renum)), ("functions_whose_output_sites_mapped_back_are_not_a_subsequence_of_the_input_sites", Json::u(n_order_mismatch)),
        ("sites_memory_fill", Json::u(st.fill)), ("sites_memory_copy", Json::u(st.copy)), ("sites_memory_init", Json::u(st.init)), ("sites_data_drop", Json::u(st.drop)),
        ("directed_memory_init_of_active_segment", Json::u(st.init_active)), ("directed_memory_init_after_data_drop", Json::u(st.init_after_drop)), ("directed_overlap_destination_below_source", Json::u(st.overlap_fwd)), ("directed_overlap_destination_above_source", Json::u(st.overlap_bwd)),
        ("directed_range_ends_exactly_at_the_end", Json::u(st.at_end)), ("directed_range_one_past_the_end", Json::u(st.past_end)), ("directed_n0_at_the_boundary", Json::u(st.zero_at_boundary)), ("directed_n0_one_past_the_boundary", Json::u(st.zero_past_boundary)), ("operands_computed_at_run_time", Json::u(st.computed_operand))]).to_string()).unwrap();
}
