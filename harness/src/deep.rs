//! C16: "neither traversal uses call-stack depth proportional to nesting depth".
//! `vh deep <depth> <kind> <stack_kib>` builds a body nested <depth> deep, and - on a thread whose stack is only
//! <stack_kib> KiB - parses it, runs dfs_in_order and dfs_pre_order_mut with counting visitors, runs the GC pass and
//! emits.  Prints `ok <instructions visited> <sequences started> <mut instructions visited>`; a stack overflow kills the
//! process (the caller, which spawned it, reports that).
use walrus::ir::*;
use walrus::*;

#[derive(Default)]
struct Count { instrs: u64, starts: u64, ends: u64, depth: i64, max_depth: i64, bad_nesting: bool }
impl<'a> Visitor<'a> for Count {
    fn start_instr_seq(&mut self, _: &'a InstrSeq) { self.starts += 1; self.depth += 1; self.max_depth = self.max_depth.max(self.depth); }
    fn end_instr_seq(&mut self, _: &'a InstrSeq) { self.ends += 1; self.depth -= 1; if self.depth < 0 { self.bad_nesting = true; } }
    fn visit_instr(&mut self, _: &'a Instr, _: &'a InstrLocId) { self.instrs += 1; }
}
#[derive(Default)]
struct CountMut { instrs: u64 }
impl VisitorMut for CountMut { fn visit_instr_mut(&mut self, _: &mut Instr, _: &mut InstrLocId) { self.instrs += 1; } }

pub fn build(depth: usize, kind: &str) -> Vec<u8> {
    let mut s = String::from("(module (func (export \"f\") (result i32) ");
    match kind {
        "block" => { for _ in 0..depth { s.push_str("block "); } s.push_str("nop "); for _ in 0..depth { s.push_str("end "); } }
        "loop" => { for _ in 0..depth { s.push_str("loop "); } for _ in 0..depth { s.push_str("end "); } }
        "if" => { for _ in 0..depth { s.push_str("i32.const 1 if "); } for _ in 0..depth { s.push_str("end "); } }
        _ => { for _ in 0..depth { s.push_str("i32.const 1 if (result i32) i32.const 2 else "); } s.push_str("i32.const 3 "); for _ in 0..depth { s.push_str("end "); } s.push_str("drop "); }
    }
    s.push_str("i32.const 0))");
    wat::parse_str(&s).expect("wat")
}

pub fn main(args: &[String]) {
    let depth: usize = args[0].parse().unwrap(); let kind = args[1].clone(); let stack_kib: usize = args[2].parse().unwrap();
    let wasm = build(depth, &kind);
    let h = std::thread::Builder::new().stack_size(stack_kib << 10).spawn(move || {
        let mut m = Module::from_buffer(&wasm).expect("parse");
        let fid = m.funcs.iter_local().next().unwrap().0;
        let (a, b, c, d) = { let lf = m.funcs.get(fid).kind.unwrap_local(); let mut v = Count::default(); dfs_in_order(&mut v, lf, lf.entry_block()); (v.instrs, v.starts, v.ends, v.bad_nesting || v.depth != 0) };
        let e = { let lf = m.funcs.get_mut(fid).kind.unwrap_local_mut(); let entry = lf.entry_block(); let mut v = CountMut::default(); dfs_pre_order_mut(&mut v, lf, entry); v.instrs };
        passes::gc::run(&mut m);
        let out = m.emit_wasm();
        let m2 = Module::from_buffer(&out).expect("reparse");
        drop(m2); drop(m);
        (a, b, c, d, e, out.len())
    }).unwrap();
    let (a, b, c, bad, e, n) = h.join().expect("worker");
    println!("ok {} {} {} {} {} {}", a, b, c, bad, e, n);
}
