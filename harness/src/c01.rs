//! C01 (and the behavioural half of C06): inputs for side-by-side execution.
//! `vh c01gen <dir> <seed> <n>` writes, per generated module that node can instantiate (Exec profile: one plain 32-bit
//! memory), the input binary, walrus's round-trip output, walrus's GC+emit output and a call plan (export name, typed
//! argument vectors); `js/run.mjs` instantiates input and output against the same recording imports and compares
//! results, traps, host-call traces and final memory / global / table state call by call.
use crate::amod::{self, AImportKind};
use crate::env::{self, Profile};
use crate::gen::{self, GenCfg};
use crate::rng::Rng;
use crate::sigs;
use crate::util::{catch, Json};
use walrus::*;

fn arg_json(r: &mut Rng, t: &wasmparser::ValType) -> Option<Json> {
    use wasmparser::ValType as V;
    Some(match t {
        V::I32 => Json::obj(vec![("t", Json::s("i32")), ("v", Json::s(format!("{}", *r.pick(&[0i64, 1, -1, 2, 7, 255, 65535, 65536, 2147483647, -2147483648, 12345]))))]),
        V::I64 => Json::obj(vec![("t", Json::s("i64")), ("v", Json::s(format!("{}", *r.pick(&[0i64, 1, -1, 3, 4294967296, i64::MAX, i64::MIN, 99]))))]),
        V::F32 => Json::obj(vec![("t", Json::s("f32")), ("v", Json::s(format!("{}", *r.pick(&[0.0f64, 1.5, -2.25, 1e10, 0.1]))))]),
        V::F64 => Json::obj(vec![("t", Json::s("f64")), ("v", Json::s(format!("{}", *r.pick(&[0.0f64, 1.5, -2.25, 1e300, 0.1]))))]),
        V::Ref(_) => Json::obj(vec![("t", Json::s("ref")), ("v", Json::s("null"))]),
        V::V128 => return None,
    })
}

const HAND: &[(&str, &str)] = &[
    ("state", r#"(module (import "env" "imp" (func $imp)) (memory (export "m0") 1) (global $g (export "g0") (mut i32) (i32.const 5))
        (table (export "t0") 4 funcref) (elem (i32.const 0) $a $b)
        (func $a (export "a") (param i32) (result i32) nop local.get 0 global.get $g i32.add global.set $g global.get $g)
        (func $b (export "b") (param i32) (result i32) local.get 0 i32.const 4 i32.mul local.get 0 i32.store local.get 0 i32.const 4 i32.mul i32.load call $imp)
        (func (export "ind") (param i32 i32) (result i32) local.get 1 local.get 0 call_indirect (param i32) (result i32))
        (func (export "div") (param i32 i32) (result i32) local.get 0 local.get 1 i32.div_s)
        (func (export "dead") (param i32) (result i32) local.get 0 if (result i32) i32.const 1 return i32.const 9 drop else i32.const 2 end i32.const 3 i32.add)
        (func (export "loop") (param i32) (result i32) (local i32) block loop local.get 0 i32.eqz br_if 1 local.get 1 local.get 0 i32.add local.set 1 local.get 0 i32.const 1 i32.sub local.set 0 br 0 end end local.get 1)
        (func (export "tbl") (param i32) (result i32) block block block local.get 0 br_table 0 1 2 end i32.const 10 return end i32.const 20 return end i32.const 30)
        (func (export "noelse") (param i32) (result i32) (local i32) local.get 0 if i32.const 7 local.set 1 end local.get 1))"#),
    ("two-of-everything", r#"(module (memory (export "m0") 1) (data $d0 "abcd") (data $d1 "wxyz")
        (table $ta (export "t0") 4 funcref) (table $tb (export "t1") 4 funcref) (elem $e0 func $one) (elem $e1 func $two) (elem (table $ta) (i32.const 0) func $one $one) (elem (table $tb) (i32.const 0) func $two $two)
        (global $ga (export "g0") (mut i32) (i32.const 1)) (global $gb (export "g1") (mut i32) (i32.const 2))
        (func $one (result i32) i32.const 11) (func $two (result i32) i32.const 22)
        (func (export "copy_ab") i32.const 2 i32.const 0 i32.const 1 table.copy $ta $tb)
        (func (export "copy_ba") i32.const 3 i32.const 0 i32.const 1 table.copy $tb $ta)
        (func (export "init_a1") i32.const 1 i32.const 0 i32.const 1 table.init $ta $e1)
        (func (export "init_b0") i32.const 1 i32.const 0 i32.const 1 table.init $tb $e0)
        (func (export "call_a") (param i32) (result i32) local.get 0 call_indirect $ta (result i32))
        (func (export "call_b") (param i32) (result i32) local.get 0 call_indirect $tb (result i32))
        (func (export "minit0") (param i32) local.get 0 i32.const 0 i32.const 4 memory.init $d0)
        (func (export "minit1") (param i32) local.get 0 i32.const 0 i32.const 4 memory.init $d1)
        (func (export "drop1") data.drop $d1) (func (export "edrop0") elem.drop $e0)
        (func (export "ld") (param i32) (result i32) local.get 0 i32.load)
        (func (export "swapg") global.get $ga global.get $gb global.set $ga global.set $gb)
        (func (export "gsub") (result i32) global.get $ga global.get $gb i32.sub)
        (func (export "sizes") (result i32) table.size $ta i32.const 100 i32.mul table.size $tb i32.add)
        (func (export "grow_b") (param i32) (result i32) ref.null func local.get 0 table.grow $tb)
        (func (export "sel") (param i32 i64 i64) (result i64) local.get 1 local.get 2 local.get 0 select)
        (func (export "sub") (param i32 i32) (result i32) local.get 0 local.get 1 i32.sub)
        (func (export "shl") (param i64 i64) (result i64) local.get 0 local.get 1 i64.shl)
        (func (export "locs") (param i32 i32) (result i32) (local i32 i32) local.get 0 local.set 2 local.get 1 local.set 3 local.get 2 i32.const 10 i32.mul local.get 3 i32.add))"#),
    ("start-and-data", r#"(module (memory (export "m0") 1) (data (i32.const 16) "hello") (global (export "g0") (mut i32) (i32.const 0))
        (func $init i32.const 0 i32.const 42 i32.store8 i32.const 1 global.set 0) (start $init)
        (func (export "peek") (param i32) (result i32) local.get 0 i32.load8_u)
        (func (export "grow") (param i32) (result i32) local.get 0 memory.grow)
        (func (export "fill") (param i32 i32 i32) local.get 0 local.get 1 local.get 2 memory.fill))"#),
    // the three kinds of element segment behave differently under table.init / elem.drop: a DECLARED segment is dropped at instantiation (table.init with a
    // non-zero length traps), a passive one can be copied until it is dropped, an active one is dropped after instantiation
    ("segment-kinds", r#"(module (table (export "t0") 4 funcref) (func $f (result i32) i32.const 42) (func $g (result i32) i32.const 7)
        (elem $decl declare func $f) (elem $pass func $g $f) (elem $act (i32.const 3) $g)
        (func (export "init_declared") (param i32) i32.const 0 i32.const 0 local.get 0 table.init $decl)
        (func (export "init_passive") (param i32) i32.const 1 i32.const 0 local.get 0 table.init $pass)
        (func (export "init_active") (param i32) i32.const 2 i32.const 0 local.get 0 table.init $act)
        (func (export "init_declared1") i32.const 0 i32.const 0 i32.const 1 table.init $decl)
        (func (export "init_passive1") i32.const 1 i32.const 1 i32.const 1 table.init $pass)
        (func (export "init_active1") i32.const 2 i32.const 0 i32.const 1 table.init $act)
        (func (export "drop_passive") elem.drop $pass)
        (func (export "reff") (result funcref) ref.func $f)
        (func (export "call") (param i32) (result i32) local.get 0 call_indirect (result i32)))"#),
    // function references in CONSTANT expressions (global initialisers, expression items of active and passive element segments) must follow the
    // renumbering of the functions: the small function is declared first, the round trip emits the big one first
    ("ref-func-constants", r#"(module (table (export "t0") 4 funcref)
        (func $small (result i32) i32.const 1) (func $mid (result i32) i32.const 2 i32.const 3 i32.add)
        (func $big (result i32) i32.const 10 i32.const 20 i32.add i32.const 30 i32.add i32.const 40 i32.add)
        (global $gs funcref (ref.func $small)) (global $gb (mut funcref) (ref.func $big))
        (elem (i32.const 0) funcref (ref.func $small) (ref.func $big) (ref.func $mid))
        (elem $p funcref (ref.func $mid) (ref.null func) (ref.func $small))
        (func (export "call") (param i32) (result i32) local.get 0 call_indirect (result i32))
        (func (export "via_global_small") (result i32) i32.const 3 global.get $gs table.set 0 i32.const 3 call_indirect (result i32))
        (func (export "via_global_big") (result i32) i32.const 3 global.get $gb table.set 0 i32.const 3 call_indirect (result i32))
        (func (export "swap") global.get $gs global.set $gb)
        (func (export "init_passive") i32.const 1 i32.const 0 i32.const 3 table.init $p))"#),
    // every byte of a v128 constant is observable: in a function body (stored, then read back byte by byte; lanes extracted) and in a global initialiser
    ("simd-constants", r#"(module (memory (export "m0") 1) (global $gv v128 (v128.const i32x4 0x11223344 0x55667788 0x99aabbcc 0xddeeff01))
        (func (export "byte") (param i32) (result i32) i32.const 0 v128.const i8x16 1 2 3 4 5 6 7 8 9 10 11 12 13 14 15 200 v128.store local.get 0 i32.const 15 i32.and i32.load8_u)
        (func (export "gbyte") (param i32) (result i32) i32.const 32 global.get $gv v128.store local.get 0 i32.const 15 i32.and i32.load8_u offset=32)
        (func (export "top_byte") (result i32) v128.const i8x16 0 1 2 3 4 5 6 7 8 9 10 11 12 13 14 200 i8x16.extract_lane_u 15)
        (func (export "f32_lane3") (result f32) v128.const f32x4 1.5 -2.25 3.0 1.5 f32x4.extract_lane 3)
        (func (export "f64_lane1") (result f64) v128.const f64x2 0.1 -7.5 f64x2.extract_lane 1)
        (func (export "global_lane3") (result i32) global.get $gv i32x4.extract_lane 3)
        (func (export "shuffled") (result i32) v128.const i8x16 0 1 2 3 4 5 6 7 8 9 10 11 12 13 14 15 v128.const i8x16 16 17 18 19 20 21 22 23 24 25 26 27 28 29 30 31
            i8x16.shuffle 31 30 29 28 27 26 25 24 7 6 5 4 3 2 1 0 i32x4.extract_lane 0))"#),
    // atomic accesses trap on an unaligned address where their plain counterparts do not: every width of load / store / rmw, aligned and unaligned
    // data.drop / memory.init on ACTIVE segments only (legal: the data-count section is required although no segment is passive); the round trip must stay instantiable
    ("active-segments-with-data-drop", r#"(module (memory (export "m0") 1 1) (data (i32.const 8) "abcd") (data (i32.const 100) "xyz")
        (func (export "drop0") data.drop 0)
        (func (export "init_len0") i32.const 0 i32.const 0 i32.const 0 memory.init 1)
        (func (export "init_active_traps") i32.const 0 i32.const 0 i32.const 1 memory.init 1)
        (func (export "peek") (result i32) i32.const 8 i32.load))"#),
    ("atomics-unaligned", r#"(module (memory (export "m0") 1 1)
        (func (export "i32_atomic_load_unaligned") (result i32) i32.const 2 i32.atomic.load)
        (func (export "i32_atomic_load_aligned") (result i32) i32.const 8 i32.atomic.load)
        (func (export "i32_atomic_load16_u_unaligned") (result i32) i32.const 1 i32.atomic.load16_u)
        (func (export "i32_atomic_load16_u_aligned") (result i32) i32.const 4 i32.atomic.load16_u)
        (func (export "i64_atomic_load_unaligned") (result i64) i32.const 4 i64.atomic.load)
        (func (export "i64_atomic_load_aligned") (result i64) i32.const 16 i64.atomic.load)
        (func (export "i64_atomic_load16_u_unaligned") (result i64) i32.const 1 i64.atomic.load16_u)
        (func (export "i64_atomic_load16_u_aligned") (result i64) i32.const 4 i64.atomic.load16_u)
        (func (export "i64_atomic_load32_u_unaligned") (result i64) i32.const 2 i64.atomic.load32_u)
        (func (export "i64_atomic_load32_u_aligned") (result i64) i32.const 8 i64.atomic.load32_u)
        (func (export "i32_atomic_store_unaligned") i32.const 2 i32.const 77 i32.atomic.store)
        (func (export "i32_atomic_store_aligned") i32.const 16 i32.const 77 i32.atomic.store)
        (func (export "i32_atomic_store16_unaligned") i32.const 1 i32.const 77 i32.atomic.store16)
        (func (export "i32_atomic_store16_aligned") i32.const 8 i32.const 77 i32.atomic.store16)
        (func (export "i64_atomic_store_unaligned") i32.const 4 i64.const 77 i64.atomic.store)
        (func (export "i64_atomic_store_aligned") i32.const 32 i64.const 77 i64.atomic.store)
        (func (export "i64_atomic_store16_unaligned") i32.const 1 i64.const 77 i64.atomic.store16)
        (func (export "i64_atomic_store16_aligned") i32.const 8 i64.const 77 i64.atomic.store16)
        (func (export "i64_atomic_store32_unaligned") i32.const 2 i64.const 77 i64.atomic.store32)
        (func (export "i64_atomic_store32_aligned") i32.const 16 i64.const 77 i64.atomic.store32)
        (func (export "i32_atomic_rmw_add_unaligned") (result i32) i32.const 2 i32.const 5 i32.atomic.rmw.add)
        (func (export "i32_atomic_rmw_add_aligned") (result i32) i32.const 32 i32.const 5 i32.atomic.rmw.add)
        (func (export "i32_atomic_rmw16_add_u_unaligned") (result i32) i32.const 1 i32.const 5 i32.atomic.rmw16.add_u)
        (func (export "i32_atomic_rmw16_add_u_aligned") (result i32) i32.const 16 i32.const 5 i32.atomic.rmw16.add_u)
        (func (export "i64_atomic_rmw_add_unaligned") (result i64) i32.const 4 i64.const 5 i64.atomic.rmw.add)
        (func (export "i64_atomic_rmw_add_aligned") (result i64) i32.const 64 i64.const 5 i64.atomic.rmw.add)
        (func (export "i64_atomic_rmw16_add_u_unaligned") (result i64) i32.const 1 i64.const 5 i64.atomic.rmw16.add_u)
        (func (export "i64_atomic_rmw16_add_u_aligned") (result i64) i32.const 16 i64.const 5 i64.atomic.rmw16.add_u)
        (func (export "i64_atomic_rmw32_add_u_unaligned") (result i64) i32.const 2 i64.const 5 i64.atomic.rmw32.add_u)
        (func (export "i64_atomic_rmw32_add_u_aligned") (result i64) i32.const 32 i64.const 5 i64.atomic.rmw32.add_u)
        (func (export "i64_atomic_rmw32_xchg_u_unaligned") (result i64) i32.const 2 i64.const 5 i64.atomic.rmw32.xchg_u)
        (func (export "i64_atomic_rmw32_xchg_u_aligned") (result i64) i32.const 32 i64.const 5 i64.atomic.rmw32.xchg_u)
        (func (export "cmpxchg32_unaligned") (result i64) i32.const 2 i64.const 0 i64.const 9 i64.atomic.rmw32.cmpxchg_u))"#),
    ("unused-things", r#"(module (memory 1) (global $unused (mut i64) (i64.const 9)) (func $dead_fn (result i32) i32.const 77)
        (func $helper (param i64) (result i64) local.get 0 i64.const 3 i64.mul) (func (export "f") (param i64) (result i64) local.get 0 call $helper)
        (func (export "sel") (param i32 i32 i32) (result i32) local.get 0 local.get 1 local.get 2 select))"#),
];

pub fn gen_main(args: &[String]) {
    let dir = &args[0]; let seed: u64 = args[1].parse().unwrap(); let n: usize = args[2].parse().unwrap();
    std::fs::create_dir_all(dir).unwrap();
    let mut r = Rng::new(seed); let feats = env::walrus_features(false);
    let tab = sigs::build_table(Profile::Exec, false, 10);
    let gcfg = GenCfg { profile: Profile::Exec, max_funcs: 5, max_depth: 3, seq_len: 7, names: true, customs: false, start: true, active_segments: true };
    let mut inputs: Vec<(String, Vec<u8>)> = vec![];
    for (n, w) in HAND { if let Ok(b) = wat::parse_str(w) { inputs.push((n.to_string(), b)); } }
    let mut k = 0; while k < n { let (w, _) = gen::module(&mut r, &tab, &gcfg); if amod::validate(&w, feats).is_err() { continue; } inputs.push((format!("gen{}", k), w)); k += 1; }
    let mut index = vec![]; let (mut n_calls, mut n_skipped_sigs) = (0u64, 0u64);
    for (i, (name, wasm)) in inputs.iter().enumerate() {
        let id = format!("{:05}", i);
        let a = match amod::decode(wasm) { Ok(a) => a, Err(_) => continue };
        let out = match catch(|| { let mut c = ModuleConfig::new(); c.generate_producers_section(false); c.parse(wasm).map(|mut m| m.emit_wasm()).map_err(|e| e.to_string()) }) { Some(Ok(o)) => o, _ => continue };
        let gc = catch(|| { let mut c = ModuleConfig::new(); c.generate_producers_section(false); c.parse(wasm).map(|mut m| { passes::gc::run(&mut m); m.emit_wasm() }).map_err(|e| e.to_string()) }).and_then(|x| x.ok());
        std::fs::write(format!("{}/{}.in.wasm", dir, id), wasm).unwrap(); std::fs::write(format!("{}/{}.out.wasm", dir, id), &out).unwrap();
        if let Some(g) = &gc { std::fs::write(format!("{}/{}.gc.wasm", dir, id), g).unwrap(); }
        // call plan: every exported function whose signature JS can express, several argument vectors, in a random order, state carries over
        let nimp = a.imports.iter().filter(|i| matches!(i.2, AImportKind::Func(_))).count();
        let sig = |ix: u32| -> Option<(Vec<wasmparser::ValType>, Vec<wasmparser::ValType>)> { let ti = if (ix as usize) < nimp { a.imports.iter().filter_map(|i| if let AImportKind::Func(t) = i.2 { Some(t) } else { None }).nth(ix as usize)? } else { *a.funcs.get(ix as usize - nimp)? }; a.types.get(ti as usize).cloned() };
        let mut calls = vec![];
        let fexports: Vec<(String, u32)> = a.exports.iter().filter(|e| e.1 == 0).map(|e| (e.0.clone(), e.2)).collect();
        for _ in 0..(4 * fexports.len()).min(40) { let (nm, ix) = r.pick(&fexports).clone(); if let Some((ps, rs)) = sig(ix) { if rs.iter().any(|t| matches!(t, wasmparser::ValType::V128)) { n_skipped_sigs += 1; continue; }
            let args: Option<Vec<Json>> = ps.iter().map(|t| arg_json(&mut r, t)).collect(); match args { Some(a) => { calls.push(Json::obj(vec![("f", Json::s(nm)), ("args", Json::Arr(a))])); n_calls += 1; } None => n_skipped_sigs += 1 } } }
        let globals: Vec<Json> = a.exports.iter().filter(|e| e.1 == 3).map(|e| Json::s(e.0.clone())).collect();
        let mems: Vec<Json> = a.exports.iter().filter(|e| e.1 == 2).map(|e| Json::s(e.0.clone())).collect();
        let tables: Vec<Json> = a.exports.iter().filter(|e| e.1 == 1).map(|e| Json::s(e.0.clone())).collect();
        std::fs::write(format!("{}/{}.plan.json", dir, id), Json::obj(vec![("name", Json::s(name.clone())), ("calls", Json::Arr(calls)), ("globals", Json::Arr(globals)), ("memories", Json::Arr(mems)), ("tables", Json::Arr(tables)), ("has_gc", Json::Bool(gc.is_some()))]).to_string()).unwrap();
        index.push(Json::s(id));
    }
    std::fs::write(format!("{}/index.json", dir), Json::obj(vec![("ids", Json::Arr(index)), ("calls", Json::n(n_calls as f64)), ("signatures_not_expressible_in_js", Json::n(n_skipped_sigs as f64))]).to_string()).unwrap();
}
