//! bytes -> Coq term of `wmod` (Model/ModuleM.v payload stream), decoded with wasmparser only.
use crate::ops;
use wasmparser::{Parser, Payload, Operator};

fn s(x: &str) -> String { format!("[{}]", x.bytes().map(|b| b.to_string()).collect::<Vec<_>>().join(";")) }
fn bytes(x: &[u8]) -> String { format!("[{}]", x.iter().map(|b| b.to_string()).collect::<Vec<_>>().join(";")) }
fn b(x: bool) -> &'static str { if x { "true" } else { "false" } }
fn optn(x: Option<u64>) -> String { match x { Some(v) => format!("(Some {})", v), None => "None".into() } }
fn vt(v: &wasmparser::ValType) -> String { ops::valty_coq(v).unwrap_or_else(|| "VT_I32".into()) }
fn vts(v: &[wasmparser::ValType]) -> String { format!("[{}]", v.iter().map(vt).collect::<Vec<_>>().join("; ")) }
fn rt(r: wasmparser::RefType) -> &'static str { if r == wasmparser::RefType::EXTERNREF { "RT_Externref" } else { "RT_Funcref" } }
fn table(t: &wasmparser::TableType) -> String { format!("{{| wt_elem := {}; wt_64 := {}; wt_init := {}; wt_max := {} |}}", rt(t.element_type), b(t.table64), t.initial, optn(t.maximum)) }
fn mem(m: &wasmparser::MemoryType) -> String { format!("{{| wm_64 := {}; wm_shared := {}; wm_init := {}; wm_max := {}; wm_page := {} |}}", b(m.memory64), b(m.shared), m.initial, optn(m.maximum), optn(m.page_size_log2.map(|x| x as u64))) }
fn gty(g: &wasmparser::GlobalType) -> String { format!("{{| wg_ty := {}; wg_mut := {}; wg_shared := {} |}}", vt(&g.content_type), b(g.mutable), b(g.shared)) }
pub fn wconst(e: &wasmparser::ConstExpr) -> String {
    let ops_: Vec<Operator> = e.get_operators_reader().into_iter().filter_map(|o| o.ok()).collect();
    if ops_.len() != 2 || !matches!(ops_[1], Operator::End) { return "WC_Other".into(); }
    match &ops_[0] {
        Operator::I32Const { value } => format!("WC_I32 ({})%Z", value), Operator::I64Const { value } => format!("WC_I64 ({})%Z", value),
        Operator::F32Const { value } => format!("WC_F32 {}", value.bits()), Operator::F64Const { value } => format!("WC_F64 {}", value.bits()),
        Operator::V128Const { value } => format!("WC_V128 {}", u128::from_le_bytes(*value.bytes())),
        Operator::GlobalGet { global_index } => format!("WC_GlobalGet {}", global_index),
        Operator::RefNull { hty } => match hty { wasmparser::HeapType::Abstract { ty: wasmparser::AbstractHeapType::Func, .. } => "WC_RefNull RT_Funcref".into(), wasmparser::HeapType::Abstract { ty: wasmparser::AbstractHeapType::Extern, .. } => "WC_RefNull RT_Externref".into(), _ => "WC_Other".into() },
        Operator::RefFunc { function_index } => format!("WC_RefFunc {}", function_index),
        _ => "WC_Other".into(),
    }
}
fn namemap(m: wasmparser::NameMap) -> Option<String> {
    let mut v = vec![]; for n in m { let n = n.ok()?; v.push(format!("({}, {})", n.index, s(n.name))); } Some(format!("[{}]", v.join("; ")))
}
pub fn names(data: &[u8], offset: usize) -> Option<String> {
    let r = wasmparser::NameSectionReader::new(wasmparser::BinaryReader::new(data, offset, wasmparser::WasmFeatures::all()));
    let (mut module, mut funcs, mut locals, mut types, mut tables, mut mems, mut globals, mut elems, mut datas) = ("None".to_string(), "[]".to_string(), "[]".to_string(), "[]".to_string(), "[]".to_string(), "[]".to_string(), "[]".to_string(), "[]".to_string(), "[]".to_string());
    for sub in r { match sub.ok()? {
        wasmparser::Name::Module { name, .. } => module = format!("(Some {})", s(name)),
        wasmparser::Name::Function(m) => funcs = namemap(m)?,
        wasmparser::Name::Local(l) => { let mut v = vec![]; for f in l { let f = f.ok()?; v.push(format!("({}, {})", f.index, namemap(f.names)?)); } locals = format!("[{}]", v.join("; ")); }
        wasmparser::Name::Type(m) => types = namemap(m)?, wasmparser::Name::Table(m) => tables = namemap(m)?, wasmparser::Name::Memory(m) => mems = namemap(m)?,
        wasmparser::Name::Global(m) => globals = namemap(m)?, wasmparser::Name::Element(m) => elems = namemap(m)?, wasmparser::Name::Data(m) => datas = namemap(m)?,
        _ => {} } }
    Some(format!("{{| wn_module := {}; wn_funcs := {}; wn_locals := {}; wn_types := {}; wn_tables := {}; wn_mems := {}; wn_globals := {}; wn_elems := {}; wn_data := {} |}}", module, funcs, locals, types, tables, mems, globals, elems, datas))
}
pub fn producers(data: &[u8], offset: usize) -> Option<String> {
    let r = wasmparser::ProducersSectionReader::new(wasmparser::BinaryReader::new(data, offset, wasmparser::WasmFeatures::all())).ok()?;
    let mut fs = vec![];
    for f in r { let f = f.ok()?; let mut vs = vec![]; for v in f.values { let v = v.ok()?; vs.push(format!("({}, {})", s(v.name), s(v.version))); } fs.push(format!("({}, [{}])", s(f.name), vs.join("; "))); }
    Some(format!("[{}]", fs.join("; ")))
}

/// The payload stream as a Coq `wmod`; `None` when the module uses something outside the modelled universe.
pub fn wmod(bytes_: &[u8], with_positions: bool) -> Option<String> {
    let mut secs: Vec<String> = vec![]; let mut code: Vec<String> = vec![]; let mut in_code = false;
    for p in Parser::new(0).parse_all(bytes_) {
        let p = p.ok()?;
        if in_code && !matches!(p, Payload::CodeSectionEntry(_)) { secs.push(format!("S_Code [{}]", code.join("; "))); code.clear(); in_code = false; }
        match p {
            Payload::Version { .. } | Payload::End(_) => {}
            Payload::TypeSection(r) => { let mut v = vec![]; for t in r.into_iter_err_on_gc_types() { let t = t.ok()?; v.push(format!("({}, {})", vts(t.params()), vts(t.results()))); } secs.push(format!("S_Types [{}]", v.join("; "))); }
            Payload::ImportSection(r) => { let mut v = vec![]; for i in r { let i = i.ok()?; let k = match i.ty { wasmparser::TypeRef::Func(t) => format!("WI_Func {}", t), wasmparser::TypeRef::Table(t) => format!("WI_Table {}", table(&t)),
                    wasmparser::TypeRef::Memory(m) => format!("WI_Mem {}", mem(&m)), wasmparser::TypeRef::Global(g) => format!("WI_Global {}", gty(&g)), _ => return None };
                v.push(format!("{{| wi_module := {}; wi_name := {}; wi_kind := {} |}}", s(i.module), s(i.name), k)); } secs.push(format!("S_Imports [{}]", v.join("; "))); }
            Payload::FunctionSection(r) => { let mut v = vec![]; for f in r { v.push(f.ok()?.to_string()); } secs.push(format!("S_Funcs [{}]", v.join("; "))); }
            Payload::TableSection(r) => { let mut v = vec![]; for t in r { let t = t.ok()?; if !matches!(t.init, wasmparser::TableInit::RefNull) { return None; } v.push(table(&t.ty)); } secs.push(format!("S_Tables [{}]", v.join("; "))); }
            Payload::MemorySection(r) => { let mut v = vec![]; for m in r { v.push(mem(&m.ok()?)); } secs.push(format!("S_Mems [{}]", v.join("; "))); }
            Payload::GlobalSection(r) => { let mut v = vec![]; for g in r { let g = g.ok()?; v.push(format!("({}, {})", gty(&g.ty), wconst(&g.init_expr))); } secs.push(format!("S_Globals [{}]", v.join("; "))); }
            Payload::ExportSection(r) => { let mut v = vec![]; for e in r { let e = e.ok()?; let k = match e.kind { wasmparser::ExternalKind::Func => "EK_Func", wasmparser::ExternalKind::Table => "EK_Table", wasmparser::ExternalKind::Memory => "EK_Mem", wasmparser::ExternalKind::Global => "EK_Global", _ => return None };
                v.push(format!("{{| we_name := {}; we_kind := {}; we_index := {} |}}", s(e.name), k, e.index)); } secs.push(format!("S_Exports [{}]", v.join("; "))); }
            Payload::StartSection { func, .. } => secs.push(format!("S_Start {}", func)),
            Payload::ElementSection(r) => { let mut v = vec![]; for e in r { let e = e.ok()?;
                let kind = match e.kind { wasmparser::ElementKind::Passive => "WEK_Passive".to_string(), wasmparser::ElementKind::Declared => "WEK_Declared".to_string(),
                    wasmparser::ElementKind::Active { table_index, offset_expr } => format!("WEK_Active {} ({})", match table_index { Some(t) => format!("(Some {})", t), None => "None".into() }, wconst(&offset_expr)) };
                let items = match e.items { wasmparser::ElementItems::Functions(f) => { let mut x = vec![]; for i in f { x.push(i.ok()?.to_string()); } format!("WEI_Funcs [{}]", x.join("; ")) }
                    wasmparser::ElementItems::Expressions(t, es) => { let mut x = vec![]; for c in es { x.push(wconst(&c.ok()?)); } format!("WEI_Exprs {} [{}]", rt(t), x.join("; ")) } };
                v.push(format!("{{| wel_kind := {}; wel_items := {} |}}", kind, items)); } secs.push(format!("S_Elems [{}]", v.join("; "))); }
            Payload::DataCountSection { count, .. } => secs.push(format!("S_DataCount {}", count)),
            Payload::DataSection(r) => { let mut v = vec![]; for d in r { let d = d.ok()?; let kind = match d.kind { wasmparser::DataKind::Passive => "WDK_Passive".to_string(), wasmparser::DataKind::Active { memory_index, offset_expr } => format!("WDK_Active {} ({})", memory_index, wconst(&offset_expr)) };
                v.push(format!("{{| wd_kind := {}; wd_bytes := {} |}}", kind, bytes(d.data))); } secs.push(format!("S_Data [{}]", v.join("; "))); }
            Payload::CodeSectionStart { .. } => { in_code = true; }
            Payload::CodeSectionEntry(body) => {
                let mut locals = vec![]; for l in body.get_locals_reader().ok()? { let (c, t) = l.ok()?; locals.push(format!("({}, {})", c, vt(&t))); }
                let mut o = vec![]; let mut rd = body.get_operators_reader().ok()?;
                while !rd.eof() { let pos = rd.original_position(); let op = rd.read().ok()?; o.push(format!("({}, {})", ops::ins_coq(&op)?, if with_positions { pos } else { 0 })); }
                code.push(format!("{{| wb_locals := [{}]; wb_ops := [{}] |}}", locals.join("; "), o.join("; ")));
            }
            Payload::CustomSection(c) => {
                let t = match c.name() {
                    "name" => format!("CS_Name {}", match names(c.data(), c.data_offset()) { Some(n) => format!("(Some {})", n), None => "None".into() }),
                    "producers" => format!("CS_Producers {}", match producers(c.data(), c.data_offset()) { Some(n) => format!("(Some {})", n), None => "None".into() }),
                    n if n.starts_with(".debug") => format!("CS_Debug {} []", s(n)),
                    n => format!("CS_Raw {} {}", s(n), bytes(c.data())),
                };
                secs.push(format!("S_Custom ({})", t));
            }
            _ => return None,
        }
    }
    if in_code { secs.push(format!("S_Code [{}]", code.join("; "))); }
    Some(format!("[{}]", secs.join(";\n    ")))
}
