//! C10: DWARF addresses follow their instructions and functions.
//! Modules get well-formed DWARF synthesised with gimli (v4 / v5; one row per instruction, line number = identity of
//! the instruction; one subprogram per function, LLVM address convention; one sequence per function or one sequence
//! over all functions; v5 rows naming file 0), are sent through real walrus with generate_dwarf(true) - unchanged,
//! after GC, after inserting marker instructions - and the emitted .debug_line / .debug_info are read back with gimli
//! and compared with an independent decode of the emitted code section.
//! Part 2: the address classifier / converter (hooks) on the same modules vs. Model/Dwarf.v (cases for Coq).
use crate::amod::{self, ABody, AImportKind, AMod};
use crate::c11::{self, align_pub};
use crate::env::{self, Profile};
use crate::gen::{self, GenCfg};
use crate::irdump;
use crate::rng::Rng;
use crate::sigs;
use crate::util::{catch, CaseWriter, Json};
use gimli::write::{self, Address, AttributeValue, EndianVec, LineProgram, LineString, Sections};
use gimli::{Encoding, Format, LineEncoding, LittleEndian};
use walrus::*;
use wasmparser::{Parser, Payload};

const MARKER: i32 = 24301;
#[derive(Clone, Copy, Debug)]
pub struct DCfg { pub version: u16, pub one_seq: bool, pub file0: bool, pub pair_seq: bool, pub nested: bool, pub two_units: bool }

fn n_imp_funcs(a: &AMod) -> usize { a.imports.iter().filter(|i| matches!(i.2, AImportKind::Func(_))).count() }
fn line_of(fi: usize, k: usize) -> u64 { (fi * 100000 + k + 1) as u64 }

/// append well-formed DWARF describing the code section of `wasm`
pub fn synthesize(wasm: &[u8], a: &AMod, c: DCfg) -> Option<Vec<u8>> {
    let cs = a.code_section?.0 as u64; if a.code.is_empty() { return None; }
    let encoding = Encoding { format: Format::Dwarf32, version: c.version, address_size: 4 };
    let mut dwarf = write::Dwarf::new();
    let rel = |x: usize| x as u64 - cs;
    // the functions of each unit (two units: first half / second half)
    let n = a.code.len(); let groups: Vec<(usize, usize)> = if c.two_units && n >= 2 { vec![(0, n / 2), (n / 2, n)] } else { vec![(0, n)] };
    for (ui, (glo, ghi)) in groups.iter().enumerate() {
        let comp_dir = LineString::String(b"/dir".to_vec()); let comp_name = LineString::String(format!("main{}.c", ui).into_bytes());
        let mut program = LineProgram::new(encoding, LineEncoding::default(), comp_dir, comp_name.clone(), None);
        let dir = program.default_directory();
        let file = program.add_file(LineString::String(b"other.c".to_vec()), dir, None);
        // a second file in an include directory: rows alternate between the two files (the file table conversion must keep both)
        let inc = program.add_directory(LineString::String(b"/dir/inc".to_vec()));
        let file2 = program.add_file(LineString::String(b"util.h".to_vec()), inc, None);
        let mut emit_rows = |program: &mut LineProgram, fi: usize, f: &ABody, base: u64| { for (k, o) in f.ops.iter().enumerate() { let r = program.row(); r.address_offset = rel(o.1) - base; r.file = if c.nested && k % 2 == 1 { file2 } else { file }; r.line = line_of(fi, k); program.generate_row(); } };
        if c.one_seq {
            let base = rel(a.code[*glo].range.0);
            program.begin_sequence(Some(Address::Constant(base)));
            for fi in *glo..*ghi { emit_rows(&mut program, fi, &a.code[fi], base); }
            program.end_sequence(rel(a.code[*ghi - 1].range.1) - base);
        } else if c.pair_seq {
            // one sequence per two consecutive functions
            let mut fi = *glo; while fi < *ghi { let hi = (fi + 2).min(*ghi); let base = rel(a.code[fi].range.0); program.begin_sequence(Some(Address::Constant(base)));
                for j in fi..hi { emit_rows(&mut program, j, &a.code[j], base); } program.end_sequence(rel(a.code[hi - 1].range.1) - base); fi = hi; }
        } else {
            for fi in *glo..*ghi { let f = &a.code[fi]; let base = rel(f.range.0); program.begin_sequence(Some(Address::Constant(base))); emit_rows(&mut program, fi, f, base); program.end_sequence(rel(f.range.1) - base); }
        }
        let uid = dwarf.units.add(write::Unit::new(encoding, program));
        let unit = dwarf.units.get_mut(uid);
        let root = unit.root();
        // richer well-formed DWARF (no-panic / validity coverage): a range list on the unit covering every function, and per function a frame base
        // expression, a variable located in a wasm local, a variable with a location list over two address ranges and a static with DW_OP_addr
        if c.nested {
            let ranges: Vec<write::Range> = (*glo..*ghi).map(|fi| { let f = &a.code[fi]; if fi % 2 == 0 { write::Range::StartEnd { begin: Address::Constant(rel(f.range.0)), end: Address::Constant(rel(f.range.1)) } } else { write::Range::StartLength { begin: Address::Constant(rel(f.range.0)), length: (f.range.1 - f.range.0) as u64 } } }).collect();
            let rid = unit.ranges.add(write::RangeList(ranges));
            unit.get_mut(root).set(gimli::DW_AT_ranges, AttributeValue::RangeListRef(rid));
        }
        unit.get_mut(root).set(gimli::DW_AT_name, AttributeValue::String(format!("main{}.c", ui).into_bytes()));
        unit.get_mut(root).set(gimli::DW_AT_low_pc, AttributeValue::Address(Address::Constant(0)));
        for fi in *glo..*ghi { let f = &a.code[fi];
            let id = unit.add(root, gimli::DW_TAG_subprogram); let lo = rel(f.range.0); let e = unit.get_mut(id);
            e.set(gimli::DW_AT_name, AttributeValue::String(format!("f{}", fi).into_bytes()));
            e.set(gimli::DW_AT_low_pc, AttributeValue::Address(Address::Constant(lo)));
            e.set(gimli::DW_AT_high_pc, AttributeValue::Udata(rel(f.range.1) - lo));
            // nested scopes: a lexical block from instruction k1 up to instruction k2 with a variable inside, and an inner block
            if c.nested && f.ops.len() >= 3 { let (k1, k2) = (f.ops.len() / 3, f.ops.len() - 1);
                let bid = unit.add(id, gimli::DW_TAG_lexical_block); let b = unit.get_mut(bid); let blo = rel(f.ops[k1].1);
                b.set(gimli::DW_AT_name, AttributeValue::String(format!("b{}", fi).into_bytes()));
                b.set(gimli::DW_AT_low_pc, AttributeValue::Address(Address::Constant(blo))); b.set(gimli::DW_AT_high_pc, AttributeValue::Udata(rel(f.ops[k2].1) - blo));
                let vid = unit.add(bid, gimli::DW_TAG_variable); unit.get_mut(vid).set(gimli::DW_AT_name, AttributeValue::String(format!("v{}", fi).into_bytes()));
                if k1 + 1 < k2 { let iid = unit.add(bid, gimli::DW_TAG_lexical_block); let ib = unit.get_mut(iid); let ilo = rel(f.ops[k1 + 1].1);
                    ib.set(gimli::DW_AT_name, AttributeValue::String(format!("i{}", fi).into_bytes()));
                    ib.set(gimli::DW_AT_low_pc, AttributeValue::Address(Address::Constant(ilo))); ib.set(gimli::DW_AT_high_pc, AttributeValue::Udata(rel(f.ops[k2].1) - ilo)); }
                { let mut fb = write::Expression::new(); fb.op_wasm_local(0); fb.op(gimli::DW_OP_stack_value); unit.get_mut(id).set(gimli::DW_AT_frame_base, AttributeValue::Exprloc(fb)); }
                { let mut e = write::Expression::new(); e.op_wasm_global(0); unit.get_mut(vid).set(gimli::DW_AT_location, AttributeValue::Exprloc(e)); }
                if rel(f.ops[(k1 + k2) / 2].1) > blo && rel(f.ops[k2].1) > rel(f.ops[(k1 + k2) / 2].1) { let wid = unit.add(bid, gimli::DW_TAG_variable); let mut e1 = write::Expression::new(); e1.op_wasm_stack(0); let mut e2 = write::Expression::new(); e2.op_fbreg(4);
                  let mid = rel(f.ops[(k1 + k2) / 2].1);
                  let lid = unit.locations.add(write::LocationList(vec![write::Location::StartEnd { begin: Address::Constant(blo), end: Address::Constant(mid), data: e1 }, write::Location::StartLength { begin: Address::Constant(mid), length: rel(f.ops[k2].1) - mid, data: e2 }]));
                  let w = unit.get_mut(wid); w.set(gimli::DW_AT_name, AttributeValue::String(format!("w{}", fi).into_bytes())); w.set(gimli::DW_AT_location, AttributeValue::LocationListRef(lid)); }
                { let sid = unit.add(id, gimli::DW_TAG_variable); let mut e = write::Expression::new(); e.op_addr(Address::Constant(rel(f.ops[k1].1))); let sv = unit.get_mut(sid); sv.set(gimli::DW_AT_name, AttributeValue::String(format!("s{}", fi).into_bytes())); sv.set(gimli::DW_AT_location, AttributeValue::Exprloc(e)); }
                let pid = unit.add(id, gimli::DW_TAG_formal_parameter); unit.get_mut(pid).set(gimli::DW_AT_name, AttributeValue::String(format!("p{}", fi).into_bytes())); } }
    }
    let mut sections = Sections::new(EndianVec::new(LittleEndian));
    if let Err(e) = dwarf.write(&mut sections) { if std::env::var("VH_DEBUG_FILES").is_ok() { eprintln!("synthesize failed: {:?} under {:?}", e, c); } return None; }
    let mut out = wasm.to_vec();
    sections.for_each(|id, data| -> Result<(), ()> { if !data.slice().is_empty() {
        let mut d = data.slice().to_vec();
        if id == gimli::SectionId::DebugLine && c.file0 && c.version >= 5 { patch_file0(&mut d); }
        let cs = wasm_encoder::CustomSection { name: id.name().into(), data: d.as_slice().into() }; use wasm_encoder::Encode; let mut buf = vec![]; cs.encode(&mut buf); out.push(0); out.extend(buf); } Ok(()) }).ok()?;
    Some(out)
}
/// v5: make every row name file 0 (gimli's writer cannot produce that): insert `DW_LNS_set_file 0` at the start of every
/// sequence of the (single) line program and fix the unit length
fn patch_file0(d: &mut Vec<u8>) {
    if d.len() < 12 { return; }
    let unit_len = u32::from_le_bytes([d[0], d[1], d[2], d[3]]) as usize; let version = u16::from_le_bytes([d[4], d[5]]); if version < 5 { return; }
    // v5 header: unit_length(4) version(2) address_size(1) seg_sel_size(1) header_length(4) min_inst_len(1) max_ops(1) default_is_stmt(1) line_base(1) line_range(1) opcode_base(1) std_opcode_lengths..
    let header_length = u32::from_le_bytes([d[8], d[9], d[10], d[11]]) as usize; let prog = 12 + header_length; let end = 4 + unit_len;
    let opcode_base = d[12 + 5] as usize; let lens: Vec<u8> = d[12 + 6..12 + 6 + opcode_base - 1].to_vec();
    let leb = |d: &Vec<u8>, mut i: usize| { while d[i] & 0x80 != 0 { i += 1; } i + 1 };
    let mut out = d[..prog].to_vec(); let mut i = prog; let mut at_seq_start = true;
    while i < end {
        if at_seq_start { out.extend_from_slice(&[0x04, 0x00]); at_seq_start = false; }
        let op = d[i] as usize; let start = i;
        if op == 0 { let j = leb(d, i + 1); let mut l = 0usize; let mut sh = 0; for k in i + 1..j { l |= ((d[k] & 0x7f) as usize) << sh; sh += 7; } let sub = d[j]; i = j + l; if sub == 1 { at_seq_start = true; } }
        else if op >= opcode_base { i += 1; }
        else if op == 9 { i += 3; }
        else { i += 1; for _ in 0..lens[op - 1] { i = leb(d, i); } }
        out.extend_from_slice(&d[start..i]);
    }
    out.extend_from_slice(&d[end..]);
    let new_len = (unit_len + (out.len() - d.len())) as u32; out[0..4].copy_from_slice(&new_len.to_le_bytes());
    *d = out;
}

pub struct DRead { pub rows: Vec<(u64, u64, bool)>, pub subs: Vec<(String, u64, u64)>, pub files: std::collections::BTreeMap<u64, String>, pub cu_ranges: Vec<(u64, u64)> }
pub fn read_dwarf(b: &[u8]) -> Option<DRead> {
    let mut secs = std::collections::HashMap::new();
    for p in Parser::new(0).parse_all(b) { if let Ok(Payload::CustomSection(c)) = p { secs.insert(c.name().to_string(), c.data().to_vec()); } }
    if !secs.contains_key(".debug_info") { return Some(DRead { rows: vec![], subs: vec![], files: Default::default(), cu_ranges: vec![] }); }
    let load = |id: gimli::SectionId| -> Result<std::borrow::Cow<[u8]>, gimli::Error> { Ok(secs.get(id.name()).cloned().unwrap_or_default().into()) };
    let dwarf_cow = gimli::Dwarf::load(load).ok()?;
    let dwarf = dwarf_cow.borrow(|s| gimli::EndianSlice::new(s, LittleEndian));
    let mut rows = vec![]; let mut subs = vec![]; let mut cu_ranges = vec![]; let mut files: std::collections::BTreeMap<u64, String> = Default::default();
    let mut units = dwarf.units();
    while let Some(h) = units.next().ok()? {
        let unit = dwarf.unit(h).ok()?;
        if let Some(lp) = unit.line_program.clone() { let mut r = lp.rows(); while let Some((hdr, row)) = r.next_row().ok()? { rows.push((row.address(), row.line().map(|l| l.get()).unwrap_or(0), row.end_sequence()));
            if !row.end_sequence() { if let Some(f) = row.file(hdr) { let nm = dwarf.attr_string(&unit, f.path_name()).ok().map(|s| String::from_utf8_lossy(s.slice()).to_string()).unwrap_or_default();
                let dir = f.directory(hdr).and_then(|d| dwarf.attr_string(&unit, d).ok()).map(|s| String::from_utf8_lossy(s.slice()).to_string()).unwrap_or_default();
                files.insert(row.line().map(|l| l.get()).unwrap_or(0), format!("{}/{}", dir, nm)); } } } }
        let mut es = unit.entries();
        while let Some((_, e)) = es.next_dfs().ok()? { if e.tag() == gimli::DW_TAG_compile_unit { if let Some(gimli::AttributeValue::RangeListsRef(r)) = e.attr_value(gimli::DW_AT_ranges).ok()? { let off = dwarf.ranges_offset_from_raw(&unit, r); let mut it = dwarf.ranges(&unit, off).ok()?; while let Some(rg) = it.next().ok()? { cu_ranges.push((rg.begin, rg.end)); } } }
            if e.tag() == gimli::DW_TAG_subprogram || e.tag() == gimli::DW_TAG_lexical_block {
            let name = match e.attr_value(gimli::DW_AT_name).ok()? { Some(gimli::AttributeValue::String(s)) => String::from_utf8_lossy(s.slice()).to_string(), _ => "?".into() };
            let lo = match e.attr_value(gimli::DW_AT_low_pc).ok()? { Some(gimli::AttributeValue::Addr(a)) => a, _ => u64::MAX };
            let hi = match e.attr_value(gimli::DW_AT_high_pc).ok()? { Some(gimli::AttributeValue::Udata(a)) => a, _ => u64::MAX };
            subs.push((name, lo, hi)); } }
    }
    Some(DRead { rows, subs, files, cu_ranges })
}

/// the instruction stream of the (single) input line program exactly as walrus' convert_line_program iterates over it,
/// printed as a Coq `list lin`
pub fn line_stream(b: &[u8]) -> Option<String> {
    let mut secs = std::collections::HashMap::new();
    for p in Parser::new(0).parse_all(b) { if let Ok(Payload::CustomSection(c)) = p { secs.insert(c.name().to_string(), c.data().to_vec()); } }
    let load = |id: gimli::SectionId| -> Result<std::borrow::Cow<[u8]>, gimli::Error> { Ok(secs.get(id.name()).cloned().unwrap_or_default().into()) };
    let dwarf_cow = gimli::Dwarf::load(load).ok()?;
    let dwarf = dwarf_cow.borrow(|s| gimli::EndianSlice::new(s, LittleEndian));
    let mut units = dwarf.units(); let h = units.next().ok()??; if units.next().ok()?.is_some() { return None; }
    let unit = dwarf.unit(h).ok()?; let mut prog = unit.line_program.clone()?;
    let header = prog.header().clone();
    let mut row = gimli::read::LineRow::new(&header); let mut instrs = header.instructions(); let mut out = vec![];
    while let Some(ins) = instrs.next_instruction(&header).ok()? {
        match ins {
            gimli::read::LineInstruction::SetAddress(v) => { out.push(format!("LSetAddr {}", v)); row.execute(gimli::read::LineInstruction::SetAddress(0), &mut prog); }
            gimli::read::LineInstruction::DefineFile(_) => return None,
            _ => if row.execute(ins, &mut prog) { out.push(format!("LRow {} {} {}", row.address(), row.end_sequence(), row.line().map(|l| l.get()).unwrap_or(0))); row.reset(&header); }
        }
    }
    Some(format!("[{}]", out.join("; ")))
}

struct Run { out: Vec<u8>, pm: irdump::ParseMaps, em: irdump::EmitMaps, tables: String, probes: Vec<String>, start: usize }

/// parse with DWARF, apply the variant, emit; also collects the classifier tables and probe results (hooks) for the Coq side
fn run_walrus(input: &[u8], variant: u8, seed: u64, ain: &AMod) -> std::result::Result<Run, String> {
    let mut cfg = ModuleConfig::new(); cfg.generate_dwarf(true).generate_name_section(false).generate_producers_section(false).preserve_code_transform(true);
    let (mut m, pm) = irdump::parse_with_maps(input, &mut cfg).map_err(|e| format!("parse: {:#}", e))?;
    if variant == 1 { passes::gc::run(&mut m); }
    if variant == 2 { let mut rr = Rng::new(seed); let ids: Vec<FunctionId> = m.funcs.iter_local().map(|(id, _)| id).collect();
        for fid in ids { let lf = m.funcs.get_mut(fid).kind.unwrap_local_mut(); let seqs = irdump::seq_ids(lf); let mut keys: Vec<_> = seqs.keys().cloned().collect(); keys.sort();
            for _ in 0..(1 + rr.usize(2)) { let sk = *rr.pick(&keys); let sid = seqs[&sk]; let len = lf.block(sid).instrs.len(); let pos = rr.usize(len + 1);
                let mut b = lf.builder_mut().instr_seq(sid); b.instr_at(pos, ir::Const { value: ir::Value::I32(MARKER) }); b.instr_at(pos + 1, ir::Drop {}); } } }
    // classifier tables as the DWARF emitter will see them (taken before emit; emission does not change them)
    let mut instrs: Vec<(usize, u32)> = vec![]; let mut ranges: Vec<(usize, usize, usize)> = vec![];
    for (id, lf) in m.funcs.iter_local() { for (a, l) in &lf.instruction_mapping { instrs.push((*a, l.data())); } if let Some(r) = &lf.original_range { ranges.push((r.start, r.end, id.index())); } }
    instrs.sort_by_key(|x| x.0); ranges.sort_by_key(|x| x.0);
    let tables = format!("[{}] [{}]", instrs.iter().map(|(a, l)| format!("({}, {})", a, l)).collect::<Vec<_>>().join("; "), ranges.iter().map(|(s, e, f)| format!("(({}, {}), {})", s, e, f)).collect::<Vec<_>>().join("; "));
    // probe addresses: every instruction start and its neighbours, every range boundary and neighbours, a few far ones
    let mut addrs: Vec<usize> = vec![0, 1]; for (a, _) in &instrs { addrs.push(*a); addrs.push(a + 1); if *a > 0 { addrs.push(a - 1); } } for (s, e, _) in &ranges { for d in 0..3 { addrs.push(s + d); addrs.push(e + d); if *s >= d { addrs.push(s - d); } if *e >= d { addrs.push(e - d); } } }
    addrs.push(ain.code_section.map(|c| c.1 - c.0 + 5).unwrap_or(9)); addrs.sort(); addrs.dedup(); if addrs.len() > 400 { let step = addrs.len() / 400 + 1; addrs = addrs.into_iter().step_by(step).collect(); }
    let (rec, em) = irdump::IndexRecorder::for_module(&m); m.customs.add(rec);
    let ct = std::sync::Arc::new(std::sync::Mutex::new(c11::Ct::default())); m.customs.add(c11::CtRecorder { out: ct.clone() });
    // the converter needs the CodeTransform of this very emission: a custom section that calls the hooks from inside apply_code_transform
    let out = m.emit_wasm();
    let ctv = ct.lock().unwrap().clone();
    let mut t = CodeTransform::default(); t.code_section_start = ctv.code_section_start;
    let _ = &mut t;
    let mut probes = vec![];
    for a in &addrs { for incl in [true, false] { let (c, x, y) = walrus::verif_hooks::find_address(&m.funcs, *a, incl); probes.push(format!("({}, {}, ({}, {}, {}))", a, incl, c, x, y)); } }
    let em = em.lock().unwrap().clone();
    let tables = format!("{} [{}] [{}]", tables, ctv.pairs.iter().map(|(l, p)| format!("({}, {})", l, p)).collect::<Vec<_>>().join("; "), ctv.ranges.iter().map(|(f, s, e)| format!("({}, ({}, {}))", f, s, e)).collect::<Vec<_>>().join("; "));
    Ok(Run { out, pm, em, tables, probes, start: ctv.code_section_start })
}

pub fn main(args: &[String]) {
    let out_dir = &args[0]; let seed: u64 = args[1].parse().unwrap(); let n_gen: usize = args[2].parse().unwrap();
    let mut r = Rng::new(seed);
    let header = "From WV Require Import Model.Common Model.Dwarf Run.DwarfRun.\nOpen Scope N_scope.";
    let mut w = CaseWriter::new(out_dir, "c10", header, "dcase", "check_dwarf", 6);
    let header_l = "From WV Require Import Model.Common Model.Dwarf Model.LineProg Run.LineProgRun.\nOpen Scope N_scope.";
    let mut wl = CaseWriter::new(out_dir, "c10l", header_l, "lcase", "check_lines", 6);
    let feats = env::walrus_features(false);
    let mut viol: Vec<Json> = vec![];
    let mut inputs: Vec<(String, Vec<u8>)> = vec![];
    // functions of different sizes (so that walrus reorders them), counts around the count-LEB boundary, bodies around the size-LEB boundary, dead code / nops that shrink a body
    for (nf, big) in [(3usize, 0usize), (5, 0), (1, 0), (127, 0), (128, 0), (130, 0), (4, 40), (4, 41), (4, 42), (6, 43)] {
        let mut wat = String::from("(module\n"); for i in 0..nf { wat += &format!("(func (export \"f{}\") (result i32)\n", i); let reps = if big > 0 && i == 1 { big } else { 1 + (i * 7) % 5 }; for k in 0..reps { wat += &format!(" i32.const {} drop\n", 1000 * i + k); } wat += &format!(" i32.const {})\n", i); }
        wat += " (func $unused (result i32) i32.const 99 i32.const 98 drop)\n (func (export \"dead\") (result i32) (local i32 i64) i32.const 5 return i32.const 6 drop nop i32.const 7)\n (func (export \"ifs\") (param i32) (result i32) local.get 0 if (result i32) i32.const 1 else i32.const 2 end local.get 0 if nop end))";
        if let Ok(b) = wat::parse_str(&wat) { inputs.push((format!("sized-{}f-{}", nf, big), b)); } }
    if let Ok(b) = wat::parse_str("(module (func (export \"a\") (result i32) i32.const 1) (func (export \"lead\") (param i32) (result i32) nop local.get 0 i32.const 1 i32.add) (func (export \"b\") (result i32) i32.const 2 i32.const 3 drop))") { inputs.push(("leading-nop".into(), b)); }
    // one sequence over all functions where GC removes the LAST / the FIRST function of the input (the end_sequence row / the sequence base then has no image)
    if let Ok(b) = wat::parse_str("(module (func (export \"a\") (result i32) i32.const 1 i32.const 2 drop) (func (export \"b\") (result i32) i32.const 3) (func $unused_last (result i32) i32.const 4 i32.const 5 drop))") { inputs.push(("last-function-unused".into(), b)); }
    if let Ok(b) = wat::parse_str("(module (func $unused_first (result i32) i32.const 4 i32.const 5 drop) (func (export \"a\") (result i32) i32.const 1 i32.const 2 drop) (func (export \"b\") (result i32) i32.const 3))") { inputs.push(("first-function-unused".into(), b)); }
    // many IMPORTED functions next to few local ones: imported + local crosses the count-LEB boundary (128) while the number of code entries does not
    { let mut wat = String::from("(module\n"); for i in 0..126 { wat += &format!("(import \"env\" \"f{}\" (func))\n", i); }
      for i in 0..3 { wat += &format!("(func (export \"l{}\") (result i32) i32.const {} i32.const 1 i32.add)\n", i, i); } wat += ")";
      if let Ok(b) = wat::parse_str(&wat) { inputs.push(("126-imported-3-local-functions".into(), b)); } }
    let n_fixed_before_boundary = inputs.len();
    inputs.extend(c11::boundary_bodies());
    let n_fixed = inputs.len();
    let tab = sigs::build_table(Profile::Full, false, 8);
    let gcfg = GenCfg { profile: Profile::Full, max_funcs: 4, max_depth: 3, seq_len: 6, names: false, customs: false, start: false, active_segments: true };
    let mut k = 0; while k < n_gen { let (wasm, _) = gen::module(&mut r, &tab, &gcfg); if amod::validate(&wasm, feats).is_err() { continue; } inputs.push((format!("gen{}", k), wasm)); k += 1; }
    let (mut n_cases, mut n_rows, mut n_subs, mut n_panics) = (0u64, 0u64, 0u64, 0u64); let mut cfg_hist: std::collections::BTreeMap<String, u64> = Default::default();
    let dcfgs = [DCfg { version: 4, one_seq: false, file0: false, pair_seq: false, nested: false, two_units: false }, DCfg { version: 5, one_seq: false, file0: false, pair_seq: false, nested: false, two_units: false }, DCfg { version: 4, one_seq: true, file0: false, pair_seq: false, nested: false, two_units: false }, DCfg { version: 5, one_seq: false, file0: true, pair_seq: false, nested: false, two_units: false }, DCfg { version: 5, one_seq: true, file0: false, pair_seq: false, nested: false, two_units: false }, DCfg { version: 4, one_seq: false, file0: false, pair_seq: true, nested: false, two_units: false }, DCfg { version: 4, one_seq: false, file0: false, pair_seq: false, nested: true, two_units: false }, DCfg { version: 5, one_seq: false, file0: false, pair_seq: false, nested: true, two_units: true }];
    for (idx, (name, wasm)) in inputs.iter().enumerate() {
        let a0 = match amod::decode(wasm) { Ok(a) => a, Err(_) => continue };
        for (ci, dc) in dcfgs.iter().enumerate() {
            if idx >= n_fixed && (idx + ci) % 4 != 0 { continue; }   // generated modules rotate through the configurations
            if idx >= n_fixed_before_boundary && idx < n_fixed && ci != 0 && ci != 2 && ci != 5 && ci != 6 { continue; }   // size-boundary modules: v4 per function and v4 one sequence   // generated modules rotate through the configurations
            let input = match synthesize(wasm, &a0, *dc) { Some(x) => x, None => continue };
            let ain = amod::decode(&input).unwrap(); let din = match read_dwarf(&input) { Some(d) => d, None => continue };
            for variant in [0u8, 1, 2] {
                let vname = format!("{} [dwarf v{}{}{}]{}", name, dc.version, if dc.one_seq { ", one sequence over all functions" } else if dc.pair_seq { ", one sequence per two functions" } else if dc.two_units { ", two units, nested scopes" } else if dc.nested { ", nested scopes" } else { "" }, if dc.file0 { ", rows name file 0" } else { "" }, ["", " (after gc)", " (markers inserted)"][variant as usize]);
                *cfg_hist.entry(format!("v{}{}{}/{}", dc.version, if dc.one_seq { "+oneseq" } else if dc.pair_seq { "+pairseq" } else if dc.two_units { "+nested+2units" } else if dc.nested { "+nested" } else { "" }, if dc.file0 { "+file0" } else { "" }, variant)).or_default() += 1;
                let mk = |class: &str, what: String| Json::obj(vec![("class", Json::s(class)), ("props", Json::s("C10")), ("what", Json::s(format!("{}: {}", vname, what))), ("input", Json::s(crate::c03::hex(&input)))]);
                let sd = r.below(1 << 30);
                let run = match catch(|| run_walrus(&input, variant, sd, &ain)) { Some(Ok(x)) => x, Some(Err(e)) => { viol.push(mk("dwarf-parse-error", e)); continue; }
                    None => { n_panics += 1; let class = if dc.file0 { "dwarf-emit-panics:v5-row-names-file-0" } else if dc.one_seq || dc.pair_seq { "dwarf-emit-panics:sequence-spanning-functions" } else { "dwarf-emit-panics" };
                        viol.push(Json::obj(vec![("class", Json::s(class)), ("props", Json::s("C10 C02")), ("what", Json::s(format!("{}: parse/emit with generate_dwarf panics on well-formed DWARF", vname))), ("input", Json::s(crate::c03::hex(&input)))])); continue; } };
                if variant == 2 && amod::validate(&run.out, feats).is_err() { continue; }
                if let Err(e) = amod::validate(&run.out, feats) { { viol.push(Json::obj(vec![("class", Json::s("output-invalid-with-dwarf")), ("props", Json::s("C02 C10")), ("what", Json::s(format!("{}: the module emitted with generate_dwarf does not validate: {}", vname, e))), ("input", Json::s(crate::c03::hex(&input)))])); } }
                let b = match amod::decode(&run.out) { Ok(b) => b, Err(_) => continue };
                let dout = match read_dwarf(&run.out) { Some(d) => d, None => { viol.push(mk("dwarf-output-unreadable", "gimli cannot read the emitted debug sections".into())); continue; } };
                n_cases += 1;
                // ---- oracle
                let (nia, nib) = (n_imp_funcs(&ain), n_imp_funcs(&b)); let cs_out = b.code_section.map(|c| c.0).unwrap_or(0) as u64;
                // expected: line id -> relative output address, for instructions that survive; removed: line ids of instructions that do not
                let mut expect: std::collections::BTreeMap<u64, u64> = Default::default(); let mut removed: std::collections::BTreeSet<u64> = Default::default(); let mut aligned = true;
                let mut fout: Vec<Option<&ABody>> = vec![];
                for (i, fa) in ain.code.iter().enumerate() {
                    let fb = run.pm.funcs.get(nia + i).and_then(|id| run.em.funcs.get(id)).and_then(|ix| b.code.get((*ix as usize).wrapping_sub(nib)));
                    fout.push(fb);
                    match fb { None => { for k in 0..fa.ops.len() { removed.insert(line_of(i, k)); } }
                        Some(fb) => { let mut ins = vec![]; match align_pub(fa, fb, &mut ins) { Some(map) => for (k, j) in map.iter().enumerate() { match j { Some(j) => { expect.insert(line_of(i, k), fb.ops[*j].1 as u64 - cs_out); } None => { removed.insert(line_of(i, k)); } } }, None => aligned = false } } } }
                if !aligned { continue; }
                let out_starts: std::collections::BTreeSet<u64> = b.code.iter().flat_map(|f| f.ops.iter().map(|o| o.1 as u64 - cs_out)).collect();
                let mut got: std::collections::BTreeMap<u64, Vec<u64>> = Default::default(); for (addr, line, end) in &dout.rows { if !*end { got.entry(*line).or_default().push(*addr); } }
                // per input function: why its debug info may legitimately be hard to carry over (recorded findings are keyed by these)
                let leb = |n: usize| -> usize { let mut l = 1; let mut x = n >> 7; while x > 0 { l += 1; x >>= 7; } l };
                let explain = |i: usize| -> &'static str {
                    if dc.one_seq || dc.pair_seq { return "sequence-spanning-functions"; }
                    let fa = &ain.code[i]; let mask = crate::body::live_mask(&fa.ops);
                    if let Some(fb) = fout[i] {
                        if !mask.first().copied().unwrap_or(true) { return "first-instruction-of-function-removed"; }
                        if variant == 2 && fb.ops.first().and_then(|o| o.0.as_deref()) == Some(&format!("WOp (W_I32Const ({})%Z)", MARKER)) { return "instructions-inserted-before-first"; }
                        if leb(fa.range.1 - fa.range.0) != leb(fb.range.1 - fb.range.0) { return "size-leb-length-changed"; }
                    }
                    "" };
                let mut by_class: std::collections::BTreeMap<String, (u64, String)> = Default::default();
                let mut note = |kind: &str, i: usize, msg: String| { let e = explain(i); let class = if e.is_empty() { kind.to_string() } else { format!("{}:{}", kind, e) }; let ent = by_class.entry(class).or_insert((0, String::new())); ent.0 += 1; if ent.1.is_empty() { ent.1 = msg; } };
                for (line, want) in &expect { n_rows += 1; let fi = (*line / 100000) as usize; match got.get(line) { Some(v) if v.len() == 1 && v[0] == *want => {},
                    Some(v) => note("line-rows-wrong", fi, format!("row for line {} (instruction {} of input function {}) has address {:?}, the instruction starts at {}", line, line % 100000 - 1, fi, v, want)),
                    None => note("line-rows-wrong", fi, format!("the row for line {} (instruction {} of input function {}) is missing, the instruction is emitted at {}", line, line % 100000 - 1, fi, want)) } }
                for line in &removed { let fi = (*line / 100000) as usize; if let Some(v) = got.get(line) { for x in v { if *x != 0xFFFF_FFFF && out_starts.contains(x) { note("line-rows-wrong", fi, format!("line {} belongs to code that was removed, but its row points at {} where another instruction starts", line, x)); } } } }
                // every emitted sequence is terminated, and addresses do not decrease within a sequence
                if let Some(last) = dout.rows.last() { if !last.2 { note("line-sequence-not-terminated", 0, format!("the emitted line program ends inside a sequence (last row at {}, line {})", last.0, last.1)); } }
                { let mut prev: Option<u64> = None; for (addr, line, end) in &dout.rows { if let Some(p) = prev { if *addr < p { note("line-sequence-not-monotone", 0, format!("row for line {} at {} follows a row at {} in the same sequence", line, addr, p)); } } prev = if *end { None } else { Some(*addr) }; } }
                // subprograms
                for (i, fa) in ain.code.iter().enumerate() { n_subs += 1; let nm = format!("f{}", i); let so = dout.subs.iter().find(|s| s.0 == nm);
                    match (fout[i], so) {
                        (Some(fb), Some((_, lo, hi))) => { let (wl, wh) = (fb.range.0 as u64 - cs_out, (fb.range.1 - fb.range.0) as u64); if (*lo, *hi) != (wl, wh) { note("subprogram-range-wrong", i, format!("subprogram {} covers [{}, +{}) but function {} occupies [{}, +{}) (input body {} bytes, output body {} bytes)", nm, lo, hi, i, wl, wh, fa.range.1 - fa.range.0, wh)); } }
                        (None, Some((_, lo, hi))) => { if *lo != 0xFFFF_FFFF && *lo != 0 && out_starts.iter().any(|s| *s >= *lo && *s < lo + hi) { note("subprogram-range-wrong", i, format!("subprogram {} of a removed function covers live code [{}, +{})", nm, lo, hi)); } }
                        (Some(_), None) => note("subprogram-range-wrong", i, format!("subprogram {} disappeared", nm)),
                        (None, None) => {} } }
                if std::env::var("VH_DEBUG_RANGES").is_ok() && dc.nested { eprintln!("{} ranges in: {:?} out: {:?} ; out funcs: {:?}", vname, din.cu_ranges, dout.cu_ranges, b.code.iter().map(|f| (f.range.0 as u64 - b.code_section.unwrap().0 as u64, f.range.1 as u64 - b.code_section.unwrap().0 as u64)).collect::<Vec<_>>()); }
                if std::env::var("VH_DEBUG_FILES").is_ok() && variant == 0 && dc.nested { eprintln!("files in: {:?} out: {:?}", din.files.iter().take(3).collect::<Vec<_>>(), dout.files.iter().take(3).collect::<Vec<_>>()); }
                // the source file of a row is part of what "the row of that instruction" means: every surviving row names the file it named in the input
                { let mut bad = 0; let mut first = String::new(); for (line, f) in &dout.files { if let Some(fi) = din.files.get(line) { if fi != f { bad += 1; if first.is_empty() { first = format!("the row of line {} names {:?} in the input and {:?} in the output", line, fi, f); } } } }
                  if bad > 0 { note("line-row-file-changed", 0, format!("{} rows, first: {}", bad, first)); } }
                // nested scopes: a block whose two boundary instructions survive covers exactly the code between them; DIEs keep their document order
                if dc.nested {
                    if din.subs.iter().map(|s| &s.0).collect::<Vec<_>>() != dout.subs.iter().map(|s| &s.0).collect::<Vec<_>>() { note("die-order-changed", 0, format!("the DIEs with address ranges are {:?} in the input and {:?} in the output", din.subs.iter().map(|s| &s.0).collect::<Vec<_>>(), dout.subs.iter().map(|s| &s.0).collect::<Vec<_>>())); }
                    for (i, fa) in ain.code.iter().enumerate() { if fa.ops.len() < 3 { continue; } let (k1, k2) = (fa.ops.len() / 3, fa.ops.len() - 1);
                        for (nm, ka) in [(format!("b{}", i), k1), (format!("i{}", i), k1 + 1)] { if ka >= k2 { continue; }
                            if let (Some(wa), Some(wb), Some((_, lo, hi))) = (expect.get(&line_of(i, ka)), expect.get(&line_of(i, k2)), dout.subs.iter().find(|s| s.0 == nm)) {
                                if (*lo, *hi) != (*wa, wb.wrapping_sub(*wa)) { note("scope-range-wrong", i, format!("lexical block {} covers [{}, +{}) but its first instruction is emitted at {} and its end instruction at {}", nm, lo, hi, wa, wb)); } } } }
                }
                for (class, (n, first)) in by_class { viol.push(mk(&class, format!("{} wrong, first: {}", n, first))); }
                // ---- Coq case: classifier tables + probes (only for small modules)
                if run.probes.len() < 900 && run.tables.len() < 20000 { w.push(&format!("Build_dcase {} [{}]", run.tables, run.probes.join("; "))); }
                // ---- Coq case: the line program (input instruction stream, tables of this emission, rows read back)
                if run.tables.len() < 20000 && dout.rows.len() < 700 { if let Some(ls) = line_stream(&input) {
                    let rows = dout.rows.iter().map(|(a, l, e)| format!("({}, {}, {})", a, if *e { 0 } else { *l }, e)).collect::<Vec<_>>().join("; ");
                    // subprogram DIEs in document order: input (low_pc, high_pc) and what the output says
                    let subs = if din.subs.len() == dout.subs.len() && din.subs.iter().zip(&dout.subs).all(|(a, b)| a.0 == b.0) { din.subs.iter().zip(&dout.subs).map(|(a, b)| format!("(({}, {}), ({}, {}))", a.1, a.2, b.1, b.2)).collect::<Vec<_>>().join("; ") } else { "((0, 0), (1, 1))".to_string() };
                    wl.push(&format!("Build_lcase {} {} {} [{}] [{}]", run.tables, run.start, ls, rows, subs)); } }
            }
        }
    }
    w.finish(); wl.finish();
    let meta = Json::obj(vec![("cases", Json::u(w.total)), ("line_program_cases", Json::u(wl.total)), ("emissions", Json::n(n_cases as f64)), ("inputs", Json::u(inputs.len())), ("rows_checked", Json::n(n_rows as f64)), ("subprograms_checked", Json::n(n_subs as f64)), ("panics", Json::n(n_panics as f64)),
        ("configurations", Json::obj(cfg_hist.iter().map(|(k, v)| (k.as_str(), Json::n(*v as f64))).collect())), ("oracle_violations", Json::Arr(viol))]);
    std::fs::write(format!("{}/meta.json", out_dir), meta.to_string()).unwrap();
}
