//! Structure-aware generator of mostly-valid modules with rich function bodies, written
//! directly on wasm-encoder. Every random choice comes from the one seeded PRNG.
use crate::env::{self, vt, Profile};
use crate::rng::Rng;
use crate::sigs::{OpInst, Table, TERMINAL};
use wasm_encoder as we;
use we::Instruction as I;

pub struct GenCfg { pub profile: Profile, pub max_funcs: usize, pub max_depth: usize, pub seq_len: usize, pub names: bool, pub customs: bool, pub start: bool, pub active_segments: bool }

#[derive(Clone, Debug, Default)]
pub struct GInfo { pub n_funcs: usize, pub n_ops: usize, pub op_names: Vec<&'static str>, pub max_depth_seen: usize, pub dead_ops: usize, pub has_names: bool, pub n_customs: usize, pub has_start: bool, pub blocks: usize }

struct Ctx<'a> {
    r: &'a mut Rng, tab: &'a Table, cfg: &'a GenCfg, info: &'a mut GInfo,
    types: &'a [(Vec<u8>, Vec<u8>)], func_types: &'a [u32],
    nparams: usize, params: Vec<u8>, results: Vec<u8>, by_first_param: Vec<Vec<usize>>,
    /// positions (in `labels`) of the labels that are loops; in the Exec profile nothing branches to them, so that every generated function terminates
    loops: Vec<usize>,
    /// index of the function being generated (Exec profile: tail calls only go to lower indices, so they cannot cycle)
    cur: usize,
}

fn interesting_const(r: &mut Rng, c: u8) -> I<'static> {
    match c {
        0 => I::I32Const(*r.pick(&[0, 1, -1, i32::MIN, i32::MAX, 42, 65535, -128])),
        1 => I::I64Const(*r.pick(&[0, 1, -1, i64::MIN, i64::MAX, 1 << 40, -7])),
        2 => I::F32Const(f32::from_bits(*r.pick(&[0u32, 0x80000000, 0x3f800000, 0x7fc00000, 0x7fa00001, 0xff800000, 0x42280000]))),
        3 => I::F64Const(f64::from_bits(*r.pick(&[0u64, 1 << 63, 0x3ff0000000000000, 0x7ff8000000000000, 0x7ff4000000000001, 0x4045000000000000]))),
        4 => I::V128Const(*r.pick(&[0i128, -1, 0x0102030405060708090a0b0c0d0e0f10, 1 << 100])),
        c => env::const_of(c),
    }
}

impl<'a> Ctx<'a> {
    /// does the instruction list end in dead position (after an unconditional transfer followed by our `unreachable` isolation)?
    fn ends_dead(&self, out: &Vec<I<'static>>) -> bool { matches!(out.last(), Some(I::Unreachable) | Some(I::Br(_)) | Some(I::BrTable(..)) | Some(I::Return) | Some(I::ReturnCall(_)) | Some(I::ReturnCallIndirect { .. })) }
    fn pick_label(&mut self, labels: &Vec<Vec<u8>>) -> usize {
        loop { let d = self.r.usize(labels.len()); if self.cfg.profile == Profile::Exec && self.loops.contains(&(labels.len() - 1 - d)) { continue; } return d; }
    }
    /// local index whose type code is c: parameters first, then the 7 fixed locals
    fn local_of(&mut self, c: u8) -> u32 {
        let mut cands: Vec<u32> = self.params.iter().enumerate().filter(|(_, t)| **t == c).map(|(i, _)| i as u32).collect();
        cands.push(self.nparams as u32 + c as u32);
        // three more declared locals after the seven typed ones: i32, i64, i32 (several used locals of the SAME type per function)
        if c == 0 { cands.push(self.nparams as u32 + 7); cands.push(self.nparams as u32 + 9); }
        if c == 1 { cands.push(self.nparams as u32 + 8); }
        *self.r.pick(&cands)
    }
    fn push_val(&mut self, out: &mut Vec<I<'static>>, c: u8) {
        match self.r.below(10) {
            0..=5 => out.push(interesting_const(self.r, c)),
            6..=8 => { let l = self.local_of(c); out.push(I::LocalGet(l)); }
            _ => if c <= 3 { out.push(I::GlobalGet(c as u32)) } else { out.push(interesting_const(self.r, c)) },
        }
    }
    fn note(&mut self, name: &'static str) { self.info.n_ops += 1; if self.info.op_names.len() < 4000 { self.info.op_names.push(name); } }

    fn blocktype(&mut self) -> (we::BlockType, Vec<u8>, Vec<u8>) {
        match self.r.below(10) {
            0..=3 => (we::BlockType::Empty, vec![], vec![]),
            4..=6 => { let c = self.r.below(7) as u8; (we::BlockType::Result(vt(c)), vec![], vec![c]) }
            _ => { let ti = self.r.usize(self.types.len()); let (p, q) = self.types[ti].clone(); (we::BlockType::FunctionType(ti as u32), p, q) }
        }
    }

    fn dead_code(&mut self, out: &mut Vec<I<'static>>, labels: &mut Vec<Vec<u8>>, depth: usize) {
        // arbitrary operators after an unconditional transfer: stack-polymorphic, then `unreachable` so the
        // block end always type-checks
        let n = self.r.usize(4);
        if n == 0 && self.r.chance(1, 2) { return; }
        for _ in 0..n {
            match self.r.below(8) {
                0 => { out.push(I::Nop); self.note("Nop"); }
                1 if depth < self.cfg.max_depth => {
                    // a whole nested construct in dead position (allocates an orphan sequence in walrus)
                    // a block, a loop, an else-less if or an if / else (dead structured code inside live structured code: the parser's control stack sees both)
                    match self.r.below(4) {
                        0 => { out.push(I::Block(we::BlockType::Empty)); labels.push(vec![]);
                               let body = self.seq(labels, vec![], &[], depth + 1); out.extend(body); labels.pop(); out.push(I::End); self.note("Block"); }
                        1 => { out.push(I::Loop(we::BlockType::Empty)); labels.push(vec![]);
                               let body = self.seq(labels, vec![], &[], depth + 1); out.extend(body); labels.pop(); out.push(I::End); self.note("Loop"); }
                        k => { out.push(I::I32Const(k as i32 - 2)); out.push(I::If(we::BlockType::Empty)); labels.push(vec![]);
                               let body = self.seq(labels, vec![], &[], depth + 1); out.extend(body);
                               if k == 3 { out.push(I::Else); let body = self.seq(labels, vec![], &[], depth + 1); out.extend(body); self.note("Else"); }
                               labels.pop(); out.push(I::End); self.note("If"); } }
                    self.info.blocks += 1;
                }
                2 => { let d = self.pick_label(labels); out.push(I::Br(d as u32)); self.note("Br"); }
                _ => { let k = self.r.usize(self.tab.insts.len()); let inst = self.tab.insts[k].clone();
                       if inst.name.starts_with("Local") { continue; }
                       if inst.name == "ReturnCall" || inst.name == "ReturnCallIndirect" { continue; }
                       if self.r.chance(1, 2) {
                           // directly on the polymorphic stack (isolated by `unreachable` so that concrete leftovers cannot clash)
                           out.push(I::Unreachable); self.note("Unreachable"); out.push(inst.ins.clone()); self.note(inst.name);
                       } else {
                           // fully fed with constants, results dropped: well-typed dead code
                           for c in inst.params.clone() { out.push(interesting_const(self.r, c)); }
                           out.push(inst.ins.clone()); self.note(inst.name);
                           match &inst.results { Some(rs) => for _ in rs { out.push(I::Drop); }, None => {} }
                       } }
            }
            self.info.dead_ops += 1;
        }
        out.push(I::Unreachable); self.note("Unreachable");
    }

    /// A sequence starting with `stack` (type codes, top last) that leaves exactly `want`.
    fn seq(&mut self, labels: &mut Vec<Vec<u8>>, init: Vec<u8>, want: &[u8], depth: usize) -> Vec<I<'static>> {
        self.info.max_depth_seen = self.info.max_depth_seen.max(depth);
        let mut out: Vec<I<'static>> = vec![]; let mut stack = init;
        let n = 1 + self.r.usize(self.cfg.seq_len);
        for _ in 0..n {
            match self.r.below(100) {
                0..=19 => { let c = self.r.below(7) as u8; self.push_val(&mut out, c); stack.push(c); }
                20..=54 => {
                    // an operator from the signature table whose operands are on the stack (else feed it)
                    let k = if !stack.is_empty() && self.r.chance(2, 3) {
                        let top = *stack.last().unwrap() as usize; let v = &self.by_first_param[top];
                        if v.is_empty() { self.r.usize(self.tab.insts.len()) } else { v[self.r.usize(v.len())] }
                    } else { self.r.usize(self.tab.insts.len()) };
                    let inst: OpInst = self.tab.insts[k].clone();
                    if inst.name.starts_with("Local") || TERMINAL.contains(&inst.name) { continue; }
                    // keep as many operands from the stack as match, synthesise the rest
                    let np = inst.params.len(); let mut keep = 0;
                    for j in (1..=np.min(stack.len())).rev() { if stack[stack.len() - j..] == inst.params[np - j..] { keep = j; break; } }
                    if keep < np {
                        // the kept suffix must be the LAST operands; push the missing earlier ones below is impossible, so re-feed all
                        if keep > 0 { for _ in 0..keep { out.push(I::Drop); stack.pop(); } }
                        for c in inst.params.clone() { self.push_val(&mut out, c); stack.push(c); }
                    }
                    for _ in 0..np { stack.pop(); }
                    out.push(inst.ins.clone()); self.note(inst.name);
                    for c in inst.results.clone().unwrap() { stack.push(c); }
                }
                55..=64 => {
                    if let Some(c) = stack.pop() {
                        match self.r.below(5) {
                            0 => { out.push(I::Drop); self.note("Drop"); }
                            1 => { let l = self.local_of(c); out.push(I::LocalSet(l)); self.note("LocalSet"); }
                            2 => { let l = self.local_of(c); out.push(I::LocalTee(l)); stack.push(c); self.note("LocalTee"); }
                            3 if c <= 3 => { out.push(I::GlobalSet(c as u32)); self.note("GlobalSet"); }
                            _ => { // select between this value and a fresh one of the same type
                                self.push_val(&mut out, c); out.push(I::I32Const(self.r.below(2) as i32));
                                if c >= 5 || self.r.chance(1, 2) { out.push(I::TypedSelect(vt(c))); self.note("TypedSelect"); } else { out.push(I::Select); self.note("Select"); }
                                stack.push(c); }
                        }
                    }
                }
                65..=79 if depth < self.cfg.max_depth => {
                    let (bt, ps, rs) = self.blocktype();
                    for c in ps.clone() { self.push_val(&mut out, c); }
                    self.info.blocks += 1;
                    match self.r.below(3) {
                        0 => { out.push(I::Block(bt)); self.note("Block"); labels.push(rs.clone()); let b = self.seq(labels, ps.clone(), &rs, depth + 1); out.extend(b); labels.pop(); out.push(I::End); }
                        1 => { // Exec profile: half of the parameterless loops really iterate - a counter local reserved for this nesting depth runs from K down to 0
                               let counted = self.cfg.profile == Profile::Exec && ps.is_empty() && depth < 4 && self.r.chance(1, 2);
                               let c = self.nparams as u32 + 10 + depth as u32;
                               if counted { out.push(I::I32Const(1 + self.r.below(3) as i32)); out.push(I::LocalSet(c)); }
                               out.push(I::Loop(bt)); self.note("Loop"); self.loops.push(labels.len()); labels.push(ps.clone()); let b = self.seq(labels, ps.clone(), &rs, depth + 1); out.extend(b); labels.pop(); self.loops.pop();
                               if counted && !self.ends_dead(&out) { out.push(I::LocalGet(c)); out.push(I::I32Const(1)); out.push(I::I32Sub); out.push(I::LocalTee(c)); out.push(I::BrIf(0)); }
                               out.push(I::End); }
                        _ => { self.push_val(&mut out, 0); out.push(I::If(bt)); self.note("If"); labels.push(rs.clone());
                               // an arm may be EMPTY when the block type allows it (parameters = results): empty `then` with a non-empty `else`, and the converse
                               let empty_then = ps == rs && self.r.chance(1, 6); let empty_else = !empty_then && ps == rs && self.r.chance(1, 8);
                               if !empty_then { let b = self.seq(labels, ps.clone(), &rs, depth + 1); out.extend(b); }
                               if empty_then || empty_else || ps != rs || self.r.chance(1, 2) { out.push(I::Else); self.note("Else"); if !empty_else { let e = self.seq(labels, ps.clone(), &rs, depth + 1); out.extend(e); } }
                               labels.pop(); out.push(I::End); }
                    }
                    for c in rs { stack.push(c); }
                }
                80..=85 => { // br_if keeps the label's values
                    let d = self.pick_label(labels); let lt = labels[labels.len() - 1 - d].clone();
                    for c in lt.clone() { self.push_val(&mut out, c); }
                    self.push_val(&mut out, 0); out.push(I::BrIf(d as u32)); self.note("BrIf");
                    for c in lt { stack.push(c); }
                }
                86..=89 => { out.push(I::Nop); self.note("Nop"); }
                90..=99 => {
                    // an unconditional transfer, then dead code; the sequence ends here
                    match self.r.below(6) {
                        0 => { let d = self.pick_label(labels); let lt = labels[labels.len() - 1 - d].clone(); for c in lt { self.push_val(&mut out, c); } out.push(I::Br(d as u32)); self.note("Br"); }
                        1 => { // br_table over labels of equal type
                            let d = self.pick_label(labels); let lt = labels[labels.len() - 1 - d].clone();
                            let exec = self.cfg.profile == Profile::Exec; let same: Vec<u32> = (0..labels.len()).filter(|k| labels[labels.len() - 1 - k] == lt && !(exec && self.loops.contains(&(labels.len() - 1 - k)))).map(|k| k as u32).collect();
                            let nt = self.r.usize(4); let ts: Vec<u32> = (0..nt).map(|_| *self.r.pick(&same)).collect();
                            for c in lt { self.push_val(&mut out, c); } self.push_val(&mut out, 0);
                            out.push(I::BrTable(ts.into(), d as u32)); self.note("BrTable"); }
                        2 => { for c in self.results.clone() { self.push_val(&mut out, c); } out.push(I::Return); self.note("Return"); }
                        3 => { // tail call to a function with the same results
                            let exec = self.cfg.profile == Profile::Exec; let cur = self.cur; let cands: Vec<usize> = (0..self.func_types.len()).filter(|f| self.types[self.func_types[*f] as usize].1 == self.results && !(exec && *f >= cur)).collect();
                            if cands.is_empty() { out.push(I::Unreachable); self.note("Unreachable"); } else {
                                let f = *self.r.pick(&cands); for c in self.types[self.func_types[f] as usize].0.clone() { self.push_val(&mut out, c); }
                                out.push(I::ReturnCall(f as u32)); self.note("ReturnCall"); } }
                        _ => { out.push(I::Unreachable); self.note("Unreachable"); }
                    }
                    self.dead_code(&mut out, labels, depth);
                    return out;
                }
                _ => { out.push(I::Nop); self.note("Nop"); }
            }
        }
        // leave exactly `want`
        if stack != want { for _ in 0..stack.len() { out.push(I::Drop); } for c in want.to_vec() { self.push_val(&mut out, c); } }
        out
    }
}

/// A universe-compatible module: index spaces 0..3 of every kind keep the universe's types, more
/// entities are appended, every local function gets a generated body.
pub fn module(r: &mut Rng, tab: &Table, cfg: &GenCfg) -> (Vec<u8>, GInfo) {
    let mut info = GInfo::default();
    let mut types = env::base_types();
    for _ in 0..r.usize(3) { let np = r.usize(3); let nr = r.usize(3); let t = ((0..np).map(|_| r.below(5) as u8).collect::<Vec<u8>>(), (0..nr).map(|_| r.below(5) as u8).collect::<Vec<u8>>()); if !types.contains(&t) { types.push(t); } }
    let mut func_types: Vec<u32> = env::BASE_FUNC_TYPES.to_vec();
    for _ in 0..r.usize(cfg.max_funcs.max(1)) { func_types.push(r.usize(types.len()) as u32); }
    info.n_funcs = func_types.len() - 1;
    let mut by_first_param: Vec<Vec<usize>> = vec![vec![]; 7];
    for (k, i) in tab.insts.iter().enumerate() { if let (Some(p), Some(_)) = (i.params.last(), &i.results) { by_first_param[*p as usize].push(k); } }

    let mut m = we::Module::new();
    let mut t = we::TypeSection::new();
    for (ps, rs) in &types { t.function(ps.iter().map(|c| vt(*c)), rs.iter().map(|c| vt(*c))); }
    m.section(&t);
    let mut i = we::ImportSection::new(); i.import("env", "imp", we::EntityType::Function(0)); m.section(&i);
    let mut f = we::FunctionSection::new(); for ft in &func_types[1..] { f.function(*ft); } m.section(&f);
    let mut tb = we::TableSection::new();
    tb.table(we::TableType { element_type: we::RefType::FUNCREF, table64: false, minimum: 4, maximum: None, shared: false });
    tb.table(we::TableType { element_type: we::RefType::FUNCREF, table64: false, minimum: 2, maximum: Some(8), shared: false });
    tb.table(we::TableType { element_type: we::RefType::EXTERNREF, table64: false, minimum: 1, maximum: None, shared: false });
    m.section(&tb);
    let mems = env::mem_types(cfg.profile);
    let mut ms = we::MemorySection::new(); for mt in &mems { ms.memory(*mt); } m.section(&ms);
    let mut g = we::GlobalSection::new();
    g.global(we::GlobalType { val_type: we::ValType::I32, mutable: true, shared: false }, &we::ConstExpr::i32_const(1));
    g.global(we::GlobalType { val_type: we::ValType::I64, mutable: true, shared: false }, &we::ConstExpr::i64_const(2));
    g.global(we::GlobalType { val_type: we::ValType::F32, mutable: true, shared: false }, &we::ConstExpr::f32_const(3.0));
    g.global(we::GlobalType { val_type: we::ValType::F64, mutable: true, shared: false }, &we::ConstExpr::f64_const(4.0));
    m.section(&g);
    let mut e = we::ExportSection::new();
    for k in 0..func_types.len() as u32 { if k < 4 || r.chance(2, 3) { e.export(&format!("f{}", k), we::ExportKind::Func, k); } }
    for k in 0..3 { e.export(&format!("t{}", k), we::ExportKind::Table, k); }
    for k in 0..mems.len() as u32 { e.export(&format!("m{}", k), we::ExportKind::Memory, k); }
    for k in 0..4 { e.export(&format!("g{}", k), we::ExportKind::Global, k); }
    m.section(&e);
    if cfg.start && r.chance(1, 3) { let cands: Vec<u32> = (0..func_types.len() as u32).filter(|k| func_types[*k as usize] == 0).collect(); m.section(&we::StartSection { function_index: *r.pick(&cands) }); info.has_start = true; }
    let mut el = we::ElementSection::new();
    for _ in 0..4 { el.passive(we::Elements::Functions(&[0, 1])); }
    if cfg.active_segments && r.chance(1, 2) { el.active(Some(0), &we::ConstExpr::i32_const(1), we::Elements::Functions(&[1, 2])); }
    m.section(&el);
    let n_data = 4 + if cfg.active_segments && r.chance(1, 2) { 1 } else { 0 };
    m.section(&we::DataCountSection { count: n_data });
    let mut c = we::CodeSection::new();
    for fi in 1..func_types.len() {
        let (ps, rs) = types[func_types[fi] as usize].clone();
        let mut cx = Ctx { r, tab, cfg, info: &mut info, types: &types, func_types: &func_types, nparams: ps.len(), params: ps.clone(), results: rs.clone(), by_first_param: by_first_param.clone(), loops: vec![], cur: fi };
        let mut labels = vec![rs.clone()];
        let body = cx.seq(&mut labels, vec![], &rs, 0);
        let mut decls = env::local_decls(); decls.push((1, we::ValType::I32)); decls.push((1, we::ValType::I64)); decls.push((1, we::ValType::I32)); decls.push((4, we::ValType::I32));   // the last four: loop counters, one per nesting depth
        let mut wf = we::Function::new(decls);
        for ins in &body { wf.instruction(ins); }
        wf.instruction(&I::End);
        c.function(&wf);
    }
    m.section(&c);
    let mut d = we::DataSection::new();
    for k in 0..4u8 { d.passive([k, k + 1]); }
    if n_data == 5 { d.active(0, &we::ConstExpr::i32_const(8), [9, 9, 9]); }
    m.section(&d);
    if cfg.names && r.chance(1, 2) {
        let mut ns = we::NameSection::new(); ns.module("gen");
        let mut fnames = we::NameMap::new(); for k in 0..func_types.len() as u32 { if r.chance(2, 3) { fnames.append(k, &format!("fn{}", k)); } } ns.functions(&fnames);
        m.section(&ns); info.has_names = true;
    }
    if cfg.customs { for k in 0..r.usize(3) { m.section(&we::CustomSection { name: format!("x{}", k).into(), data: vec![k as u8; 1 + k].into() }); info.n_customs += 1; } }
    (m.finish(), info)
}
