//! Function-body level correspondence: generated modules through real walrus; for every local
//! function print a `bcase` (Run/BodyRun.v) and run the model-independent normal-form oracle.
use crate::amod::{self, AMod};
use crate::env::{self, Profile};
use crate::gen::{self, GenCfg};
use crate::irdump::{self, EmitMaps, ParseMaps};
use crate::rng::Rng;
use crate::sigs;
use crate::util::{catch, CaseWriter, Json};
use std::collections::BTreeMap;
use walrus::ir::*;
use walrus::*;

fn vt_list(v: &[walrus::ValType]) -> String { format!("[{}]", v.iter().map(crate::gen_ir_print::valty).collect::<Vec<_>>().join("; ")) }
fn wp_vt(v: &wasmparser::ValType) -> String { crate::ops::valty_coq(v).unwrap_or_else(|| "VT_I32".into()) }
fn nlist(v: &[usize]) -> String { format!("[{}]", v.iter().map(|x| x.to_string()).collect::<Vec<_>>().join(";")) }
fn assoc(m: &BTreeMap<usize, u32>) -> String { format!("[{}]", m.iter().map(|(k, v)| format!("({},{})", k, v)).collect::<Vec<_>>().join(";")) }

pub struct Observed { pub module: Module, pub pm: ParseMaps, pub em: EmitMaps, pub out: Vec<u8>, pub ain: AMod, pub aout: AMod }

pub struct ObservedOut { pub module: Module, pub em: EmitMaps, pub out: Vec<u8>, pub aout: AMod }
/// emit an in-memory module (capturing the emit-time maps) and decode the result
pub fn observe_module(mut module: Module) -> std::result::Result<ObservedOut, String> {
    let (rec, em) = irdump::IndexRecorder::for_module(&module);
    module.customs.add(rec);
    let out = module.emit_wasm();
    let em = em.lock().unwrap().clone();
    let aout = amod::decode(&out)?;
    Ok(ObservedOut { module, em, out, aout })
}
pub fn id2i_coq(em: &EmitMaps) -> String {
    format!("[(S_func, {}); (S_type, {}); (S_table, {}); (S_memory, {}); (S_global, {}); (S_data, {}); (S_elem, {})]",
        assoc(&em.funcs), assoc(&em.types), assoc(&em.tables), assoc(&em.memories), assoc(&em.globals), assoc(&em.data), assoc(&em.elements))
}
/// parse (capturing the parse-time maps), emit (capturing the emit-time maps), decode both binaries
pub fn observe(wasm: &[u8], cfg: &mut ModuleConfig) -> std::result::Result<Observed, String> {
    let (mut module, pm) = irdump::parse_with_maps(wasm, cfg).map_err(|e| format!("parse: {:#}", e))?;
    let (rec, em) = irdump::IndexRecorder::for_module(&module);
    module.customs.add(rec);
    let out = module.emit_wasm();
    let em = em.lock().unwrap().clone();
    let ain = amod::decode(wasm)?; let aout = amod::decode(&out)?;
    Ok(Observed { module, pm, em, out, ain, aout })
}

/// Independent normal form of an operator stream (names + Coq terms): drop nop, cut each sequence
/// after its first unconditional transfer, give every `if` an `else`. Written against the
/// property text, not against the model. Returns the list of kept operator terms.
/// Which operators of a body survive nop / dead-code elision (same walk as `normal_form`).
pub fn live_mask(ops: &[(Option<String>, usize, &'static str)]) -> Vec<bool> {
    let mut mask = vec![false; ops.len()]; let mut frames: Vec<(bool, bool, bool)> = vec![(false, false, false)]; let mut drop_depth: Option<usize> = None;
    for (k, (_, _, name)) in ops.iter().enumerate() {
        if let Some(d) = drop_depth { match *name { "Block" | "Loop" | "If" => frames.push((false, false, true)), "End" => { frames.pop(); if frames.len() == d { drop_depth = None; } } _ => {} } continue; }
        let dead = frames.last().map(|f| f.2).unwrap_or(false);
        match *name {
            "Nop" => {}
            "Block" | "Loop" | "If" => { if dead { drop_depth = Some(frames.len()); frames.push((false, false, true)); } else { mask[k] = true; frames.push((*name == "If", false, false)); } }
            "Else" => { if let Some(f) = frames.last_mut() { f.1 = true; f.2 = false; } mask[k] = true; }
            "End" => { frames.pop(); mask[k] = true; }
            "Br" | "BrTable" | "Return" | "Unreachable" => { if !dead { mask[k] = true; if let Some(f) = frames.last_mut() { f.2 = true; } } }
            _ => { if !dead { mask[k] = true; } }
        }
    }
    mask
}

pub fn normal_form(ops: &[(Option<String>, usize, &'static str)]) -> Vec<String> {
    // frames: (is_if_without_else_yet, dead)
    let mut out: Vec<String> = vec![]; let mut frames: Vec<(bool, bool, bool)> = vec![(false, false, false)]; // (is_if, saw_else, dead)
    // a frame that is opened while its parent is dead is entirely dropped
    let mut drop_depth: Option<usize> = None;
    for (coq, _, name) in ops {
        let term = coq.clone().unwrap_or_else(|| format!("<{}>", name));
        if let Some(d) = drop_depth {
            match *name { "Block" | "Loop" | "If" => frames.push((false, false, true)), "End" => { frames.pop(); if frames.len() == d { drop_depth = None; } } _ => {} }
            continue;
        }
        let dead = frames.last().unwrap().2;
        match *name {
            "Nop" => {}
            "Block" | "Loop" | "If" => {
                if dead { drop_depth = Some(frames.len()); frames.push((false, false, true)); }
                else { out.push(term); frames.push((*name == "If", false, false)); }
            }
            "Else" => { let f = frames.last_mut().unwrap(); f.1 = true; f.2 = false; out.push(term); }
            "End" => {
                let f = frames.pop().unwrap();
                if f.0 && !f.1 { out.push("WElse".to_string()); }
                out.push(term);
            }
            "Br" | "BrTable" | "Return" | "Unreachable" => { if !dead { out.push(term); frames.last_mut().unwrap().2 = true; } }
            _ => { if !dead { out.push(term); } }
        }
    }
    out
}

/// C16 on a tree BUILT BOTTOM-UP through the public API: every nested sequence is created (as a dangling sequence) before the sequence that
/// contains it, so sequence identifiers DEcrease along the nesting; the traversals must report such a tree exactly like the parsed original
#[derive(Default)] struct ShapeRec { log: Vec<String> }
impl<'a> ir::Visitor<'a> for ShapeRec {
    fn start_instr_seq(&mut self, _: &'a ir::InstrSeq) { self.log.push("S".into()); }
    fn end_instr_seq(&mut self, _: &'a ir::InstrSeq) { self.log.push("E".into()); }
    fn visit_instr(&mut self, i: &'a ir::Instr, _: &'a ir::InstrLocId) { let d = format!("{:?}", i); self.log.push(d.split(|c: char| c == '(' || c == ' ' || c == '{').next().unwrap_or("").to_string()); }
}
#[derive(Default)] struct CountMut { n: usize }
impl ir::VisitorMut for CountMut { fn visit_instr_mut(&mut self, _: &mut ir::Instr, _: &mut ir::InstrLocId) { self.n += 1; } }
/// a visitor that MUTATES the control structure during dfs_pre_order_mut: every `block` becomes `unreachable`; the body that is thereby cut off must not be visited
#[derive(Default)] struct CutBlocks { n: usize }
impl ir::VisitorMut for CutBlocks { fn visit_instr_mut(&mut self, i: &mut ir::Instr, _: &mut ir::InstrLocId) { self.n += 1; if let ir::Instr::Block(_) = i { *i = ir::Instr::Unreachable(ir::Unreachable {}); } } }

fn bottom_up_twin(m: &mut Module, fid: walrus::FunctionId) -> Option<walrus::FunctionId> {
    use std::collections::HashMap;
    let (params, results) = { let lf = m.funcs.get(fid).kind.unwrap_local(); let t = m.types.get(lf.ty()); (t.params().to_vec(), t.results().to_vec()) };
    let new_args: Vec<walrus::LocalId> = params.iter().map(|t| m.locals.add(*t)).collect();
    let mut b = walrus::FunctionBuilder::new(&mut m.types, &params, &results);
    let orig = m.funcs.get(fid).kind.unwrap_local();
    let lmap: HashMap<walrus::LocalId, walrus::LocalId> = orig.args.iter().cloned().zip(new_args.iter().cloned()).collect();
    let mut idmap: HashMap<ir::InstrSeqId, ir::InstrSeqId> = HashMap::new();
    // children first (post-order); branch targets are patched afterwards
    fn build(b: &mut walrus::FunctionBuilder, orig: &LocalFunction, seq: ir::InstrSeqId, top: bool, idmap: &mut std::collections::HashMap<ir::InstrSeqId, ir::InstrSeqId>, lmap: &std::collections::HashMap<walrus::LocalId, walrus::LocalId>) {
        let items: Vec<ir::Instr> = orig.block(seq).instrs.iter().map(|(i, _)| i.clone()).collect();
        for it in &items { match it { ir::Instr::Block(ir::Block { seq: c }) | ir::Instr::Loop(ir::Loop { seq: c }) => build(b, orig, *c, false, idmap, lmap), ir::Instr::IfElse(ir::IfElse { consequent, alternative }) => { build(b, orig, *alternative, false, idmap, lmap); build(b, orig, *consequent, false, idmap, lmap); } _ => {} } }
        let id = if top { b.func_body_id() } else { b.dangling_instr_seq(orig.block(seq).ty).id() };
        idmap.insert(seq, id);
        let mut sb = b.instr_seq(id);
        for it in items { let it = match it { ir::Instr::Block(ir::Block { seq: c }) => ir::Instr::Block(ir::Block { seq: idmap[&c] }), ir::Instr::Loop(ir::Loop { seq: c }) => ir::Instr::Loop(ir::Loop { seq: idmap[&c] }),
            ir::Instr::IfElse(ir::IfElse { consequent, alternative }) => ir::Instr::IfElse(ir::IfElse { consequent: idmap[&consequent], alternative: idmap[&alternative] }),
            ir::Instr::LocalGet(e) => ir::Instr::LocalGet(ir::LocalGet { local: *lmap.get(&e.local).unwrap_or(&e.local) }), ir::Instr::LocalSet(e) => ir::Instr::LocalSet(ir::LocalSet { local: *lmap.get(&e.local).unwrap_or(&e.local) }), ir::Instr::LocalTee(e) => ir::Instr::LocalTee(ir::LocalTee { local: *lmap.get(&e.local).unwrap_or(&e.local) }),
            other => other }; sb.instr(it); }
    }
    build(&mut b, orig, orig.entry_block(), true, &mut idmap, &lmap);
    // now every sequence exists: retarget the branches
    let new_ids: Vec<ir::InstrSeqId> = idmap.values().cloned().collect();
    for id in new_ids { let mut sb = b.instr_seq(id); for (i, _) in sb.instrs_mut().iter_mut() { match i { ir::Instr::Br(x) => x.block = *idmap.get(&x.block)?, ir::Instr::BrIf(x) => x.block = *idmap.get(&x.block)?,
        ir::Instr::BrTable(x) => { let mut v = vec![]; for t in x.blocks.iter() { v.push(*idmap.get(t)?); } x.blocks = v.into(); x.default = *idmap.get(&x.default)?; } _ => {} } } }
    Some(b.finish(new_args, &mut m.funcs))
}

pub fn main(args: &[String]) {
    let out_dir = &args[0]; let seed: u64 = args[1].parse().unwrap(); let n_modules: usize = args[2].parse().unwrap(); let thorough = args.get(3).map(|s| s == "thorough").unwrap_or(false);
    let mut r = Rng::new(seed);
    let tab = sigs::build_table(Profile::Full, false, if thorough { 40 } else { 12 });
    let cfg = GenCfg { profile: Profile::Full, max_funcs: 4, max_depth: 4, seq_len: 7, names: true, customs: true, start: true, active_segments: true };
    let header = "From WV Require Import Gen.Ops Model.Common Model.IR Model.Traversal Run.BodyRun.\nOpen Scope N_scope.";
    let mut w = CaseWriter::new(out_dir, "body", header, "bcase", "check_body", 40);
    let feats = env::walrus_features(false);
    let mut viol: Vec<Json> = vec![]; let mut samples: Vec<String> = vec![];
    let (mut n_gen, mut n_invalid, mut n_funcs, mut n_ops_in, mut n_dead, mut n_blocks, mut maxdepth) = (0u64, 0u64, 0u64, 0u64, 0u64, 0u64, 0usize);
    let mut op_hist: BTreeMap<&'static str, u64> = BTreeMap::new();
    let mut distinct = std::collections::HashSet::new();
    while (n_gen as usize) < n_modules {
        n_gen += 1;
        let (wasm, info) = gen::module(&mut r, &tab, &cfg);
        if let Err(e) = amod::validate(&wasm, feats) { n_invalid += 1; if std::env::var("VH_DEBUG").is_ok() { eprintln!("invalid generated module: {}", e);
            if let Ok(a) = amod::decode(&wasm) { let off: usize = e.rsplit("0x").next().and_then(|h| usize::from_str_radix(h.trim_end_matches(')'), 16).ok()).unwrap_or(0);
                for b in &a.code { if b.range.0 <= off && off <= b.range.1 { let k = b.ops.iter().position(|o| o.1 >= off).unwrap_or(0); for o in &b.ops[k.saturating_sub(6)..(k + 2).min(b.ops.len())] { eprintln!("    {} {:?}", o.1, o.0); } } } } } continue; }
        for n in &info.op_names { *op_hist.entry(n).or_insert(0) += 1; }
        n_dead += info.dead_ops as u64; n_blocks += info.blocks as u64; maxdepth = maxdepth.max(info.max_depth_seen);
        let mut mcfg = ModuleConfig::new(); mcfg.generate_producers_section(false);
        let obs = match catch(|| observe(&wasm, &mut mcfg)) {
            None => { viol.push(Json::obj(vec![("class", Json::s("walrus-panics-on-valid-module")), ("props", Json::s("C02 C05")), ("what", Json::s("parse or emit panics on a module the reference validator accepts")), ("input", Json::s(crate::c03::hex(&wasm)))])); continue; }
            Some(Err(e)) => { viol.push(Json::obj(vec![("class", Json::s("walrus-rejects-valid-module")), ("props", Json::s("C05")), ("what", Json::s(format!("walrus rejects a module the reference validator accepts: {}", e))), ("input", Json::s(crate::c03::hex(&wasm)))])); continue; }
            Some(Ok(o)) => o,
        };
        if let Err(e) = amod::validate(&obs.out, feats) { viol.push(Json::obj(vec![("class", Json::s("output-invalid")), ("props", Json::s("C02 C03")), ("what", Json::s(format!("emitted module does not validate: {}", e))), ("input", Json::s(crate::c03::hex(&wasm)))])); }
        let n_imp = obs.ain.imports.iter().filter(|i| matches!(i.2, amod::AImportKind::Func(_))).count();
        // type arena by id
        let types: Vec<String> = obs.module.types.iter().map(|t| format!("({}, {}, {})", vt_list(t.params()), vt_list(t.results()), t.verif_is_for_function_entry())).collect();
        let mut obs = obs;
        let n_code = obs.ain.code.len();
        for k in 0..n_code {
            let body_in = obs.ain.code[k].clone();
            let fidx = n_imp + k; let fid_index = obs.pm.funcs[fidx];
            let fid = match obs.module.funcs.iter().find(|f| f.id().index() == fid_index) { Some(f) => f.id(), None => continue };
            if !matches!(obs.module.funcs.get(fid).kind, FunctionKind::Local(_)) { continue; }
            n_funcs += 1; n_ops_in += body_in.ops.len() as u64;
            let out_fidx = match obs.em.funcs.get(&fid_index) { Some(i) => *i as usize, None => { viol.push(Json::obj(vec![("class", Json::s("function-lost")), ("props", Json::s("C02 C04")), ("what", Json::s("a function has no emitted index")), ("input", Json::s(crate::c03::hex(&wasm)))])); continue; } };
            let body_out = match obs.aout.code.get(out_fidx - n_imp) { Some(b) => b.clone(), None => continue };
            // --- independent oracle: the output is the input with nop / dead code removed and `else` added
            //     (operator names; immediates and index renaming are compared in the Coq case and by the per-operator enumerator)
            let name_of = |s: &String| -> String { let t = s.trim_start_matches("WOp (").trim_start_matches("W_"); t.split(|c: char| c == ' ' || c == ')').next().unwrap_or("").to_string() };
            let nf = normal_form(&body_in.ops);
            let names_nf: Vec<String> = nf.iter().map(name_of).collect();
            let out_terms: Vec<String> = body_out.ops.iter().map(|o| o.0.clone().unwrap_or_else(|| format!("<{}>", o.2))).collect();
            let names_out: Vec<String> = out_terms.iter().map(name_of).collect();
            if names_nf != names_out {
                viol.push(Json::obj(vec![("class", Json::s("body-not-normal-form")), ("props", Json::s("C03 C01")), ("what", Json::s(format!("function {}: emitted operator sequence is not the input with nop/dead code removed and `else` added", fidx))),
                    ("input", Json::s(crate::c03::hex(&wasm))), ("expected", Json::s(names_nf.join(" "))), ("observed", Json::s(names_out.join(" ")))]));
            }
            // --- the Coq case
            let locals = obs.pm.locals.get(&fid_index).cloned().unwrap_or_default();
            let (log_ov, mlog_ov) = {
                let fix = |mut lg: Vec<String>, lf: &LocalFunction| { let ids = irdump::seq_ids(lf); irdump::fix_seq_type(&mut lg, lf, &ids); lg.into_iter().map(|e| if e == "EInstr" { "EInstr (IBr 0) 0".to_string() } else if e == "EHook" { "EHook (IBr 0)".to_string() } else { e }).collect::<Vec<_>>() };
                let a = { let lf = obs.module.funcs.get(fid).kind.unwrap_local(); let mut rec = crate::gen_ir_print::HookRec::default(); dfs_in_order(&mut rec, lf, lf.entry_block()); fix(rec.log, lf) };
                let b = { let lfm = obs.module.funcs.get_mut(fid).kind.unwrap_local_mut(); let entry = lfm.entry_block(); let mut rec = crate::gen_ir_print::HookRecMut::default(); dfs_pre_order_mut(&mut rec, lfm, entry); let lg = rec.log; let lf = obs.module.funcs.get(fid).kind.unwrap_local(); fix(lg, lf) };
                (a, b)
            };
            let (results, entry_ty_idx, ir, log, args) = {
                let lf = obs.module.funcs.get(fid).kind.unwrap_local();
                let ty = obs.module.types.get(lf.ty());
                let entry_ty_idx = match lf.block(lf.entry_block()).ty { InstrSeqType::MultiValue(t) => t.index(), _ => 0 };
                let ir = irdump::reachable(lf); let ids = irdump::seq_ids(lf);
                let mut rec = irdump::Rec::default(); dfs_in_order(&mut rec, lf, lf.entry_block()); irdump::fix_seq_type(&mut rec.log, lf, &ids);
                (vt_list(ty.results()), entry_ty_idx, ir, rec.log, lf.args.iter().map(|a| a.index()).collect::<Vec<_>>())
            };
            let mlog = {
                let lfm = obs.module.funcs.get_mut(fid).kind.unwrap_local_mut();
                let entry = lfm.entry_block();
                let mut rec = irdump::RecMut::default(); dfs_pre_order_mut(&mut rec, lfm, entry);
                let lf = obs.module.funcs.get(fid).kind.unwrap_local(); let ids = irdump::seq_ids(lf);
                irdump::fix_seq_type(&mut rec.log, lf, &ids); rec.log
            };
            // --- independent traversal oracle (C16): every instruction once, properly nested start/end, each entity operand once
            {
                let lf = obs.module.funcs.get(fid).kind.unwrap_local();
                let ids = irdump::seq_ids(lf);
                let n_instrs: usize = ids.values().map(|id| lf.block(*id).instrs.len()).sum();
                // entity operands according to the EMITTED binary: every u32 index immediate and every memarg's memory
                let expected_refs: usize = body_out.ops.iter().map(|o| { let a = crate::ops::op_args(o.2);
                    if matches!(o.2, "Block" | "Loop" | "If" | "Br" | "BrIf" | "BrTable") { 0 } else { a.iter().filter(|(_, t)| t == "u32" || t.ends_with("MemArg")).count() } }).sum();
                for (which, lg) in [("dfs_in_order", &log), ("dfs_pre_order_mut", &mlog), ("dfs_in_order (visitor overriding the per-instruction hooks)", &log_ov), ("dfs_pre_order_mut (visitor overriding the per-instruction hooks)", &mlog_ov)] {
                    let n_vis = lg.iter().filter(|e| e.starts_with("EInstr")).count();
                    let n_ref = lg.iter().filter(|e| e.starts_with("ERef")).count();
                    let starts: Vec<&String> = lg.iter().filter(|e| e.starts_with("EStart")).collect();
                    let mut stack: Vec<String> = vec![]; let mut nest_ok = true;
                    for e in lg.iter() { if let Some(s) = e.strip_prefix("EStart ") { stack.push(s.to_string()); } else if let Some(s) = e.strip_prefix("EEnd ") { if stack.pop().as_deref() != Some(s) { nest_ok = false; } } }
                    if !stack.is_empty() { nest_ok = false; }
                    let mut bad: Vec<String> = vec![];
                    if n_vis != n_instrs { bad.push(format!("{} instructions visited, {} reachable", n_vis, n_instrs)); }
                    if starts.len() != ids.len() { bad.push(format!("{} sequences started, {} reachable", starts.len(), ids.len())); }
                    if !nest_ok { bad.push("start/end events not properly nested".into()); }
                    if n_ref != expected_refs { bad.push(format!("{} entity-operand callbacks for {} entity operands", n_ref, expected_refs)); }
                    // the block type of every multi-value sequence is an entity operand of that sequence: reported once per such sequence
                    let n_mv = ids.values().filter(|id| matches!(lf.block(**id).ty, InstrSeqType::MultiValue(_))).count();
                    let n_st = lg.iter().filter(|e| e.starts_with("ESeqType")).count();
                    if n_st != n_mv { bad.push(format!("{} sequence-type callbacks for {} sequences with a function type", n_st, n_mv)); }
                    // instruction-sequence operands: the bodies of block / loop / if-else, once each (branch targets are marked skip_visit in the IR: they are not operands to report)
                    let n_seq_operands: usize = ids.values().map(|id| lf.block(*id).instrs.iter().map(|(i, _)| match i { ir::Instr::Block(_) | ir::Instr::Loop(_) => 1, ir::Instr::IfElse(_) => 2, _ => 0 }).sum::<usize>()).sum();
                    let n_sr = lg.iter().filter(|e| e.starts_with("ESeqRef")).count();
                    if n_sr != n_seq_operands { bad.push(format!("{} instruction-sequence operand callbacks for {} such operands", n_sr, n_seq_operands)); }
                    if !bad.is_empty() {
                        let class = if n_ref != expected_refs && bad.len() == 1 { format!("{}:entity-operands-not-visited-exactly-once", which) } else { format!("{}:traversal-broken", which) };
                        viol.push(Json::obj(vec![("class", Json::s(class)), ("props", Json::s("C16")), ("what", Json::s(format!("{} on function {}: {}", which, fidx, bad.join("; ")))),
                            ("input", Json::s(crate::c03::hex(&wasm))), ("observed", Json::s(lg.iter().take(40).cloned().collect::<Vec<_>>().join("; ")))]));
                    }
                }
            }
            let i2id = format!("[(S_func, {}); (S_type, {}); (S_table, {}); (S_memory, {}); (S_global, {}); (S_data, {}); (S_elem, {}); (S_local, {})]",
                nlist(&obs.pm.funcs), nlist(&obs.pm.types), nlist(&obs.pm.tables), nlist(&obs.pm.memories), nlist(&obs.pm.globals), nlist(&obs.pm.data), nlist(&obs.pm.elements), nlist(&locals));
            let ops_in: Vec<String> = body_in.ops.iter().map(|(c, pos, n)| format!("({}, {})", c.clone().unwrap_or_else(|| format!("UNPRINTABLE_{}", n)), pos)).collect();
            let id2i = format!("[(S_func, {}); (S_type, {}); (S_table, {}); (S_memory, {}); (S_global, {}); (S_data, {}); (S_elem, {})]",
                assoc(&obs.em.funcs), assoc(&obs.em.types), assoc(&obs.em.tables), assoc(&obs.em.memories), assoc(&obs.em.globals), assoc(&obs.em.data), assoc(&obs.em.elements));
            let local_tys: Vec<String> = locals.iter().map(|l| { let loc = obs.module.locals.iter().find(|x| x.id().index() == *l).unwrap(); format!("({}, {})", l, crate::gen_ir_print::valty(&loc.ty())) }).collect();
            let out_locals: Vec<String> = body_out.locals.iter().map(|(c, t)| format!("({}, {})", c, wp_vt(t))).collect();
            let line = format!("Build_bcase {} [{}] {} {} [{}] [{}] [{}] [{}] [{}] [{}] {} {} [{}] [{}] [{}]", i2id, types.join("; "), entry_ty_idx, results, ops_in.join("; "),
                ir.iter().map(|(k, v)| format!("({}, {})", k, v)).collect::<Vec<_>>().join("; "), log.join("; "), mlog.join("; "), log_ov.join("; "), mlog_ov.join("; "), id2i, nlist(&args), local_tys.join("; "), out_locals.join("; "), out_terms.join("; "));
            let sig = format!("{:?}", body_in.ops.iter().map(|o| o.0.clone()).collect::<Vec<_>>());
            if distinct.insert(sig) { w.push(&line); if samples.len() < 2 && body_in.ops.len() > 6 && body_in.ops.len() < 16 { samples.push(ops_in.join("; ")); } }
        }
        // --- the same functions rebuilt bottom-up through the builder API (C16 / C15)
        { let fids: Vec<walrus::FunctionId> = obs.module.funcs.iter_local().map(|(id, _)| id).collect();
          for fid in fids { let mut cut_mismatch: Option<(usize, usize)> = None; let r = catch(std::panic::AssertUnwindSafe(|| -> Option<(Vec<String>, Vec<String>, usize, usize, bool)> { let m = &mut obs.module;
                let twin = bottom_up_twin(m, fid)?;
                let shape = |m: &Module, f: walrus::FunctionId| { let lf = m.funcs.get(f).kind.unwrap_local(); let mut rec = ShapeRec::default(); dfs_in_order(&mut rec, lf, lf.entry_block()); rec.log };
                let (a, b2) = (shape(m, fid), shape(m, twin));
                let count = |m: &mut Module, f: walrus::FunctionId| { let lf = m.funcs.get_mut(f).kind.unwrap_local_mut(); let e = lf.entry_block(); let mut c = CountMut::default(); dfs_pre_order_mut(&mut c, lf, e); c.n };
                let (ca, cb) = (count(m, fid), count(m, twin));
                let nested = { let lf = m.funcs.get(twin).kind.unwrap_local(); irdump::seq_ids(lf).len() > 2 };
                // the mutating visitor on the twin: what it visits is what is reachable in the tree AS MUTATED (callbacks run before the descent)
                { let visited = { let lf = m.funcs.get_mut(twin).kind.unwrap_local_mut(); let e = lf.entry_block(); let mut c = CutBlocks::default(); dfs_pre_order_mut(&mut c, lf, e); c.n };
                  let reachable = { let lf = m.funcs.get(twin).kind.unwrap_local(); let mut rec = ShapeRec::default(); dfs_in_order(&mut rec, lf, lf.entry_block()); rec.log.iter().filter(|e| *e != "S" && *e != "E").count() };
                  if visited != reachable { cut_mismatch = Some((visited, reachable)); } }
                m.funcs.delete(twin); Some((a, b2, ca, cb, nested)) }));
              if let Some((vz, rc)) = cut_mismatch { viol.push(Json::obj(vec![("class", Json::s("dfs_pre_order_mut:visits-sequences-the-visitor-cut-off")), ("props", Json::s("C16")), ("what", Json::s(format!("function id {}: a VisitorMut replaces every block by unreachable in visit_instr_mut; dfs_pre_order_mut then visits {} instructions, {} are reachable in the tree it leaves behind", fid.index(), vz, rc))), ("input", Json::s(crate::c03::hex(&wasm)))])); }
              match r { Some(Some((a, b2, ca, cb, _))) => { if a != b2 { viol.push(Json::obj(vec![("class", Json::s("dfs_in_order:traversal-differs-on-bottom-up-built-tree")), ("props", Json::s("C16 C15")), ("what", Json::s(format!("function id {}: rebuilt bottom-up through the builder API (nested sequences created before their parents) dfs_in_order reports {} events, on the parsed original {}", fid.index(), b2.len(), a.len()))), ("input", Json::s(crate::c03::hex(&wasm))), ("observed", Json::s(b2.join(" "))), ("expected", Json::s(a.join(" ")))])); }
                      if ca != cb { viol.push(Json::obj(vec![("class", Json::s("dfs_pre_order_mut:traversal-differs-on-bottom-up-built-tree")), ("props", Json::s("C16 C15")), ("what", Json::s(format!("function id {}: rebuilt bottom-up dfs_pre_order_mut visits {} instructions, on the parsed original {}", fid.index(), cb, ca))), ("input", Json::s(crate::c03::hex(&wasm)))])); } }
                  Some(None) => {},
                  None => viol.push(Json::obj(vec![("class", Json::s("builder-panics-bottom-up")), ("props", Json::s("C15 C16")), ("what", Json::s(format!("function id {}: rebuilding it bottom-up through the builder API or traversing the result panics", fid.index()))), ("input", Json::s(crate::c03::hex(&wasm)))])) } } }
    }
    w.finish();
    let mut top: Vec<(&&str, &u64)> = op_hist.iter().collect(); top.sort_by(|a, b| b.1.cmp(a.1));
    let meta = Json::obj(vec![
        ("modules_generated", Json::n(n_gen as f64)), ("modules_invalid_discarded", Json::n(n_invalid as f64)), ("functions", Json::n(n_funcs as f64)), ("cases", Json::u(w.total)),
        ("input_operators", Json::n(n_ops_in as f64)), ("dead_operators_generated", Json::n(n_dead as f64)), ("nested_constructs", Json::n(n_blocks as f64)), ("max_nesting_depth", Json::u(maxdepth)),
        ("distinct_operator_names_used", Json::u(op_hist.len())), ("op_table_instances", Json::u(tab.insts.len())),
        ("top_operators", Json::Arr(top.iter().take(12).map(|(k, v)| Json::s(format!("{}:{}", k, v))).collect())),
        ("samples", Json::Arr(samples.into_iter().map(Json::Str).collect())), ("oracle_violations", Json::Arr(viol)),
    ]);
    std::fs::write(format!("{}/meta.json", out_dir), meta.to_string()).unwrap();
}
