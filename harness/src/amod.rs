//! wasmparser-only decoder: bytes -> abstract module. Never touches walrus.
//! Everything is kept both structurally and as canonical strings so that
//! comparisons and Coq printing are straightforward.
use crate::ops;
use wasmparser::{Parser, Payload, ValType, Operator};

#[derive(Clone, Debug, PartialEq, Default)]
pub struct ABody {
    pub locals: Vec<(u32, ValType)>,
    /// (Coq term of `wins`, absolute offset in the module, operator name); None term = operator outside the modelled universe
    pub ops: Vec<(Option<String>, usize, &'static str)>,
    pub range: (usize, usize),       // body range (after the size LEB) in the module
    pub entry_start: usize,          // offset of the size LEB
}
#[derive(Clone, Debug, PartialEq)]
pub enum AImportKind { Func(u32), Table(ATable), Mem(AMem), Global(AGlobal), Tag }
#[derive(Clone, Debug, PartialEq)]
pub struct ATable { pub elem: String, pub table64: bool, pub initial: u64, pub maximum: Option<u64>, pub shared: bool, pub init: Option<Vec<String>> }
#[derive(Clone, Debug, PartialEq)]
pub struct AMem { pub memory64: bool, pub shared: bool, pub initial: u64, pub maximum: Option<u64>, pub page_size_log2: Option<u32> }
#[derive(Clone, Debug, PartialEq)]
pub struct AGlobal { pub ty: ValType, pub mutable: bool, pub shared: bool, pub init: Option<Vec<String>> }
#[derive(Clone, Debug, PartialEq)]
pub enum AElemKind { Passive, Declared, Active { table: Option<u32>, offset: Vec<String> } }
#[derive(Clone, Debug, PartialEq)]
pub enum AElemItems { Funcs(Vec<u32>), Exprs(String, Vec<Vec<String>>) }
#[derive(Clone, Debug, PartialEq)]
pub struct AElem { pub kind: AElemKind, pub items: AElemItems }
#[derive(Clone, Debug, PartialEq)]
pub enum ADataKind { Passive, Active { memory: u32, offset: Vec<String> } }
#[derive(Clone, Debug, PartialEq)]
pub struct AData { pub kind: ADataKind, pub bytes: Vec<u8> }

#[derive(Clone, Debug, Default, PartialEq)]
pub struct AMod {
    pub types: Vec<(Vec<ValType>, Vec<ValType>)>,
    pub imports: Vec<(String, String, AImportKind)>,
    pub funcs: Vec<u32>,
    pub tables: Vec<ATable>,
    pub mems: Vec<AMem>,
    pub globals: Vec<AGlobal>,
    pub exports: Vec<(String, u8, u32)>,
    pub start: Option<u32>,
    pub elems: Vec<AElem>,
    pub data_count: Option<u32>,
    pub data: Vec<AData>,
    pub code: Vec<ABody>,
    pub customs: Vec<(String, Vec<u8>, usize)>,
    pub sections: Vec<String>,
    pub elem_flags: Vec<u32>,   // the flag byte each element segment is encoded with
    pub code_section: Option<(usize, usize)>,   // range of the code section contents (starting at the count LEB)
}

pub fn const_expr(e: &wasmparser::ConstExpr) -> Vec<String> {
    let mut v = vec![];
    for op in e.get_operators_reader() { match op { Ok(Operator::End) => {} Ok(o) => v.push(ops::plain_coq(&o).unwrap_or_else(|| format!("{:?}", o))), Err(e) => v.push(format!("ERR {}", e)) } }
    v
}
fn reft(r: wasmparser::RefType) -> String { if r == wasmparser::RefType::FUNCREF { "funcref".into() } else if r == wasmparser::RefType::EXTERNREF { "externref".into() } else { format!("{:?}", r) } }
fn tab(t: &wasmparser::TableType, init: Option<Vec<String>>) -> ATable { ATable { elem: reft(t.element_type), table64: t.table64, initial: t.initial, maximum: t.maximum, shared: t.shared, init } }
fn mem(m: &wasmparser::MemoryType) -> AMem { AMem { memory64: m.memory64, shared: m.shared, initial: m.initial, maximum: m.maximum, page_size_log2: m.page_size_log2 } }

pub fn decode(bytes: &[u8]) -> Result<AMod, String> {
    let mut m = AMod::default();
    for p in Parser::new(0).parse_all(bytes) {
        let p = p.map_err(|e| e.to_string())?;
        match p {
            Payload::Version { .. } => {}
            Payload::TypeSection(s) => { m.sections.push("type".into()); for t in s.into_iter_err_on_gc_types() { let t = t.map_err(|e| e.to_string())?; m.types.push((t.params().to_vec(), t.results().to_vec())); } }
            Payload::ImportSection(s) => { m.sections.push("import".into()); for i in s { let i = i.map_err(|e| e.to_string())?;
                let k = match i.ty { wasmparser::TypeRef::Func(t) => AImportKind::Func(t), wasmparser::TypeRef::Table(t) => AImportKind::Table(tab(&t, None)), wasmparser::TypeRef::Memory(t) => AImportKind::Mem(mem(&t)),
                    wasmparser::TypeRef::Global(g) => AImportKind::Global(AGlobal { ty: g.content_type, mutable: g.mutable, shared: g.shared, init: None }), wasmparser::TypeRef::Tag(_) => AImportKind::Tag };
                m.imports.push((i.module.to_string(), i.name.to_string(), k)); } }
            Payload::FunctionSection(s) => { m.sections.push("function".into()); for f in s { m.funcs.push(f.map_err(|e| e.to_string())?); } }
            Payload::TableSection(s) => { m.sections.push("table".into()); for t in s { let t = t.map_err(|e| e.to_string())?;
                let init = match &t.init { wasmparser::TableInit::RefNull => None, wasmparser::TableInit::Expr(e) => Some(const_expr(e)) }; m.tables.push(tab(&t.ty, init)); } }
            Payload::MemorySection(s) => { m.sections.push("memory".into()); for x in s { m.mems.push(mem(&x.map_err(|e| e.to_string())?)); } }
            Payload::GlobalSection(s) => { m.sections.push("global".into()); for g in s { let g = g.map_err(|e| e.to_string())?;
                m.globals.push(AGlobal { ty: g.ty.content_type, mutable: g.ty.mutable, shared: g.ty.shared, init: Some(const_expr(&g.init_expr)) }); } }
            Payload::ExportSection(s) => { m.sections.push("export".into()); for e in s { let e = e.map_err(|e| e.to_string())?;
                let k = match e.kind { wasmparser::ExternalKind::Func => 0, wasmparser::ExternalKind::Table => 1, wasmparser::ExternalKind::Memory => 2, wasmparser::ExternalKind::Global => 3, wasmparser::ExternalKind::Tag => 4 };
                m.exports.push((e.name.to_string(), k, e.index)); } }
            Payload::StartSection { func, .. } => { m.sections.push("start".into()); m.start = Some(func); }
            Payload::ElementSection(s) => { m.sections.push("element".into()); for e in s { let e = e.map_err(|e| e.to_string())?;
                let kind = match e.kind { wasmparser::ElementKind::Passive => AElemKind::Passive, wasmparser::ElementKind::Declared => AElemKind::Declared,
                    wasmparser::ElementKind::Active { table_index, offset_expr } => AElemKind::Active { table: table_index, offset: const_expr(&offset_expr) } };
                let items = match e.items { wasmparser::ElementItems::Functions(f) => AElemItems::Funcs(f.into_iter().collect::<Result<Vec<_>, _>>().map_err(|e| e.to_string())?),
                    wasmparser::ElementItems::Expressions(rt, es) => { let mut v = vec![]; for x in es { v.push(const_expr(&x.map_err(|e| e.to_string())?)); } AElemItems::Exprs(reft(rt), v) } };
                m.elem_flags.push(bytes.get(e.range.start).copied().unwrap_or(255) as u32); m.elems.push(AElem { kind, items }); } }
            Payload::DataCountSection { count, .. } => { m.sections.push("datacount".into()); m.data_count = Some(count); }
            Payload::DataSection(s) => { m.sections.push("data".into()); for d in s { let d = d.map_err(|e| e.to_string())?;
                let kind = match d.kind { wasmparser::DataKind::Passive => ADataKind::Passive, wasmparser::DataKind::Active { memory_index, offset_expr } => ADataKind::Active { memory: memory_index, offset: const_expr(&offset_expr) } };
                m.data.push(AData { kind, bytes: d.data.to_vec() }); } }
            Payload::CodeSectionStart { range, .. } => { m.sections.push("code".into()); m.code_section = Some((range.start, range.end)); }
            Payload::CodeSectionEntry(body) => {
                let mut b = ABody::default();
                let r = body.range(); b.range = (r.start, r.end);
                // the size LEB precedes the body: recompute its length
                let size = r.end - r.start; let mut n = 1; let mut s = size >> 7; while s > 0 { n += 1; s >>= 7; }
                b.entry_start = r.start - n;
                for l in body.get_locals_reader().map_err(|e| e.to_string())? { let (c, t) = l.map_err(|e| e.to_string())?; b.locals.push((c, t)); }
                let mut rd = body.get_operators_reader().map_err(|e| e.to_string())?;
                while !rd.eof() { let pos = rd.original_position(); let op = rd.read().map_err(|e| e.to_string())?; b.ops.push((ops::ins_coq(&op), pos, ops::op_name(&op))); }
                m.code.push(b);
            }
            Payload::CustomSection(c) => { m.sections.push(format!("custom:{}", c.name())); m.customs.push((c.name().to_string(), c.data().to_vec(), c.data_offset())); }
            Payload::End(_) => {}
            other => { m.sections.push(format!("other:{:?}", other).chars().take(40).collect()); }
        }
    }
    Ok(m)
}

pub fn validate(bytes: &[u8], features: wasmparser::WasmFeatures) -> Result<(), String> {
    wasmparser::Validator::new_with_features(features).validate_all(bytes).map(|_| ()).map_err(|e| e.to_string())
}
