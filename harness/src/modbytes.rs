//! The whole module as bytes (Model/ModBytes.v) against wasmparser's reader (through src/wmodcoq.rs) and the bytes walrus / wasm-encoder write:
//!  * `vh modbytes <outdir> <seed> <n>` : per input module that validates (and is small enough) one case for the input's bytes (flag false) and
//!    one for walrus's output of it (flag true): `(flag, bytes, wmod-with-positions)`; checked by Run/ModBytesRun.v `check_modbytes`;
//!  * `vh modbytes-example` : the bytes of the "one of everything" module of Proofs/ModBytes.v, written by wasm-encoder.
use crate::modrun::fixtures;
use crate::rng::Rng;
use crate::util::{catch, CaseWriter, Json};
use wasm_encoder as we;
use we::Instruction as I;

fn list(b: &[u8]) -> String { format!("[{}]", b.iter().map(|x| x.to_string()).collect::<Vec<_>>().join(";")) }
fn leb(mut n: u32) -> Vec<u8> { let mut v = vec![]; loop { let b = (n & 127) as u8; n >>= 7; if n == 0 { v.push(b); break; } v.push(b | 128); } v }
fn raw_section(id: u8, payload: &[u8]) -> Vec<u8> { let mut v = vec![id]; v.extend(leb(payload.len() as u32)); v.extend_from_slice(payload); v }
fn custom(name: &str, data: &[u8]) -> Vec<u8> { let mut p = leb(name.len() as u32); p.extend_from_slice(name.as_bytes()); p.extend_from_slice(data); raw_section(0, &p) }
fn func_ref() -> we::HeapType { we::HeapType::Abstract { shared: false, ty: we::AbstractHeapType::Func } }
fn extern_ref() -> we::HeapType { we::HeapType::Abstract { shared: false, ty: we::AbstractHeapType::Extern } }

/// one of everything (the non-vacuity example of Proofs/ModBytes.v)
pub fn everything_module() -> Vec<u8> {
    let mut m = we::Module::new();
    let mut t = we::TypeSection::new(); t.function([], []); t.function([we::ValType::I32, we::ValType::I64], [we::ValType::F64]); m.section(&t);
    let mut im = we::ImportSection::new();
    im.import("env", "f", we::EntityType::Function(1));
    im.import("env", "t", we::EntityType::Table(we::TableType { element_type: we::RefType::FUNCREF, table64: false, minimum: 1, maximum: Some(300), shared: false }));
    im.import("env", "m", we::EntityType::Memory(we::MemoryType { minimum: 1, maximum: None, memory64: false, shared: false, page_size_log2: None }));
    im.import("env", "g", we::EntityType::Global(we::GlobalType { val_type: we::ValType::I32, mutable: false, shared: false }));
    m.section(&im);
    let mut f = we::FunctionSection::new(); f.function(0); f.function(1); m.section(&f);
    let mut tb = we::TableSection::new(); tb.table(we::TableType { element_type: we::RefType::EXTERNREF, table64: false, minimum: 4, maximum: None, shared: false }); m.section(&tb);
    let mut ms = we::MemorySection::new(); ms.memory(we::MemoryType { minimum: 2, maximum: Some(70000), memory64: true, shared: false, page_size_log2: None }); m.section(&ms);
    let mut gs = we::GlobalSection::new(); gs.global(we::GlobalType { val_type: we::ValType::I32, mutable: true, shared: false }, &we::ConstExpr::global_get(0));
    gs.global(we::GlobalType { val_type: we::ValType::F32, mutable: false, shared: false }, &we::ConstExpr::f32_const(1.5)); m.section(&gs);
    let mut e = we::ExportSection::new(); e.export("run", we::ExportKind::Func, 1); e.export("mem", we::ExportKind::Memory, 1); e.export("tab", we::ExportKind::Table, 1); e.export("glob", we::ExportKind::Global, 1); m.section(&e);
    m.section(&we::StartSection { function_index: 1 });
    let mut el = we::ElementSection::new();
    el.active(None, &we::ConstExpr::i32_const(0), we::Elements::Functions(&[0, 1]));
    el.passive(we::Elements::Expressions(we::RefType::FUNCREF, &[we::ConstExpr::ref_func(2), we::ConstExpr::ref_null(func_ref())]));
    el.active(Some(1), &we::ConstExpr::i32_const(0), we::Elements::Expressions(we::RefType::EXTERNREF, &[we::ConstExpr::ref_null(extern_ref())]));
    el.declared(we::Elements::Functions(&[2]));
    m.section(&el);
    m.section(&we::DataCountSection { count: 2 });
    let mut c = we::CodeSection::new();
    let mut f1 = we::Function::new([]); f1.instruction(&I::Nop); f1.instruction(&I::End); c.function(&f1);
    let mut f2 = we::Function::new([(2u32, we::ValType::I32), (1, we::ValType::F64)]);
    for i in [I::Block(we::BlockType::Empty), I::I32Const(-200), I::LocalSet(2), I::I32Const(0), I::I32Const(3), I::I32Const(0), I::MemoryInit { mem: 0, data_index: 0 }, I::End, I::LocalGet(4), I::End] { f2.instruction(&i); }
    c.function(&f2); m.section(&c);
    let mut d = we::DataSection::new(); d.passive([1u8, 2, 3]); d.active(1, &we::ConstExpr::i64_const(8), [255u8, 0]); m.section(&d);
    m.section(&we::CustomSection { name: "hello".into(), data: (&[1u8, 2, 3, 200][..]).into() });
    let mut ns = we::NameSection::new(); ns.module("mod");
    let mut fm = we::NameMap::new(); fm.append(1, "one"); fm.append(2, "two"); ns.functions(&fm);
    let mut lm = we::NameMap::new(); lm.append(0, "a"); lm.append(2, "x"); let mut il = we::IndirectNameMap::new(); il.append(2, &lm); ns.locals(&il);
    let mut gm = we::NameMap::new(); gm.append(1, "counter"); ns.globals(&gm);
    m.section(&ns);
    let mut ps = we::ProducersSection::new(); let mut pf = we::ProducersField::new(); pf.value("walrus", "0.21"); pf.value("x", ""); ps.field("processed-by", &pf);
    let mut pl = we::ProducersField::new(); pl.value("Rust", "1.80"); ps.field("language", &pl); m.section(&ps);
    m.finish()
}

/// hand-written inputs for the forms wasm-encoder / the generators never produce: padded LEB128 inside sections, every element / data
/// flag form, name subsections that are skipped / repeated / damaged, producers sections wasmparser refuses
fn variants() -> Vec<(String, Vec<u8>)> {
    let hdr = || b"\0asm\x01\0\0\0".to_vec();
    let mut out = vec![("everything".to_string(), everything_module())];
    // all eight element forms + data forms 0 1 2, two tables, two memories, padded counts and indices
    { let mut w = hdr();
      w.extend(raw_section(1, &[0x81, 0x00, 0x60, 0x80, 0x00, 0x00]));                               // one type () -> (), padded counts
      w.extend(raw_section(3, &[0x02, 0x80, 0x00, 0x00]));                                           // two functions, first index padded
      w.extend(raw_section(4, &[0x02, 0x70, 0x01, 0x84, 0x00, 0x08, 0x6f, 0x00, 0x02]));             // funcref min 4 (padded) max 8; externref min 2
      w.extend(raw_section(5, &[0x02, 0x00, 0x01, 0x03, 0x01, 0x82, 0x00]));                         // memory 1; shared memory 1..2 (padded max)
      w.extend(raw_section(6, &[0x01, 0x7f, 0x00, 0x41, 0x05, 0x0b]));                               // const global i32 5
      w.extend(raw_section(9, &[0x08,
          0x00, 0x41, 0x00, 0x0b, 0x01, 0x00,                                                         // 0: active table 0, funcs [0]
          0x01, 0x00, 0x02, 0x00, 0x81, 0x00,                                                         // 1: passive funcs [0;1], index padded
          0x02, 0x00, 0x41, 0x01, 0x0b, 0x00, 0x01, 0x01,                                             // 2: active table 0 explicit, funcs [1]
          0x03, 0x00, 0x00,                                                                           // 3: declared funcs []
          0x04, 0x41, 0x02, 0x0b, 0x01, 0xd2, 0x00, 0x0b,                                             // 4: active exprs funcref [ref.func 0]
          0x05, 0x6f, 0x01, 0xd0, 0x6f, 0x0b,                                                         // 5: passive externref [ref.null extern]
          0x06, 0x01, 0x41, 0x00, 0x0b, 0x6f, 0x01, 0xd0, 0x6f, 0x0b,                                 // 6: active table 1 externref [ref.null extern]
          0x87, 0x00, 0x70, 0x02, 0xd2, 0x01, 0x0b, 0xd0, 0x70, 0x0b]));                              // 7 (flag padded): declared funcref [ref.func 1; ref.null func]
      w.extend(raw_section(12, &[0x83, 0x00]));                                                       // data count 3, padded
      w.extend(raw_section(10, &[0x02, 0x02, 0x00, 0x0b, 0x83, 0x00, 0x00, 0x01, 0x0b]));             // two bodies, second size padded: nop end
      w.extend(raw_section(11, &[0x03, 0x00, 0x41, 0x00, 0x0b, 0x02, 0xaa, 0xbb, 0x01, 0x00, 0x02, 0x01, 0x41, 0x80, 0x00, 0x0b, 0x81, 0x00, 0x07]));
      out.push(("forms".into(), w)); }
    // a constant expression with two operators (extended-const shape is not valid here: use a global initialised by a v128 and by global.get of an import)
    { let mut m = we::Module::new();
      let mut im = we::ImportSection::new(); im.import("", "", we::EntityType::Global(we::GlobalType { val_type: we::ValType::I64, mutable: false, shared: false }));
      im.import("a\u{e9}\u{20ac}\u{1f600}", "\u{7ff}\u{800}\u{ffff}\u{10000}\u{10ffff}", we::EntityType::Memory(we::MemoryType { minimum: 0, maximum: Some(65536), memory64: false, shared: true, page_size_log2: None })); m.section(&im);
      let mut gs = we::GlobalSection::new(); gs.global(we::GlobalType { val_type: we::ValType::V128, mutable: true, shared: false }, &we::ConstExpr::v128_const(-2));
      gs.global(we::GlobalType { val_type: we::ValType::I64, mutable: false, shared: false }, &we::ConstExpr::global_get(0));
      gs.global(we::GlobalType { val_type: we::ValType::F64, mutable: false, shared: false }, &we::ConstExpr::f64_const(-0.0));
      gs.global(we::GlobalType { val_type: we::ValType::I64, mutable: false, shared: false }, &we::ConstExpr::i64_const(i64::MIN));
      gs.global(we::GlobalType { val_type: we::ValType::Ref(we::RefType::EXTERNREF), mutable: false, shared: false }, &we::ConstExpr::ref_null(extern_ref())); m.section(&gs);
      out.push(("consts".into(), m.finish())); }
    // name sections
    let base = || { let mut m = we::Module::new(); let mut t = we::TypeSection::new(); t.function([we::ValType::I32], []); m.section(&t);
        let mut f = we::FunctionSection::new(); f.function(0); m.section(&f);
        let mut c = we::CodeSection::new(); let mut f1 = we::Function::new([(1u32, we::ValType::I32)]); f1.instruction(&I::End); c.function(&f1); m.section(&c); m.finish() };
    let nm = |subs: &[(u8, Vec<u8>)]| { let mut d = vec![]; for (id, c) in subs { d.push(*id); d.extend(leb(c.len() as u32)); d.extend_from_slice(c); } d };
    let cases: Vec<(&str, Vec<u8>)> = vec![
        ("names-all", nm(&[(0, vec![1, b'm']), (1, vec![1, 0, 1, b'f']), (2, vec![1, 0, 2, 0, 1, b'p', 1, 0]), (3, vec![1, 0, 1, 0, 1, b'l']), (4, vec![1, 0, 1, b't']), (5, vec![0]), (6, vec![0]), (7, vec![0]), (8, vec![0]), (9, vec![0]), (10, vec![0]), (11, vec![0])])),
        ("names-unknown-sub", nm(&[(1, vec![1, 0, 1, b'f']), (12, vec![9, 9, 9]), (100, vec![])])),
        ("names-repeated", nm(&[(1, vec![1, 0, 1, b'f']), (0, vec![1, b'a']), (1, vec![1, 0, 1, b'g']), (0, vec![1, b'b'])])),
        ("names-out-of-order", nm(&[(9, vec![0]), (2, vec![0]), (1, vec![2, 5, 0, 0, 1, b'z'])])),
        ("names-label-garbage", nm(&[(3, vec![1, 0xff, 0xff]), (1, vec![1, 0, 1, b'f'])])),
        ("names-label-empty", nm(&[(3, vec![]), (1, vec![1, 0, 1, b'f'])])),
        ("names-label-bad-count", nm(&[(10, vec![0x80])])),
        ("names-id-128", nm(&[(128, vec![0])])),
        ("names-trailing-in-map", nm(&[(1, vec![1, 0, 1, b'f', 0])])),
        ("names-trailing-in-module", nm(&[(0, vec![1, b'm', 0])])),
        ("names-truncated-sub", vec![1, 10, 1, 0, 1, b'f']),
        ("names-truncated-name", nm(&[(1, vec![1, 0, 5, b'f'])])),
        ("names-bad-utf8", nm(&[(1, vec![1, 0, 2, 0xc0, 0x80])])),
        ("names-bad-utf8-surrogate", nm(&[(1, vec![1, 0, 3, 0xed, 0xa0, 0x80])])),
        ("names-utf8-4", nm(&[(1, vec![1, 0, 4, 0xf4, 0x8f, 0xbf, 0xbf])])),
        ("names-bad-utf8-f4", nm(&[(1, vec![1, 0, 4, 0xf4, 0x90, 0x80, 0x80])])),
        ("names-bad-local-inner", nm(&[(2, vec![1, 0, 1, 0, 1])])),
        ("names-padded", nm(&[(1, vec![0x81, 0x00, 0x80, 0x00, 0x81, 0x00, b'f'])])),
        ("names-empty", vec![]),
        ("names-count-too-large", nm(&[(1, vec![5, 0, 1, b'f'])])),
    ];
    for (n, d) in cases { let mut w = base(); w.extend(custom("name", &d)); out.push((n.to_string(), w)); }
    let pr = |fields: &[(&str, Vec<(&str, &str)>)]| { let mut d = leb(fields.len() as u32); for (n, vs) in fields { d.extend(leb(n.len() as u32)); d.extend_from_slice(n.as_bytes()); d.extend(leb(vs.len() as u32)); for (a, b) in vs { d.extend(leb(a.len() as u32)); d.extend_from_slice(a.as_bytes()); d.extend(leb(b.len() as u32)); d.extend_from_slice(b.as_bytes()); } } d };
    let pcases: Vec<(&str, Vec<u8>)> = vec![
        ("producers-ok", pr(&[("language", vec![("C", "11")]), ("sdk", vec![]), ("processed-by", vec![("a", "1"), ("b", "2")])])),
        ("producers-bad-field", pr(&[("tool", vec![("C", "11")])])),
        ("producers-repeated-field", pr(&[("language", vec![("C", "11")]), ("language", vec![("D", "")])])),
        ("producers-trailing", { let mut d = pr(&[("sdk", vec![("x", "y")])]); d.push(0); d }),
        ("producers-empty-payload", vec![]),
        ("producers-zero", vec![0]),
        ("producers-truncated", vec![1, 3, b's', b'd', b'k', 2, 1, b'a']),
        ("producers-padded", vec![0x81, 0x00, 0x83, 0x00, b's', b'd', b'k', 0x80, 0x00]),
    ];
    for (n, d) in pcases { let mut w = base(); w.extend(custom("producers", &d)); out.push((n.to_string(), w)); }
    // custom sections: raw, .debug*, a name with a padded length, two in a row, one between known sections
    { let mut w = hdr(); w.extend(custom("x", &[])); w.extend(raw_section(1, &[0x00])); w.extend(custom(".debug_info", &[1, 2, 3])); w.extend(raw_section(0, &[0x82, 0x00, b'h', b'i', 9, 9])); w.extend(custom(".debu", &[7])); w.extend(custom("names", &[1])); out.push(("customs".into(), w)); }
    out
}

pub fn example_main() { let b = everything_module(); if let Err(e) = crate::amod::validate(&b, crate::env::walrus_features(false)) { eprintln!("INVALID: {}", e); } println!("{}", list(&b)); println!("{}", crate::wmodcoq::wmod(&b, true).unwrap()); println!("{}", crate::wmodcoq::wmod(&b, false).unwrap()); }

pub fn main(args: &[String]) {
    let out_dir = &args[0]; let seed: u64 = args[1].parse().unwrap(); let n_gen: usize = args[2].parse().unwrap();
    let mut r = Rng::new(seed ^ 0x40DB17E5);
    let header = "From WV Require Import Gen.Ops Model.IR Model.ModuleM Model.ModBytes Run.ModBytesRun.\nOpen Scope N_scope.";
    let mut w = CaseWriter::new(out_dir, "modbytes", header, "(bool * list N * wmod)", "check_modbytes", 8);
    let mut inputs: Vec<(String, Vec<u8>)> = vec![];
    if let Ok(rd) = std::fs::read_dir("/verif/corpus/mod") { let mut ps: Vec<_> = rd.filter_map(|e| e.ok()).map(|e| e.path()).collect(); ps.sort();
        for p in ps { let nm = format!("corpus:{}", p.file_name().unwrap().to_string_lossy()); match p.extension().and_then(|e| e.to_str()) {
            Some("wat") => if let Ok(b) = std::fs::read_to_string(&p).map_err(|e| e.to_string()).and_then(|t| wat::parse_str(&t).map_err(|e| e.to_string())) { inputs.push((nm, b)); },
            Some("hex") => if let Ok(t) = std::fs::read_to_string(&p) { let t = t.trim(); inputs.push((nm, (0..t.len() / 2).filter_map(|i| u8::from_str_radix(&t[2 * i..2 * i + 2], 16).ok()).collect())); }, _ => {} } } }
    inputs.extend(fixtures());
    inputs.extend(variants());
    for k in 0..n_gen { let (wasm, _) = crate::genattr::module(&mut r, false); inputs.push((format!("attr{}", k), wasm)); }
    let feats = crate::env::walrus_features(false);
    { let tab = crate::sigs::build_table(crate::env::Profile::Full, false, 6);
      let gcfg = crate::gen::GenCfg { profile: crate::env::Profile::Full, max_funcs: 3, max_depth: 3, seq_len: 5, names: true, customs: true, start: true, active_segments: true };
      let mut k = 0; let mut tries = 0; while k < n_gen && tries < 50 * n_gen + 100 { tries += 1; let (wasm, _) = crate::gen::module(&mut r, &tab, &gcfg); if crate::amod::validate(&wasm, feats).is_err() { continue; } inputs.push((format!("body{}", k), wasm)); k += 1; } }
    let cap = 1500usize;
    let (mut n_in, mut n_out, mut n_big, mut n_invalid, mut n_noterm, mut n_walrus_fail, mut n_modules) = (0u64, 0u64, 0u64, 0u64, 0u64, 0u64, 0u64);
    let mut names: Vec<String> = vec![]; let mut samples = vec![];
    for (idx, (name, wasm)) in inputs.iter().enumerate() {
        if crate::amod::validate(wasm, feats).is_err() { n_invalid += 1; continue; }
        if wasm.len() > cap { n_big += 1; continue; }
        n_modules += 1;
        match crate::wmodcoq::wmod(wasm, true) {
            Some(t) => { let line = format!("(false, {}, {})", list(wasm), t); if samples.len() < 2 && line.len() < 1200 { samples.push(line.clone()); } w.push(&line); names.push(format!("{}:in", name)); n_in += 1; }
            None => { n_noterm += 1; }
        }
        let producers = idx % 2 == 0;
        let out = catch(|| { let mut c = walrus::ModuleConfig::new(); c.generate_producers_section(producers); c.generate_name_section(true); c.parse(wasm).ok().map(|mut m| m.emit_wasm()) });
        match out {
            Some(Some(o)) => { if o.len() > cap { n_big += 1; continue; }
                match crate::wmodcoq::wmod(&o, true) { Some(t) => { w.push(&format!("(true, {}, {})", list(&o), t)); names.push(format!("{}:out", name)); n_out += 1; } None => { n_noterm += 1; } } }
            _ => { n_walrus_fail += 1; }
        }
    }
    w.finish();
    std::fs::write(format!("{}/names.txt", out_dir), names.join("\n")).unwrap();
    let meta = Json::obj(vec![("cases", Json::n((n_in + n_out) as f64)), ("inputs", Json::u(inputs.len())), ("modules", Json::n(n_modules as f64)), ("input_cases", Json::n(n_in as f64)), ("output_cases", Json::n(n_out as f64)),
        ("too_large", Json::n(n_big as f64)), ("invalid_inputs", Json::n(n_invalid as f64)), ("no_term", Json::n(n_noterm as f64)), ("walrus_failures", Json::n(n_walrus_fail as f64)), ("shards", Json::u(w.shards)),
        ("samples", Json::Arr(samples.into_iter().map(Json::Str).collect()))]);
    std::fs::write(format!("{}/meta.json", out_dir), meta.to_string()).unwrap();
}
