//! C09: parallel and serial builds agree under every schedule.
//! `vh c09gen <dir> <seed> <n>` writes the input set (one .wasm per input, valid and invalid);
//! `vh c09run <dir> <out-file>` parses / emits every input (also after GC, also with code-transform preservation) and
//! writes one line per (input, variant): verdict, error text or FNV hash + length of the emitted bytes.
//! The same source is built twice (with and without `--features parallel`); the driver runs the parallel binary
//! under several RAYON_NUM_THREADS values, repeatedly, and compares the files byte for byte with the serial run.
use crate::amod;
use crate::env::{self, Profile};
use crate::gen::{self, GenCfg};
use crate::genattr;
use crate::modrun::fixtures;
use crate::rng::Rng;
use crate::sigs;
use crate::util::catch;
use walrus::*;

fn fnv(b: &[u8]) -> u64 { let mut h = 0xcbf29ce484222325u64; for x in b { h ^= *x as u64; h = h.wrapping_mul(0x100000001b3); } h }

pub fn gen_main(args: &[String]) {
    let dir = &args[0]; let seed: u64 = args[1].parse().unwrap(); let n: usize = args[2].parse().unwrap();
    std::fs::create_dir_all(dir).unwrap();
    let mut r = Rng::new(seed); let feats = env::walrus_features(false);
    let mut inputs: Vec<(String, Vec<u8>)> = fixtures();
    // many functions of equal size (ties in the size sort) and of unequal size
    for (nf, pat) in [(400usize, 0usize), (400, 1), (64, 2), (1000, 3)] { let mut wat = String::from("(module (memory 1)\n");
        for i in 0..nf { let reps = match pat { 0 => 3, 1 => 1 + i % 7, 2 => 1 + (i * 37) % 50, _ => 1 + i % 2 };
            wat += &format!("(func (export \"f{}\") (param i32) (result i32) (local i32)\n", i); for k in 0..reps { wat += &format!(" local.get 0 i32.const {} i32.add local.set 1\n", i * 131 + k); }
            if i % 5 == 0 { wat += " block local.get 1 br_if 0 nop end\n"; } if i % 11 == 0 { wat += " i32.const 0 i32.const 0 i32.const 0 memory.fill\n"; } wat += " local.get 1)\n"; }
        wat += ")"; if let Ok(b) = wat::parse_str(&wat) { inputs.push((format!("many-{}-{}", nf, pat), b)); } }
    // one HUGE function (tens of thousands of instructions) next to small ones, and several large ones: work splitting must not depend on sizes
    for (huge, others) in [(20000usize, 12usize), (9000, 3), (70000, 1)] { let mut wat = String::from("(module\n(func (export \"huge\") (result i32)\n"); for k in 0..huge { wat += &format!(" i32.const {} drop\n", k % 1000); } wat += " i32.const 1)\n";
        for i in 0..others { wat += &format!("(func (export \"s{}\") (result i32) i32.const {})\n", i, i); } wat += ")"; if let Ok(b) = wat::parse_str(&wat) { inputs.push((format!("huge-function-{}-{}", huge, others), b)); } }
    // invalid bodies at several positions: the decision and the reported error must not depend on the schedule
    for bad in [vec![3usize], vec![0, 199], vec![57, 58, 59], vec![199]] { let mut wat = String::from("(module\n");
        for i in 0..200 { if bad.contains(&i) { wat += &format!("(func (result i32) i64.const {})\n", i); } else { wat += &format!("(func (result i32) i32.const {})\n", i); } } wat += ")";
        if let Ok(b) = wat::parse_str(&wat) { inputs.push((format!("invalid-bodies-{:?}", bad).replace(' ', ""), b)); } }
    // degenerate bodies with NAMED parameters and locals (empty body, only nops, only unreachable, locals never touched): whatever shortcut a build takes for
    // them, the code section AND the name section must be the serial build's
    { let mut wat = String::from("(module\n");
      for i in 0..40 { let body = match i % 5 { 0 => "", 1 => "nop", 2 => "unreachable", 3 => "nop nop", _ => "local.get $a drop" };
          wat += &format!("(func $f{} (export \"e{}\") (param $a i32) (param $b{} i64) (local $unused{} f32) {})\n", i, i, i, i, body); }
      wat += "(func $no_params_empty) (func $one_param_empty (param $only i32)))";
      if let Ok(b) = wat::parse_str(&wat) { inputs.push(("degenerate-bodies-with-named-parameters".to_string(), b)); } }
    // bodies whose size sits on either side of the 128-byte boundary of the size LEB (with a code transform dumped into a custom section, every offset a build computes is in the bytes)
    inputs.extend(crate::c11::boundary_bodies());
    { let mut wat = String::from("(module (func (export \"big\") (result i32)\n"); for k in 0..5470 { wat += &format!(" i32.const {} drop\n", k % 50); } wat += " i32.const 1) (func (export \"s\") (result i32) i32.const 2))"; if let Ok(b) = wat::parse_str(&wat) { inputs.push(("body-of-about-16384-bytes".to_string(), b)); } }
    let tab = sigs::build_table(Profile::Full, false, 8);
    let gcfg = GenCfg { profile: Profile::Full, max_funcs: 12, max_depth: 3, seq_len: 6, names: true, customs: true, start: true, active_segments: true };
    let mut k = 0; while k < n { let (w, _) = gen::module(&mut r, &tab, &gcfg); if amod::validate(&w, feats).is_err() && !r.chance(1, 8) { continue; } inputs.push((format!("gen{}", k), w)); k += 1; }
    for k in 0..n { let (w, _) = genattr::module(&mut r, true); inputs.push((format!("attr{}", k), w)); }
    let mut index = String::new();
    for (i, (name, bytes)) in inputs.iter().enumerate() { std::fs::write(format!("{}/{:05}.wasm", dir, i), bytes).unwrap(); index += &format!("{:05} {}\n", i, name.replace(' ', "_")); }
    std::fs::write(format!("{}/index.txt", dir), index).unwrap();
    println!("{}", inputs.len());
}

pub fn run_main(args: &[String]) {
    let dir = &args[0]; let out = &args[1];
    let index = std::fs::read_to_string(format!("{}/index.txt", dir)).unwrap();
    let mut lines = String::new();
    for l in index.lines() { let id = l.split(' ').next().unwrap(); let bytes = std::fs::read(format!("{}/{}.wasm", dir, id)).unwrap();
        for variant in 0..5u8 {
            let res = catch(|| -> std::result::Result<Vec<u8>, String> { let mut c = ModuleConfig::new(); c.generate_producers_section(false); if variant == 2 || variant == 3 { c.preserve_code_transform(true); } if variant == 4 { c.generate_synthetic_names_for_anonymous_items(true); }
                let mut m = c.parse(&bytes).map_err(|e| format!("{:#}", e))?; if variant == 1 { passes::gc::run(&mut m); } if variant == 3 { duplicate_located_instruction(&mut m); m.customs.add(CtDump { payload: vec![] }); } Ok(m.emit_wasm()) });
            let v = match res { Some(Ok(o)) => format!("ok {} {:016x}", o.len(), fnv(&o)), Some(Err(e)) => format!("err {}", e.replace('\n', " ")), None => "panic".to_string() };
            lines += &format!("{} {} {}\n", id, variant, v); } }
    std::fs::write(out, lines).unwrap();
}

/// a custom section whose payload is the whole CodeTransform it is handed (so that the emitted bytes depend on every entry of it)
#[derive(Debug)]
struct CtDump { payload: Vec<u8> }
impl CustomSection for CtDump {
    fn name(&self) -> &str { "ct-dump" }
    fn data(&self, _: &IdsToIndices) -> std::borrow::Cow<[u8]> { std::borrow::Cow::Borrowed(&self.payload) }
    fn apply_code_transform(&mut self, t: &CodeTransform) {
        let mut p = vec![]; p.extend((t.code_section_start as u64).to_le_bytes());
        for (l, o) in &t.instruction_map { p.extend(l.data().to_le_bytes()); p.extend((*o as u64).to_le_bytes()); }
        for (f, r) in &t.function_ranges { p.extend((f.index() as u64).to_le_bytes()); p.extend((r.start as u64).to_le_bytes()); p.extend((r.end as u64).to_le_bytes()); }
        self.payload = p;
    }
}
/// what an inliner does: the first located constant of the module is copied, WITH its source location, to the front of every
/// local function (followed by an unlocated drop), so that one InstrLocId is emitted several times
fn duplicate_located_instruction(m: &mut Module) {
    let mut found: Option<(ir::Instr, ir::InstrLocId)> = None;
    for (_, lf) in m.funcs.iter_local() { let entry = lf.entry_block(); for (i, l) in &lf.block(entry).instrs { if let ir::Instr::Const(_) = i { if !l.is_default() { found = Some((i.clone(), *l)); break; } } } if found.is_some() { break; } }
    let (instr, loc) = match found { Some(x) => x, None => return };
    let ids: Vec<FunctionId> = m.funcs.iter_local().map(|(id, _)| id).collect();
    for fid in ids { let lf = m.funcs.get_mut(fid).kind.unwrap_local_mut(); let entry = lf.entry_block(); let seq = lf.block_mut(entry);
        seq.instrs.insert(0, (ir::Instr::Drop(ir::Drop {}), ir::InstrLocId::default())); seq.instrs.insert(0, (instr.clone(), loc)); }
}
