//! Dumps the operator universe of the pinned wasmparser (name, proposal, immediates)
//! by expanding `for_each_operator!` at compile time. Consumed by the translator.
macro_rules! dump {
    ($( @$proposal:ident $op:ident $({ $($arg:ident: $argty:ty),* })? => $visit:ident)*) => {
        pub fn main() {
            println!("[");
            let mut first = true;
            $(
                if !first { println!(","); } first = false;
                let args: Vec<(&str, &str)> = vec![ $( $( (stringify!($arg), stringify!($argty)) ),* )? ];
                print!("{{\"name\":\"{}\",\"proposal\":\"{}\",\"args\":[{}]}}", stringify!($op), stringify!($proposal),
                    args.iter().map(|(a,t)| format!("[\"{}\",\"{}\"]", a, t.replace(' ', ""))).collect::<Vec<_>>().join(","));
            )*
            let _ = first;
            println!("\n]");
        }
    }
}
wasmparser::for_each_operator!(dump);
