//! C03 per-operator enumerator: every operator of wasmparser's universe that can be
//! built x boundary immediates, placed in live and in dead position inside a
//! fixed "universe" module, through real walrus, decoded independently.
use crate::amod;
use crate::ops::{self, ArgVal};
use crate::util::{catch, CaseWriter, Json};
use wasm_encoder as we;
use wasm_encoder::reencode::{Reencode, RoundtripReencoder};
use wasmparser::{Operator, WasmFeatures};

use crate::env::{universe_x, universe as universe_p, padding, walrus_features, const_of, Profile};
fn universe(b: &[we::Instruction]) -> Vec<u8> { universe_p(Profile::Full, b) }

fn reenc(op: &Operator<'static>) -> Option<we::Instruction<'static>> { RoundtripReencoder.instruction(op.clone()).ok() }

fn find_operands(ins: &we::Instruction<'static>, hint: Option<&Vec<u8>>, _feats: WasmFeatures, budget: &mut u64) -> Option<Vec<u8>> { crate::sigs::find_operands(Profile::Full, ins, hint, budget) }

fn body_of(bytes: &[u8], idx: usize) -> Result<amod::ABody, String> { let m = amod::decode(bytes)?; m.code.get(idx).cloned().ok_or_else(|| "no such body".to_string()) }

pub fn main(args: &[String]) {
    let out_dir = &args[0]; let _seed: u64 = args[1].parse().unwrap(); let thorough = args[2] == "thorough";
    let feats = walrus_features(false);
    let mut w = CaseWriter::new(out_dir, "c03", "From WV Require Import Gen.Ops Model.IR Run.CodecRun.\nOpen Scope N_scope.", "(wins * option wins * option wins)", "check_op_case", 300);
    let mut viol: Vec<Json> = vec![]; let mut samples = vec![];
    // self-test: the universe is a fixpoint of walrus's round trip (so renumbering is the identity on it)
    let u0 = universe(&[we::Instruction::Unreachable]);
    let mut self_ok = amod::validate(&u0, feats).is_ok();
    let rt0 = catch(|| { let mut m = walrus::Module::from_buffer(&u0).unwrap(); m.emit_wasm() });
    match &rt0 { Some(o) => { let a = amod::decode(&u0).unwrap(); let mut b = amod::decode(o).unwrap(); b.customs.clear(); b.sections.retain(|s| !s.starts_with("custom"));
            let mut a2 = a.clone(); a2.customs.clear();
            // compare everything except byte offsets
            let strip = |m: &mut amod::AMod| { for c in m.code.iter_mut() { c.range = (0, 0); c.entry_start = 0; for o in c.ops.iter_mut() { o.1 = 0; } } m.code_section = None; };
            strip(&mut a2); strip(&mut b);
            if a2 != b { self_ok = false; viol.push(Json::obj(vec![("class", Json::s("universe-not-fixpoint")), ("what", Json::s("the canonical universe module is changed by a plain parse->emit round trip")), ("input", Json::s(hex(&u0))), ("observed", Json::s(format!("{:?}", diff_summary(&a2, &b))))])); } }
        None => { self_ok = false; viol.push(Json::obj(vec![("class", Json::s("universe-panics")), ("what", Json::s("walrus panics on the universe module")), ("input", Json::s(hex(&u0)))])); } }
    let mut n_ops = 0u64; let mut n_built = 0u64; let mut n_valid = 0u64; let mut n_cases = 0u64; let mut budget = 0u64; let mut per_proposal = std::collections::BTreeMap::new();
    let mut ops_accepted = std::collections::BTreeSet::new(); let mut distinct = std::collections::HashSet::new();
    let pad_len = padding().len();
    for (name, proposal) in ops::all_op_names() {
        n_ops += 1;
        let argspec = ops::op_args(name);
        if matches!(name, "Block" | "Loop" | "If" | "Else" | "End" | "Br" | "BrIf" | "BrTable" | "Nop" | "Unreachable" | "Return") { continue; }
        let cands: Vec<Vec<ArgVal>> = argspec.iter().map(|(a, t)| ops::candidates(name, a, t, thorough)).collect();
        if cands.iter().any(|c| c.is_empty()) && !argspec.is_empty() { continue; }
        // cartesian product with a cap
        let total: usize = cands.iter().map(|c| c.len()).product::<usize>().max(1);
        let cap = if thorough { 4000 } else { 160 };
        let step = (total + cap - 1) / cap;
        let mut hint: Option<Vec<u8>> = None;
        let mut k = 0usize;
        while k < total {
            let mut rem = k; let mut vals = vec![];
            for c in &cands { vals.push(c[rem % c.len()].clone()); rem /= c.len(); }
            k += step.max(1);
            let op = match ops::build(name, &vals) { Some(o) => o, None => { if std::env::var("VH_DEBUG").is_ok() { eprintln!("cannot build {} {:?}", name, vals); } continue } };
            n_built += 1;
            let ins = match reenc(&op) { Some(i) => i, None => { if std::env::var("VH_DEBUG").is_ok() { eprintln!("cannot reencode {}", name); } continue } };
            // immediates are valid iff the operator validates in stack-polymorphic (dead) position
            budget += 1;
            if !catch(|| amod::validate(&universe(&[we::Instruction::Unreachable, ins.clone(), we::Instruction::Unreachable]), feats).is_ok()).unwrap_or(false) { if std::env::var("VH_DEBUG").is_ok() { eprintln!("dead-invalid {} {:?}", name, amod::validate(&universe(&[we::Instruction::Unreachable, ins.clone(), we::Instruction::Unreachable]), feats)); } continue; }
            let operands = match find_operands(&ins, hint.as_ref(), feats, &mut budget) { Some(o) => o, None => { if std::env::var("VH_DEBUG").is_ok() { eprintln!("no operands {}", name); } continue } };
            hint = Some(operands.clone());
            n_valid += 1; ops_accepted.insert(name); *per_proposal.entry(proposal).or_insert(0u64) += 1;
            let in_coq = ops::ins_coq(&op);
            // live position
            let mut body: Vec<we::Instruction> = operands.iter().map(|c| const_of(*c)).collect();
            body.push(ins.clone()); body.push(we::Instruction::Unreachable);
            let live_in = universe(&body);
            let live_out = catch(|| walrus::Module::from_buffer(&live_in).map(|mut m| m.emit_wasm()).map_err(|e| e.to_string()));
            // dead position
            let dead_in = universe(&[we::Instruction::Unreachable, ins.clone(), we::Instruction::Unreachable]);
            let dead_out = catch(|| walrus::Module::from_buffer(&dead_in).map(|mut m| m.emit_wasm()).map_err(|e| e.to_string()));
            let expect_pos = pad_len + operands.len();
            let mut obs_live: Option<String> = None; let mut obs_dead_ok = false;
            let mut report = |class: &str, what: String, input: &[u8], observed: String| {
                viol.push(Json::obj(vec![("class", Json::s(class)), ("what", Json::s(what)), ("operator", Json::s(format!("{:?}", op))), ("input", Json::s(hex(input))), ("observed", Json::s(observed))])); };
            match live_out {
                None => report("walrus-panics-on-valid-operator", format!("walrus panics on a module the validator accepts (operator {})", name), &live_in, "panic".into()),
                Some(Err(e)) => report("walrus-rejects-valid-operator", format!("walrus rejects a valid module (operator {}): {}", name, e), &live_in, e.clone()),
                Some(Ok(bytes)) => {
                    if let Err(e) = amod::validate(&bytes, feats) { report("output-invalid", format!("output does not validate (operator {}): {}", name, e), &live_in, hex(&bytes)); }
                    match (body_of(&live_in, 0), body_of(&bytes, 0)) {
                        (Ok(bi), Ok(bo)) => {
                            let si: Vec<_> = bi.ops.iter().map(|o| o.0.clone()).collect(); let so: Vec<_> = bo.ops.iter().map(|o| o.0.clone()).collect();
                            obs_live = so.get(expect_pos).cloned().flatten();
                            if self_ok && (si != so || bi.locals != bo.locals) {
                                let got = so.get(expect_pos).cloned().flatten().unwrap_or_else(|| "<missing>".into());
                                let class = classify_change(in_coq.as_deref().unwrap_or(""), &got, name);
                                report(&class, format!("operator {} does not survive the round trip: in {:?} out {}", name, in_coq, got), &live_in, got.clone());
                            }
                        }
                        (a, b) => report("undecodable", format!("cannot decode: {:?} {:?}", a.err(), b.err()), &live_in, String::new()),
                    }
                }
            }
            match dead_out {
                Some(Ok(bytes)) => { match body_of(&bytes, 0) { Ok(bo) => { let names: Vec<_> = bo.ops.iter().map(|o| o.2).collect();
                        obs_dead_ok = names.len() == pad_len + 2 && names[pad_len] == "Unreachable";
                        if !obs_dead_ok { report("dead-code-not-elided", format!("operator {} in dead position: output body is {:?}", name, &names[pad_len.min(names.len())..]), &dead_in, format!("{:?}", names)); } }
                    Err(e) => report("undecodable", e, &dead_in, String::new()) } }
                Some(Err(e)) => report("walrus-rejects-valid-operator", format!("dead position, operator {}: {}", name, e), &dead_in, e.clone()),
                None => report("walrus-panics-on-valid-operator", format!("walrus panics with operator {} in dead position", name), &dead_in, "panic".into()),
            }
            if let Some(ic) = in_coq {
                let line = format!("({}, {}, {})", ic, match &obs_live { Some(s) => format!("Some ({})", s), None => "None".into() }, if obs_dead_ok { "None".to_string() } else { format!("Some ({})", ic) });
                if distinct.insert(line.clone()) { n_cases += 1; w.push(&line); if samples.len() < 4 && (n_cases % 997 == 1) { samples.push(line); } }
            }
        }
    }
    w.finish();
    let meta = Json::obj(vec![
        ("operators_in_wasmparser", Json::n(n_ops as f64)), ("operator_instances_built", Json::n(n_built as f64)), ("instances_valid", Json::n(n_valid as f64)),
        ("distinct_operators_accepted_by_validator", Json::u(ops_accepted.len())), ("cases", Json::n(n_cases as f64)), ("validator_calls_for_operand_search", Json::n(budget as f64)),
        ("per_proposal", Json::Obj(per_proposal.iter().map(|(k, v)| (k.to_string(), Json::n(*v as f64))).collect())),
        ("universe_is_fixpoint", Json::Bool(self_ok)), ("samples", Json::Arr(samples.into_iter().map(Json::Str).collect())), ("oracle_violations", Json::Arr(viol)),
    ]);
    std::fs::write(format!("{}/meta.json", out_dir), meta.to_string()).unwrap();
}

/// Sub-classify an operator change: the listed known finding is exactly "only the memarg offset
/// differs, the input offset is >= 2^32 and the output offset is the input modulo 2^32".
fn classify_change(input: &str, output: &str, name: &str) -> String {
    fn split_off(s: &str) -> Option<(String, u128)> {
        let k = s.find("wa_offset := ")?; let rest = &s[k + 13..]; let e = rest.find(';')?;
        let v: u128 = rest[..e].trim().parse().ok()?;
        Some((format!("{}{}", &s[..k], &rest[e..]), v))
    }
    if let (Some((a, oa)), Some((b, ob))) = (split_off(input), split_off(output)) {
        if a == b && oa >= (1u128 << 32) && ob == oa % (1u128 << 32) { return "memarg-offset-ge-2^32".to_string(); }
    }
    format!("operator-changed:{}", name)
}

pub fn hex(b: &[u8]) -> String { b.iter().map(|x| format!("{:02x}", x)).collect() }
fn diff_summary(a: &amod::AMod, b: &amod::AMod) -> Vec<&'static str> {
    let mut v = vec![];
    if a.types != b.types { v.push("types"); } if a.imports != b.imports { v.push("imports"); } if a.funcs != b.funcs { v.push("funcs"); }
    if a.tables != b.tables { v.push("tables"); } if a.mems != b.mems { v.push("mems"); } if a.globals != b.globals { v.push("globals"); }
    if a.exports != b.exports { v.push("exports"); } if a.elems != b.elems { v.push("elems"); } if a.data != b.data { v.push("data"); }
    if a.data_count != b.data_count { v.push("data_count"); } if a.code != b.code { v.push("code"); } if a.sections != b.sections { v.push("sections"); }
    v
}

/// Per-operator sweep of the GC pass: every operator instance the validator accepts, in live position inside the universe module with ONLY the
/// test function exported, so that each entity an immediate names is kept alive by that operator alone.  parse -> passes::gc::run -> emit must not
/// panic, the output must validate and the body must carry the same operators (indices renumbered).  Oracle only (classes for C06 / C02).
pub fn gc_sweep_main(args: &[String]) {
    let out_dir = &args[0]; let thorough = args.get(1).map(|s| s == "thorough").unwrap_or(false);
    std::fs::create_dir_all(out_dir).unwrap();
    let feats = walrus_features(false);
    let mut viol: Vec<Json> = vec![]; let (mut n_inst, mut n_ops, mut budget) = (0u64, std::collections::BTreeSet::new(), 0u64);
    let mut with_refs = 0u64;
    for (name, _proposal) in ops::all_op_names() {
        if matches!(name, "Block" | "Loop" | "If" | "Else" | "End" | "Br" | "BrIf" | "BrTable" | "Nop" | "Unreachable" | "Return") { continue; }
        let argspec = ops::op_args(name);
        let cands: Vec<Vec<ArgVal>> = argspec.iter().map(|(a, t)| ops::candidates(name, a, t, thorough)).collect();
        if cands.iter().any(|c| c.is_empty()) && !argspec.is_empty() { continue; }
        let total: usize = cands.iter().map(|c| c.len()).product::<usize>().max(1);
        let cap = if thorough { 400 } else { 24 };
        let step = (total + cap - 1) / cap;
        let mut hint: Option<Vec<u8>> = None; let mut k = 0usize;
        while k < total {
            let mut rem = k; let mut vals = vec![];
            for c in &cands { vals.push(c[rem % c.len()].clone()); rem /= c.len(); }
            k += step.max(1);
            let op = match ops::build(name, &vals) { Some(o) => o, None => continue };
            let ins = match reenc(&op) { Some(i) => i, None => continue };
            budget += 1;
            if !catch(|| amod::validate(&universe(&[we::Instruction::Unreachable, ins.clone(), we::Instruction::Unreachable]), feats).is_ok()).unwrap_or(false) { continue; }
            let operands = match find_operands(&ins, hint.as_ref(), feats, &mut budget) { Some(o) => o, None => continue };
            hint = Some(operands.clone());
            let mut body: Vec<we::Instruction> = operands.iter().map(|c| const_of(*c)).collect();
            body.push(ins.clone()); body.push(we::Instruction::Unreachable);
            let gc_in = universe_x(Profile::Full, &body, false);
            if amod::validate(&gc_in, feats).is_err() { continue; }
            n_inst += 1; n_ops.insert(name);
            let mut report = |class: &str, what: String, observed: String| {
                viol.push(Json::obj(vec![("class", Json::s(class)), ("props", Json::s("C06 C02")), ("what", Json::s(what)), ("operator", Json::s(format!("{:?}", op))), ("input", Json::s(hex(&gc_in))), ("observed", Json::s(observed))])); };
            let names_of = |bytes: &[u8]| -> Result<Vec<&'static str>, String> { let m = amod::decode(bytes)?; let nimp = m.imports.iter().filter(|i| matches!(i.2, amod::AImportKind::Func(_))).count() as u32;
                let fx = m.exports.iter().find(|e| e.0 == "f1" && e.1 == 0).map(|e| e.2).ok_or("export f1 lost")?; let b = m.code.get((fx - nimp) as usize).ok_or("no body for f1")?; Ok(b.ops.iter().map(|o| o.2).collect()) };
            match catch(|| walrus::Module::from_buffer(&gc_in).map(|mut m| { let before = (m.tables.iter().count(), m.memories.iter().count(), m.globals.iter().count(), m.funcs.iter().count(), m.elements.iter().count(), m.data.iter().count()); walrus::passes::gc::run(&mut m);
                    let after = (m.tables.iter().count(), m.memories.iter().count(), m.globals.iter().count(), m.funcs.iter().count(), m.elements.iter().count(), m.data.iter().count()); (m.emit_wasm(), before != after) }).map_err(|e| e.to_string())) {
                None => report("gc-panics-on-operator", format!("parse, gc, emit panics when operator {} is the only user of the entities it names", name), "panic".into()),
                Some(Err(e)) => report("walrus-rejects-valid-operator", format!("walrus rejects a valid module (operator {}): {}", name, e), e.clone()),
                Some(Ok((bytes, _))) => {
                    if let Err(e) = amod::validate(&bytes, feats) { report("gc-output-invalid-on-operator", format!("after gc the output does not validate when operator {} is the only user of the entities it names: {}", name, e), hex(&bytes)); }
                    else { match (names_of(&gc_in), names_of(&bytes)) { (Ok(a), Ok(b)) => { if a != b { report("gc-changes-body-on-operator", format!("after gc the body with operator {} differs: {:?} / {:?}", name, a, b), hex(&bytes)); } }
                        (a, b) => report("gc-output-undecodable-on-operator", format!("operator {}: {:?} {:?}", name, a.err(), b.err()), hex(&bytes)) } }
                    if !argspec.is_empty() { with_refs += 1; }
                }
            }
        }
    }
    let meta = Json::obj(vec![("operator_instances", Json::n(n_inst as f64)), ("distinct_operators", Json::u(n_ops.len())), ("instances_with_immediates", Json::n(with_refs as f64)), ("oracle_violations", Json::Arr(viol))]);
    std::fs::write(format!("{}/meta.json", out_dir), meta.to_string()).unwrap();
}
