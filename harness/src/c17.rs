//! C17 correspondence: run operation histories on walrus's real collections,
//! print each history with what was observed as a Coq case for Run/ArenaRun.v.
use crate::rng::Rng;
use crate::util::{catch, CaseWriter, Json};
use walrus::*;

pub type Item = Vec<u64>;

#[derive(Clone, Debug)]
pub enum Op { Alloc(Item), Delete(usize), Get(usize), Iter, Len, Find(Item), IterMut }
#[derive(Clone, Debug, PartialEq)]
pub enum Out { Id(usize), Unit, Panic, Opt(Item), List(Vec<(usize, Item)>), Len(usize), Find(Option<usize>) }

fn vt_code(v: ValType) -> u64 {
    match v { ValType::I32 => 0, ValType::I64 => 1, ValType::F32 => 2, ValType::F64 => 3, ValType::V128 => 4,
        ValType::Ref(RefType::Externref) => 5, ValType::Ref(_) => 6 }
}
fn vt_of(c: u64) -> ValType {
    match c { 0 => ValType::I32, 1 => ValType::I64, 2 => ValType::F32, 3 => ValType::F64, 4 => ValType::V128,
        5 => ValType::Ref(RefType::Externref), _ => ValType::Ref(RefType::Funcref) }
}

/// One real collection under test. `add` interprets an abstract item.
pub trait Coll {
    fn kind(&self) -> u64;
    fn name(&self) -> &'static str;
    fn gen_item(&mut self, r: &mut Rng) -> Item;
    fn add(&mut self, it: &Item) -> usize;
    fn delete(&mut self, id: usize);
    fn get(&self, id: usize) -> Item;
    fn iter(&self) -> Vec<(usize, Item)>;
    fn len(&self) -> Option<usize> { None }
    fn iter_mut(&mut self) -> Option<Vec<(usize, Item)>> { None }
    fn find(&self, _it: &Item) -> Option<Option<usize>> { None }
    /// does `get_mut` resolve the identifier (Some(true)) or report its absence by panicking (Some(false))?
    fn get_mut_resolves(&mut self, _id: usize) -> Option<bool> { None }
}

// ---- ModuleTypes (ArenaSet) ----
struct Types { m: Module, ids: Vec<TypeId> }
fn enc_type(t: &Type) -> Item {
    let mut v = vec![0, t.params().len() as u64];
    v.extend(t.params().iter().map(|x| vt_code(*x)));
    v.extend(t.results().iter().map(|x| vt_code(*x)));
    v
}
fn dec_type(it: &Item) -> (Vec<ValType>, Vec<ValType>) {
    let np = it[1] as usize;
    (it[2..2 + np].iter().map(|c| vt_of(*c)).collect(), it[2 + np..].iter().map(|c| vt_of(*c)).collect())
}
impl Types { fn note(&mut self, id: TypeId) -> usize { if !self.ids.contains(&id) { assert_eq!(id.index(), self.ids.len()); self.ids.push(id); } id.index() } }
impl Coll for Types {
    fn kind(&self) -> u64 { 0 }
    fn name(&self) -> &'static str { "types" }
    fn gen_item(&mut self, r: &mut Rng) -> Item {
        // small alphabet so duplicates are frequent
        let np = r.usize(3); let nr = r.usize(2);
        let mut v = vec![0, np as u64];
        for _ in 0..np + nr { v.push(r.below(3)); }
        v
    }
    fn add(&mut self, it: &Item) -> usize { let (p, q) = dec_type(it); let id = self.m.types.add(&p, &q);
        // every other type gets a debug name (as the name section does after parsing): names are not part of a type's identity
        if id.index() % 2 == 1 { self.m.types.get_mut(id).name = Some(format!("t{}", id.index())); }
        self.note(id) }
    fn delete(&mut self, id: usize) { self.m.types.delete(self.ids[id]) }
    fn get(&self, id: usize) -> Item { enc_type(self.m.types.get(self.ids[id])) }
    fn iter(&self) -> Vec<(usize, Item)> { self.m.types.iter().map(|t| (t.id().index(), enc_type(t))).collect() }
    fn find(&self, it: &Item) -> Option<Option<usize>> { let (p, q) = dec_type(it); Some(self.m.types.find(&p, &q).map(|i| i.index())) }
    fn get_mut_resolves(&mut self, id: usize) -> Option<bool> { let i = *self.ids.get(id)?; Some(crate::util::catch(|| { let _ = self.m.types.get_mut(i); }).is_some()) }
}

// ---- generic helper for the plain TombstoneArena collections ----
macro_rules! plain_coll {
    ($name:ident, $kind:expr, $label:expr, $idty:ty, $field:ident,
     gen: $gen:expr, add: $add:expr, enc: $enc:expr $(, len: $len:expr)? $(, itermut: $itermut:expr)?) => {
        struct $name { m: Module, ids: Vec<$idty>, aux: Aux }
        impl Coll for $name {
            fn kind(&self) -> u64 { $kind }
            fn name(&self) -> &'static str { $label }
            fn gen_item(&mut self, r: &mut Rng) -> Item { let f: fn(&mut Rng, &Aux) -> Item = $gen; f(r, &self.aux) }
            fn add(&mut self, it: &Item) -> usize {
                let f: fn(&mut Module, &Aux, &Item) -> $idty = $add;
                let id = f(&mut self.m, &self.aux, it);
                // an add that hands out an identifier already in use is reported to the oracle (as a recycled identifier), not a harness failure
                if id.index() < self.ids.len() { return id.index(); }
                assert_eq!(id.index(), self.ids.len(), "id_arena index is the allocation position");
                self.ids.push(id); id.index()
            }
            fn delete(&mut self, id: usize) { self.m.$field.delete(self.ids[id]) }
            fn get(&self, id: usize) -> Item { let f: fn(&Module, $idty, &Aux) -> Item = $enc; f(&self.m, self.ids[id], &self.aux) }
            fn iter(&self) -> Vec<(usize, Item)> {
                let f: fn(&Module, $idty, &Aux) -> Item = $enc;
                self.m.$field.iter().map(|x| (x.id().index(), f(&self.m, x.id(), &self.aux))).collect()
            }
            fn get_mut_resolves(&mut self, id: usize) -> Option<bool> { let i = *self.ids.get(id)?; Some(crate::util::catch(|| { let _ = self.m.$field.get_mut(i); }).is_some()) }
            $( fn len(&self) -> Option<usize> { let f: fn(&Module) -> usize = $len; Some(f(&self.m)) } )?
            $( fn iter_mut(&mut self) -> Option<Vec<(usize, Item)>> { let _marker: bool = $itermut; let ids: Vec<$idty> = self.m.$field.iter_mut().map(|x| x.id()).collect(); let f: fn(&Module, $idty, &Aux) -> Item = $enc; Some(ids.into_iter().map(|id| (id.index(), crate::util::catch(|| f(&self.m, id, &self.aux)).unwrap_or_else(|| vec![999_999]))).collect()) } )?
        }
    };
}

/// Pre-made entities other collections can refer to.
pub struct Aux { funcs: Vec<FunctionId>, globals: Vec<GlobalId>, mems: Vec<MemoryId>, tables: Vec<TableId>, tys: Vec<TypeId>, imports: Vec<ImportId> }
fn base_module() -> (Module, Aux) {
    let mut m = Module::default();
    let t0 = m.types.add(&[], &[]); let t1 = m.types.add(&[ValType::I32], &[ValType::I32]);
    let (f0, i0) = m.add_import_func("env", "f0", t0);
    let (f1, i1) = m.add_import_func("env", "f1", t1);
    let g0 = m.globals.add_local(ValType::I32, false, false, ConstExpr::Value(ir::Value::I32(1)));
    let g1 = m.globals.add_local(ValType::I64, true, false, ConstExpr::Value(ir::Value::I64(2)));
    let m0 = m.memories.add_local(false, false, 1, None, None);
    let tb0 = m.tables.add_local(false, 1, None, RefType::Funcref);
    let aux = Aux { funcs: vec![f0, f1], globals: vec![g0, g1], mems: vec![m0], tables: vec![tb0], tys: vec![t0, t1], imports: vec![i0, i1] };
    (m, aux)
}
fn str_of(it: &[u64]) -> String { it.iter().map(|b| (*b as u8) as char).collect() }
fn enc_str(s: &str) -> Vec<u64> { s.bytes().map(|b| b as u64).collect() }
fn gen_name(r: &mut Rng) -> Vec<u64> { let n = r.usize(3); (0..n).map(|_| 97 + r.below(2)).collect() }

plain_coll!(Exports, 1, "exports", ExportId, exports,
    gen: |r, _a| { let k = r.below(4); let i = match k { 0 => r.below(2), 3 => r.below(2), _ => 0 }; let mut v = vec![k, i]; v.extend(gen_name(r)); v },
    add: |m, a, it| { let name = str_of(&it[2..]); match it[0] {
            0 => m.exports.add(&name, a.funcs[it[1] as usize]), 1 => m.exports.add(&name, a.tables[0]),
            2 => m.exports.add(&name, a.mems[0]), _ => m.exports.add(&name, a.globals[it[1] as usize]) } },
    enc: |m, id, a| { let e = m.exports.get(id); let (k, i) = match e.item {
            ExportItem::Function(f) => (0, a.funcs.iter().position(|x| *x == f).unwrap() as u64),
            ExportItem::Table(_) => (1, 0), ExportItem::Memory(_) => (2, 0),
            ExportItem::Global(g) => (3, a.globals.iter().position(|x| *x == g).unwrap() as u64) };
            let mut v = vec![k, i]; v.extend(enc_str(&e.name)); v },
    itermut: true);

plain_coll!(Memories, 2, "memories", MemoryId, memories,
    gen: |r, _a| { let hasmax = r.below(2); vec![r.below(2), r.below(2), r.below(4), hasmax, if hasmax == 1 { 4 + r.below(3) } else { 0 }] },
    add: |m, _a, it| m.memories.add_local(it[0] == 1, it[1] == 1, it[2], if it[3] == 1 { Some(it[4]) } else { None }, None),
    enc: |m, id, _a| { let x = m.memories.get(id); vec![x.shared as u64, x.memory64 as u64, x.initial, x.maximum.is_some() as u64, x.maximum.unwrap_or(0)] },
    len: |m| m.memories.len(),
    itermut: true);

plain_coll!(Funcs, 3, "functions", FunctionId, funcs,
    gen: |r, _a| vec![r.below(2), r.below(2)],
    add: |m, a, it| { if it[0] == 0 { m.funcs.add_import(a.tys[it[1] as usize], a.imports[it[1] as usize]) } else {
            let (p, q): (Vec<ValType>, Vec<ValType>) = if it[1] == 0 { (vec![], vec![]) } else { (vec![ValType::I32], vec![ValType::I32]) };
            let mut b = FunctionBuilder::new(&mut m.types, &p, &q);
            let args: Vec<LocalId> = p.iter().map(|t| m.locals.add(*t)).collect();
            if it[1] == 1 { b.func_body().local_get(args[0]); }
            b.finish(args, &mut m.funcs) } },
    enc: |m, id, a| { let f = m.funcs.get(id); let k = match &f.kind { FunctionKind::Import(_) => 0, FunctionKind::Local(_) => 1, FunctionKind::Uninitialized(_) => 2 };
            vec![k, a.tys.iter().position(|t| *t == f.ty()).unwrap() as u64] },
    itermut: true);

plain_coll!(Globals, 4, "globals", GlobalId, globals,
    gen: |r, _a| vec![r.below(4), r.below(2), r.below(5)],
    add: |m, _a, it| { let ty = vt_of(it[0]); let init = match it[0] { 0 => ir::Value::I32(it[2] as i32), 1 => ir::Value::I64(it[2] as i64), 2 => ir::Value::F32(it[2] as f32), _ => ir::Value::F64(it[2] as f64) };
            m.globals.add_local(ty, it[1] == 1, false, ConstExpr::Value(init)) },
    enc: |m, id, _a| { let g = m.globals.get(id); let v = match &g.kind { GlobalKind::Local(ConstExpr::Value(ir::Value::I32(x))) => *x as u64, GlobalKind::Local(ConstExpr::Value(ir::Value::I64(x))) => *x as u64,
            GlobalKind::Local(ConstExpr::Value(ir::Value::F32(x))) => *x as u64, GlobalKind::Local(ConstExpr::Value(ir::Value::F64(x))) => *x as u64, _ => 99 };
            vec![vt_code(g.ty), g.mutable as u64, v] });

plain_coll!(Tables, 5, "tables", TableId, tables,
    gen: |r, _a| { let hasmax = r.below(2); vec![r.below(2), r.below(4), hasmax, if hasmax == 1 { 4 + r.below(3) } else { 0 }, r.below(2)] },
    add: |m, _a, it| m.tables.add_local(it[0] == 1, it[1], if it[2] == 1 { Some(it[3]) } else { None }, if it[4] == 0 { RefType::Funcref } else { RefType::Externref }),
    enc: |m, id, _a| { let x = m.tables.get(id); vec![x.table64 as u64, x.initial, x.maximum.is_some() as u64, x.maximum.unwrap_or(0), (x.element_ty == RefType::Externref) as u64] },
    itermut: true);

plain_coll!(Datas, 6, "data", DataId, data,
    gen: |r, _a| { let mut v = vec![r.below(2)]; let n = r.usize(3); for _ in 0..n { v.push(r.below(256)); } v },
    add: |m, a, it| { let kind = if it[0] == 0 { DataKind::Passive } else { DataKind::Active { memory: a.mems[0], offset: ConstExpr::Value(ir::Value::I32(0)) } };
            m.data.add(kind, it[1..].iter().map(|b| *b as u8).collect()) },
    enc: |m, id, _a| { let d = m.data.get(id); let mut v = vec![if d.is_passive() { 0 } else { 1 }]; v.extend(d.value.iter().map(|b| *b as u64)); v });

plain_coll!(Elems, 7, "elements", ElementId, elements,
    gen: |r, _a| { let mut v = vec![r.below(3)]; let n = r.usize(3); for _ in 0..n { v.push(r.below(2)); } v },
    add: |m, a, it| { let kind = match it[0] { 0 => ElementKind::Passive, 1 => ElementKind::Declared, _ => ElementKind::Active { table: a.tables[0], offset: ConstExpr::Value(ir::Value::I32(0)) } };
            m.elements.add(kind, ElementItems::Functions(it[1..].iter().map(|i| a.funcs[*i as usize]).collect())) },
    enc: |m, id, a| { let e = m.elements.get(id); let mut v = vec![match e.kind { ElementKind::Passive => 0, ElementKind::Declared => 1, ElementKind::Active { .. } => 2 }];
            if let ElementItems::Functions(fs) = &e.items { v.extend(fs.iter().map(|f| a.funcs.iter().position(|x| x == f).unwrap() as u64)); } v },
    itermut: true);

plain_coll!(Imports, 8, "imports", ImportId, imports,
    gen: |r, _a| { let mut v = vec![r.below(2), r.below(2)]; v.extend(gen_name(r)); v },
    add: |m, a, it| { let name = str_of(&it[2..]); if it[0] == 0 { m.imports.add("env", &name, a.funcs[it[1] as usize]) } else { m.imports.add("env", &name, a.globals[it[1] as usize]) } },
    enc: |m, id, a| { let i = m.imports.get(id); let (k, x) = match i.kind { ImportKind::Function(f) => (0, a.funcs.iter().position(|y| *y == f).unwrap() as u64),
            ImportKind::Global(g) => (1, a.globals.iter().position(|y| *y == g).unwrap() as u64), _ => (9, 0) };
            let mut v = vec![k, x]; v.extend(enc_str(&i.name)); v },
    itermut: true);


// ---- ModuleCustomSections (a TombstoneArena of Option<Box<dyn CustomSection>>): absence is an explicit None, mapped to a panic here ----
#[derive(Debug)] pub struct ProbeA { pub name: String, pub data: Vec<u8> }
#[derive(Debug)] pub struct ProbeB { pub name: String, pub data: Vec<u8> }
impl walrus::CustomSection for ProbeA { fn name(&self) -> &str { &self.name } fn data(&self, _: &walrus::IdsToIndices) -> std::borrow::Cow<[u8]> { std::borrow::Cow::Borrowed(&self.data) } }
impl walrus::CustomSection for ProbeB { fn name(&self) -> &str { &self.name } fn data(&self, _: &walrus::IdsToIndices) -> std::borrow::Cow<[u8]> { std::borrow::Cow::Borrowed(&self.data) } }
const CUSTOM_NAMES: [&str; 3] = ["alpha", "beta", "verif-probe"];
fn enc_custom(s: &dyn walrus::CustomSection) -> Item {
    let k = if s.as_any().is::<walrus::RawCustomSection>() { 0 } else if s.as_any().is::<ProbeA>() { 1 } else { 2 };
    let mut v = vec![k, CUSTOM_NAMES.iter().position(|n| *n == s.name()).unwrap_or(99) as u64]; v.extend(s.data(&Default::default()).iter().map(|b| *b as u64)); v }
fn add_custom(m: &mut Module, it: &Item) -> walrus::UntypedCustomSectionId {
    let name = CUSTOM_NAMES[it[1] as usize].to_string(); let data: Vec<u8> = it[2..].iter().map(|b| *b as u8).collect();
    match it[0] { 0 => m.customs.add(walrus::RawCustomSection { name, data }).into(), 1 => m.customs.add(ProbeA { name, data }).into(), _ => m.customs.add(ProbeB { name, data }).into() } }
struct Customs { m: Module, ids: Vec<walrus::UntypedCustomSectionId> }
impl Coll for Customs {
    fn kind(&self) -> u64 { 9 }
    fn name(&self) -> &'static str { "custom sections" }
    fn gen_item(&mut self, r: &mut Rng) -> Item { vec![r.below(3), r.below(3), r.below(4)] }
    fn add(&mut self, it: &Item) -> usize { let id = add_custom(&mut self.m, it); self.ids.push(id); self.ids.len() - 1 }
    fn delete(&mut self, id: usize) { if self.m.customs.delete(self.ids[id]).is_none() { panic!("absent") } }
    fn get(&self, id: usize) -> Item { enc_custom(self.m.customs.get(self.ids[id]).expect("absent")) }
    fn iter(&self) -> Vec<(usize, Item)> { self.m.customs.iter().map(|(id, s)| (self.ids.iter().position(|x| *x == id).unwrap_or(usize::MAX), enc_custom(s))).collect() }
    fn iter_mut(&mut self) -> Option<Vec<(usize, Item)>> { let ids = self.ids.clone(); Some(self.m.customs.iter_mut().map(|(id, s)| (ids.iter().position(|x| *x == id).unwrap_or(usize::MAX), enc_custom(&*s))).collect()) }
    fn get_mut_resolves(&mut self, id: usize) -> Option<bool> { let i = *self.ids.get(id)?; Some(self.m.customs.get_mut(i).is_some()) }
}

fn fresh(kind: u64) -> Box<dyn Coll> {
    // every collection starts from a module whose collection under test is empty:
    // the Aux entities live in *other* collections of the same module, so for the
    // collection under test we use a second, pristine module where necessary.
    let (m, aux) = base_module();
    match kind {
        0 => Box::new(Types { m: Module::default(), ids: vec![] }),
        1 => Box::new(Exports { m, ids: vec![], aux }),
        2 => { let (_, a) = base_module(); Box::new(Memories { m: Module::default(), ids: vec![], aux: a }) }
        3 => { let mut mm = Module::default(); let t0 = mm.types.add(&[], &[]); let t1 = mm.types.add(&[ValType::I32], &[ValType::I32]);
               // imports for add_import must exist in this module, but not as functions
               let g = mm.globals.add_local(ValType::I32, false, false, ConstExpr::Value(ir::Value::I32(0)));
               let i0 = mm.imports.add("env", "a", g); let i1 = mm.imports.add("env", "b", g);
               Box::new(Funcs { m: mm, ids: vec![], aux: Aux { funcs: vec![], globals: vec![g], mems: vec![], tables: vec![], tys: vec![t0, t1], imports: vec![i0, i1] } }) }
        4 => Box::new(Globals { m: Module::default(), ids: vec![], aux: Aux { funcs: vec![], globals: vec![], mems: vec![], tables: vec![], tys: vec![], imports: vec![] } }),
        5 => Box::new(Tables { m: Module::default(), ids: vec![], aux: Aux { funcs: vec![], globals: vec![], mems: vec![], tables: vec![], tys: vec![], imports: vec![] } }),
        6 => Box::new(Datas { m, ids: vec![], aux }),
        9 => Box::new(Customs { m: Module::default(), ids: vec![] }),
        7 => Box::new(Elems { m, ids: vec![], aux }),
        _ => { let mut mm = Module::default(); let t0 = mm.types.add(&[], &[]);
               // functions/globals referred to by imports, created without going through `imports`
               let g0 = mm.globals.add_local(ValType::I32, false, false, ConstExpr::Value(ir::Value::I32(0)));
               let g1 = mm.globals.add_local(ValType::I32, false, false, ConstExpr::Value(ir::Value::I32(1)));
               let mut b = FunctionBuilder::new(&mut mm.types, &[], &[]); b.func_body().unreachable(); let f0 = b.finish(vec![], &mut mm.funcs);
               let mut b = FunctionBuilder::new(&mut mm.types, &[], &[]); b.func_body().unreachable(); let f1 = b.finish(vec![], &mut mm.funcs);
               Box::new(Imports { m: mm, ids: vec![], aux: Aux { funcs: vec![f0, f1], globals: vec![g0, g1], mems: vec![], tables: vec![], tys: vec![t0], imports: vec![] } }) }
    }
}

pub fn run_history(kind: u64, ops: &[Op]) -> Vec<Out> {
    let mut c = fresh(kind);
    let mut outs = vec![];
    for op in ops {
        let o = match op {
            Op::Alloc(it) => Out::Id(c.add(it)),
            Op::Delete(id) => match catch(|| c.delete(*id)) { Some(()) => Out::Unit, None => Out::Panic },
            Op::Get(id) => { let o = match catch(|| c.get(*id)) { Some(it) => Out::Opt(it), None => Out::Panic };
                // the mutable accessor must agree with the shared one on whether the identifier denotes anything
                match c.get_mut_resolves(*id) { Some(r) if r != (o != Out::Panic) => Out::Opt(vec![888_888, r as u64]), _ => o } },
            Op::Iter => Out::List(c.iter()),
            Op::Len => Out::Len(c.len().unwrap()),
            Op::Find(it) => Out::Find(c.find(it).unwrap()),
            Op::IterMut => Out::List(c.iter_mut().unwrap()),
        };
        outs.push(o);
    }
    outs
}

fn gen_history(kind: u64, r: &mut Rng, maxlen: usize) -> Vec<Op> {
    let mut c = fresh(kind);
    let has_len = c.len().is_some(); let has_find = c.find(&vec![0, 0]).is_some(); let has_im = c.iter_mut().is_some();
    let n = 1 + r.usize(maxlen);
    let mut ops = vec![]; let mut nids = 0usize;
    for _ in 0..n {
        let k = r.below(10);
        let op = match k {
            0..=3 => Op::Alloc(c.gen_item(r)),
            4 | 5 if nids > 0 => Op::Delete(r.usize(nids)),
            6 if nids > 0 => Op::Get(r.usize(nids)),
            7 => if has_im && r.chance(1, 2) { Op::IterMut } else { Op::Iter },
            8 if has_len => Op::Len,
            9 if has_find => Op::Find(c.gen_item(r)),
            _ => Op::Iter,
        };
        // keep nids = number of ids actually handed out so far (types de-duplicate)
        if let Op::Alloc(it) = &op { let id = c.add(it); nids = nids.max(id + 1); }
        ops.push(op);
    }
    ops
}

fn item_v(it: &Item) -> String { format!("[{}]%N", it.iter().map(|x| x.to_string()).collect::<Vec<_>>().join(";")) }
fn op_v(o: &Op) -> String { match o { Op::Alloc(i) => format!("OAlloc {}", item_v(i)), Op::Delete(i) => format!("ODelete {}", i), Op::Get(i) => format!("OGet {}", i), Op::Iter => "OIter".into(), Op::Len => "OLen".into(), Op::Find(i) => format!("OFind {}", item_v(i)), Op::IterMut => "OIterMut".into() } }
fn out_v(o: &Out) -> String { match o {
    Out::Id(i) => format!("RId {}", i), Out::Unit => "RUnit".into(), Out::Panic => "RPanic".into(), Out::Opt(i) => format!("ROpt (Some {})", item_v(i)),
    Out::List(l) => format!("RList [{}]", l.iter().map(|(i, x)| format!("({},{})", i, item_v(x))).collect::<Vec<_>>().join(";")),
    Out::Len(n) => format!("RLen {}", n), Out::Find(None) => "RFind None".into(), Out::Find(Some(i)) => format!("RFind (Some {})", i) } }

/// Reference semantics of the *property* (not of the model): a plain map + counter.
/// Used as the model-independent oracle: returns a description of the first violation.
pub fn oracle(kind: u64, ops: &[Op], outs: &[Out]) -> Option<String> {
    let mut items: Vec<(Item, bool)> = vec![];
    for (n, (op, out)) in ops.iter().zip(outs).enumerate() {
        let live: Vec<(usize, Item)> = items.iter().enumerate().filter(|(_, x)| x.1).map(|(i, x)| (i, x.0.clone())).collect();
        match (op, out) {
            (Op::Alloc(it), Out::Id(id)) => {
                let existing = if kind == 0 { live.iter().find(|(_, x)| x == it).map(|(i, _)| *i) } else { None };
                match existing {
                    Some(e) => if *id != e { return Some(format!("step {}: adding a present type returned id {} instead of existing {}", n, id, e)); },
                    None => { if *id < items.len() { return Some(format!("step {}: identifier {} was recycled", n, id)); }
                              if *id != items.len() { return Some(format!("step {}: unexpected fresh id {}", n, id)); }
                              items.push((it.clone(), true)); }
                }
            }
            (Op::Delete(id), o) => { let was = items.get(*id).map(|x| x.1).unwrap_or(false);
                if was { if *o != Out::Unit { return Some(format!("step {}: deleting live id {} failed", n, id)); } items[*id].1 = false; }
                else if *o != Out::Panic { return Some(format!("step {}: deleting absent id {} did not report absence", n, id)); } }
            (Op::Get(id), o) => { match items.get(*id) {
                Some((v, true)) => if *o != Out::Opt(v.clone()) { return Some(format!("step {}: id {} no longer denotes its item", n, id)); },
                _ => if *o != Out::Panic { return Some(if matches!(o, Out::Opt(x) if x.first() == Some(&888_888)) { format!("step {}: get_mut resolves the deleted id {} although get reports its absence", n, id) } else { format!("step {}: dead id {} resolved to {:?}", n, id, o) }); } } }
            (Op::Iter, Out::List(l)) | (Op::IterMut, Out::List(l)) => if *l != live { return Some(format!("step {}: iteration is not the live items in creation order", n)); },
            (Op::Len, Out::Len(k)) => if *k != live.len() { return Some(format!("step {}: len {} != live {}", n, k, live.len())); },
            (Op::Find(it), Out::Find(f)) => { let e = live.iter().find(|(_, x)| x == it).map(|(i, _)| *i); if *f != e { return Some(format!("step {}: find returned {:?}, expected {:?}", n, f, e)); } }
            (o, x) => return Some(format!("step {}: malformed observation {:?} / {:?}", n, o, x)),
        }
    }
    None
}

fn enumerate(kind: u64, len: usize, out: &mut Vec<Vec<Op>>) {
    // exhaustive histories of exactly `len` ops over a 2-item alphabet and ids 0..2
    let mut c = fresh(kind);
    let has_len = c.len().is_some(); let has_find = c.find(&vec![0, 0]).is_some(); let has_im = c.iter_mut().is_some();
    let mut r = Rng::new(7); let a = c.gen_item(&mut r); let mut b = c.gen_item(&mut r); let mut g = 0; while b == a && g < 50 { b = c.gen_item(&mut r); g += 1; }
    let mut alphabet = vec![Op::Alloc(a.clone()), Op::Alloc(b), Op::Delete(0), Op::Delete(1), Op::Get(0), Op::Get(1), Op::Iter];
    if has_len { alphabet.push(Op::Len); } if has_find { alphabet.push(Op::Find(a)); } if has_im { alphabet.push(Op::IterMut); }
    alphabet.push(Op::Delete(2)); alphabet.push(Op::Get(2));
    fn rec(alpha: &[Op], len: usize, cur: &mut Vec<Op>, nal: usize, out: &mut Vec<Vec<Op>>) {
        if cur.len() == len { out.push(cur.clone()); return; }
        for o in alpha {
            // ids must have been handed out (the API cannot forge ids)
            let need = match o { Op::Delete(i) | Op::Get(i) => *i + 1, _ => 0 };
            if need > nal { continue; }
            let nal2 = if matches!(o, Op::Alloc(_)) { nal + 1 } else { nal };
            cur.push(o.clone()); rec(alpha, len, cur, nal2, out); cur.pop();
        }
    }
    rec(&alphabet, len, &mut vec![], 0, out);
}

pub fn main(args: &[String]) {
    let out_dir = &args[0]; let seed: u64 = args[1].parse().unwrap(); let n_random: usize = args[2].parse().unwrap(); let exh_len: usize = args[3].parse().unwrap();
    let mut r = Rng::new(seed);
    let mut w = CaseWriter::new(out_dir, "c17", "From WV Require Import Model.Arena Run.ArenaRun.", "(N * list (op item) * list (out item))", "check_case", 250);
    let mut hist: Vec<(u64, Vec<Op>)> = vec![];
    for kind in 0..10u64 { for l in 1..=exh_len { let mut v = vec![]; enumerate(kind, l, &mut v);
        // ids referring to de-duplicated adds may be out of range for types: filtered at run time
        for ops in v { hist.push((kind, ops)); } } }
    let n_exh = hist.len();
    for i in 0..n_random { let kind = (i % 10) as u64; hist.push((kind, gen_history(kind, &mut r, 14))); }
    let mut oracle_viol = vec![]; let mut samples = vec![]; let mut per_kind = vec![0u64; 10]; let mut op_hist = [0u64; 6]; let mut panics = 0u64; let mut dedups = 0u64; let mut total_steps = 0u64;
    // the type set next to the hidden per-function ENTRY types (FunctionBuilder::new adds one for every function built): `find` and `add`
    // never resolve to an entry type, find = the first live ordinary type with that signature, add of a present signature returns it
    let mut n_entry_hist = 0u64;
    for h in 0..(n_random / 4 + 40) { let mut rr = Rng::new(seed ^ (0x5151 + h as u64)); n_entry_hist += 1;
        let res = catch(|| -> Option<String> { let mut m = Module::default(); let mut live: Vec<TypeId> = vec![]; let mut log = vec![];
            let sig = |rr: &mut Rng| -> (Vec<ValType>, Vec<ValType>) { let np = rr.usize(2); let nr = rr.usize(3); ((0..np).map(|_| vt_of(rr.below(2))).collect(), (0..nr).map(|_| vt_of(rr.below(2))).collect()) };
            for step in 0..(4 + rr.usize(12)) { match rr.below(5) {
                0 => { let (p, q) = sig(&mut rr); let id = m.types.add(&p, &q); log.push(format!("add {:?}->{:?} = {}", p, q, id.index())); if m.types.get(id).verif_is_for_function_entry() { return Some(format!("step {}: add returned the entry type {} [{}]", step, id.index(), log.join("; "))); } if !live.contains(&id) { live.push(id); } }
                1 => { let (p, q) = sig(&mut rr); let _b = FunctionBuilder::new(&mut m.types, &p, &q); log.push(format!("FunctionBuilder::new {:?}->{:?}", p, q)); if let Some(id) = m.types.find(&p, &q) { if !live.contains(&id) { live.push(id); } } }
                2 => { if !live.is_empty() { let k = rr.usize(live.len()); let id = live.remove(k); log.push(format!("delete {}", id.index())); m.types.delete(id); } }
                _ => { let (p, q) = sig(&mut rr); let got = m.types.find(&p, &q); let want = m.types.iter().find(|t| !t.verif_is_for_function_entry() && t.params() == &p[..] && t.results() == &q[..]).map(|t| t.id());
                       log.push(format!("find {:?}->{:?} = {:?}", p, q, got.map(|i| i.index())));
                       if got != want { return Some(format!("step {}: find returned {:?}, the first live ordinary type with that signature is {:?} [{}]", step, got.map(|i| i.index()), want.map(|i| i.index()), log.join("; "))); } } } }
            None });
        match res { Some(None) => {}, Some(Some(v)) => oracle_viol.push(Json::obj(vec![("kind", Json::Num(0.0)), ("what", Json::Str(format!("types with function-entry types: {}", v))), ("case", Json::Str(String::new()))])),
            None => oracle_viol.push(Json::obj(vec![("kind", Json::Num(0.0)), ("what", Json::Str("types with function-entry types: an operation panicked".into())), ("case", Json::Str(String::new()))])) } }
    // deletion BY NAME (ModuleImports::remove, ModuleExports::remove, ModuleImports::find / get_func): exactly the first live entry with that
    // (module, field) / name goes, every other identifier keeps denoting its item, an absent name is reported and deletes nothing
    { let mut rr = Rng::new(seed ^ 0xB7A4E); let n_hist = if n_random > 1000 { 600 } else { 80 };
      for h in 0..n_hist { let res = catch(|| -> Option<String> {
            let mut m = Module::default(); let t0 = m.types.add(&[], &[]);
            // a LOCAL function exported as "keep": replace_exported_func re-points that export and must leave every function identifier alive
            let mut all_funcs: Vec<FunctionId> = vec![]; let keep = { let mut b = FunctionBuilder::new(&mut m.types, &[], &[]); b.func_body().unreachable(); let f = b.finish(vec![], &mut m.funcs); f }; let keep_export = m.exports.add("keep", keep); all_funcs.push(keep); let mut kept = keep;
            let mods = ["env", "wasi", "x"]; let fields = ["log", "tick", "a"];
            let mut imps: Vec<(ImportId, FunctionId, String, String, bool)> = vec![]; let mut exps: Vec<(ExportId, String, bool)> = vec![(keep_export, "keep".to_string(), true)]; let mut log = vec![];
            for step in 0..(4 + rr.usize(10)) { match rr.below(8) {
                0 | 1 => { let (md, fl) = (*rr.pick(&mods), *rr.pick(&fields)); let (f, i) = m.add_import_func(md, fl, t0); log.push(format!("import {}.{}", md, fl)); imps.push((i, f, md.to_string(), fl.to_string(), true)); }
                2 => { if let Some(x) = imps.first() { let nm = *rr.pick(&fields); let f = x.1; let e = m.exports.add(nm, f); log.push(format!("export {}", nm)); exps.push((e, nm.to_string(), true)); } }
                3 => { let (md, fl) = (*rr.pick(&mods), *rr.pick(&fields)); let want = imps.iter().position(|x| x.4 && x.2 == md && x.3 == fl);
                       let found = m.imports.find(md, fl); if found != want.map(|k| imps[k].0) { return Some(format!("history {} step {}: imports.find({}, {}) = {:?}, the first live import with that name is {:?} [{}]", h, step, md, fl, found.map(|i| i.index()), want.map(|k| imps[k].0.index()), log.join("; "))); }
                       let r = m.imports.remove(md, fl); log.push(format!("imports.remove {}.{}", md, fl));
                       match want { Some(k) => { if r.is_err() { return Some(format!("history {} step {}: imports.remove({}, {}) failed although such an import is live [{}]", h, step, md, fl, log.join("; "))); } imps[k].4 = false; }
                                    None => if r.is_ok() { return Some(format!("history {} step {}: imports.remove({}, {}) succeeded although no such import is live [{}]", h, step, md, fl, log.join("; "))); } } }
                4 => { let nm = *rr.pick(&fields); let want = exps.iter().position(|x| x.2 && x.1 == nm); let r = m.exports.remove(nm); log.push(format!("exports.remove {}", nm));
                       match want { Some(k) => { if r.is_err() { return Some(format!("history {} step {}: exports.remove({}) failed although such an export is live [{}]", h, step, nm, log.join("; "))); } exps[k].2 = false; }
                                    None => if r.is_ok() { return Some(format!("history {} step {}: exports.remove({}) succeeded although no such export is live [{}]", h, step, nm, log.join("; "))); } } }
                5 => { // an edit that removes ONE import by identity: replace_imported_func on the function of a live import
                       let livek: Vec<usize> = imps.iter().enumerate().filter(|(_, x)| x.4).map(|(k, _)| k).collect();
                       if !livek.is_empty() { let k = *rr.pick(&livek); let f = imps[k].1; log.push(format!("replace_imported_func of import id {}", imps[k].0.index()));
                           // a function can be the target of only one import entry here (each add_import_func creates its own function)
                           if m.replace_imported_func(f, |_| {}).is_err() { return Some(format!("history {} step {}: replace_imported_func refused a live imported function [{}]", h, step, log.join("; "))); }
                           imps[k].4 = false; } }
                6 => { log.push(format!("replace_exported_func of function id {}", kept.index())); match m.replace_exported_func(kept, |_| {}) { Ok(n) => { all_funcs.push(n); kept = n; }, Err(e) => return Some(format!("history {} step {}: replace_exported_func refused a live exported local function: {} [{}]", h, step, e, log.join("; "))) } }
                _ => {} }
                // no function identifier ever handed out disappears (nothing here deletes a function)
                { let live: Vec<FunctionId> = m.funcs.iter().map(|f| f.id()).collect(); if let Some(gone) = all_funcs.iter().find(|f| !live.contains(f)) { return Some(format!("history {} step {}: function id {} is no longer live although nothing deleted it [{}]", h, step, gone.index(), log.join("; "))); } }
                // the by-name lookups resolve to the FIRST live entry with that name: exports.get_func, imports.get_func
                { let nm = *rr.pick(&fields); let want = exps.iter().find(|x| x.2 && x.1 == nm).map(|_| imps[0].1); let got = m.exports.get_func(nm).ok();
                  if got != want { return Some(format!("history {} step {}: exports.get_func({}) = {:?}, expected {:?} [{}]", h, step, nm, got.map(|f| f.index()), want.map(|f| f.index()), log.join("; "))); }
                  let (md, fl) = (*rr.pick(&mods), *rr.pick(&fields)); let want = imps.iter().find(|x| x.4 && x.2 == md && x.3 == fl).map(|x| x.1); let got = m.imports.get_func(md, fl).ok();
                  if got != want { return Some(format!("history {} step {}: imports.get_func({}, {}) = {:?}, expected {:?} [{}]", h, step, md, fl, got.map(|f| f.index()), want.map(|f| f.index()), log.join("; "))); } }
                // after every step: exactly the entries believed live are live, each still denoting its item
                let live_i: Vec<usize> = m.imports.iter().map(|i| i.id().index()).collect(); let want_i: Vec<usize> = imps.iter().filter(|x| x.4).map(|x| x.0.index()).collect();
                if live_i != want_i { return Some(format!("history {} step {}: live imports are {:?}, expected {:?} (deletion by name is not isolated) [{}]", h, step, live_i, want_i, log.join("; "))); }
                for x in imps.iter().filter(|x| x.4) { let i = m.imports.get(x.0); if i.module != x.2 || i.name != x.3 { return Some(format!("history {} step {}: import id {} no longer denotes {}.{} [{}]", h, step, x.0.index(), x.2, x.3, log.join("; "))); } }
                let live_e: Vec<usize> = m.exports.iter().map(|e| e.id().index()).collect(); let want_e: Vec<usize> = exps.iter().filter(|x| x.2).map(|x| x.0.index()).collect();
                if live_e != want_e { return Some(format!("history {} step {}: live exports are {:?}, expected {:?} (deletion by name is not isolated) [{}]", h, step, live_e, want_e, log.join("; "))); } }
            None });
        match res { Some(None) => {}, Some(Some(v)) => oracle_viol.push(Json::obj(vec![("kind", Json::Num(8.0)), ("what", Json::Str(format!("deletion by name: {}", v))), ("case", Json::Str(String::new()))])),
            None => oracle_viol.push(Json::obj(vec![("kind", Json::Num(8.0)), ("what", Json::Str("deletion by name: an operation panicked".into())), ("case", Json::Str(String::new()))])) } } }
    // custom sections BY NAME and BY TYPE (remove_raw, delete_typed, get_typed): remove_raw(name) takes exactly the first live UNINTERPRETED section of that
    // name (a typed section of the same name is not touched), delete_typed::<T> exactly the first live section of type T; an absent name / type deletes nothing
    { let mut rr = Rng::new(seed ^ 0xC057); let n_hist = if n_random > 1000 { 800 } else { 120 };
      for h in 0..n_hist { let res = catch(|| -> Option<String> {
            let mut m = Module::default(); let mut secs: Vec<(walrus::UntypedCustomSectionId, Item, bool)> = vec![]; let mut log: Vec<String> = vec![];
            for step in 0..(4 + rr.usize(10)) { match rr.below(8) {
                0 | 1 | 2 => { let it: Item = vec![rr.below(3), rr.below(3), rr.below(4)]; let id = add_custom(&mut m, &it); log.push(format!("add {:?}", it)); secs.push((id, it, true)); }
                3 | 4 => { let nk = rr.below(3); let nm = CUSTOM_NAMES[nk as usize]; let want = secs.iter().position(|x| x.2 && x.1[0] == 0 && x.1[1] == nk);
                       let got = m.customs.remove_raw(nm); log.push(format!("remove_raw {}", nm));
                       match (want, got) { (Some(k), Some(g)) => { if g.name != nm || g.data.iter().map(|b| *b as u64).collect::<Vec<_>>() != secs[k].1[2..] { return Some(format!("history {} step {}: remove_raw({}) returned another section [{}]", h, step, nm, log.join("; "))); } secs[k].2 = false; }
                           (None, None) => {}
                           (w, g) => return Some(format!("history {} step {}: remove_raw({}) returned {:?}, the first live uninterpreted section of that name is {:?} [{}]", h, step, nm, g.map(|x| x.name), w.map(|k| secs[k].0), log.join("; "))) } }
                5 => { let a = rr.chance(1, 2); let want = secs.iter().position(|x| x.2 && x.1[0] == if a { 1 } else { 2 });
                       let got: Option<(String, Vec<u8>)> = if a { m.customs.delete_typed::<ProbeA>().map(|p| (p.name.clone(), p.data.clone())) } else { m.customs.delete_typed::<ProbeB>().map(|p| (p.name.clone(), p.data.clone())) }; log.push(format!("delete_typed {}", if a { "A" } else { "B" }));
                       match (want, got) { (Some(k), Some(g)) => { if g.0 != CUSTOM_NAMES[secs[k].1[1] as usize] || g.1.iter().map(|b| *b as u64).collect::<Vec<_>>() != secs[k].1[2..] { return Some(format!("history {} step {}: delete_typed returned another section [{}]", h, step, log.join("; "))); } secs[k].2 = false; }
                           (None, None) => {}
                           (w, g) => return Some(format!("history {} step {}: delete_typed returned {:?}, the first live section of that type is {:?} [{}]", h, step, g.map(|x| x.0), w.map(|k| secs[k].0), log.join("; "))) } }
                6 => { let livek: Vec<usize> = secs.iter().enumerate().filter(|(_, x)| x.2).map(|(k, _)| k).collect(); if !livek.is_empty() { let k = *rr.pick(&livek); log.push(format!("delete id {:?}", secs[k].0)); if m.customs.delete(secs[k].0).is_none() { return Some(format!("history {} step {}: delete of a live identifier reported absence [{}]", h, step, log.join("; "))); } secs[k].2 = false; } }
                _ => { let wa = secs.iter().find(|x| x.2 && x.1[0] == 1).map(|x| x.1.clone()); let ga = m.customs.get_typed::<ProbeA>().map(|p| enc_custom(p));
                       if wa != ga { return Some(format!("history {} step {}: get_typed returned {:?}, the first live section of that type is {:?} [{}]", h, step, ga, wa, log.join("; "))); } } }
                // after every step: exactly the sections believed live are live, in creation order, each still denoting its item; dead ids resolve to nothing
                let live: Vec<(walrus::UntypedCustomSectionId, Item)> = m.customs.iter().map(|(id, s)| (id, enc_custom(s))).collect(); let want: Vec<(walrus::UntypedCustomSectionId, Item)> = secs.iter().filter(|x| x.2).map(|x| (x.0, x.1.clone())).collect();
                if live != want { return Some(format!("history {} step {}: live custom sections are {:?}, expected {:?} (deletion by name / type is not isolated) [{}]", h, step, live, want, log.join("; "))); }
                for x in &secs { let g = m.customs.get(x.0).map(|s| enc_custom(s)); if g != if x.2 { Some(x.1.clone()) } else { None } { return Some(format!("history {} step {}: identifier {:?} resolves to {:?} [{}]", h, step, x.0, g, log.join("; "))); } } }
            None });
        match res { Some(None) => {}, Some(Some(v)) => oracle_viol.push(Json::obj(vec![("kind", Json::Num(9.0)), ("what", Json::Str(format!("custom sections by name / type: {}", v))), ("case", Json::Str(String::new()))])),
            None => oracle_viol.push(Json::obj(vec![("kind", Json::Num(9.0)), ("what", Json::Str("custom sections by name / type: an operation panicked".into())), ("case", Json::Str(String::new()))])) } } }
    let mut seen = std::collections::HashSet::new(); let mut nontrivial = 0u64;
    for (kind, ops) in &hist {
        // drop ids that were never handed out (possible for types because of de-duplication)
        let outs = match catch(|| run_history(*kind, ops)) { Some(o) => o, None => { oracle_viol.push(Json::obj(vec![("kind", Json::Num(*kind as f64)), ("what", Json::Str("step ?: an operation panicked where the property allows no panic (only get/delete of an absent id may)".into())), ("case", Json::Str(format!("{:?}", ops)))])); continue } };
        per_kind[*kind as usize] += 1; total_steps += ops.len() as u64;
        let mut ids_seen = std::collections::HashSet::new();
        for (o, x) in ops.iter().zip(&outs) {
            op_hist[match o { Op::Alloc(_) => 0, Op::Delete(_) => 1, Op::Get(_) => 2, Op::Iter | Op::IterMut => 3, Op::Len => 4, Op::Find(_) => 5 }] += 1;
            if *x == Out::Panic { panics += 1; }
            if let Out::Id(i) = x { if !ids_seen.insert(*i) { dedups += 1; } }
        }
        let line = format!("({}%N, [{}], [{}])", kind, ops.iter().map(op_v).collect::<Vec<_>>().join("; "), outs.iter().map(out_v).collect::<Vec<_>>().join("; "));
        if seen.insert(line.clone()) && ops.iter().any(|o| matches!(o, Op::Delete(_))) && ops.len() >= 3 { nontrivial += 1; }
        if samples.len() < 3 && ops.len() >= 5 && outs.contains(&Out::Panic) { samples.push(line.clone()); }
        if let Some(v) = oracle(*kind, ops, &outs) { oracle_viol.push(Json::obj(vec![("kind", Json::Num(*kind as f64)), ("what", Json::Str(v)), ("case", Json::Str(line.clone()))])); }
        w.push(&line);
    }
    w.finish();
    let meta = Json::obj(vec![
        ("cases", Json::Num(w.total as f64)), ("shards", Json::Num(w.shards as f64)), ("exhaustive_cases", Json::Num(n_exh as f64)), ("exhaustive_len", Json::Num(exh_len as f64)),
        ("random_cases", Json::Num(n_random as f64)), ("distinct_nontrivial", Json::Num(nontrivial as f64)), ("steps", Json::Num(total_steps as f64)),
        ("per_kind", Json::Arr(per_kind.iter().map(|x| Json::Num(*x as f64)).collect())),
        ("op_histogram", Json::obj(vec![("alloc", Json::Num(op_hist[0] as f64)), ("delete", Json::Num(op_hist[1] as f64)), ("get", Json::Num(op_hist[2] as f64)), ("iter", Json::Num(op_hist[3] as f64)), ("len", Json::Num(op_hist[4] as f64)), ("find", Json::Num(op_hist[5] as f64))])),
        ("panics_observed", Json::Num(panics as f64)), ("dedup_hits", Json::Num(dedups as f64)),
        ("samples", Json::Arr(samples.into_iter().map(Json::Str).collect())), ("oracle_violations", Json::Arr(oracle_viol)), ("entry_type_histories", Json::Num(n_entry_hist as f64)),
    ]);
    std::fs::write(format!("{}/meta.json", out_dir), meta.to_string()).unwrap();
}
