//! C05: parsing is a total, sound and complete validation gate.
//! Arbitrary byte strings (random, structure-aware mutations of valid modules, truncations, deep nesting,
//! size boundaries, unsupported proposals) x {default, only_stable_features}: walrus's verdict (module / error /
//! unwind) against a standalone wasmparser Validator configured with the same feature set.
//! The input being parsed is written to <out>/current.hex first, so that a crash of the whole process
//! (stack overflow, abort, hang killed by the driver) still leaves a replay.
use crate::amod;
use crate::env::{self, Profile};
use crate::gen::{self, GenCfg};
use crate::genattr;
use crate::modrun::fixtures;
use crate::rng::Rng;
use crate::sigs;
use crate::util::{catch, Json};
use walrus::*;
use wasmparser::{Parser, Payload};

fn hex(b: &[u8]) -> String { crate::c03::hex(b) }

/// byte ranges of the sections of a (prefix-)decodable module
fn section_ranges(b: &[u8]) -> Vec<(usize, usize)> {
    let mut v = vec![];
    let n = b.len();
    for p in Parser::new(0).parse_all(b) { match p { Ok(p) => { if let Some((_, r)) = p.as_section() { v.push((r.start, r.end)); } if let Payload::CodeSectionStart { range, .. } = p { v.push((range.start, range.end)); } } Err(_) => break } }
    v.retain(|(s, e)| s <= e && *e <= n);
    v
}

fn mutate(r: &mut Rng, src: &[u8], donors: &[Vec<u8>]) -> (Vec<u8>, &'static str) {
    let mut b = src.to_vec(); if b.len() < 9 { return (b, "none"); }
    let secs = section_ranges(src);
    let pick_pos = |r: &mut Rng, b: &Vec<u8>| -> usize { if !secs.is_empty() && r.chance(3, 4) { let (s, e) = *r.pick(&secs); if e > s { (s + r.usize(e - s)).min(b.len() - 1) } else { s.min(b.len() - 1) } } else { 8 + r.usize(b.len() - 8) } };
    let code: Option<(usize, usize)> = { let mut c = None; for p in Parser::new(0).parse_all(src) { if let Ok(Payload::CodeSectionStart { range, .. }) = p { if range.end <= b.len() && range.start < range.end { c = Some((range.start, range.end)); } } } c };
    match r.below(16) {
        12 | 13 | 14 | 15 if code.is_some() => { // inside function bodies: another opcode / immediate (type errors, bad labels, bad indices)
            let (s, e) = code.unwrap(); let n = 1 + r.usize(2); for _ in 0..n { let p = s + r.usize(e - s); b[p] = if r.chance(1, 2) { *r.pick(&[0x00u8, 0x01, 0x02, 0x03, 0x04, 0x05, 0x0b, 0x0c, 0x0d, 0x0e, 0x0f, 0x10, 0x11, 0x1a, 0x1b, 0x20, 0x21, 0x22, 0x23, 0x24, 0x28, 0x36, 0x3f, 0x40, 0x41, 0x42, 0x43, 0x44, 0x45, 0x6a, 0x7c, 0xa7, 0xd0, 0xd1, 0xd2, 0xfc, 0xfd, 0xfe]) } else { r.below(8) as u8 }; } (b, "code-bytes") }
        0 => { let p = pick_pos(r, &b); b[p] ^= 1 << r.below(8); (b, "bit-flip") }
        1 => { let p = pick_pos(r, &b); b[p] = *r.pick(&[0u8, 1, 0x7f, 0x80, 0xff, 0x0b, 0x40, 0x7e, 0x70, 0x6f, 0xfc, 0xfd, 0xfe]); (b, "byte-set") }
        2 => { let n = 8 + r.usize(b.len() - 8); b.truncate(n); (b, "truncate") }
        3 => { let p = pick_pos(r, &b); b.insert(p, r.below(256) as u8); (b, "insert-byte") }
        4 => { let p = pick_pos(r, &b); b.remove(p); (b, "delete-byte") }
        5 => { // swap two sections
            if secs.len() >= 2 { let i = r.usize(secs.len()); let j = r.usize(secs.len()); let (a, c) = (secs[i.min(j)], secs[i.max(j)]); if a.1 <= c.0 && a.0 >= 9 && c.1 <= b.len() { let (s1, s2) = (a.0 - 2, c.0 - 2);  // crude: includes id+1-byte size when sizes are small
                    if s1 < a.1 && s2 < c.1 && a.1 <= s2 { let mut o = b[..s1].to_vec(); o.extend_from_slice(&b[s2..c.1]); o.extend_from_slice(&b[a.1..s2]); o.extend_from_slice(&b[s1..a.1]); o.extend_from_slice(&b[c.1..]); return (o, "swap-sections"); } } }
            (b, "none") }
        6 => { // duplicate a section
            if let Some((s, e)) = secs.first().map(|_| *r.pick(&secs)) { if s >= 10 && e <= b.len() { let chunk = b[s - 2..e].to_vec(); let at = r.pick(&secs).1.min(b.len()); let mut o = b[..at].to_vec(); o.extend_from_slice(&chunk); o.extend_from_slice(&b[at..]); return (o, "duplicate-section"); } }
            (b, "none") }
        7 => { // overlong / boundary LEB in place of a single byte
            let p = pick_pos(r, &b); let x = b[p] & 0x7f; let ext: &[u8] = *r.pick(&[&[0x80u8, 0x00][..], &[0x80, 0x80, 0x80, 0x80, 0x00], &[0xff, 0xff, 0xff, 0xff, 0x0f], &[0xff, 0xff, 0xff, 0xff, 0x7f], &[0x80, 0x80, 0x80, 0x80, 0x80, 0x00]]);
            let mut o = b[..p].to_vec(); o.push(x | 0x80); o.extend_from_slice(&ext[1..]); o.extend_from_slice(&b[p + 1..]); (o, "leb-variant") }
        8 => { // splice a chunk of another valid module
            let d = r.pick(donors); if d.len() > 12 { let s = 8 + r.usize(d.len() - 8); let e = (s + 1 + r.usize(24)).min(d.len()); let p = pick_pos(r, &b); let mut o = b[..p].to_vec(); o.extend_from_slice(&d[s..e]); o.extend_from_slice(&b[p..]); return (o, "splice"); }
            (b, "none") }
        9 => { // change a section id
            if let Some((s, _)) = secs.first().map(|_| *r.pick(&secs)) { if s >= 10 { b[s - 2] = r.below(16) as u8; return (b, "section-id"); } } (b, "none") }
        10 => { for _ in 0..(2 + r.usize(6)) { let p = pick_pos(r, &b); b[p] = r.below(256) as u8; } (b, "multi-byte") }
        _ => { let p = pick_pos(r, &b); let n = (1 + r.usize(8)).min(b.len() - p); b.drain(p..p + n); (b, "delete-run") }
    }
}

fn wat(s: &str) -> Option<Vec<u8>> { wat::parse_str(s).ok() }

/// hand-made boundary and resource-shape inputs
fn specials() -> Vec<(String, Vec<u8>)> {
    let mut v: Vec<(String, Vec<u8>)> = vec![];
    for depth in [1000usize, 20000, 200000] {
        for kw in ["block", "loop"] { let mut s = String::from("(module (func "); for _ in 0..depth { s.push_str(kw); s.push(' '); } for _ in 0..depth { s.push_str("end "); } s.push_str("))"); if let Some(b) = wat(&s) { v.push((format!("nest-{}-{}", kw, depth), b)); } }
        let mut s = String::from("(module (func "); for _ in 0..depth { s.push_str("i32.const 1 if "); } for _ in 0..depth { s.push_str("end "); } s.push_str("))"); if let Some(b) = wat(&s) { v.push((format!("nest-if-{}", depth), b)); }
        let mut s = String::from("(module (func (result i32) "); for _ in 0..depth { s.push_str("i32.const 1 if (result i32) i32.const 2 else "); } s.push_str("i32.const 3 "); for _ in 0..depth { s.push_str("end "); } s.push_str("))"); if let Some(b) = wat(&s) { v.push((format!("nest-if-else-{}", depth), b)); }
    }
    for n in [49999u32, 50000, 50001] { if let Some(b) = wat(&format!("(module (func (local {})))", (0..n).map(|_| "i32").collect::<Vec<_>>().join(" "))) { v.push((format!("locals-{}", n), b)); } }
    // a locals declaration with a huge run count (few bytes, asks for 2^32-1 locals)
    v.push(("locals-run-u32max".into(), vec![0, 0x61, 0x73, 0x6d, 1, 0, 0, 0, 1, 4, 1, 0x60, 0, 0, 3, 2, 1, 0, 10, 10, 1, 8, 1, 0xff, 0xff, 0xff, 0xff, 0x0f, 0x7f, 0x0b]));
    // locals groups: the value type of EVERY group is checked, also of an empty one (count 0); types that need a proposal walrus does not enable, an
    // out-of-range type index, an unknown type byte; the same types in a non-empty group
    for (nm, ty) in [("anyref", vec![0x6eu8]), ("exnref", vec![0x69]), ("ref-null-0", vec![0x63, 0x00]), ("ref-5", vec![0x64, 0x05]), ("unknown-type-byte", vec![0x40]), ("i32", vec![0x7f]), ("v128", vec![0x7b]), ("externref", vec![0x6f])] {
        for count in [0u8, 1, 2] { for lead in [false, true] {
            let mut f: Vec<u8> = vec![]; let groups = if lead { 2u8 } else { 1 }; f.push(groups); if lead { f.extend([1u8, 0x7f]); } f.push(count); f.extend(&ty); f.push(0x0b);
            let mut m = vec![0u8, 0x61, 0x73, 0x6d, 1, 0, 0, 0, 1, 4, 1, 0x60, 0, 0, 3, 2, 1, 0]; let mut code = vec![1u8, f.len() as u8]; code.extend(f); m.push(10); m.push(code.len() as u8); m.extend(code);
            v.push((format!("locals-group-{}-x{}{}", nm, count, if lead { "-after-an-i32-group" } else { "" }), m)); } } }
    // vectors announcing far more elements than there are bytes
    v.push(("type-count-u32max".into(), vec![0, 0x61, 0x73, 0x6d, 1, 0, 0, 0, 1, 6, 0xff, 0xff, 0xff, 0xff, 0x0f, 0x60]));
    v.push(("func-count-u32max".into(), vec![0, 0x61, 0x73, 0x6d, 1, 0, 0, 0, 1, 4, 1, 0x60, 0, 0, 3, 5, 0xff, 0xff, 0xff, 0xff, 0x0f]));
    v.push(("br-table-count-u32max".into(), vec![0, 0x61, 0x73, 0x6d, 1, 0, 0, 0, 1, 4, 1, 0x60, 0, 0, 3, 2, 1, 0, 10, 12, 1, 10, 0, 0x41, 0, 0x0e, 0xff, 0xff, 0xff, 0xff, 0x0f, 0, 0x0b]));
    v.push(("data-count-u32max".into(), vec![0, 0x61, 0x73, 0x6d, 1, 0, 0, 0, 12, 5, 0xff, 0xff, 0xff, 0xff, 0x0f]));
    // encodings that only exist with a proposal: the READER (not the validator) decides on them from the feature set
    {   // (module (memory 1) (func <body>)) with a hand-written body
        let with_body = |body: &[u8]| -> Vec<u8> { let mut m = vec![0, 0x61, 0x73, 0x6d, 1, 0, 0, 0, 1, 4, 1, 0x60, 0, 0, 3, 2, 1, 0, 5, 3, 1, 0, 1]; let mut f = vec![0u8]; f.extend_from_slice(body); f.push(0x0b); let mut code = vec![1u8, f.len() as u8]; code.extend(f); m.push(10); m.push(code.len() as u8); m.extend(code); m };
        v.push(("enc-memory-size-canonical".into(), with_body(&[0x3f, 0x00, 0x1a])));
        v.push(("enc-memory-size-overlong-index".into(), with_body(&[0x3f, 0x80, 0x00, 0x1a])));              // multi-memory reads a LEB, MVP a single zero byte
        v.push(("enc-memory-grow-overlong-index".into(), with_body(&[0x41, 0x00, 0x40, 0x80, 0x00, 0x1a])));
        v.push(("enc-load-memarg-bit6-memory0".into(), with_body(&[0x41, 0x00, 0x28, 0x42, 0x00, 0x00, 0x1a])));  // align flag bit 6 = explicit memory index follows
        v.push(("enc-load-memarg-offset-6-byte-leb".into(), with_body(&[0x41, 0x00, 0x28, 0x02, 0x80, 0x80, 0x80, 0x80, 0x80, 0x00, 0x1a])));   // a u64 offset LEB only with memory64
        v.push(("enc-load-canonical".into(), with_body(&[0x41, 0x00, 0x28, 0x02, 0x00, 0x1a])));
        v.push(("enc-call-indirect-overlong-table".into(), { let mut m = vec![0, 0x61, 0x73, 0x6d, 1, 0, 0, 0, 1, 4, 1, 0x60, 0, 0, 3, 2, 1, 0, 4, 4, 1, 0x70, 0, 1]; let f = vec![0u8, 0x41, 0x00, 0x11, 0x00, 0x80, 0x00, 0x0b]; let mut code = vec![1u8, f.len() as u8]; code.extend(f); m.push(10); m.push(code.len() as u8); m.extend(code); m }));
    }
    v.push(("empty".into(), vec![])); v.push(("header-only".into(), vec![0, 0x61, 0x73, 0x6d, 1, 0, 0, 0])); v.push(("bad-version".into(), vec![0, 0x61, 0x73, 0x6d, 2, 0, 0, 0])); v.push(("component-header".into(), vec![0, 0x61, 0x73, 0x6d, 0x0d, 0, 1, 0]));
    // many functions / types / a long br_table
    { let mut s = String::from("(module "); for _ in 0..30000 { s.push_str("(func) "); } s.push(')'); if let Some(b) = wat(&s) { v.push(("funcs-30000".into(), b)); } }
    { let mut s = String::from("(module (func (param i32) block "); s.push_str("local.get 0 br_table "); for _ in 0..20000 { s.push_str("0 "); } s.push_str("end))"); if let Some(b) = wat(&s) { v.push(("br-table-20000".into(), b)); } }
    // proposals walrus does not implement (must be rejected, never a panic) and proposals behind only_stable_features
    for (n, s) in [("tag", "(module (tag))"), ("try-table", "(module (tag $e) (func try_table (catch_all 0) end))"), ("gc-struct", "(module (type (struct (field i32))))"), ("gc-array", "(module (type (array i8)))"), ("rec-group", "(module (rec (type (func)) (type (func (param i32)))))"),
        ("call-ref", "(module (type $t (func)) (func (param (ref $t)) local.get 0 call_ref $t))"), ("typed-funcref-table", "(module (type $t (func)) (table 1 (ref null $t)))"), ("i31", "(module (func (result i31ref) i32.const 0 ref.i31))"),
        ("multi-memory", "(module (memory 1) (memory 1))"), ("memory64", "(module (memory i64 1))"), ("table64", "(module (table i64 1 funcref))"), ("threads-shared-memory", "(module (memory 1 1 shared))"), ("threads-atomic", "(module (memory 1 1 shared) (func (result i32) i32.const 0 i32.atomic.load))"),
        ("atomic-fence", "(module (func atomic.fence))"), ("tail-call", "(module (func return_call 0))"), ("simd", "(module (func (result v128) v128.const i32x4 1 2 3 4))"), ("relaxed-simd", "(module (func (param v128 v128) (result v128) local.get 0 local.get 1 i8x16.relaxed_swizzle))"),
        ("extended-const", "(module (global i32 (i32.add (i32.const 1) (i32.const 2))))"), ("custom-page-size", "(module (memory 1 (pagesize 1)))"), ("multi-value", "(module (func (result i32 i32) i32.const 1 i32.const 2))"), ("bulk", "(module (memory 1) (func i32.const 0 i32.const 0 i32.const 0 memory.fill))"),
        ("wide-arith", "(module (func (param i64 i64 i64 i64) (result i64 i64) local.get 0 local.get 1 local.get 2 local.get 3 i64.add128))"), ("shared-global", "(module (global (shared i32) (i32.const 0)))"), ("memory64-offset", "(module (memory i64 1) (func (result i32) i64.const 0 i32.load offset=4294967296))")] {
        if let Some(b) = wat(s) { v.push((format!("proposal-{}", n), b)); } }
    v
}

#[derive(PartialEq, Clone, Copy, Debug)]
enum Verdict { Ok, Err, Panic }

fn walrus_verdict(bytes: &[u8], only_stable: bool) -> (Verdict, String) {
    let b = bytes.to_vec();
    // a thread with the stack size of a main thread: callers do not give walrus more
    let h = std::thread::Builder::new().stack_size(8 << 20).spawn(move || {
        match catch(|| { let mut c = ModuleConfig::new(); c.only_stable_features(only_stable); c.parse(&b).map(|_| ()).map_err(|e| format!("{:#}", e)) }) { Some(Ok(())) => (Verdict::Ok, String::new()), Some(Err(e)) => (Verdict::Err, e), None => (Verdict::Panic, String::new()) } }).unwrap();
    h.join().unwrap_or((Verdict::Panic, "thread died".into()))
}

pub fn main(args: &[String]) {
    let out_dir = &args[0]; let seed: u64 = args[1].parse().unwrap(); let n_mut: usize = args[2].parse().unwrap(); let with_big = args.get(3).map(|s| s == "1").unwrap_or(true);
    std::fs::create_dir_all(out_dir).unwrap();
    let mut r = Rng::new(seed);
    let full = env::walrus_features(false);
    // seeds: fixtures + generated valid modules
    let mut seeds: Vec<Vec<u8>> = fixtures().into_iter().map(|x| x.1).collect();
    // the module-level corpus as well: every module the other checks keep as a regression input is also a seed here
    if let Ok(rd) = std::fs::read_dir("/verif/corpus/mod") { let mut ps: Vec<_> = rd.filter_map(|e| e.ok()).map(|e| e.path()).collect(); ps.sort();
        for p in ps { let b = match p.extension().and_then(|e| e.to_str()) { Some("wat") => std::fs::read_to_string(&p).ok().and_then(|t| wat::parse_str(&t).ok()),
            Some("hex") => std::fs::read_to_string(&p).ok().map(|t| { let t = t.trim().to_string(); (0..t.len() / 2).filter_map(|i| u8::from_str_radix(&t[2 * i..2 * i + 2], 16).ok()).collect() }), _ => None };
            if let Some(b) = b { if amod::validate(&b, full).is_ok() { seeds.push(b); } } } }
    let tab = sigs::build_table(Profile::Full, false, 6);
    let gcfg = GenCfg { profile: Profile::Full, max_funcs: 3, max_depth: 3, seq_len: 5, names: true, customs: true, start: true, active_segments: true };
    for _ in 0..40 { let (w, _) = gen::module(&mut r, &tab, &gcfg); if amod::validate(&w, full).is_ok() { seeds.push(w); } }
    for _ in 0..80 { let (w, _) = genattr::module(&mut r, true); if amod::validate(&w, full).is_ok() { seeds.push(w); } }
    let mut inputs: Vec<(String, Vec<u8>)> = vec![];
    if let Ok(rd) = std::fs::read_dir("/verif/corpus/c05") { let mut ps: Vec<_> = rd.filter_map(|e| e.ok()).map(|e| e.path()).collect(); ps.sort();
        for p in ps { match p.extension().and_then(|e| e.to_str()) { Some("hex") => if let Ok(t) = std::fs::read_to_string(&p) { let t: String = t.lines().filter(|l| !l.starts_with('#')).collect::<String>().trim().to_string(); inputs.push((format!("corpus:{}", p.file_name().unwrap().to_string_lossy()), (0..t.len() / 2).filter_map(|i| u8::from_str_radix(&t[2 * i..2 * i + 2], 16).ok()).collect())); },
            Some("wat") => if let Some(b) = std::fs::read_to_string(&p).ok().and_then(|t| wat(&t)) { inputs.push((format!("corpus:{}", p.file_name().unwrap().to_string_lossy()), b)); }, _ => {} } } }
    for (n, b) in specials() { if !with_big && b.len() > 400_000 { continue; } inputs.push((n, b)); }
    for (i, s) in seeds.iter().enumerate() { inputs.push((format!("seed{}", i), s.clone())); }
    let mut kinds: std::collections::BTreeMap<&'static str, u64> = Default::default();
    for k in 0..n_mut { let s = r.pick(&seeds).clone(); let (mut b, mut kind) = mutate(&mut r, &s, &seeds); if r.chance(1, 4) { let (b2, k2) = mutate(&mut r, &b, &seeds); b = b2; if kind == "none" { kind = k2; } } *kinds.entry(kind).or_default() += 1; inputs.push((format!("mut{}:{}", k, kind), b)); }
    for k in 0..(n_mut / 10) { let n = 8 + r.usize(120); let mut b = vec![0, 0x61, 0x73, 0x6d, 1, 0, 0, 0]; for _ in 0..n { b.push(r.below(256) as u8); } if r.chance(1, 5) { b = b[8..].to_vec(); } inputs.push((format!("random{}", k), b)); }

    let mut viol: Vec<Json> = vec![]; let (mut n_ok, mut n_err, mut n_valid_ref, mut n_total) = (0u64, 0u64, 0u64, 0u64); let mut slowest = (0f64, String::new());
    let mut err_kinds: std::collections::BTreeMap<String, u64> = Default::default();
    for (name, bytes) in &inputs {
        for only_stable in [false, true] {
            n_total += 1;
            std::fs::write(format!("{}/current.hex", out_dir), format!("# {} only_stable={}\n{}\n", name, only_stable, hex(bytes))).ok();
            let feats = env::walrus_features(only_stable);
            let reference = amod::validate(bytes, feats);
            if reference.is_ok() { n_valid_ref += 1; }
            let t0 = std::time::Instant::now();
            let (v, msg) = walrus_verdict(bytes, only_stable);
            let dt = t0.elapsed().as_secs_f64(); if dt > slowest.0 { slowest = (dt, name.clone()); }
            match v { Verdict::Ok => n_ok += 1, Verdict::Err => { n_err += 1; let k: String = msg.split(':').next().unwrap_or("").split(" (at offset").next().unwrap_or("").chars().take(48).collect(); *err_kinds.entry(k).or_default() += 1; } _ => {} }
            let mk = |class: &str, what: String| Json::obj(vec![("class", Json::s(class)), ("props", Json::s("C05")), ("what", Json::s(what)), ("input", Json::s(hex(bytes))), ("only_stable", Json::Bool(only_stable))]);
            match (v, reference.is_ok()) {
                (Verdict::Panic, _) => viol.push(mk("parse-panics", format!("{}: Module parse unwinds (only_stable_features={}); the reference validator says {}", name, only_stable, if reference.is_ok() { "valid".to_string() } else { format!("invalid: {}", reference.clone().unwrap_err()) }))),
                (Verdict::Ok, false) => viol.push(mk("accepts-invalid", format!("{}: walrus accepts (only_stable_features={}) what the reference validator rejects: {}", name, only_stable, reference.clone().unwrap_err()))),
                (Verdict::Err, true) => viol.push(mk("rejects-valid", format!("{}: walrus rejects (only_stable_features={}) a module the reference validator accepts under the same features: {}", name, only_stable, msg))),
                _ => {}
            }
            if dt > 20.0 { viol.push(mk("parse-too-slow", format!("{}: parsing {} bytes took {:.1} s", name, bytes.len(), dt))); }
        }
    }
    std::fs::remove_file(format!("{}/current.hex", out_dir)).ok();
    let meta = Json::obj(vec![("cases", Json::n(n_total as f64)), ("inputs", Json::u(inputs.len())), ("seeds", Json::u(seeds.len())), ("mutants", Json::u(n_mut)), ("accepted_by_walrus", Json::n(n_ok as f64)), ("rejected_by_walrus", Json::n(n_err as f64)), ("valid_by_reference", Json::n(n_valid_ref as f64)),
        ("mutation_kinds", Json::obj(kinds.iter().map(|(k, v)| (*k, Json::n(*v as f64))).collect())), ("walrus_error_kinds", Json::Arr(err_kinds.iter().map(|(k, v)| Json::s(&format!("{} x{}", k, v))).collect())),
        ("slowest", Json::s(&format!("{:.2}s {}", slowest.0, slowest.1))), ("oracle_violations", Json::Arr(viol))]);
    std::fs::write(format!("{}/meta.json", out_dir), meta.to_string()).unwrap();
}
