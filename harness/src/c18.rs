//! C18: function replacement edits on generated modules: every imported / exported function x
//! generated replacement bodies; model correspondence (Run/ModuleRun.check_edit) + independent oracle.
use crate::amod::{self, AImportKind, AMod};
use crate::env;
use crate::genattr;
use crate::modrun::{fixtures, Cfg, VERSION};
use crate::rng::Rng;
use crate::util::{catch, CaseWriter, Json};
use crate::wmodcoq;
use walrus::ir::Value;
use walrus::*;

const MARKER: i32 = 24301;
fn vt_const(b: &mut InstrSeqBuilder, t: &walrus::ValType) {
    match t { walrus::ValType::I32 => { b.i32_const(5); } walrus::ValType::I64 => { b.i64_const(6); } walrus::ValType::F32 => { b.f32_const(1.5); } walrus::ValType::F64 => { b.f64_const(2.5); }
        walrus::ValType::V128 => { b.const_(Value::V128(7)); } walrus::ValType::Ref(r) => { b.ref_null(*r); } }
}
fn vt_const_coq(t: &walrus::ValType) -> String {
    match t { walrus::ValType::I32 => "BInstr (IPlain (P_Const (V_I32 (5)%Z)))".into(), walrus::ValType::I64 => "BInstr (IPlain (P_Const (V_I64 (6)%Z)))".into(), walrus::ValType::F32 => format!("BInstr (IPlain (P_Const (V_F32 {})))", 1.5f32.to_bits()),
        walrus::ValType::F64 => format!("BInstr (IPlain (P_Const (V_F64 {})))", 2.5f64.to_bits()), walrus::ValType::V128 => "BInstr (IPlain (P_Const (V_V128 7)))".into(),
        walrus::ValType::Ref(RefType::Externref) => "BInstr (IPlain (P_RefNull RT_Externref))".into(), walrus::ValType::Ref(_) => "BInstr (IPlain (P_RefNull RT_Funcref))".into() }
}
fn n_imp_funcs(a: &AMod) -> usize { a.imports.iter().filter(|i| matches!(i.2, AImportKind::Func(_))).count() }
fn has_marker(b: &amod::ABody) -> bool { b.ops.iter().any(|o| o.0.as_deref() == Some(&format!("WOp (W_I32Const ({})%Z)", MARKER))) }

pub fn main(args: &[String]) {
    let out_dir = &args[0]; let seed: u64 = args[1].parse().unwrap(); let n_attr: usize = args[2].parse().unwrap();
    let mut r = Rng::new(seed);
    let header = "From WV Require Import Gen.Ops Model.Common Model.IR Model.Builder Model.ModuleM Run.ModuleRun.\nOpen Scope N_scope.";
    let mut w = CaseWriter::new(out_dir, "c18", header, "ecase", "check_edit", 10);
    let feats = env::walrus_features(false);
    let mut viol: Vec<Json> = vec![]; let mut samples = vec![];
    let mut inputs: Vec<(String, Vec<u8>)> = vec![];
    if let Ok(rd) = std::fs::read_dir("/verif/corpus/c18") { let mut ps: Vec<_> = rd.filter_map(|e| e.ok()).map(|e| e.path()).collect(); ps.sort();
        for p in ps { if p.extension().and_then(|e| e.to_str()) == Some("wat") { if let Ok(b) = std::fs::read_to_string(&p).map_err(|e| e.to_string()).and_then(|t| wat::parse_str(&t).map_err(|e| e.to_string())) { inputs.push((format!("corpus:{}", p.file_name().unwrap().to_string_lossy()), b)); } } } }
    inputs.extend(fixtures().into_iter().filter(|f| f.0.contains("import") || f.0.contains("call") || f.0.contains("elem")));
    let mut k = 0; let mut tries = 0; while k < n_attr && tries < 50 * n_attr + 100 { tries += 1; let (wasm, _) = genattr::module(&mut r, true); if amod::validate(&wasm, feats).is_err() { continue; }
        let a = amod::decode(&wasm).unwrap(); if n_imp_funcs(&a) == 0 && !a.exports.iter().any(|e| e.1 == 0) { continue; } inputs.push((format!("attr{}", k), wasm)); k += 1; }
    let (mut n_imp_edits, mut n_exp_edits, mut n_cases) = (0u64, 0u64, 0u64);
    let cfg = Cfg { names: true, producers: false, gc: false, only_stable: false, synthetic: false };
    let ver = format!("[{}]", VERSION.bytes().map(|b| b.to_string()).collect::<Vec<_>>().join(";"));
    for (name, wasm) in &inputs {
        if amod::validate(wasm, feats).is_err() { continue; }
        let a = match amod::decode(wasm) { Ok(a) => a, Err(_) => continue };
        let win = match wmodcoq::wmod(wasm, false) { Some(s) => s, None => continue };
        let ni = n_imp_funcs(&a); let nfuncs = ni + a.funcs.len();
        // the body that is built is the body the function gets: also the EMPTY body (only possible for a function without results) and a one-instruction body
        for fidx in 0..ni { let sig = crate_sig(&a, fidx as u32); if !sig.1.is_empty() { continue; }
            for shape in 0..4u8 { let res = catch(|| -> Option<(usize, Vec<String>)> {
                    let (mut m, pm) = crate::irdump::parse_with_maps(wasm, &mut cfg.module_config()).ok()?; let fid_ix = pm.funcs[fidx]; let fid = m.funcs.iter().find(|f| f.id().index() == fid_ix).unwrap().id();
                    // shape 2: the body uses a scratch local that was allocated BEFORE the edit (the closure cannot reach module.locals), so its id is lower than the new parameters' ids
                    let scratch = if shape == 2 { Some(m.locals.add(walrus::ValType::I64)) } else { None };
                    // shape 3: the import ENTRY of the function is deleted and added again under another module name before the edit (the function's own record of
                    // "its" import entry is then out of date): the edit must remove the entry that imports the function NOW
                    if shape == 3 { let old = m.imports.get_imported_func(fid)?.id(); m.imports.delete(old); m.imports.add("verif-moved", "f", fid); }
                    let nid = m.replace_imported_func(fid, |(b, _args)| { if shape == 1 || shape == 3 { b.i32_const(MARKER); b.drop(); } if let Some(l) = scratch { b.i64_const(MARKER as i64); b.local_set(l); b.local_get(l); b.drop(); } }).ok()?;
                    let lf = m.funcs.get(nid).kind.unwrap_local(); let n_ir = lf.block(lf.entry_block()).instrs.len();
                    let (rec, em) = crate::irdump::IndexRecorder::for_module(&m); m.customs.add(rec); let o = m.emit_wasm(); let em = em.lock().unwrap().clone();
                    let b = amod::decode(&o).ok()?; let nib = n_imp_funcs(&b); let ix = *em.funcs.get(&nid.index())? as usize; let body = b.code.get(ix.checked_sub(nib)?)?;
                    if shape == 3 && (b.imports.iter().any(|i| i.0 == "verif-moved") || nib + 1 != ni) { return Some((n_ir, vec![format!("imports after the edit: {:?}", b.imports.iter().map(|i| format!("{}.{}", i.0, i.1)).collect::<Vec<_>>())])); }
                    if shape == 2 { // the scratch local is the one declared local, right after the parameters
                        let np = sig.0.len() as u32; let want_ops = format!("[I64Const {{ value: {} }}, LocalSet {{ local_index: {} }}, LocalGet {{ local_index: {} }}, Drop, End]", MARKER as i64, np, np);
                        let mut got = vec![]; let mut decl = vec![];
                        for p in wasmparser::Parser::new(0).parse_all(&o) { if let Ok(wasmparser::Payload::CodeSectionEntry(bd)) = p { if got.len() == ix - nib { decl = bd.get_locals_reader().ok()?.into_iter().filter_map(|x| x.ok()).collect(); let ops: Vec<_> = bd.get_operators_reader().ok()?.into_iter().filter_map(|x| x.ok()).collect(); got.push(format!("{:?}", ops)); } else { got.push(String::new()); } } }
                        if got.get(ix - nib) != Some(&want_ops) || decl != vec![(1, wasmparser::ValType::I64)] { return Some((n_ir, vec![format!("locals {:?} body {}", decl, got.get(ix - nib).cloned().unwrap_or_default())])); } }
                    Some((n_ir, body.ops.iter().map(|o| o.2.to_string()).collect())) });
                let want: Vec<String> = if shape == 1 || shape == 3 { vec!["I32Const".into(), "Drop".into(), "End".into()] } else if shape == 2 { vec!["I64Const".into(), "LocalSet".into(), "LocalGet".into(), "Drop".into(), "End".into()] } else { vec!["End".into()] };
                match res { Some(Some((n_ir, ops))) => if ops != want || n_ir != want.len() - 1 { viol.push(v("edit-body-is-not-the-body-that-was-built", "C18", format!("{}: replace_imported_func on function {} with a body of {} instruction(s): the function holds {} instruction(s) and is emitted as {:?}", name, fidx, want.len() - 1, n_ir, ops), wasm)); },
                    Some(None) => {}, None => viol.push(v("edit-panics", "C18 C02", format!("{}: replace_imported_func on function {} with a body of {} instruction(s) panics", name, fidx, want.len() - 1), wasm)) } }
            break; }
        for fidx in 0..nfuncs {
            let exported = a.exports.iter().any(|e| e.1 == 0 && e.2 as usize == fidx);
            let kinds: Vec<u8> = if fidx < ni { if exported { vec![1, 2] } else { vec![1] } } else if exported {   // a re-exported import: the export edit must be refused (there is no original body to keep)
                vec![2] } else if r.chance(1, 6) { vec![if r.chance(1, 2) { 1 } else { 2 }] } else { vec![] };   // sometimes an edit that must be refused
            for kind in kinds {
                let use_args = r.chance(1, 2); let trap = r.chance(1, 4);
                let sig = crate_sig(&a, fidx as u32);
                // real walrus
                let res = catch(|| -> std::result::Result<(Vec<u8>, usize), String> {
                    let (mut m, pm) = crate::irdump::parse_with_maps(wasm, &mut cfg.module_config()).map_err(|e| format!("parse: {:#}", e))?;
                    let fid_ix = pm.funcs[fidx]; let fid = m.funcs.iter().find(|f| f.id().index() == fid_ix).unwrap().id();
                    let results: Vec<walrus::ValType> = m.types.get(m.funcs.get(fid).ty()).results().to_vec();
                    let body = |(b, args): (&mut InstrSeqBuilder, &Vec<LocalId>)| {
                        if use_args { for a in args.iter() { b.local_get(*a); b.drop(); } }
                        b.i32_const(MARKER); b.drop();
                        if trap { b.unreachable(); } else { for t in &results { vt_const(b, t); } }
                    };
                    let nid = if kind == 1 { m.replace_imported_func(fid, body).map_err(|e| format!("edit: {:#}", e))? } else { m.replace_exported_func(fid, body).map_err(|e| format!("edit: {:#}", e))? };
                    Ok((m.emit_wasm(), nid.index()))
                });
                let results_coq: Vec<String> = sig.1.iter().map(wvt_to_walrus).map(|t| vt_const_coq(&t)).collect();
                let mut prog = vec![format!("BInstr (IPlain (P_Const (V_I32 ({})%Z)))", MARKER), "BInstr (IPlain P_Drop)".to_string()];
                if trap { prog.push("BInstr (IPlain P_Unreachable)".into()); } else { prog.extend(results_coq); }
                let (obs, wout) = match &res {
                    Some(Ok((o, _))) => match wmodcoq::wmod(o, false) { Some(s) => (0, s), None => { viol.push(v("output-undecodable-after-edit", "C18 C02", format!("{}: output of the edited module cannot be decoded", name), wasm)); continue } },
                    Some(Err(e)) if e.starts_with("edit:") => (1, "[]".to_string()),
                    Some(Err(_)) => continue,
                    None => (2, "[]".to_string()),
                };
                if kind == 1 { n_imp_edits += 1; } else { n_exp_edits += 1; }
                let line = format!("Build_ecase {} {} {} {} {} {} [{}] {} {}", cfg.coq(), ver, win, kind, fidx, use_args, prog.join("; "), obs, wout);
                w.push(&line); n_cases += 1; if samples.len() < 2 && line.len() < 1400 { samples.push(line.clone()); }
                // ---- independent oracle
                let should_succeed = (kind == 1 && fidx < ni) || (kind == 2 && fidx >= ni && exported);
                match &res {
                    None => viol.push(v("edit-panics", "C18 C02", format!("{}: {} on function {} panics", name, if kind == 1 { "replace_imported_func" } else { "replace_exported_func" }, fidx), wasm)),
                    Some(Err(e)) => if should_succeed { viol.push(v("edit-refused", "C18", format!("{}: edit of function {} refused: {}", name, fidx, e), wasm)); },
                    Some(Ok((o, _))) => {
                        if !should_succeed { viol.push(v("edit-accepted-wrongly", "C18", format!("{}: {} accepted function {} which is not {}", name, if kind == 1 { "replace_imported_func" } else { "replace_exported_func" }, fidx, if kind == 1 { "imported" } else { "exported" }), wasm)); continue; }
                        if let Err(e) = amod::validate(o, feats) { viol.push(v(if e.contains("undeclared function reference") { if kind == 2 && only_declared_by_one_export(&a, fidx as u32) { "edit-output-invalid:undeclared-function-reference:only-declarer-was-the-retargeted-export" } else { "edit-output-invalid:undeclared-function-reference:other" } } else { "edit-output-invalid" }, "C18 C02", format!("{}: module is invalid after the edit of function {}: {}", name, fidx, e), wasm)); continue; }
                        let b = amod::decode(o).unwrap(); let nib = n_imp_funcs(&b);
                        let marked: Vec<usize> = b.code.iter().enumerate().filter(|(_, c)| has_marker(c)).map(|(i, _)| i + nib).collect();
                        if marked.len() != 1 { viol.push(v("edit-wrong-number-of-new-bodies", "C18", format!("{}: {} functions carry the replacement body", name, marked.len()), wasm)); continue; }
                        let new_ix = marked[0] as u32;
                        // the closure received the replacement's OWN parameters: a body written as `local.get arg_k; drop` for every argument reads parameters 0..n-1 in order
                        if use_args { let body = &b.code[new_ix as usize - nib]; let np = sig.0.len();
                            let got: Vec<String> = body.ops.iter().take(2 * np).map(|o| o.0.clone().unwrap_or_default()).collect();
                            let want: Vec<String> = (0..np).flat_map(|k| vec![format!("WOp (W_LocalGet {})", k), "WOp (W_Drop)".to_string()]).collect();
                            if got != want || !body.locals.is_empty() { viol.push(v("edit-body-not-on-its-own-parameters", "C18", format!("{}: the replacement of function {} was built from `local.get arg; drop` for each of its {} arguments but starts with {:?} and declares locals {:?}", name, fidx, np, got, body.locals), wasm)); } }
                        if crate_sig(&b, new_ix) != sig { viol.push(v("edit-signature-changed", "C18", format!("{}: the replacement of function {} has another signature", name, fidx), wasm)); }
                        let names_of = |m: &AMod, ix: u32| -> Vec<String> { m.exports.iter().filter(|e| e.1 == 0 && e.2 == ix).map(|e| e.0.clone()).collect() };
                        if kind == 1 {
                            // removes only that import; everything that referred to the function now refers to the new body
                            let imps = |m: &AMod| -> Vec<(String, String)> { m.imports.iter().map(|i| (i.0.clone(), i.1.clone())).collect() };
                            let mut want = imps(&a); let pos = a.imports.iter().enumerate().filter(|(_, i)| matches!(i.2, AImportKind::Func(_))).nth(fidx).map(|x| x.0).unwrap(); want.remove(pos);
                            if imps(&b) != want { viol.push(v("edit-imports-wrong", "C18", format!("{}: after replacing imported function {} the import list is not the old one minus that import", name, fidx), wasm)); }
                            if names_of(&a, fidx as u32) != names_of(&b, new_ix) { viol.push(v("edit-export-not-rewired", "C18", format!("{}: exports of the replaced import {} do not all point at the new body", name, fidx), wasm)); }
                            // callers and table entries: count of references must carry over
                            if refs_to(&a, fidx as u32) != refs_to(&b, new_ix) { viol.push(v("edit-callers-not-rewired", "C18", format!("{}: references to imported function {}: {:?} before, {:?} to the new body after", name, fidx, refs_to(&a, fidx as u32), refs_to(&b, new_ix)), wasm)); }
                            if a.funcs.len() + ni != b.funcs.len() + nib { viol.push(v("edit-function-count", "C18", format!("{}: number of functions changed", name), wasm)); }
                            // the function keeps its identity, so it keeps its debug name (the configuration writes the name section)
                            { let (na, nb) = (crate::oracles::function_names(&a), crate::oracles::function_names(&b)); if let Some(n) = na.get(&(fidx as u32)) { if nb.get(&new_ix) != Some(n) {
                                viol.push(v("edit-loses-name", "C18 C13", format!("{}: imported function {} is named {:?} in the input; after replace_imported_func the function carrying the new body is named {:?}", name, fidx, n, nb.get(&new_ix)), wasm)); } } }
                        } else {
                            // retargets only that export; the original stays for internal callers
                            let first = a.exports.iter().position(|e| e.1 == 0 && e.2 as usize == fidx).unwrap();
                            let moved: Vec<usize> = (0..a.exports.len()).filter(|k| b.exports[*k].1 == 0 && b.exports[*k].2 == new_ix).collect();
                            if moved != vec![first] { viol.push(v("edit-export-retarget-wrong", "C18", format!("{}: replace_exported_func({}) retargeted exports {:?}, expected exactly [{}]", name, fidx, moved, first), wasm)); }
                            if a.exports.iter().map(|e| (&e.0, e.1)).collect::<Vec<_>>() != b.exports.iter().map(|e| (&e.0, e.1)).collect::<Vec<_>>() { viol.push(v("edit-exports-changed", "C18", format!("{}: export names/kinds changed", name), wasm)); }
                            if a.funcs.len() + 1 != b.funcs.len() || a.imports != b.imports.iter().cloned().map(|mut i| { if let AImportKind::Func(_) = i.2 { i } else { i } }).collect::<Vec<_>>() && a.imports.len() != b.imports.len() { viol.push(v("edit-function-count", "C18", format!("{}: expected exactly one more function and the same imports", name), wasm)); }
                            // element segments: untouched, except for ONE new declared segment listing exactly the functions that the retargeted export leaves undeclared for `ref.func`
                            if b.elems.len() == a.elems.len() + 1 { let ok = match b.elems.last() { Some(crate::amod::AElem { kind: crate::amod::AElemKind::Declared, items: crate::amod::AElemItems::Funcs(fs) }) => { let mut b2 = b.clone(); b2.elems.pop(); let mut o = crate::oracles::undeclared_reffuncs_all(&b2); o.sort(); let mut fs = fs.clone(); fs.sort(); !fs.is_empty() && fs == o }, _ => false };
                                let norm = |k: &crate::amod::AElemKind| match k { crate::amod::AElemKind::Active { table, offset } => crate::amod::AElemKind::Active { table: if *table == Some(0) { None } else { *table }, offset: offset.clone() }, other => other.clone() };
                                if !ok || b.elems[..a.elems.len()].iter().map(|e| norm(&e.kind)).collect::<Vec<_>>() != a.elems.iter().map(|e| norm(&e.kind)).collect::<Vec<_>>() { viol.push(v("edit-declares-wrong-functions", "C18", format!("{}: the element segment added by replace_exported_func({}) is not a declared segment listing exactly the functions that would otherwise be undeclared", name, fidx), wasm)); } }
                            else if b.elems.len() != a.elems.len() { viol.push(v("edit-elements-changed", "C18", format!("{}: replace_exported_func({}) changed the number of element segments from {} to {}", name, fidx, a.elems.len(), b.elems.len()), wasm)); }
                            if refs_to(&b, new_ix).0 + refs_to(&b, new_ix).1 != 0 { viol.push(v("edit-internal-callers-retargeted", "C18", format!("{}: internal references point at the replacement of exported function {}", name, fidx), wasm)); }
                        }
                    }
                }
            }
        }
    }
    w.finish();
    let meta = Json::obj(vec![("cases", Json::n(n_cases as f64)), ("inputs", Json::u(inputs.len())), ("replace_imported_edits", Json::n(n_imp_edits as f64)), ("replace_exported_edits", Json::n(n_exp_edits as f64)),
        ("samples", Json::Arr(samples.into_iter().map(|s| Json::Str(s.chars().take(900).collect())).collect())), ("oracle_violations", Json::Arr(viol))]);
    std::fs::write(format!("{}/meta.json", out_dir), meta.to_string()).unwrap();
}
fn v(class: &str, props: &str, what: String, wasm: &[u8]) -> Json { Json::obj(vec![("class", Json::s(class)), ("props", Json::s(props)), ("what", Json::s(what)), ("input", Json::s(crate::c03::hex(wasm)))]) }
fn crate_sig(a: &AMod, idx: u32) -> (Vec<wasmparser::ValType>, Vec<wasmparser::ValType>) {
    let ni = n_imp_funcs(a);
    let ti = if (idx as usize) < ni { a.imports.iter().filter_map(|i| if let AImportKind::Func(t) = i.2 { Some(t) } else { None }).nth(idx as usize).unwrap() } else { a.funcs[idx as usize - ni] };
    a.types[ti as usize].clone()
}
fn wvt_to_walrus(t: &wasmparser::ValType) -> walrus::ValType {
    match t { wasmparser::ValType::I32 => walrus::ValType::I32, wasmparser::ValType::I64 => walrus::ValType::I64, wasmparser::ValType::F32 => walrus::ValType::F32, wasmparser::ValType::F64 => walrus::ValType::F64, wasmparser::ValType::V128 => walrus::ValType::V128,
        wasmparser::ValType::Ref(r) if *r == wasmparser::RefType::EXTERNREF => walrus::ValType::Ref(RefType::Externref), _ => walrus::ValType::Ref(RefType::Funcref) }
}
/// (number of live call/ref.func/return_call sites, number of element items + start + global inits) referring to function idx
fn refs_to(a: &AMod, idx: u32) -> (usize, usize) {
    let mut code = 0; let pats = [format!("WOp (W_Call {})", idx), format!("WOp (W_ReturnCall {})", idx), format!("WOp (W_RefFunc {})", idx)];
    for b in &a.code { if has_marker(b) { continue; } let live = crate::body::live_mask(&b.ops); for (k, o) in b.ops.iter().enumerate() { if live[k] { if let Some(t) = &o.0 { if pats.contains(t) { code += 1; } } } } }
    let mut other = 0; let rf = format!("W_RefFunc {}", idx);
    for e in &a.elems { match &e.items { amod::AElemItems::Funcs(f) => other += f.iter().filter(|x| **x == idx).count(), amod::AElemItems::Exprs(_, es) => other += es.iter().filter(|c| c.contains(&rf)).count() } }
    for g in &a.globals { if let Some(c) = &g.init { if c.contains(&rf) { other += 1; } } }
    if a.start == Some(idx) { other += 1; }
    (code, other)
}

/// the recorded finding: function `f` is the operand of a `ref.func` somewhere, and the ONLY thing that declares it
/// for the validator is a single export (the one replace_exported_func retargets)
fn only_declared_by_one_export(a: &AMod, f: u32) -> bool {
    let n_exp = a.exports.iter().filter(|e| e.1 == 0 && e.2 == f).count();
    let cd = |c: &Vec<String>| c.iter().any(|t| t.strip_prefix("W_RefFunc ").and_then(|y| y.parse::<u32>().ok()) == Some(f));
    let by_elem = a.elems.iter().any(|el| match &el.items { crate::amod::AElemItems::Funcs(fs) => fs.contains(&f), crate::amod::AElemItems::Exprs(_, es) => es.iter().any(|c| cd(c)) });
    let by_global = a.globals.iter().any(|gl| gl.init.as_ref().map(|c| cd(c)).unwrap_or(false));
    let refd = a.code.iter().any(|b| b.ops.iter().any(|o| o.0.as_ref().map(|t| t.contains(&format!("W_RefFunc {})", f)) || t.ends_with(&format!("W_RefFunc {}", f))).unwrap_or(false)));
    n_exp == 1 && !by_elem && !by_global && refd
}
