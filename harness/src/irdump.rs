//! Observations of walrus's real IR through its public API: the reachable instruction
//! sequences of a function printed as Coq terms, recording visitors for both traversals,
//! the parse-time and emit-time index maps.
use crate::gen_ir_print;
use std::collections::{BTreeMap, BTreeSet, HashMap};
use std::sync::{Arc, Mutex};
use walrus::ir::*;
use walrus::*;

pub fn instr_coq(i: &Instr) -> String {
    match i {
        Instr::Block(b) => format!("IBlock {}", b.seq.index()),
        Instr::Loop(b) => format!("ILoop {}", b.seq.index()),
        Instr::IfElse(b) => format!("IIfElse {} {}", b.consequent.index(), b.alternative.index()),
        Instr::Br(b) => format!("IBr {}", b.block.index()),
        Instr::BrIf(b) => format!("IBrIf {}", b.block.index()),
        Instr::BrTable(b) => format!("IBrTable [{}] {}", b.blocks.iter().map(|x| x.index().to_string()).collect::<Vec<_>>().join(";"), b.default.index()),
        other => format!("IPlain {}", gen_ir_print::plain(other).expect("non-control instruction")),
    }
}
pub fn loc_coq(l: &InstrLocId) -> String { if l.is_default() { "4294967295".to_string() } else { l.data().to_string() } }
pub fn seqty_coq(t: &InstrSeqType) -> String {
    match t { InstrSeqType::Simple(None) => "ST_Simple None".into(), InstrSeqType::Simple(Some(v)) => format!("ST_Simple (Some {})", gen_ir_print::valty(v)), InstrSeqType::MultiValue(t) => format!("ST_Multi {}", t.index()) }
}
pub fn iseq_coq(s: &InstrSeq) -> String {
    format!("{{| sq_ty := {}; sq_instrs := [{}]; sq_end := {} |}}", seqty_coq(&s.ty),
        s.instrs.iter().map(|(i, l)| format!("({}, {})", instr_coq(i), loc_coq(l))).collect::<Vec<_>>().join("; "), loc_coq(&s.end))
}

/// Reachable sequences of a function, by arena index.
pub fn reachable(f: &LocalFunction) -> BTreeMap<usize, String> {
    let mut out = BTreeMap::new(); let mut todo = vec![f.entry_block()]; let mut seen = BTreeSet::new();
    while let Some(id) = todo.pop() {
        if !seen.insert(id.index()) { continue; }
        let s = f.block(id);
        out.insert(id.index(), iseq_coq(s));
        for (i, _) in &s.instrs { match i { Instr::Block(b) => todo.push(b.seq), Instr::Loop(b) => todo.push(b.seq), Instr::IfElse(b) => { todo.push(b.consequent); todo.push(b.alternative); } _ => {} } }
    }
    out
}

/// Recording visitor with default per-variant hooks.
#[derive(Default)]
pub struct Rec { pub log: Vec<String> }
impl<'a> Visitor<'a> for Rec {
    fn start_instr_seq(&mut self, s: &'a InstrSeq) { self.log.push(format!("EStart {}", s.id().index())); }
    fn end_instr_seq(&mut self, s: &'a InstrSeq) { self.log.push(format!("EEnd {}", s.id().index())); }
    fn visit_instr(&mut self, i: &'a Instr, l: &'a InstrLocId) { self.log.push(format!("EInstr ({}) {}", instr_coq(i), loc_coq(l))); }
    fn visit_instr_seq_id(&mut self, s: &InstrSeqId) { self.log.push(format!("ESeqRef {}", s.index())); }
    fn visit_local_id(&mut self, x: &LocalId) { self.log.push(format!("ERef S_local {}", x.index())); }
    fn visit_memory_id(&mut self, x: &MemoryId) { self.log.push(format!("ERef S_memory {}", x.index())); }
    fn visit_table_id(&mut self, x: &TableId) { self.log.push(format!("ERef S_table {}", x.index())); }
    fn visit_global_id(&mut self, x: &GlobalId) { self.log.push(format!("ERef S_global {}", x.index())); }
    fn visit_function_id(&mut self, x: &FunctionId) { self.log.push(format!("ERef S_func {}", x.index())); }
    fn visit_data_id(&mut self, x: &DataId) { self.log.push(format!("ERef S_data {}", x.index())); }
    fn visit_type_id(&mut self, x: &TypeId) { self.log.push(format!("ERef S_type {}", x.index())); }
    fn visit_element_id(&mut self, x: &ElementId) { self.log.push(format!("ERef S_elem {}", x.index())); }
}
/// The same for the mutable traversal (mutates nothing).
#[derive(Default)]
pub struct RecMut { pub log: Vec<String> }
impl VisitorMut for RecMut {
    fn start_instr_seq_mut(&mut self, s: &mut InstrSeq) { self.log.push(format!("EStart {}", s.id().index())); }
    fn end_instr_seq_mut(&mut self, s: &mut InstrSeq) { self.log.push(format!("EEnd {}", s.id().index())); }
    fn visit_instr_mut(&mut self, i: &mut Instr, l: &mut InstrLocId) { self.log.push(format!("EInstr ({}) {}", instr_coq(i), loc_coq(l))); }
    fn visit_instr_seq_id_mut(&mut self, s: &mut InstrSeqId) { self.log.push(format!("ESeqRef {}", s.index())); }
    fn visit_local_id_mut(&mut self, x: &mut LocalId) { self.log.push(format!("ERef S_local {}", x.index())); }
    fn visit_memory_id_mut(&mut self, x: &mut MemoryId) { self.log.push(format!("ERef S_memory {}", x.index())); }
    fn visit_table_id_mut(&mut self, x: &mut TableId) { self.log.push(format!("ERef S_table {}", x.index())); }
    fn visit_global_id_mut(&mut self, x: &mut GlobalId) { self.log.push(format!("ERef S_global {}", x.index())); }
    fn visit_function_id_mut(&mut self, x: &mut FunctionId) { self.log.push(format!("ERef S_func {}", x.index())); }
    fn visit_data_id_mut(&mut self, x: &mut DataId) { self.log.push(format!("ERef S_data {}", x.index())); }
    fn visit_type_id_mut(&mut self, x: &mut TypeId) { self.log.push(format!("ERef S_type {}", x.index())); }
    fn visit_element_id_mut(&mut self, x: &mut ElementId) { self.log.push(format!("ERef S_elem {}", x.index())); }
}
/// InstrSeq::visit reports the multi-value type through visit_type_id: in the model that event is
/// [ESeqType]; the recorder cannot tell it apart from an instruction operand, so the driver
/// rewrites the first `ERef S_type` after an `EStart` of a multi-value sequence.
pub fn fix_seq_type(log: &mut Vec<String>, f: &LocalFunction, ids: &HashMap<usize, InstrSeqId>) {
    let mut k = 0;
    while k + 1 < log.len() {
        if let Some(rest) = log[k].strip_prefix("EStart ") {
            let sid: usize = rest.parse().unwrap();
            if let Some(id) = ids.get(&sid) { if let InstrSeqType::MultiValue(t) = f.block(*id).ty { if log[k + 1] == format!("ERef S_type {}", t.index()) { log[k + 1] = format!("ESeqType {}", t.index()); } } }
        }
        k += 1;
    }
}
pub fn seq_ids(f: &LocalFunction) -> HashMap<usize, InstrSeqId> {
    let mut out = HashMap::new(); let mut todo = vec![f.entry_block()];
    while let Some(id) = todo.pop() { if out.insert(id.index(), id).is_some() { continue; }
        for (i, _) in &f.block(id).instrs { match i { Instr::Block(b) => todo.push(b.seq), Instr::Loop(b) => todo.push(b.seq), Instr::IfElse(b) => { todo.push(b.consequent); todo.push(b.alternative); } _ => {} } } }
    out
}

/// Parse-time maps captured through ModuleConfig::on_parse: per space, index -> id index.
#[derive(Default, Clone, Debug)]
pub struct ParseMaps { pub funcs: Vec<usize>, pub types: Vec<usize>, pub tables: Vec<usize>, pub memories: Vec<usize>, pub globals: Vec<usize>, pub elements: Vec<usize>, pub data: Vec<usize>,
    /// function id index -> local index -> local id index
    pub locals: BTreeMap<usize, Vec<usize>> }

pub fn parse_with_maps(wasm: &[u8], cfg: &mut ModuleConfig) -> Result<(Module, ParseMaps)> {
    let maps = Arc::new(Mutex::new(ParseMaps::default())); let m2 = maps.clone();
    cfg.on_parse(move |m, ids| {
        let mut pm = m2.lock().unwrap();
        let mut i = 0; while let Ok(x) = ids.get_func(i) { pm.funcs.push(x.index()); i += 1; }
        let mut i = 0; while let Ok(x) = ids.get_type(i) { pm.types.push(x.index()); i += 1; }
        let mut i = 0; while let Ok(x) = ids.get_table(i) { pm.tables.push(x.index()); i += 1; }
        let mut i = 0; while let Ok(x) = ids.get_memory(i) { pm.memories.push(x.index()); i += 1; }
        let mut i = 0; while let Ok(x) = ids.get_global(i) { pm.globals.push(x.index()); i += 1; }
        let mut i = 0; while let Ok(x) = ids.get_element(i) { pm.elements.push(x.index()); i += 1; }
        let mut i = 0; while let Ok(x) = ids.get_data(i) { pm.data.push(x.index()); i += 1; }
        for f in m.funcs.iter() { let mut v = vec![]; let mut i = 0; while let Ok(l) = ids.get_local(f.id(), i) { v.push(l.index()); i += 1; } if !v.is_empty() { pm.locals.insert(f.id().index(), v); } }
        Ok(())
    });
    let m = cfg.parse(wasm)?;
    let pm = maps.lock().unwrap().clone();
    Ok((m, pm))
}

/// Emit-time maps captured by a custom section while it serialises: per space, id index -> index.
#[derive(Default, Clone, Debug)]
pub struct EmitMaps { pub funcs: BTreeMap<usize, u32>, pub types: BTreeMap<usize, u32>, pub tables: BTreeMap<usize, u32>, pub memories: BTreeMap<usize, u32>, pub globals: BTreeMap<usize, u32>, pub elements: BTreeMap<usize, u32>, pub data: BTreeMap<usize, u32> }
#[derive(Debug)]
pub struct IndexRecorder { pub funcs: Vec<FunctionId>, pub types: Vec<TypeId>, pub tables: Vec<TableId>, pub memories: Vec<MemoryId>, pub globals: Vec<GlobalId>, pub elements: Vec<ElementId>, pub data: Vec<DataId>, pub out: Arc<Mutex<EmitMaps>> }
impl IndexRecorder {
    pub fn for_module(m: &Module) -> (IndexRecorder, Arc<Mutex<EmitMaps>>) {
        let out = Arc::new(Mutex::new(EmitMaps::default()));
        (IndexRecorder { funcs: m.funcs.iter().map(|f| f.id()).collect(), types: m.types.iter().map(|t| t.id()).collect(), tables: m.tables.iter().map(|t| t.id()).collect(),
            memories: m.memories.iter().map(|t| t.id()).collect(), globals: m.globals.iter().map(|t| t.id()).collect(), elements: m.elements.iter().map(|t| t.id()).collect(), data: m.data.iter().map(|t| t.id()).collect(), out: out.clone() }, out)
    }
}
impl CustomSection for IndexRecorder {
    fn name(&self) -> &str { "verif-index-recorder" }
    fn data(&self, ids: &IdsToIndices) -> std::borrow::Cow<[u8]> {
        use std::panic::{catch_unwind, AssertUnwindSafe};
        let mut o = self.out.lock().unwrap();
        for x in &self.funcs { if let Ok(i) = catch_unwind(AssertUnwindSafe(|| ids.get_func_index(*x))) { o.funcs.insert(x.index(), i); } }
        for x in &self.types { if let Ok(i) = catch_unwind(AssertUnwindSafe(|| ids.get_type_index(*x))) { o.types.insert(x.index(), i); } }
        for x in &self.tables { if let Ok(i) = catch_unwind(AssertUnwindSafe(|| ids.get_table_index(*x))) { o.tables.insert(x.index(), i); } }
        for x in &self.memories { if let Ok(i) = catch_unwind(AssertUnwindSafe(|| ids.get_memory_index(*x))) { o.memories.insert(x.index(), i); } }
        for x in &self.globals { if let Ok(i) = catch_unwind(AssertUnwindSafe(|| ids.get_global_index(*x))) { o.globals.insert(x.index(), i); } }
        for x in &self.elements { if let Ok(i) = catch_unwind(AssertUnwindSafe(|| ids.get_element_index(*x))) { o.elements.insert(x.index(), i); } }
        for x in &self.data { if let Ok(i) = catch_unwind(AssertUnwindSafe(|| ids.get_data_index(*x))) { o.data.insert(x.index(), i); } }
        std::borrow::Cow::Borrowed(&[])
    }
}
