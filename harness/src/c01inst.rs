//! C01, INSTANTIATION: generated modules whose initial state has to be COMPUTED (Model/Inst.v): global initialisers (constants, `global.get` of an
//! imported global), a table of 4-8 slots, a memory of one page, 0-3 active element segments (offsets in and slightly out of range, overlapping,
//! function-index and expression form with `ref.null` entries, the MVP and the explicit-table encoding), passive and declared element segments,
//! 0-3 active data segments (offsets 65530..65540 so that some are out of bounds; sometimes `global.get` of the imported global), passive data
//! segments, and in about a third of the modules a start function that writes memory and globals, calls other functions, and sometimes traps.
//! Every function is exported as `f<k>`, the table as `t`, the memory as `m`, the globals as `g0` / `g1` / `g2` / `gx` / `gi`.
//! The function bodies come from the generator of c01core.rs (global indices shifted past the imported global).
use crate::c01core::{block_types, coq_vt, vt, Label, Out, G, T};
use crate::rng::Rng;
use crate::util::{catch, Json};
use wasm_encoder as we;
use we::Instruction as I;

#[derive(Clone)]
enum Off { Const(i32), Global(u32) }
impl Off {
    fn we(&self) -> we::ConstExpr { match self { Off::Const(v) => we::ConstExpr::i32_const(*v), Off::Global(g) => we::ConstExpr::global_get(*g) } }
    fn coq(&self) -> String { match self { Off::Const(v) => format!("(CI32 ({})%Z)", v), Off::Global(g) => format!("(CGlobalGet {})", g) } }
    fn value(&self, imp: i32) -> i64 { match self { Off::Const(v) => (*v as u32) as i64, Off::Global(_) => (imp as u32) as i64 } }
}
enum ESeg { Active { explicit_table: bool, exprs: bool, off: Off, items: Vec<Option<u32>> }, Passive { exprs: bool, items: Vec<Option<u32>> }, Declared { items: Vec<Option<u32>> } }
enum DSeg { Active { off: Off, bytes: Vec<u8> }, Passive { bytes: Vec<u8> } }

fn coq_items(items: &[Option<u32>]) -> String { format!("[{}]", items.iter().map(|x| match x { Some(f) => format!("Some {}", f), None => "None".to_string() }).collect::<Vec<_>>().join("; ")) }
fn coq_bytes(b: &[u8]) -> String { format!("[{}]", b.iter().map(|x| x.to_string()).collect::<Vec<_>>().join("; ")) }

/// shift the global indices of a generated body (wasm and Coq text) by `gb`
fn shift_globals(o: &mut Out, gb: u32) {
    if gb == 0 { return; }
    for i in o.w.iter_mut() { match i { I::GlobalGet(g) => *g += gb, I::GlobalSet(g) => *g += gb, _ => {} } }
    for c in o.c.iter_mut() {
        for key in ["W_GlobalGet ", "W_GlobalSet "] {
            let mut out = String::new(); let mut rest = c.as_str();
            while let Some(p) = rest.find(key) {
                out.push_str(&rest[..p + key.len()]); rest = &rest[p + key.len()..];
                let nd = rest.chars().take_while(|ch| ch.is_ascii_digit()).count();
                let n: u32 = rest[..nd].parse().unwrap(); out.push_str(&(n + gb).to_string()); rest = &rest[nd..];
            }
            out.push_str(rest); *c = out;
        }
    }
}

pub fn gen_main(args: &[String]) {
    let dir = &args[0]; let seed: u64 = args[1].parse().unwrap(); let n: usize = args[2].parse().unwrap();
    std::fs::create_dir_all(dir).unwrap();
    let mut r = Rng::new(seed ^ 0x1257A7E);
    let mut index = vec![]; let mut gen_viol: Vec<Json> = vec![]; let (mut n_fail, mut n_start, mut n_start_trap, mut n_import, mut n_eoob, mut n_doob, mut n_eseg, mut n_dseg, mut n_null) = (0usize, 0usize, 0usize, 0usize, 0usize, 0usize, 0usize, 0usize, 0usize);
    // signature 5 = [] -> []: the start function
    let sigs: Vec<(Vec<T>, Vec<T>)> = vec![(vec![T::I32], vec![T::I32]), (vec![], vec![T::I32]), (vec![T::I32, T::I64], vec![T::I64]), (vec![T::I32], vec![]), (vec![T::I64], vec![T::I32, T::I64]), (vec![], vec![])];
    let btys = block_types(); let bt_base = sigs.len() as u32;
    let locals: Vec<T> = vec![T::I32, T::I64, T::I32, T::I64, T::I32, T::I32, T::I32];
    for k in 0..n {
        let nf0 = 2 + r.usize(4);
        let with_start = r.chance(1, 3); let start_traps = with_start && r.chance(1, 4);
        let nf = nf0 + if with_start { 1 } else { 0 };
        let mut ftys: Vec<usize> = (0..nf0).map(|_| r.usize(sigs.len())).collect(); if with_start { ftys.push(5); }
        let with_import = r.chance(1, 2); let imp: i32 = *r.pick(&[0i32, 1, 2, 3, 5]); let gb: u32 = if with_import { 1 } else { 0 };
        let tlen = 4 + r.usize(5) as u32; let tmax: Option<u32> = match r.below(3) { 0 => None, 1 => Some(tlen), _ => Some(tlen + 3) };
        // ---- element segments
        let items = |r: &mut Rng, allow_null: bool| -> Vec<Option<u32>> { (0..r.usize(4)).map(|_| if allow_null && r.chance(1, 4) { None } else { Some(r.usize(nf) as u32) }).collect() };
        let mut esegs: Vec<ESeg> = vec![];
        for _ in 0..r.usize(4) {
            let exprs = r.chance(1, 3); let it = items(&mut r, exprs); let len = it.len() as i64;
            let off = if with_import && r.chance(1, 5) { Off::Global(0) }
                else if r.chance(1, 12) { Off::Const((tlen as i64 - len + 1 + r.usize(2) as i64) as i32) }        // just out of range
                else if r.chance(1, 6) { Off::Const((tlen as i64 - len).max(0) as i32) }                              // ends exactly at the end
                else { Off::Const(r.usize((tlen as i64 - len + 1).max(1) as usize) as i32) };
            esegs.push(ESeg::Active { explicit_table: r.chance(1, 2), exprs, off, items: it });
            if r.chance(1, 4) { let exprs = r.chance(1, 2); esegs.push(ESeg::Passive { exprs, items: items(&mut r, exprs) }); }
            if r.chance(1, 5) { esegs.push(ESeg::Declared { items: items(&mut r, false) }); }
        }
        if r.chance(1, 6) { esegs.insert(0, ESeg::Passive { exprs: false, items: items(&mut r, false) }); }
        // the table these segments build (None when a segment is out of bounds: instantiation fails)
        let mut table: Vec<Option<u32>> = vec![None; tlen as usize]; let mut e_oob = false;
        for s in &esegs { if let ESeg::Active { off, items, .. } = s { let o = off.value(imp); if o + items.len() as i64 > tlen as i64 { e_oob = true; break; } for (i, x) in items.iter().enumerate() { table[o as usize + i] = *x; } } }
        // ---- data segments
        let mut dsegs: Vec<DSeg> = vec![]; let mut d_oob = false;
        for _ in 0..r.usize(4) {
            let bytes: Vec<u8> = (0..r.usize(7)).map(|_| *r.pick(&[0u8, 1, 2, 7, 127, 128, 200, 255])).collect();
            let off = if with_import && r.chance(1, 6) { Off::Global(0) }
                else if r.chance(1, 3) { Off::Const(*r.pick(&[65528i32, 65529, 65530, 65530, 65531, 65532, 65534, 65535, 65536, 65537, 65540])) }
                else if r.chance(1, 20) { Off::Const(*r.pick(&[-1i32, -8, i32::MIN, 131072])) }
                else { Off::Const(*r.pick(&[0i32, 1, 2, 3, 8, 100, 250, 251, 1000, 4096, 65520])) };
            if off.value(imp) + bytes.len() as i64 > 65536 { d_oob = true; }
            dsegs.push(DSeg::Active { off, bytes });
            if r.chance(1, 4) { dsegs.push(DSeg::Passive { bytes: (0..r.usize(5)).map(|_| r.below(256) as u8).collect() }); }
        }
        // ---- function bodies
        let mut bodies = vec![]; let mut coq_funcs = vec![];
        for fi in 0..nf { let (ps, rs) = sigs[ftys[fi]].clone();
            let callees: Vec<(u32, Vec<T>, Vec<T>)> = (0..fi).map(|j| (j as u32, sigs[ftys[j]].0.clone(), sigs[ftys[j]].1.clone())).collect();
            let is_start = with_start && fi == nf - 1;
            let mut g = G { r: &mut r, params: ps.clone(), locals: locals.clone(), n_counters: 3, counters_used: 0, results: rs.clone(), btys: btys.clone(), budget: if is_start { 25 } else { 30 }, dead_ops: 0, n_loops: 0, n_br: 0, ext: true, n_mem: 0, sabotage_at: None, sabotaged: None,
                bt_base, callees, sigs: sigs.clone(), table_len: tlen, n_calls: 0, self_idx: if is_start { None } else { Some(fi as u32) },
                slot_types: table.iter().map(|f| match f { Some(f) if (*f as usize) < fi => Some(ftys[*f as usize]), _ => None }).collect() };
            let mut labels = vec![Label { tys: rs.clone(), is_loop: false }];
            let mut body = g.seq(&mut labels, vec![], &rs, 0);
            if is_start {
                // directed: the start function writes memory and both globals before anything else ...
                let mut pre = Out { w: vec![], c: vec![] };
                let a = *g.r.pick(&[0i32, 4, 16, 250, 65532]); let v = *g.r.pick(&[1i32, 258, -1, 0x01020304]);
                let mut op = |i: I<'static>, c: String| { pre.w.push(i); pre.c.push(format!("RPlain ({}) 0", c)); };
                op(I::I32Const(a), format!("W_I32Const ({})%Z", a)); op(I::I32Const(v), format!("W_I32Const ({})%Z", v));
                op(I::I32Store(we::MemArg { offset: 0, align: 2, memory_index: 0 }), "W_I32Store {| wa_align := 2; wa_offset := 0; wa_memory := 0 |}".to_string());
                op(I::GlobalGet(0), "W_GlobalGet 0".to_string()); op(I::I32Const(11), "W_I32Const (11)%Z".to_string()); op(I::I32Add, "W_I32Add".to_string()); op(I::GlobalSet(0), "W_GlobalSet 0".to_string());
                op(I::I64Const(-2), "W_I64Const (-2)%Z".to_string()); op(I::GlobalSet(1), "W_GlobalSet 1".to_string());
                pre.w.extend(body.w); pre.c.extend(body.c); body = pre;
                // ... and sometimes traps at its end
                if start_traps { body.w.push(I::Unreachable); body.c.push("RPlain (W_Unreachable) 0".to_string()); }
            }
            shift_globals(&mut body, gb);
            coq_funcs.push(format!("({}, [{}], [{}])", ftys[fi], locals.iter().map(|x| coq_vt(*x)).collect::<Vec<_>>().join("; "), body.c.join("; ")));
            bodies.push(body.w); }
        // ---- the module
        let mut m = we::Module::new();
        let mut t = we::TypeSection::new(); for (p, q) in sigs.iter().chain(btys.iter()) { t.function(p.iter().map(|x| vt(*x)), q.iter().map(|x| vt(*x))); } m.section(&t);
        if with_import { let mut im = we::ImportSection::new(); im.import("env", "gi", we::GlobalType { val_type: we::ValType::I32, mutable: false, shared: false }); m.section(&im); }
        let mut f = we::FunctionSection::new(); for fi in 0..nf { f.function(ftys[fi] as u32); } m.section(&f);
        let mut tb = we::TableSection::new(); tb.table(we::TableType { element_type: we::RefType::FUNCREF, table64: false, minimum: tlen as u64, maximum: tmax.map(|x| x as u64), shared: false }); m.section(&tb);
        let mut ms = we::MemorySection::new(); ms.memory(we::MemoryType { minimum: 1, maximum: Some(3), memory64: false, shared: false, page_size_log2: None }); m.section(&ms);
        let g0 = *r.pick(&[0i32, 5, -3]); let g1 = *r.pick(&[0i64, 9, -1]);
        let mut gs = we::GlobalSection::new(); let mut coq_globals = vec![]; let mut gnames: Vec<(String, u32)> = vec![];
        if with_import { coq_globals.push(format!("(VT_I32, false, CI32 ({})%Z)", imp)); }
        gs.global(we::GlobalType { val_type: we::ValType::I32, mutable: true, shared: false }, &we::ConstExpr::i32_const(g0)); coq_globals.push(format!("(VT_I32, true, CI32 ({})%Z)", g0)); gnames.push(("g0".into(), gb));
        gs.global(we::GlobalType { val_type: we::ValType::I64, mutable: true, shared: false }, &we::ConstExpr::i64_const(g1)); coq_globals.push(format!("(VT_I64, true, CI64 ({})%Z)", g1)); gnames.push(("g1".into(), gb + 1));
        gs.global(we::GlobalType { val_type: we::ValType::I32, mutable: false, shared: false }, &we::ConstExpr::i32_const(7)); coq_globals.push("(VT_I32, false, CI32 (7)%Z)".to_string());
        let export_g2 = r.chance(1, 2); if export_g2 { gnames.push(("g2".into(), gb + 2)); }
        if with_import {
            let gx_mut = r.chance(1, 2);
            gs.global(we::GlobalType { val_type: we::ValType::I32, mutable: gx_mut, shared: false }, &we::ConstExpr::global_get(0)); coq_globals.push(format!("(VT_I32, {}, CGlobalGet 0)", gx_mut)); gnames.push(("gx".into(), gb + 3));
            if r.chance(1, 2) { gnames.push(("gi".into(), 0)); } }
        m.section(&gs);
        let mut e = we::ExportSection::new(); for fi in 0..nf { e.export(&format!("f{}", fi), we::ExportKind::Func, fi as u32); }
        for (nm, gi) in &gnames { e.export(nm, we::ExportKind::Global, *gi); } e.export("m", we::ExportKind::Memory, 0); e.export("t", we::ExportKind::Table, 0); m.section(&e);
        if with_start { m.section(&we::StartSection { function_index: nf as u32 - 1 }); }
        let mut coq_elems = vec![];
        if !esegs.is_empty() { let mut el = we::ElementSection::new();

            for s in &esegs { match s {
                ESeg::Active { explicit_table, exprs, off, items } => { n_eseg += 1; n_null += items.iter().filter(|x| x.is_none()).count();
                    let tix = if *explicit_table { Some(0) } else { None };
                    if *exprs { let ex: Vec<we::ConstExpr> = items.iter().map(|x| match x { Some(f) => we::ConstExpr::ref_func(*f), None => we::ConstExpr::ref_null(we::HeapType::FUNC) }).collect(); el.active(tix, &off.we(), we::Elements::Expressions(we::RefType::FUNCREF, &ex)); }
                    else { let fs: Vec<u32> = items.iter().map(|x| x.unwrap()).collect(); el.active(tix, &off.we(), we::Elements::Functions(&fs)); }
                    coq_elems.push(format!("EActive 0 {} {}", off.coq(), coq_items(items))); }
                ESeg::Passive { exprs, items } => {
                    if *exprs { let ex: Vec<we::ConstExpr> = items.iter().map(|x| match x { Some(f) => we::ConstExpr::ref_func(*f), None => we::ConstExpr::ref_null(we::HeapType::FUNC) }).collect(); el.passive(we::Elements::Expressions(we::RefType::FUNCREF, &ex)); }
                    else { let fs: Vec<u32> = items.iter().map(|x| x.unwrap()).collect(); el.passive(we::Elements::Functions(&fs)); }
                    coq_elems.push(format!("EPassive {}", coq_items(items))); }
                ESeg::Declared { items } => { let fs: Vec<u32> = items.iter().map(|x| x.unwrap()).collect(); el.declared(we::Elements::Functions(&fs)); coq_elems.push(format!("EDeclared {}", coq_items(items))); } } }
            m.section(&el); }
        let mut c = we::CodeSection::new(); for b in &bodies { let mut wf = we::Function::new(locals.iter().map(|x| (1u32, vt(*x)))); for i in b { wf.instruction(i); } wf.instruction(&I::End); c.function(&wf); } m.section(&c);
        let mut coq_datas = vec![];
        if !dsegs.is_empty() { let mut ds = we::DataSection::new();
            for s in &dsegs { match s {
                DSeg::Active { off, bytes } => { n_dseg += 1; ds.active(0, &off.we(), bytes.iter().cloned()); coq_datas.push(format!("DActive 0 {} {}", off.coq(), coq_bytes(bytes))); }
                DSeg::Passive { bytes } => { ds.passive(bytes.iter().cloned()); coq_datas.push(format!("DPassive {}", coq_bytes(bytes))); } } }
            m.section(&ds); }
        let wasm = m.finish();
        if let Err(e) = crate::amod::validate(&wasm, crate::env::walrus_features(false)) { if std::env::var("VH_DEBUG").is_ok() { eprintln!("invalid generated module {}: {}", k, e); } n_fail += 1; continue; }
        // half of the modules additionally go through walrus's GC pass (drops unused passive / declared segments, unexported unused globals)
        let do_gc = k % 2 == 1;
        let out = match catch(|| { let mut c = walrus::ModuleConfig::new(); c.generate_producers_section(false); c.parse(&wasm).map(|mut m| { if do_gc { walrus::passes::gc::run(&mut m); } m.emit_wasm() }).map_err(|e| e.to_string()) }) { Some(Ok(o)) => o, other => { if std::env::var("VH_DEBUG").is_ok() { eprintln!("walrus failed on module {}: {:?}", k, other.as_ref().map(|x| x.as_ref().err())); }
            gen_viol.push(Json::obj(vec![("class", Json::s(if other.is_none() { "walrus-panics-on-valid-module" } else { "walrus-rejects-valid-module" })), ("what", Json::s(format!("generated module {}: parse{} / emit {} on a module the reference validator accepts", k, if do_gc { " / gc" } else { "" }, if other.is_none() { "panics".to_string() } else { format!("fails: {:?}", other.as_ref().and_then(|x| x.as_ref().err())) }))), ("input", Json::s(crate::c03::hex(&wasm)))]));
            n_fail += 1; continue } };
        let id = format!("{:05}", k);
        std::fs::write(format!("{}/{}.in.wasm", dir, id), &wasm).unwrap(); std::fs::write(format!("{}/{}.out.wasm", dir, id), &out).unwrap();
        if with_start { n_start += 1; } if start_traps { n_start_trap += 1; } if with_import { n_import += 1; } if e_oob { n_eoob += 1; } if d_oob { n_doob += 1; }
        // calls after instantiation: every function, one or two argument vectors each
        let mut calls = vec![];
        for fi in 0..nf { for _ in 0..(1 + r.usize(2)) { let a: Vec<Json> = sigs[ftys[fi]].0.iter().map(|t| match t {
                T::I32 => Json::obj(vec![("t", Json::s("i32")), ("v", Json::s((*r.pick(&[0i32, 1, 2, 3, -1, 7, 100, i32::MAX, i32::MIN])).to_string()))]),
                T::I64 => Json::obj(vec![("t", Json::s("i64")), ("v", Json::s((*r.pick(&[0i64, 1, -1, 5, 1 << 33, i64::MAX, i64::MIN])).to_string()))]) }).collect();
            calls.push(Json::obj(vec![("f", Json::u(fi)), ("args", Json::Arr(a))])); } }
        let tys_coq = format!("[{}]", sigs.iter().chain(btys.iter()).map(|(p, q)| format!("([{}], [{}])", p.iter().map(|x| coq_vt(*x)).collect::<Vec<_>>().join("; "), q.iter().map(|x| coq_vt(*x)).collect::<Vec<_>>().join("; "))).collect::<Vec<_>>().join("; "));
        index.push(Json::obj(vec![("id", Json::s(id)), ("calls", Json::Arr(calls)), ("tys", Json::s(tys_coq)), ("funcs", Json::s(format!("[{}]", coq_funcs.join("; ")))),
            ("globals", Json::s(format!("[{}]", coq_globals.join("; ")))), ("mem", Json::s("Some (1, Some 3)")),
            ("table", Json::s(format!("Some ({}, {})", tlen, match tmax { Some(x) => format!("Some {}", x), None => "None".to_string() }))),
            ("elems", Json::s(format!("[{}]", coq_elems.join("; ")))), ("datas", Json::s(format!("[{}]", coq_datas.join("; ")))),
            ("start", Json::s(if with_start { format!("Some {}", nf - 1) } else { "None".to_string() })),
            ("nfuncs", Json::u(nf)), ("tlen", Json::u(tlen as usize)), ("import_gi", if with_import { Json::s(imp.to_string()) } else { Json::Null }),
            ("gnames", Json::Arr(gnames.iter().map(|(nm, gi)| Json::obj(vec![("name", Json::s(nm.clone())), ("index", Json::u(*gi as usize))])).collect())),
            ("gc", Json::Bool(do_gc)), ("g0idx", Json::u(gb as usize)), ("g1idx", Json::u(gb as usize + 1)),
            ("expect", Json::obj(vec![("elem_oob", Json::Bool(e_oob)), ("data_oob", Json::Bool(d_oob)), ("start", Json::Bool(with_start)), ("start_traps", Json::Bool(start_traps))]))]));
    }
    std::fs::write(format!("{}/index.json", dir), Json::obj(vec![("cases", Json::Arr(index)), ("oracle_violations", Json::Arr(gen_viol)), ("failures", Json::u(n_fail)), ("with_start", Json::u(n_start)), ("start_ends_in_unreachable", Json::u(n_start_trap)), ("with_imported_global", Json::u(n_import)),
        ("element_segment_out_of_bounds", Json::u(n_eoob)), ("data_segment_out_of_bounds", Json::u(n_doob)), ("active_element_segments", Json::u(n_eseg)), ("active_data_segments", Json::u(n_dseg)), ("null_entries", Json::u(n_null))]).to_string()).unwrap();
}
