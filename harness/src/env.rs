//! The fixed "universe" environment (index spaces every generated body may refer to),
//! in two profiles: Full (walrus's whole default feature set: 3 memories incl. a 64-bit and a
//! shared one) and Exec (what node 20 can instantiate: one plain 32-bit memory).
use wasm_encoder as we;
use wasmparser::WasmFeatures;

#[derive(Clone, Copy, PartialEq, Eq, Debug)]
pub enum Profile { Full, Exec }

pub fn walrus_features(only_stable: bool) -> WasmFeatures {
    let mut f = WasmFeatures::empty();
    f.insert(WasmFeatures::FLOATS); f.insert(WasmFeatures::MUTABLE_GLOBAL); f.insert(WasmFeatures::SATURATING_FLOAT_TO_INT);
    f.insert(WasmFeatures::SIGN_EXTENSION); f.insert(WasmFeatures::MULTI_VALUE); f.insert(WasmFeatures::REFERENCE_TYPES);
    f.insert(WasmFeatures::BULK_MEMORY); f.insert(WasmFeatures::SIMD); f.insert(WasmFeatures::RELAXED_SIMD); f.insert(WasmFeatures::TAIL_CALL);
    if !only_stable { f.insert(WasmFeatures::MULTI_MEMORY); f.insert(WasmFeatures::MEMORY64); f.insert(WasmFeatures::THREADS); }
    f
}

pub const NLOCALS: u32 = 7;
/// value-type codes: 0 i32, 1 i64, 2 f32, 3 f64, 4 v128, 5 funcref, 6 externref
pub fn vt(c: u8) -> we::ValType {
    match c { 0 => we::ValType::I32, 1 => we::ValType::I64, 2 => we::ValType::F32, 3 => we::ValType::F64, 4 => we::ValType::V128,
        5 => we::ValType::Ref(we::RefType::FUNCREF), _ => we::ValType::Ref(we::RefType::EXTERNREF) }
}
/// the four base types, already in walrus's canonical (sorted) order
pub fn base_types() -> Vec<(Vec<u8>, Vec<u8>)> { vec![(vec![], vec![]), (vec![], vec![0]), (vec![0], vec![0]), (vec![0, 1], vec![])] }
/// types of function indices 0..3 (0 is imported)
pub const BASE_FUNC_TYPES: [u32; 4] = [0, 0, 2, 0];

pub fn mem_types(p: Profile) -> Vec<we::MemoryType> {
    let m0 = we::MemoryType { minimum: 1, maximum: None, memory64: false, shared: false, page_size_log2: None };
    match p {
        Profile::Exec => vec![m0],
        Profile::Full => vec![m0, we::MemoryType { minimum: 1, maximum: None, memory64: true, shared: false, page_size_log2: None },
                              we::MemoryType { minimum: 1, maximum: Some(2), memory64: false, shared: true, page_size_log2: None }],
    }
}

/// padding that makes the test function the largest one and uses every local, so that
/// walrus's renumbering (size-sorted functions, used-locals compaction) is the identity on the universe
pub fn padding() -> Vec<we::Instruction<'static>> {
    let mut v = vec![];
    for l in 0..NLOCALS { v.push(we::Instruction::LocalGet(l)); v.push(we::Instruction::Drop); }
    for _ in 0..6 { v.push(we::Instruction::I32Const(7)); v.push(we::Instruction::Drop); }
    v
}

pub fn local_decls() -> Vec<(u32, we::ValType)> { (0..NLOCALS as u8).map(|c| (1, vt(c))).collect() }

/// The universe module, built in walrus's canonical order (types sorted, imports first,
/// functions by decreasing size, locals grouped by type in ValType order).
pub fn universe(p: Profile, test_body: &[we::Instruction]) -> Vec<u8> { universe_x(p, test_body, true) }
/// `export_all = false`: only the test function is exported, so that everything else is kept by the GC pass only if the test body refers to it
pub fn universe_x(p: Profile, test_body: &[we::Instruction], export_all: bool) -> Vec<u8> {
    let mut m = we::Module::new();
    let mut t = we::TypeSection::new();
    for (ps, rs) in base_types() { t.function(ps.iter().map(|c| vt(*c)), rs.iter().map(|c| vt(*c))); }
    m.section(&t);
    let mut i = we::ImportSection::new(); i.import("env", "imp", we::EntityType::Function(0)); m.section(&i);
    let mut f = we::FunctionSection::new(); f.function(0); f.function(2); f.function(3); m.section(&f);
    let mut tb = we::TableSection::new();
    tb.table(we::TableType { element_type: we::RefType::FUNCREF, table64: false, minimum: 4, maximum: None, shared: false });
    tb.table(we::TableType { element_type: we::RefType::FUNCREF, table64: false, minimum: 2, maximum: Some(8), shared: false });
    tb.table(we::TableType { element_type: we::RefType::EXTERNREF, table64: false, minimum: 1, maximum: None, shared: false });
    m.section(&tb);
    let mems = mem_types(p);
    let mut ms = we::MemorySection::new(); for mt in &mems { ms.memory(*mt); } m.section(&ms);
    let mut g = we::GlobalSection::new();
    g.global(we::GlobalType { val_type: we::ValType::I32, mutable: true, shared: false }, &we::ConstExpr::i32_const(1));
    g.global(we::GlobalType { val_type: we::ValType::I64, mutable: true, shared: false }, &we::ConstExpr::i64_const(2));
    g.global(we::GlobalType { val_type: we::ValType::F32, mutable: true, shared: false }, &we::ConstExpr::f32_const(3.0));
    g.global(we::GlobalType { val_type: we::ValType::F64, mutable: true, shared: false }, &we::ConstExpr::f64_const(4.0));
    m.section(&g);
    let mut e = we::ExportSection::new();
    if export_all {
    for k in 0..4 { e.export(&format!("f{}", k), we::ExportKind::Func, k); }
    for k in 0..3 { e.export(&format!("t{}", k), we::ExportKind::Table, k); }
    for k in 0..mems.len() as u32 { e.export(&format!("m{}", k), we::ExportKind::Memory, k); }
    for k in 0..4 { e.export(&format!("g{}", k), we::ExportKind::Global, k); }
    } else { e.export("f1", we::ExportKind::Func, 1); }
    m.section(&e);
    let mut el = we::ElementSection::new();
    // segment 1 is a DECLARED segment: element indices behind it must not shift
    for k in 0..4 { if k == 1 { el.declared(we::Elements::Functions(&[0, 1])); } else { el.passive(we::Elements::Functions(&[0, 1])); } }
    m.section(&el);
    m.section(&we::DataCountSection { count: 4 });
    let mut c = we::CodeSection::new();
    let mut tf = we::Function::new(local_decls());
    for ins in padding() { tf.instruction(&ins); }
    for ins in test_body { tf.instruction(ins); }
    tf.instruction(&we::Instruction::End);
    c.function(&tf);
    let mut h1 = we::Function::new([]); h1.instruction(&we::Instruction::LocalGet(0)); h1.instruction(&we::Instruction::End); c.function(&h1);
    let mut h2 = we::Function::new([]); h2.instruction(&we::Instruction::End); c.function(&h2);
    m.section(&c);
    let mut d = we::DataSection::new();
    for k in 0..4u8 { d.passive([k, k + 1]); }
    m.section(&d);
    m.finish()
}

pub fn const_of(c: u8) -> we::Instruction<'static> {
    match c { 0 => we::Instruction::I32Const(0), 1 => we::Instruction::I64Const(0), 2 => we::Instruction::F32Const(0.0), 3 => we::Instruction::F64Const(0.0),
        4 => we::Instruction::V128Const(0), 5 => we::Instruction::RefNull(we::HeapType::Abstract { shared: false, ty: we::AbstractHeapType::Func }),
        _ => we::Instruction::RefNull(we::HeapType::Abstract { shared: false, ty: we::AbstractHeapType::Extern }) }
}
