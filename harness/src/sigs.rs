//! Operator-instance table with discovered type signatures: for every operator of the pinned
//! wasmparser that can be built x boundary immediates, the reference validator is used to find
//! (a) whether the immediates are valid in the universe, (b) an operand vector, (c) the results.
use crate::amod;
use crate::env::{self, Profile};
use crate::ops::{self, ArgVal};
use crate::util::catch;
use wasm_encoder as we;
use wasm_encoder::reencode::{Reencode, RoundtripReencoder};
use wasmparser::Operator;

#[derive(Clone, Debug)]
pub struct OpInst { pub name: &'static str, pub proposal: &'static str, pub vals: Vec<ArgVal>, pub ins: we::Instruction<'static>, pub coq: Option<String>,
    pub params: Vec<u8>, pub results: Option<Vec<u8>>, /* None = terminal (stack-polymorphic result) */ }

pub const CONTROL: [&str; 9] = ["Block", "Loop", "If", "Else", "End", "Br", "BrIf", "BrTable", "Nop"];
pub const TERMINAL: [&str; 4] = ["Unreachable", "Return", "ReturnCall", "ReturnCallIndirect"];

pub fn reenc(op: &Operator<'static>) -> Option<we::Instruction<'static>> { RoundtripReencoder.instruction(op.clone()).ok() }

pub struct Table { pub insts: Vec<OpInst>, pub validations: u64, pub built: u64, pub names_total: usize }

fn valid(p: Profile, body: &[we::Instruction]) -> bool { catch(|| amod::validate(&env::universe(p, body), env::walrus_features(false)).is_ok()).unwrap_or(false) }

pub fn find_operands(p: Profile, ins: &we::Instruction<'static>, hint: Option<&Vec<u8>>, n: &mut u64) -> Option<Vec<u8>> {
    let mut try_one = |ops: &[u8]| -> bool { *n += 1; let mut body: Vec<we::Instruction> = ops.iter().map(|c| env::const_of(*c)).collect(); body.push(ins.clone()); body.push(we::Instruction::Unreachable); valid(p, &body) };
    // extra leading operands never hurt validity (they stay below), so a hint is shrunk to the minimal suffix
    if let Some(h) = hint { if try_one(h) { let mut v = h.clone(); while !v.is_empty() && try_one(&v[1..]) { v.remove(0); } return Some(v); } }
    for len in 0..=4usize {
        let mut idx = vec![0u8; len];
        loop {
            if try_one(&idx) { return Some(idx); }
            let mut k = 0; loop { if k == len { break; } idx[k] += 1; if idx[k] < 7 { break; } idx[k] = 0; k += 1; }
            if k == len { break; }
        }
    }
    None
}

fn find_results(p: Profile, ins: &we::Instruction<'static>, params: &[u8], hint: Option<&Vec<u8>>, n: &mut u64) -> Option<Vec<u8>> {
    // results == R  iff  `params; op; local.set R[last] .. local.set R[0]; end` validates (local k has type code k)
    let mut try_one = |rs: &[u8]| -> bool { *n += 1; let mut body: Vec<we::Instruction> = params.iter().map(|c| env::const_of(*c)).collect(); body.push(ins.clone());
        for r in rs.iter().rev() { body.push(we::Instruction::LocalSet(*r as u32)); } valid(p, &body) };
    if let Some(h) = hint { if try_one(h) { return Some(h.clone()); } }
    if try_one(&[]) { return Some(vec![]); }
    for a in 0..7u8 { if try_one(&[a]) { return Some(vec![a]); } }
    for a in 0..7u8 { for b in 0..7u8 { if try_one(&[a, b]) { return Some(vec![a, b]); } } }
    None
}

pub fn build_table(p: Profile, thorough: bool, cap_per_op: usize) -> Table {
    let mut t = Table { insts: vec![], validations: 0, built: 0, names_total: 0 };
    for (name, proposal) in ops::all_op_names() {
        t.names_total += 1;
        if CONTROL.contains(&name) { continue; }
        let argspec = ops::op_args(name);
        let cands: Vec<Vec<ArgVal>> = argspec.iter().map(|(a, ty)| ops::candidates(name, a, ty, thorough)).collect();
        if cands.iter().any(|c| c.is_empty()) { continue; }
        let total: usize = cands.iter().map(|c| c.len()).product::<usize>().max(1);
        let step = ((total + cap_per_op - 1) / cap_per_op).max(1);
        let mut hint_p: Option<Vec<u8>> = None; let mut hint_r: Option<Vec<u8>> = None;
        let mut k = 0usize;
        while k < total {
            let mut rem = k; let mut vals = vec![];
            for c in &cands { vals.push(c[rem % c.len()].clone()); rem /= c.len(); }
            k += step;
            let op = match ops::build(name, &vals) { Some(o) => o, None => continue };
            t.built += 1;
            let ins = match reenc(&op) { Some(i) => i, None => continue };
            t.validations += 1;
            if !valid(p, &[we::Instruction::Unreachable, ins.clone(), we::Instruction::Unreachable]) { continue; }
            let params = match find_operands(p, &ins, hint_p.as_ref(), &mut t.validations) { Some(o) => o, None => continue };
            hint_p = Some(params.clone());
            let results = if TERMINAL.contains(&name) { None } else {
                match find_results(p, &ins, &params, hint_r.as_ref(), &mut t.validations) { Some(r) => { hint_r = Some(r.clone()); Some(r) } None => continue } };
            t.insts.push(OpInst { name, proposal, vals, ins, coq: ops::ins_coq(&op), params, results });
        }
    }
    t
}
