//! Byte-level framing (Model/Frame.v) against wasmparser's reader, wasm-encoder's writer and what walrus stores:
//!  * FIn  : an input module's bytes and the (id, payload) list wasmparser's section reader sees (padded LEB128 sizes allowed);
//!  * FOut : walrus's output, which must also be re-produced byte for byte by the model's writer (minimal LEB128 everywhere);
//!  * FCustom : the payload of every uninterpreted custom section of the input and the (name, data) walrus keeps for it after parsing;
//!  * FCode : the payload of the code section of walrus's output and where wasmparser finds each body.
use crate::modrun::fixtures;
use crate::rng::Rng;
use crate::util::{catch, CaseWriter, Json};

fn list(b: &[u8]) -> String { format!("[{}]", b.iter().map(|x| x.to_string()).collect::<Vec<_>>().join(";")) }

/// (id, payload range) of every section, read with wasmparser's low-level BinaryReader (independent of Parser's payload dispatch)
fn sections(bytes: &[u8]) -> Option<Vec<(u8, std::ops::Range<usize>)>> {
    if bytes.len() < 8 || &bytes[0..8] != b"\0asm\x01\0\0\0" { return None; }
    let mut r = wasmparser::BinaryReader::new(&bytes[8..], 8, wasmparser::WasmFeatures::all());
    let mut v = vec![];
    while !r.eof() { let id = r.read_u8().ok()?; let n = r.read_var_u32().ok()? as usize; let start = r.original_position(); if start + n > bytes.len() { return None; } r.read_bytes(n).ok()?; v.push((id, start..start + n)); }
    Some(v)
}

pub fn main(args: &[String]) {
    let out_dir = &args[0]; let seed: u64 = args[1].parse().unwrap(); let n_gen: usize = args[2].parse().unwrap();
    let mut r = Rng::new(seed ^ 0xF4A3E);
    let header = "From WV Require Import Model.Leb Model.Frame Run.FrameRun.\nOpen Scope N_scope.";
    let mut w = CaseWriter::new(out_dir, "frame", header, "fcase", "check_frame", 12);
    let mut inputs: Vec<(String, Vec<u8>)> = vec![];
    if let Ok(rd) = std::fs::read_dir("/verif/corpus/mod") { let mut ps: Vec<_> = rd.filter_map(|e| e.ok()).map(|e| e.path()).collect(); ps.sort();
        for p in ps { let nm = format!("corpus:{}", p.file_name().unwrap().to_string_lossy()); match p.extension().and_then(|e| e.to_str()) {
            Some("wat") => if let Ok(b) = std::fs::read_to_string(&p).map_err(|e| e.to_string()).and_then(|t| wat::parse_str(&t).map_err(|e| e.to_string())) { inputs.push((nm, b)); },
            Some("hex") => if let Ok(t) = std::fs::read_to_string(&p) { let t = t.trim(); inputs.push((nm, (0..t.len() / 2).filter_map(|i| u8::from_str_radix(&t[2 * i..2 * i + 2], 16).ok()).collect())); }, _ => {} } } }
    inputs.extend(fixtures());
    for k in 0..n_gen { let (wasm, _) = crate::genattr::module(&mut r, false); inputs.push((format!("attr{}", k), wasm)); }
    let feats = crate::env::walrus_features(false);
    let cap = 900usize;
    let (mut n_in, mut n_out, mut n_custom, mut n_code, mut n_big, mut n_padded) = (0u64, 0u64, 0u64, 0u64, 0u64, 0u64);
    let mut viol: Vec<Json> = vec![]; let mut samples = vec![];
    for (name, wasm) in &inputs {
        if crate::amod::validate(wasm, feats).is_err() { continue; }
        let secs = match sections(wasm) { Some(s) => s, None => continue };
        if wasm.len() <= cap { let line = format!("FIn {} [{}]", list(wasm), secs.iter().map(|(id, rg)| format!("({}, {})", id, list(&wasm[rg.clone()]))).collect::<Vec<_>>().join(";")); if samples.len() < 2 && line.len() < 900 { samples.push(line.clone()); } w.push(&line); n_in += 1; } else { n_big += 1; }
        // what walrus keeps of the uninterpreted custom sections
        let kept = catch(|| { let mut c = walrus::ModuleConfig::new(); c.generate_producers_section(false); c.generate_name_section(false);
            c.parse(wasm).ok().map(|m| { let raw: Vec<(String, Vec<u8>)> = m.customs.iter().map(|(_, s)| (s.name().to_string(), s.data(&Default::default()).to_vec())).collect(); let mut m = m; (raw, m.emit_wasm()) }) });
        let (raw, out) = match kept { Some(Some(x)) => x, _ => continue };
        let input_customs: Vec<std::ops::Range<usize>> = secs.iter().filter(|(id, _)| *id == 0).map(|(_, rg)| rg.clone()).filter(|rg| {
            // name of the section, read with the reader (any LEB encoding of the length)
            let mut br = wasmparser::BinaryReader::new(&wasm[rg.clone()], 0, wasmparser::WasmFeatures::all()); match br.read_string() { Ok(nm) => nm != "name" && nm != "producers" && !nm.starts_with(".debug"), Err(_) => false } }).collect();
        if input_customs.len() == raw.len() { for (rg, (nm, data)) in input_customs.iter().zip(raw.iter()) { let p = &wasm[rg.clone()]; if p.len() > cap { n_big += 1; continue; }
                if p.first().map(|b| *b >= 128).unwrap_or(false) { n_padded += 1; }
                w.push(&format!("FCustom {} {} {}", list(p), list(nm.as_bytes()), list(data))); n_custom += 1; } }
        else { viol.push(Json::obj(vec![("class", Json::s("customs-not-preserved")), ("props", Json::s("C12")), ("what", Json::s(format!("{}: the input has {} uninterpreted custom sections, the parsed module holds {}", name, input_customs.len(), raw.len()))), ("input", Json::s(crate::c03::hex(wasm)))])); }
        // the output: reader and writer
        if let Some(osecs) = sections(&out) {
            if out.len() <= cap { w.push(&format!("FOut {} [{}]", list(&out), osecs.iter().map(|(id, rg)| format!("({}, {})", id, list(&out[rg.clone()]))).collect::<Vec<_>>().join(";"))); n_out += 1; }
            if let Some((_, rg)) = osecs.iter().find(|(id, _)| *id == 10) { let p = &out[rg.clone()]; if p.len() <= cap {
                // where wasmparser finds the bodies
                let mut ents = vec![]; let rd = wasmparser::CodeSectionReader::new(wasmparser::BinaryReader::new(p, 0, wasmparser::WasmFeatures::all())); if let Ok(rd) = rd { for b in rd { if let Ok(b) = b { let r = b.range(); ents.push(format!("({}, {})", r.start, r.end - r.start)); } } }
                w.push(&format!("FCode {} [{}]", list(p), ents.join(";"))); n_code += 1; } }
        } else { viol.push(Json::obj(vec![("class", Json::s("output-undecodable")), ("props", Json::s("C02 C12")), ("what", Json::s(format!("{}: the emitted module is not a sequence of well-formed sections", name))), ("input", Json::s(crate::c03::hex(wasm)))])); }
    }
    w.finish();
    let meta = Json::obj(vec![("cases", Json::n((n_in + n_out + n_custom + n_code) as f64)), ("inputs", Json::u(inputs.len())), ("input_modules", Json::n(n_in as f64)), ("output_modules", Json::n(n_out as f64)), ("custom_sections", Json::n(n_custom as f64)),
        ("custom_sections_with_multi_byte_name_length", Json::n(n_padded as f64)), ("code_sections", Json::n(n_code as f64)), ("too_large_for_the_coq_side", Json::n(n_big as f64)),
        ("samples", Json::Arr(samples.into_iter().map(Json::Str).collect())), ("oracle_violations", Json::Arr(viol))]);
    std::fs::write(format!("{}/meta.json", out_dir), meta.to_string()).unwrap();
}
