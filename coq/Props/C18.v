(* C18 - function replacement edits rewire exactly one thing.  Statements only; proofs in Proofs/Edit.v.
   Model/Edit.v models ModuleFunctions::replace_imported_func / replace_exported_func
   (src/module/functions/mod.rs) on the module model; the replacement body is a builder program
   (Model/Builder.v), as in the real API.
   - replace_imported: the function keeps its id (so every call, table entry, export and start that
     mentions the id now reaches the new body: nothing else in the module changes, I3-I5), its kind
     becomes Local with the same signature (I1, I2), exactly the first import of that function is
     deleted (I4), the new arguments are fresh locals of the parameter types (I6), the body is what
     the builder program denotes (I7).
   - replace_exported: a NEW function (the next arena id) with the same signature and the given body
     is added (E1), every existing function - the original included - is untouched (E2), exactly the
     first export of the function is retargeted, name and kind kept (E3), nothing else changes (E4).
   - both are refused (error, module unchanged by construction of [pres]) when the function is not
     imported / not exported-and-local.
   "The module still emits valid wasm" is C02's statement; for edits it is decided by the oracle of
   the correspondence run (see known_findings.json for the recorded failing call site).
   The side conditions [types_wf] and "no tombstone beyond the arena" hold for every parsed module
   and are preserved by both edits (last conjuncts); the two *_needed theorems show the statements
   are false without them. *)
From Coq Require Import List NArith ZArith Bool Arith. Import ListNotations.
From WV Require Import Gen.Ops Model.Common Model.IR Model.Arena Model.Builder Model.ModuleM Model.ParseM Model.Edit.
From WV Require Import Model.EmitM Model.GC Proofs.Edit Proofs.GcDeclare Proofs.EditDeclare.
Local Open Scope nat_scope.

Theorem c18_replace_imported m fid body m' :
  types_wf (m_types m) ->
  replace_imported_func m fid body = POk m' ->
  exists iid f imp tid t lf,
    imported_func_import m fid = Some iid /\ aget (m_funcs m) fid = Some f /\
    fn_kind f = FK_Import imp tid /\ types_get m tid = Some t /\
    (* I1 *) aget (m_funcs m') fid = Some {| fn_kind := FK_Local lf; fn_name := fn_name f |} /\
    (* I2 *) (exists t', types_get m' (lf_ty lf) = Some t' /\
                ty_params t' = ty_params t /\ ty_results t' = ty_results t /\ ty_entry t' = false) /\
    (* I3 *) ((forall g, g <> fid -> aget (m_funcs m') g = aget (m_funcs m) g) /\
              length (items (m_funcs m')) = length (items (m_funcs m)) /\
              dead (m_funcs m') = dead (m_funcs m)) /\
    (* I4 *) ((forall i, i <> iid -> aget (m_imports m') i = aget (m_imports m) i) /\
              aget (m_imports m') iid = None /\
              (forall imp0, aget (m_imports m) iid = Some imp0 -> im_kind imp0 = MI_Func fid)) /\
    (* I5 *) (m_tables m' = m_tables m /\ m_memories m' = m_memories m /\ m_globals m' = m_globals m /\
              m_exports m' = m_exports m /\ m_elements m' = m_elements m /\ m_data m' = m_data m /\
              m_start m' = m_start m /\ m_customs m' = m_customs m /\ m_producers m' = m_producers m /\
              m_name m' = m_name m /\ m_config m' = m_config m) /\
    (* I6 *) ((forall l, l < length (items (m_locals m)) ->
                 nth_error (items (m_locals m')) l = nth_error (items (m_locals m)) l) /\
              lf_args lf = map N.of_nat (seq (length (items (m_locals m))) (length (ty_params t))) /\
              Forall2 (fun a ty => nth_error (items (m_locals m')) (N.to_nat a) = Some {| lo_ty := ty; lo_name := None |})
                      (lf_args lf) (ty_params t)) /\
    (* I7 *) (exists m1 args m2 ty ety ar,
                add_arg_locals m (ty_params t) = (m1, args) /\
                builder_new m1 (ty_params t) (ty_results t) = (m2, ty, ety) /\
                run_builder ety (body args) = Ok ar /\ lf_arena lf = ar /\ lf_args lf = args /\ lf_ty lf = ty) /\
    types_wf (m_types m').
Proof. exact (replace_imported_spec m fid body m'). Qed.

Theorem c18_imported_removes_first_import_of_f : forall m fid body m',
    replace_imported_func m fid body = POk m' ->
    exists iid imp, imported_func_import m fid = Some iid /\
      aget (m_imports m) iid = Some imp /\ im_kind imp = MI_Func fid /\
      (forall j x, aget (m_imports m) j = Some x -> (j < iid)%N -> im_kind x <> MI_Func fid) /\
      length (items (m_imports m')) = length (items (m_imports m)) /\
      dead (m_imports m') = N.to_nat iid :: dead (m_imports m).
Proof. exact imported_I4_first. Qed.

Theorem c18_imported_refused_when_not_imported m fid body :
  (forall i imp, aget (m_imports m) i = Some imp -> im_kind imp <> MI_Func fid) ->
  replace_imported_func m fid body = PErr.
Proof. exact (imported_I8_not_imported m fid body). Qed.

Theorem c18_imported_refused_when_not_import_kind m fid body iid f :
  imported_func_import m fid = Some iid -> aget (m_funcs m) fid = Some f ->
  (forall imp tid, fn_kind f <> FK_Import imp tid) ->
  replace_imported_func m fid body = PErr.
Proof. exact (imported_I8_not_import_kind m fid body iid f). Qed.

Theorem c18_replace_exported :
  forall (m : wir) (fid : N) (body : list N -> list bop) (m' : wir) (nid : N),
         Forall (fun d : nat => (d < length (items (m_funcs m)))%nat) (dead (m_funcs m)) ->
         types_wf (m_types m) ->
         replace_exported_func m fid body = POk (m', nid) ->
         exists (eid : N) (e : mexport) (f : mfunc) (lf0 : mlocalfunc) (t : mtype) 
         (lf : mlocalfunc),
           exported_func_export m fid = Some eid /\
           aget (m_exports m) eid = Some e /\
           ex_kind e = EK_Func /\
           ex_item e = fid /\
           aget (m_funcs m) fid = Some f /\
           fn_kind f = FK_Local lf0 /\
           types_get m (lf_ty lf0) = Some t /\
           (nid = N.of_nat (length (items (m_funcs m))) /\
            aget (m_funcs m') nid = Some {| fn_kind := FK_Local lf; fn_name := None |} /\
            (exists t' : mtype,
               types_get m' (lf_ty lf) = Some t' /\
               ty_params t' = ty_params t /\ ty_results t' = ty_results t /\ ty_entry t' = false) /\
            lf_args lf = lf_args lf0) /\
           (forall g : N,
            (N.to_nat g < length (items (m_funcs m)))%nat -> aget (m_funcs m') g = aget (m_funcs m) g) /\
           (aget (m_exports m') eid = Some {| ex_name := ex_name e; ex_kind := ex_kind e; ex_item := nid |} /\
            (forall x : N, x <> eid -> aget (m_exports m') x = aget (m_exports m) x) /\
            length (items (m_exports m')) = length (items (m_exports m)) /\
            dead (m_exports m') = dead (m_exports m)) /\
           (m_imports m' = m_imports m /\
            m_tables m' = m_tables m /\
            m_memories m' = m_memories m /\
            m_globals m' = m_globals m /\
            ((forall (id : N) (x : melem), aget (m_elements m) id = Some x -> aget (m_elements m') id = Some x) /\
             (m_elements m' = m_elements m \/
              (exists fs : list N,
                 fs <> [] /\
                 items (m_elements m') =
                 items (m_elements m) ++
                 [{| el_kind := ELK_Declared; el_items := ELI_Funcs fs; el_name := None |}] /\
                 dead (m_elements m') = dead (m_elements m)))) /\
            m_data m' = m_data m /\
            m_start m' = m_start m /\
            m_customs m' = m_customs m /\
            m_locals m' = m_locals m /\
            m_producers m' = m_producers m /\ m_name m' = m_name m /\ m_config m' = m_config m) /\
           (exists (m2 : wir) (ty ety : N) (ar : IR.arena),
              builder_new m (ty_params t) (ty_results t) = (m2, ty, ety) /\
              run_builder ety (body (lf_args lf0)) = Ok ar /\ lf_arena lf = ar /\ lf_ty lf = ty) /\
           types_wf (m_types m') /\
           Forall (fun d : nat => (d < length (items (m_funcs m')))%nat) (dead (m_funcs m')).
Proof. exact replace_exported_spec_full. Qed.

Theorem c18_exported_refused_when_not_exported :
  forall (m : wir) (fid : N) (body : list N -> list bop),
         (forall (i : N) (e : mexport),
          aget (m_exports m) i = Some e -> ~ (ex_kind e = EK_Func /\ ex_item e = fid)) ->
         replace_exported_func m fid body = PErr.
Proof. exact exported_E5_not_exported_full. Qed.

Theorem c18_exported_refused_when_not_local :
  forall (m : wir) (fid : N) (body : list N -> list bop) (eid : N) (f : mfunc),
         exported_func_export m fid = Some eid ->
         aget (m_funcs m) fid = Some f ->
         (forall lf : mlocalfunc, fn_kind f <> FK_Local lf) -> replace_exported_func m fid body = PErr.
Proof. exact exported_E5_not_local_full. Qed.

Theorem c18_premise_types_wf_needed :
  exists m fid body m' f imp tid t f' lf,
    replace_imported_func m fid body = POk m' /\
    aget (m_funcs m) fid = Some f /\ fn_kind f = FK_Import imp tid /\ types_get m tid = Some t /\
    aget (m_funcs m') fid = Some f' /\ fn_kind f' = FK_Local lf /\
    types_get m' (lf_ty lf) = None.
Proof. exact imported_I2_refuted. Qed.

Theorem c18_premise_no_tombstone_beyond_arena_needed :
  exists (m : wir) (fid : N) (body : list N -> list bop) (m' : wir) (nid : N),
           types_wf (m_types m) /\
           replace_exported_func m fid body = POk (m', nid) /\ aget (m_funcs m') nid = None.
Proof. exact exported_E1_refuted_full. Qed.

(* ---- the last step of replace_exported_func (repair c668bb7): the retargeted export may have been the only thing declaring the original function
   for `ref.func`; the core edit alone leaves it undeclared (witness on a parsed module); the whole edit ends with nothing undeclared, adds at
   most one declared segment listing exactly the undeclared functions, and the new step cannot panic on a parsed module whose replacement
   body can be traversed (premise needed: witness) *)
Theorem c18_parse_then_replace_exported :
  forall (cf : config) (ver : str) (w : wmod) (s : pst) (fid : N) (body : list N -> list bop) 
           (m' : wir) (nid : N),
         parseM cf ver w = POk s ->
         let m := ps_m s in
         replace_exported_func m fid body = POk (m', nid) ->
         exists (eid : N) (e : mexport) (f : mfunc) (lf0 : mlocalfunc) (t : mtype) 
         (lf : mlocalfunc),
           exported_func_export m fid = Some eid /\
           aget (m_exports m) eid = Some e /\
           ex_kind e = EK_Func /\
           ex_item e = fid /\
           aget (m_funcs m) fid = Some f /\
           fn_kind f = FK_Local lf0 /\
           types_get m (lf_ty lf0) = Some t /\
           (nid = N.of_nat (length (items (m_funcs m))) /\
            aget (m_funcs m') nid = Some {| fn_kind := FK_Local lf; fn_name := None |} /\
            (exists t' : mtype,
               types_get m' (lf_ty lf) = Some t' /\
               ty_params t' = ty_params t /\ ty_results t' = ty_results t /\ ty_entry t' = false) /\
            lf_args lf = lf_args lf0) /\
           (forall g : N,
            (N.to_nat g < length (items (m_funcs m)))%nat -> aget (m_funcs m') g = aget (m_funcs m) g) /\
           (aget (m_exports m') eid = Some {| ex_name := ex_name e; ex_kind := ex_kind e; ex_item := nid |} /\
            (forall x : N, x <> eid -> aget (m_exports m') x = aget (m_exports m) x) /\
            length (items (m_exports m')) = length (items (m_exports m)) /\
            dead (m_exports m') = dead (m_exports m)) /\
           (m_imports m' = m_imports m /\
            m_tables m' = m_tables m /\
            m_memories m' = m_memories m /\
            m_globals m' = m_globals m /\
            ((forall (id : N) (x : melem), aget (m_elements m) id = Some x -> aget (m_elements m') id = Some x) /\
             (m_elements m' = m_elements m \/
              (exists fs : list N,
                 fs <> [] /\
                 items (m_elements m') =
                 items (m_elements m) ++
                 [{| el_kind := ELK_Declared; el_items := ELI_Funcs fs; el_name := None |}] /\
                 dead (m_elements m') = dead (m_elements m)))) /\
            m_data m' = m_data m /\
            m_start m' = m_start m /\
            m_customs m' = m_customs m /\
            m_locals m' = m_locals m /\
            m_producers m' = m_producers m /\ m_name m' = m_name m /\ m_config m' = m_config m) /\
           (exists (m2 : wir) (ty ety : N) (ar : IR.arena),
              builder_new m (ty_params t) (ty_results t) = (m2, ty, ety) /\
              run_builder ety (body (lf_args lf0)) = Ok ar /\ lf_arena lf = ar /\ lf_ty lf = ty) /\
           types_wf (m_types m') /\
           Forall (fun d : nat => (d < length (items (m_funcs m')))%nat) (dead (m_funcs m')).
Proof. exact parse_then_replace_exported_full. Qed.
Theorem c18_replace_exported_declares_all_referenced :
  forall (cf : config) (ver : str) (w : wmod) (s : pst) (fid : N) (body : list N -> list bop) 
           (m' : wir) (nid : N),
         parseM cf ver w = POk s ->
         replace_exported_func (ps_m s) fid body = POk (m', nid) -> undeclared_funcs m' = Ok [].
Proof. exact replace_exported_declares_all_referenced_after_parse. Qed.
Theorem c18_replace_exported_declares_all_referenced_wf :
  forall (m : wir) (fid : N) (body : list N -> list bop) (m' : wir) (nid : N),
         dead_in_range (m_elements m) ->
         replace_exported_func m fid body = POk (m', nid) -> undeclared_funcs m' = Ok [].
Proof. exact replace_exported_declares_all_referenced_partial. Qed.
Theorem c18_core_edit_leaves_undeclared :
  exists (w : wmod) (s : pst) (fid : N) (body : list N -> list bop) (m1 : wir) 
         (nid : N),
           parseM default_config [49%N] w = POk s /\
           aiter (m_elements (ps_m s)) = [] /\
           undeclared_funcs (ps_m s) = Ok [] /\
           replace_exported_func_core (ps_m s) fid body = POk (m1, nid) /\
           (exists (f : N) (fs : list N), undeclared_funcs m1 = Ok (f :: fs)).
Proof. exact core_leaves_undeclared_after_parse_refuted. Qed.
Theorem c18_declare_step_does_not_panic :
  forall (cf : config) (ver : str) (w : wmod) (s : pst) (fid : N) (body : list N -> list bop) 
           (m1 : wir) (nid : N),
         ParseTotal.valid_stream w ->
         parseM cf ver w = POk s ->
         replace_exported_func_core (ps_m s) fid body = POk (m1, nid) ->
         (forall (fn : mfunc) (lf : mlocalfunc),
          aget (m_funcs m1) nid = Some fn ->
          fn_kind fn = FK_Local lf -> exists evs : list Traversal.ev, lf_log lf = Ok evs) ->
         exists m' : wir, replace_exported_func (ps_m s) fid body = POk (m', nid).
Proof. exact replace_exported_no_panic_from_declare. Qed.
Theorem c18_declare_step_premise_needed :
  exists (w : wmod) (s : pst) (fid : N) (body : list N -> list bop) (m1 : wir) 
         (nid : N),
           ParseTotal.valid_stream w /\
           parseM default_config [49%N] w = POk s /\
           replace_exported_func_core (ps_m s) fid body = POk (m1, nid) /\
           replace_exported_func (ps_m s) fid body = PPanic.
Proof. exact replace_exported_no_panic_from_declare_refuted. Qed.
Theorem c18_new_segment_lists_exactly_the_undeclared :
  forall (m : wir) (fid : N) (body : list N -> list bop) (m' : wir) (nid : N),
         replace_exported_func m fid body = POk (m', nid) ->
         exists (m1 : wir) (fs : list N),
           replace_exported_func_core m fid body = POk (m1, nid) /\
           undeclared_funcs m1 = Ok fs /\
           (fs = [] /\ m_elements m' = m_elements m \/
            fs <> [] /\ m_elements m' = fst (aalloc (m_elements m) (decl_seg fs))).
Proof. exact replace_exported_new_segment. Qed.

Print Assumptions c18_replace_imported.
Print Assumptions c18_imported_removes_first_import_of_f.
Print Assumptions c18_imported_refused_when_not_imported.
Print Assumptions c18_imported_refused_when_not_import_kind.
Print Assumptions c18_replace_exported.
Print Assumptions c18_exported_refused_when_not_exported.
Print Assumptions c18_exported_refused_when_not_local.
Print Assumptions c18_premise_types_wf_needed.
Print Assumptions c18_premise_no_tombstone_beyond_arena_needed.
Print Assumptions c18_parse_then_replace_exported.
Print Assumptions c18_replace_exported_declares_all_referenced.
Print Assumptions c18_replace_exported_declares_all_referenced_wf.
Print Assumptions c18_core_edit_leaves_undeclared.
Print Assumptions c18_declare_step_does_not_panic.
Print Assumptions c18_declare_step_premise_needed.
Print Assumptions c18_new_segment_lists_exactly_the_undeclared.
