(* C09 - parallel and serial builds agree under every schedule.  Statements only; proofs in Proofs/Par.v.
   Gen/ParSites.v is REGENERATED: every `maybe_parallel!` site under src/ with the combinator chain applied to it; the
   translator refuses any shape other than `map(..).collect::<Vec<_>>()` (rayon's indexed collect: result i in slot i)
   and `any(..)`.  A schedule is the order in which the items are evaluated (closures without side effects on shared
   state: they read the module and write only their own result).
   - for every schedule that evaluates every item, the collected vector is the serial `map`, in the serial order;
     two schedules therefore give the same vector (hence the same bytes: everything after the collect is sequential);
   - `any` gives the serial `existsb` although evaluation stops at the first hit and the order is arbitrary;
   - parse_local_functions consumes the collected results sequentially in index order with `?`: the accept/reject
     decision and the reported error are the serial ones.
   That the closures are free of shared mutable state is Rust's type system (Sync / no &mut capture) plus the
   correspondence run: the harness is built with and without --features parallel and compared byte for byte under
   RAYON_NUM_THREADS in {1,2,3,7,16}, repeatedly. *)
From Coq Require Import List Arith Bool Permutation. Import ListNotations.
From WV Require Import Gen.ParSites Model.Par Proofs.Par.

Theorem c09_sites_are_order_preserving : Forall (fun s => s = PS_MapCollectVec \/ s = PS_Any) par_sites.
Proof. unfold par_sites. repeat (constructor; [first [left; reflexivity|right; reflexivity]|]). constructor. Qed.

Theorem c09_map_collect_is_serial : forall (A B : Type) (f : A -> B) (l : list A) (sched : list nat),
  (forall j, j < length l -> In j sched) -> par_map_collect sched f l = Some (map f l).
Proof. exact (@par_map_collect_serial). Qed.

Theorem c09_schedule_free : forall (A B : Type) (f : A -> B) (l : list A) (s1 s2 : list nat),
  Permutation s1 (seq 0 (length l)) -> Permutation s2 (seq 0 (length l)) -> par_map_collect s1 f l = par_map_collect s2 f l.
Proof. exact (@par_map_schedule_free). Qed.

Theorem c09_any_is_serial : forall (A : Type) (p : A -> bool) (l : list A) (sched : list nat),
  (forall j, j < length l -> In j sched) -> par_any sched p l = existsb p l.
Proof. exact (@par_any_serial). Qed.

Theorem c09_parse_decision_is_serial : forall (A E T : Type) (f : A -> E + T) (l : list A) (sched : list nat),
  (forall j, j < length l -> In j sched) -> option_map first_err (par_map_collect sched f l) = Some (first_err (map f l)).
Proof. exact (@parse_decision_schedule_free). Qed.

Print Assumptions c09_sites_are_order_preserving.
Print Assumptions c09_map_collect_is_serial.
Print Assumptions c09_schedule_free.
Print Assumptions c09_any_is_serial.
Print Assumptions c09_parse_decision_is_serial.
