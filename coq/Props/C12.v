(* C12 - unknown custom sections survive untouched. Statements only.
   [parseM]/[emitM]/[gc] = executable models of Module::parse / emit_wasm / passes::gc::run
   (Model/ParseM.v, EmitM.v, GC.v), tied to the code by the module-level correspondence run. *)
From Coq Require Import List NArith Bool. Import ListNotations.
From WV Require Import Gen.Ops Model.Common Model.IR Model.ModuleM Model.ParseM Model.EmitM Model.GC Proofs.CustomsCfg.
From WV Require Import Proofs.GcDeclare.
Local Open Scope nat_scope.

(* every custom section walrus does not interpret (raw_customs: not `name`, not `producers`, not
   `.debug*`) comes out of parse -> emit with identical name and payload, exactly once, in the
   original relative order - wherever it was placed among the other sections *)
Theorem c12_roundtrip : forall cf ver w s ilen dw e,
  parseM cf ver w = POk s -> emitM (ps_m s) ilen dw = Ok e -> raw_customs dw = [] ->
  raw_customs (em_secs e) = filter (fun c => negb (starts_with_debug (fst c))) (raw_customs w).
Proof. exact CustomsCfg.c12_roundtrip. Qed.

(* the GC pass does not touch the custom sections *)
Theorem c12_gc : forall m m', gc m = Ok m' -> m_customs m' = m_customs m.
Proof. exact gc_customs_full. Qed.

(* emitting consumes nothing: the module is unchanged, so a second emit yields the same sections *)
Theorem c12_emit_keeps_module : forall m ilen dw e, emitM m ilen dw = Ok e -> em_module e = m.
Proof. exact emit_keeps_module. Qed.
Theorem c12_twice : forall m ilen dw e e',
  emitM m ilen dw = Ok e -> emitM (em_module e) ilen dw = Ok e' -> em_secs e' = em_secs e.
Proof. exact emit_twice_customs. Qed.

(* non-vacuity: a module with two customs, one before the type section, parses and emits *)
Example c12_nonvacuous :
  let w := [S_Custom (CS_Raw [120]%N [1;2]%N); S_Types [([], [])]; S_Custom (CS_Raw [] []); S_Custom (CS_Raw [120]%N [1;2]%N)] in
  exists s e, parseM default_config [48]%N w = POk s /\ emitM (ps_m s) (fun _ => 1%N) [] = Ok e /\
              raw_customs (em_secs e) = [([120]%N, [1;2]%N); ([], []); ([120]%N, [1;2]%N)].
Proof. eexists. eexists. split; [vm_compute; reflexivity|]. split; vm_compute; reflexivity. Qed.

From WV Require Gen.ConfigEmit Proofs.Config.
(* the source of Module::emit_wasm the model follows (regenerated on every run): section order, switch conditions, and the custom-section
   loop: skip .debug*, apply the code transform, write name and data of EVERY remaining section, hand the sections back *)
Theorem c12_emit_wasm_source_pinned : WV.Gen.ConfigEmit.emit_wasm_skeleton = WV.Proofs.Config.expected_emit_wasm_skeleton.
Proof. exact WV.Proofs.Config.emit_wasm_skeleton_pinned. Qed.

(* the custom-section dispatch of Module::parse in the SOURCE (regenerated): only "producers", "name" and ".debug*" are interpreted, every other
   section is captured raw *)
From WV Require Gen.ParseSkeleton Proofs.ParsePinned.
Theorem c12_parse_source_skeleton : WV.Gen.ParseSkeleton.parse_skeleton = WV.Proofs.ParsePinned.expected_parse_skeleton.
Proof. exact WV.Proofs.ParsePinned.parse_skeleton_pinned. Qed.

(* ---- below the section stream (Model/Frame.v, proofs in Proofs/Frame.v): the framing of a module and the layout of a custom section.
   Reading back what was framed gives the section stream; equal bytes <-> equal section streams; the (name, data) of a custom section is
   recovered from its payload for EVERY encoding of the name length (minimal or padded); taking `1 + |name|` bytes off the payload is right
   only while the name is shorter than 128 bytes (witness).  Tied to wasmparser / wasm-encoder / what walrus stores by Run/FrameRun.v. *)
From WV Require Import Model.Leb Model.Frame Proofs.Frame.
Theorem c12_unframe_frame : forall secs, Forall small_sec secs -> unframe_module (frame_module secs) = Some secs.
Proof. exact unframe_frame_module. Qed.

Theorem c12_equal_bytes_iff_equal_sections : forall a b, Forall small_sec a -> Forall small_sec b ->
  (frame_module a = frame_module b <-> a = b).
Proof. exact frame_module_iff. Qed.

Theorem c12_custom_name_and_data_recovered : forall name data, (lenN name < 2 ^ 126)%N ->
  split_custom (custom_payload name data) = Some (name, data).
Proof. exact split_custom_payload. Qed.

Theorem c12_custom_name_and_data_recovered_any_length_encoding : forall lb name data,
  dec_u (lb ++ name ++ data) = Some (lenN name, name ++ data) -> split_custom (lb ++ name ++ data) = Some (name, data).
Proof. exact split_custom_any. Qed.

Theorem c12_one_byte_offset_right_below_128 : forall name data, (lenN name < 128)%N ->
  skipn (1 + length name) (custom_payload name data) = data.
Proof. exact one_byte_len_ok. Qed.

Theorem c12_one_byte_offset_refuted : exists name data, skipn (1 + length name) (custom_payload name data) <> data.
Proof. exact naive_split_refuted. Qed.


(* ================================================================== custom sections at byte level (Model/ModBytes.v): name, then the payload untouched *)
From WV Require Import Model.ModBytes Proofs.ModBytes.
Theorem c12_custom_section_bytes_round_trip :
  forall (c : wcsec) (b : list N), enc_custom c = Some b -> wf_custom c = true -> dec_custom b = Some c.
Proof. exact dec_enc_custom. Qed.


(* ================================================================== raw custom sections are BLOCKS OF THE OUTPUT BYTES (Proofs/BytesEnd.v): the output is the
   magic, walrus's own framed sections, then the framed raw custom sections of the input - each once, in input order, byte for byte *)
From WV Require Import Proofs.BytesEnd.
Theorem c12_raw_custom_sections_are_blocks_of_the_output_bytes :
  forall (cf : config) (ver : str) (ilen : wins -> N) (bs b1 : list N) (w : wmod),
    dec_wmod false bs = Some w -> roundtrip_bytes cf ver ilen bs = Some b1 ->
    exists own : list (N * list N), b1 = (magic_version ++ flat_map frame_section (own ++ map raw_frame (CustomsCfg.raw_customs w)))%list /\ Forall own_frame own.
Proof. exact raw_customs_bytes_preserved. Qed.
Theorem c12_every_raw_custom_section_occurs_in_the_output_bytes :
  forall (cf : config) (ver : str) (ilen : wins -> N) (bs b1 : list N) (w : wmod) (name : str) (data payload : list N),
    dec_wmod false bs = Some w -> roundtrip_bytes cf ver ilen bs = Some b1 ->
    In (S_Custom (CS_Raw name data)) w -> enc_custom (CS_Raw name data) = Some payload -> exists pre post : list N, b1 = (pre ++ frame_section (0%N, payload) ++ post)%list.
Proof. exact raw_custom_block_in_output. Qed.

Print Assumptions c12_roundtrip.
Print Assumptions c12_gc.
Print Assumptions c12_emit_keeps_module.
Print Assumptions c12_twice.
Print Assumptions c12_emit_wasm_source_pinned.
Print Assumptions c12_parse_source_skeleton.
Print Assumptions c12_unframe_frame.
Print Assumptions c12_equal_bytes_iff_equal_sections.
Print Assumptions c12_custom_name_and_data_recovered.
Print Assumptions c12_custom_name_and_data_recovered_any_length_encoding.
Print Assumptions c12_one_byte_offset_right_below_128.
Print Assumptions c12_one_byte_offset_refuted.
Print Assumptions c12_custom_section_bytes_round_trip.
Print Assumptions c12_raw_custom_sections_are_blocks_of_the_output_bytes.
Print Assumptions c12_every_raw_custom_section_occurs_in_the_output_bytes.
