(* C17 - identifiers are stable, never reused, and deletion is isolated.
   Statements only: every proof is [exact <lemma>] (lemmas in Proofs/C17L.v,
   Proofs/Arena.v, Proofs/ArenaSet.v); model in Model/Arena.v.
   Reading guide: [run]/[srun] execute ANY list of public operations (add,
   delete, get, contains, iterate, len, find) on a TombstoneArena-backed
   collection / on the de-duplicating ArenaSet behind ModuleTypes. *)
From Coq Require Import List NArith Bool Arith Sorted.
Import ListNotations.
From WV Require Import Model.Arena Proofs.Arena Proofs.ArenaSet Proofs.C17L Run.ArenaRun.

Section C17.
  Variable A : Type.
  Variable on_delete : A -> A.
  Variable eqA : A -> A -> bool.
  Notation run := (run on_delete eqA).

  Theorem c17_fresh : forall ops a,
    ids_of A (snd (run a ops)) = seq (next_id a) (n_allocs A ops).
  Proof. exact (c17_fresh_l A on_delete eqA). Qed.

  Theorem c17_stable : forall ops a id v,
    index a id = Some v -> ~ In (ODelete id) ops -> index (fst (run a ops)) id = Some v.
  Proof. exact (c17_stable_l A on_delete eqA). Qed.

  Theorem c17_dead_forever : forall ops a id a',
    delete on_delete a id = Some a' ->
    let a'' := fst (run a' ops) in
    index a'' id = None /\ contains a'' id = false /\ (forall v, ~ In (id, v) (iter a'')).
  Proof. exact (c17_dead_forever_l A on_delete eqA). Qed.

  Theorem c17_delete_isolated : forall a id a' id',
    delete on_delete a id = Some a' -> id' <> id -> index a' id' = index a id'.
  Proof. exact (c17_delete_isolated_l A on_delete). Qed.

  Theorem c17_iter_live : forall (a : tarena A) id v, In (id, v) (iter a) <-> index a id = Some v.
  Proof. exact (c17_iter_live_l A on_delete eqA). Qed.

  Theorem c17_iter_order : forall a : tarena A, StronglySorted lt (map fst (iter a)).
  Proof. exact (c17_iter_order_l A). Qed.

  Theorem c17_len : forall ops,
    let a := fst (run empty ops) in len a = Some (length (iter a)).
  Proof. exact (c17_len_l A on_delete eqA). Qed.

  Theorem c17_find : forall (a : tarena A) v,
    match find_id eqA v (iter a) with
    | Some id => exists v0, index a id = Some v0 /\ eqA v0 v = true
    | None => forall id v0, index a id = Some v0 -> eqA v0 v = false
    end.
  Proof. exact (c17_find_l A on_delete eqA). Qed.

  Hypothesis eqA_refl : forall x, eqA x x = true.
  Hypothesis eqA_sym : forall x y, eqA x y = eqA y x.
  Hypothesis eqA_trans : forall x y z, eqA x y = true -> eqA y z = true -> eqA x z = true.
  Notation srun := (srun on_delete eqA).

  Theorem c17_dedup : forall ops v,
    let s := fst (srun aset_empty ops) in
    (exists id v0, index (arena s) id = Some v0 /\ eqA v0 v = true /\ insert eqA s v = (s, id)) \/
    ((forall id v0, index (arena s) id = Some v0 -> eqA v0 v = false) /\
     exists s', insert eqA s v = (s', next_id (arena s)) /\
                index (arena s') (next_id (arena s)) = Some v).
  Proof. exact (c17_dedup_l A on_delete eqA eqA_refl eqA_sym eqA_trans). Qed.

  Theorem c17_set_distinct : forall ops id1 id2 v1 v2,
    let s := fst (srun aset_empty ops) in
    index (arena s) id1 = Some v1 -> index (arena s) id2 = Some v2 ->
    eqA v1 v2 = true -> id1 = id2.
  Proof. exact (c17_set_distinct_l A on_delete eqA eqA_refl eqA_sym eqA_trans). Qed.

  Theorem c17_readd_after_delete : forall ops id v s' v',
    let s := fst (srun aset_empty ops) in
    index (arena s) id = Some v -> aset_remove on_delete eqA s id = Some s' -> eqA v v' = true ->
    exists s'', insert eqA s' v' = (s'', next_id (arena s)) /\ id < next_id (arena s) /\
                index (arena s'') id = None.
  Proof. exact (c17_readd_after_delete_l A on_delete eqA eqA_refl eqA_sym eqA_trans). Qed.

End C17.

(* The instance the correspondence check evaluates (items = lists of N). *)
Definition c17_types_dedup :=
  c17_dedup item (on_delete_kind 0) item_eqb item_eqb_refl item_eqb_sym item_eqb_trans.
Definition c17_types_readd :=
  c17_readd_after_delete item (on_delete_kind 0) item_eqb item_eqb_refl item_eqb_sym item_eqb_trans.

(* non-vacuity: a concrete history on the types set exercises every clause *)
Example c17_nonvacuous :
  model_outs 0%N [OAlloc [0;1;7]%N; OAlloc [0;1;7]%N; OAlloc [0;0]%N; ODelete 0; OGet 0; OAlloc [0;1;7]%N; OIter; OLen; OFind [0;1;7]%N]
  = [RId 0; RId 0; RId 1; RUnit; RPanic; RId 2; RList [(1, [0;0]%N); (2, [0;1;7]%N)]; RLen 2; RFind (Some 2)].
Proof. vm_compute. reflexivity. Qed.

Print Assumptions c17_fresh.
Print Assumptions c17_stable.
Print Assumptions c17_dead_forever.
Print Assumptions c17_delete_isolated.
Print Assumptions c17_iter_live.
Print Assumptions c17_iter_order.
Print Assumptions c17_len.
Print Assumptions c17_find.
Print Assumptions c17_dedup.
Print Assumptions c17_set_distinct.
Print Assumptions c17_readd_after_delete.
Print Assumptions c17_types_dedup.
Print Assumptions c17_types_readd.
