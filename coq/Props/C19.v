(* C19 - index maps exposed to extension code agree with the binaries.  Statements only; the proofs
   are in Proofs/IndexMaps.v.
   Parse-time map (src/parse.rs IndicesToIds): [ii_* ids] is the vector of ids in push order, so the
   entity the map returns for input index k is its k-th entry.  The theorems say the k-th entry is
   the arena id k and that the arena item k is the record built from the k-th definition of that
   index space in the input (imports first, then the module's own definitions).
   Emit-time map (src/emit.rs IdsToIndices): [em_x2i e] is the final map handed to
   CustomSection::data.  The theorems say the map is [number ids] (id at position k has index k)
   for the list of ids in the order in which the emitted sections list the entities. *)
From Coq Require Import List NArith ZArith Bool Arith. Import ListNotations.
From WV Require Import Gen.Ops Gen.Attrs Model.Common Model.IR Model.Arena Model.Locals Model.ModuleM Model.ParseM Model.EmitM.
From WV Require Import Proofs.IndexMaps.
Local Open Scope nat_scope.

Theorem c19_parse_ids_are_positions : forall cf ver w s, parseM cf ver w = POk s -> ids_consistent (ps_m s) (ps_ids s).
Proof. exact parseM_ids. Qed.

Theorem c19_parse_types : forall cf w s ts m' ids',
  parse_secs {| ps_m := empty_wir cf; ps_ids := empty_i2ids; ps_bodies := []; ps_names := []; ps_calls_on_parse := 0 |} w = POk s ->
  parse_types (ps_m s) (ps_ids s) ts = (m', ids') ->
  forall k t, nth_error ts k = Some t ->
  exists id ty, nth_error (ii_types ids') (length (ii_types (ps_ids s)) + k) = Some id /\
                aset_index (m_types m') (N.to_nat id) = Some ty /\
                ty_params ty = fst t /\ ty_results ty = snd t /\ ty_entry ty = false.
Proof. exact parse_types_spec_in_parse. Qed.

Theorem c19_parse_tables : forall m ids l m' ids', parse_tables m ids l = (m', ids') ->
  items (m_tables m') = items (m_tables m) ++ map gen_parse_table_local l.
Proof. exact parse_tables_spec. Qed.

Theorem c19_parse_memories : forall m ids l m' ids', parse_mems m ids l = (m', ids') ->
  items (m_memories m') = items (m_memories m) ++ map gen_parse_memory_local l.
Proof. exact parse_mems_spec. Qed.

Theorem c19_parse_imports : forall l m ids m' ids', parse_imports m ids l = POk (m', ids') ->
  let base := length (items (m_imports m)) in
  items (m_tables m') = items (m_tables m) ++ imp_tables base l /\
  items (m_memories m') = items (m_memories m) ++ imp_mems base l /\
  items (m_globals m') = items (m_globals m) ++ imp_globals base l /\
  items (m_funcs m') = items (m_funcs m) ++ imp_funcs (ii_types ids) base l /\
  items (m_imports m') = items (m_imports m) ++
     imp_entries (length (items (m_funcs m))) (length (items (m_tables m)))
                 (length (items (m_memories m))) (length (items (m_globals m))) l /\
  ii_types ids' = ii_types ids.
Proof. exact parse_imports_spec. Qed.

Theorem c19_emit_maps : forall m ilen dw e, emitM m ilen dw = Ok e ->
  exists fs, used_local_functions m = Ok fs /\
    xi_types (em_x2i e) = number (map fst (emitted_types m)) /\
    xi_funcs (em_x2i e) = number (imp_ids S_func (live_imports m) ++ map fst fs) /\
    xi_tables (em_x2i e) = number (imp_ids S_table (live_imports m) ++ map fst (local_tables m)) /\
    xi_memories (em_x2i e) = number (imp_ids S_memory (live_imports m) ++ map fst (local_memories m)) /\
    xi_globals (em_x2i e) = number (imp_ids S_global (live_imports m) ++ map gid (local_globals m)) /\
    xi_elements (em_x2i e) = number (map fst (aiter (m_elements m))) /\
    xi_data (em_x2i e) = number (map fst (aiter (m_data m))).
Proof. exact emitM_x2i. Qed.

Theorem c19_emit_lookup_is_position : forall x S id i, wf_map (space_map x S) ->
  (get_idx x S id = Ok i <-> nth_error (map fst (space_map x S)) (N.to_nat i) = Some id).
Proof. exact x2i_positions. Qed.

Theorem c19_emit_funcs : forall m ilen dw e, emitM m ilen dw = Ok e ->
  exists fs, used_local_functions m = Ok fs /\
    map fst (xi_funcs (em_x2i e)) = imported_funcs m ++ map fst fs /\
    map snd (xi_funcs (em_x2i e)) = iota (length (xi_funcs (em_x2i e))) /\
    (NoDup (imported_funcs m ++ map fst fs) -> wf_map (xi_funcs (em_x2i e))).
Proof. exact emit_order_funcs. Qed.

Theorem c19_emit_tables : forall m ilen dw e, emitM m ilen dw = Ok e ->
  map fst (xi_tables (em_x2i e)) = imported_tables m ++ map fst (local_tables m) /\
  map snd (xi_tables (em_x2i e)) = iota (length (xi_tables (em_x2i e))) /\
  (NoDup (imported_tables m ++ map fst (local_tables m)) -> wf_map (xi_tables (em_x2i e))).
Proof. exact emit_order_tables. Qed.

Theorem c19_emit_memories : forall m ilen dw e, emitM m ilen dw = Ok e ->
  map fst (xi_memories (em_x2i e)) = imported_memories m ++ map fst (local_memories m) /\
  map snd (xi_memories (em_x2i e)) = iota (length (xi_memories (em_x2i e))) /\
  (NoDup (imported_memories m ++ map fst (local_memories m)) -> wf_map (xi_memories (em_x2i e))).
Proof. exact emit_order_memories. Qed.

Theorem c19_emit_globals : forall m ilen dw e, emitM m ilen dw = Ok e ->
  map fst (xi_globals (em_x2i e)) = imported_globals m ++ map gid (local_globals m) /\
  map snd (xi_globals (em_x2i e)) = iota (length (xi_globals (em_x2i e))) /\
  (NoDup (imported_globals m ++ map gid (local_globals m)) -> wf_map (xi_globals (em_x2i e))).
Proof. exact emit_order_globals. Qed.

Theorem c19_emit_elements : forall m ilen dw e, emitM m ilen dw = Ok e ->
  map fst (xi_elements (em_x2i e)) = map fst (aiter (m_elements m)) /\ wf_map (xi_elements (em_x2i e)).
Proof. exact emit_order_elements. Qed.

Theorem c19_emit_data : forall m ilen dw e, emitM m ilen dw = Ok e ->
  map fst (xi_data (em_x2i e)) = map fst (aiter (m_data m)) /\ wf_map (xi_data (em_x2i e)).
Proof. exact emit_order_data. Qed.

Theorem c19_emit_types : forall m ilen dw e, emitM m ilen dw = Ok e ->
  map fst (xi_types (em_x2i e)) = map fst (emitted_types m) /\ wf_map (xi_types (em_x2i e)).
Proof. exact emit_order_types. Qed.

Theorem c19_sec_imports m x s x' : emit_imports m x = Ok (s, x') ->
  (live_imports m = [] /\ s = []) \/ exists ws, s = [S_Imports ws] /\ Forall2 (import_emitted m) (live_imports m) ws.
Proof. exact (emit_imports_entries m x s x'). Qed.

Theorem c19_sec_tables m x :
  fst (emit_tables m x) = match local_tables m with [] => [] | l => [S_Tables (map (fun p => gen_emit_table_local (snd p)) l)] end.
Proof. exact (emit_tables_entries m x). Qed.

Theorem c19_sec_memories m x :
  fst (emit_memories m x) = match local_memories m with [] => [] | l => [S_Mems (map (fun p => gen_emit_memory_local (snd p)) l)] end.
Proof. exact (emit_memories_entries m x). Qed.

(* parse-time map of locals: for the k-th code entry, parameters first, then the declared locals run by run, fresh
   consecutive ids, with the types of the declaration *)
From WV Require Import Proofs.Locals2 Proofs.Names.
Theorem c19_parse_local_map :
  forall (cf : config) (ver : nstr) (w : wmod) (s : pst),
         parseM cf ver w = POk s ->
         exists s1 : pst,
           parse_secs
             {|
               ps_m := empty_wir cf;
               ps_ids := empty_i2ids;
               ps_bodies := [];
               ps_names := [];
               ps_calls_on_parse := 0
             |} w = POk s1 /\
           (forall (k : nat) (b : wbody),
            nth_error (ps_bodies s1) k = Some b ->
            exists (fid : N) (f : mfunc) (ty : N) (t : mtype) (base : nat),
              nth_N (ii_funcs (ps_ids s))
                (len_N (iter (m_funcs (ps_m s1))) - len_N (ps_bodies s1) + N.of_nat k) = 
              Some fid /\
              aget (m_funcs (ps_m s1)) fid = Some f /\
              fn_kind f = FK_Uninit ty /\
              types_get (ps_m s) ty = Some t /\
              (let tys := ty_params t ++ expand_locals (wb_locals b) in
               let ls := map N.of_nat (seq base (length tys)) in
               locals_vec (ps_ids s) fid = ls /\
               (tys <> [] -> locals_of (ps_ids s) fid = Some ls) /\
               (tys = [] -> locals_of (ps_ids s) fid = None) /\
               (length (items (m_locals (ps_m s1))) <= base)%nat /\
               dead (m_locals (ps_m s)) = dead (m_locals (ps_m s1)) /\
               (forall (j : nat) (tyj : valty),
                nth_error tys j = Some tyj ->
                exists lo : mlocal,
                  nth_error (items (m_locals (ps_m s))) (base + j) = Some lo /\ lo_ty lo = tyj))).
Proof. exact parseM_local_map. Qed.


(* ---- the emit-time LOCAL maps: for every emitted function the recorded map is the numbering computed by emit_locals (a bijection onto
   [0, n) fixing the parameters and preserving types); a lookup gives the position among params-then-declared-locals; for parsed modules
   no side condition is left (parameters are distinct) *)
From Coq Require Import List NArith ZArith Bool Arith Lia Permutation.
Import ListNotations.
From WV Require Import Gen.Ops Model.Common Model.IR Model.Arena Model.Traversal Model.EmitFn Model.Locals
                       Model.ParseFn Model.ModuleM Model.ParseM Model.EmitM Gen.Attrs.
From WV Require Import Proofs.Arena Proofs.Order Proofs.IndexMaps Proofs.Names Proofs.Totality Proofs.TotalityBodies
                       Proofs.CustomsCfg Proofs.Locals2 Proofs.Structure Proofs.ParsedWf Proofs.Structure2
                       Proofs.Renumbering Proofs.Locals3.
From WV Require Import Proofs.Sigs2.
Theorem c19_emit_local_map_is_numbering :
  forall (m : wir) (ilen : wins -> N) (dw : list wsec) (e : emitted),
         emitM m ilen dw = Ok e ->
         exists fs : list (N * mlocalfunc),
           used_local_functions m = Ok fs /\
           Forall2 (fn_lmap_spec m) fs (em_fns e) /\
           xi_locals (em_x2i e) = map (fun ef : emitted_fn => (ef_id ef, ef_lmap ef)) (em_fns e) /\
           map fst (xi_locals (em_x2i e)) = map fst fs /\
           (forall (id : N) (lf : mlocalfunc),
            In (id, lf) fs -> exists f : mfunc, In (id, f) (aiter (m_funcs m)) /\ fn_kind f = FK_Local lf).
Proof. exact emit_local_map_is_numbering. Qed.

Theorem c19_emit_local_map_lookup_is_position :
  forall (m : wir) (p : N * mlocalfunc) (ef : emitted_fn),
         fn_lmap_spec m p ef ->
         exists evs : list ev,
           lf_log (snd p) = Ok evs /\
           (let ty := local_ty_fn m in
            let args := lf_args (snd p) in
            let order := locals_order ty args (used_of_log evs) in
            firstn (length args) order = args /\
            map ty order = map ty args ++ expand (wb_locals (ef_body ef)) /\
            length (ef_lmap ef) = length order /\
            (forall l j : N, lookup l (ef_lmap ef) = Some j -> nth_error order (N.to_nat j) = Some l) /\
            (NoDup args ->
             forall (l : N) (k : nat), nth_error order k = Some l -> lookup l (ef_lmap ef) = Some (N.of_nat k))).
Proof. exact emit_local_map_lookup_is_position. Qed.

Theorem c19_parsed_local_maps_bijective :
  forall (cf : config) (ver : nstr) (w : wmod) (s : pst) (ilen : wins -> N) 
           (dw : list wsec) (e : emitted),
         parseM cf ver w = POk s ->
         emitM (ps_m s) ilen dw = Ok e ->
         forall ef : emitted_fn,
         In ef (em_fns e) ->
         exists (f : mfunc) (lf : mlocalfunc) (evs : list ev),
           In (ef_id ef, f) (aiter (m_funcs (ps_m s))) /\
           fn_kind f = FK_Local lf /\
           lf_log lf = Ok evs /\
           NoDup (lf_args lf) /\
           (let ty := local_ty_fn (ps_m s) in
            let args := lf_args lf in
            let used := used_of_log evs in
            let lmap := ef_lmap ef in
            let order := locals_order ty args used in
            let tys := map ty args ++ expand (wb_locals (ef_body ef)) in
            lmap = snd (emit_locals ty args used) /\
            wb_locals (ef_body ef) = fst (emit_locals ty args used) /\
            map ty order = tys /\
            length lmap = length tys /\
            (forall (l : N) (k : nat), lookup l lmap = Some (N.of_nat k) <-> nth_error order k = Some l) /\
            (forall l : N,
             In l args \/ In l used -> exists j : N, lookup l lmap = Some j /\ (j < N.of_nat (length tys))%N) /\
            (forall l j : N, lookup l lmap = Some j -> In l args \/ In l used) /\
            (forall l1 l2 j : N, lookup l1 lmap = Some j -> lookup l2 lmap = Some j -> l1 = l2) /\
            (forall j : N,
             (j < N.of_nat (length tys))%N -> exists l : N, (In l args \/ In l used) /\ lookup l lmap = Some j) /\
            (forall (k : nat) (a : N), nth_error args k = Some a -> lookup a lmap = Some (N.of_nat k)) /\
            (forall l j : N, lookup l lmap = Some j -> nth_error tys (N.to_nat j) = Some (ty l))).
Proof. exact parsed_local_maps_bijective. Qed.

Theorem c19_parsed_args_distinct :
  forall (cf : config) (ver : nstr) (w : wmod) (s : pst),
         parseM cf ver w = POk s ->
         forall (id : N) (f : mfunc) (lf : mlocalfunc),
         aget (m_funcs (ps_m s)) id = Some f -> fn_kind f = FK_Local lf -> NoDup (lf_args lf).
Proof. exact parsed_args_NoDup. Qed.


(* the order of the parse steps of the SOURCE (regenerated), which fixes the order in which ids are created *)
From WV Require Gen.ParseSkeleton Proofs.ParsePinned.
Theorem c19_parse_source_skeleton : WV.Gen.ParseSkeleton.parse_skeleton = WV.Proofs.ParsePinned.expected_parse_skeleton.
Proof. exact WV.Proofs.ParsePinned.parse_skeleton_pinned. Qed.

Print Assumptions c19_parse_ids_are_positions.
Print Assumptions c19_parse_types.
Print Assumptions c19_parse_tables.
Print Assumptions c19_parse_memories.
Print Assumptions c19_parse_imports.
Print Assumptions c19_emit_maps.
Print Assumptions c19_emit_lookup_is_position.
Print Assumptions c19_emit_funcs.
Print Assumptions c19_emit_tables.
Print Assumptions c19_emit_memories.
Print Assumptions c19_emit_globals.
Print Assumptions c19_emit_elements.
Print Assumptions c19_emit_data.
Print Assumptions c19_emit_types.
Print Assumptions c19_sec_imports.
Print Assumptions c19_sec_tables.
Print Assumptions c19_sec_memories.
Print Assumptions c19_parse_local_map.
Print Assumptions c19_emit_local_map_is_numbering.
Print Assumptions c19_emit_local_map_lookup_is_position.
Print Assumptions c19_parsed_local_maps_bijective.
Print Assumptions c19_parsed_args_distinct.
Print Assumptions c19_parse_source_skeleton.
