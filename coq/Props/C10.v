(* C10 - DWARF addresses follow their instructions and functions.  Statements only; proofs in Proofs/Dwarf.v.
   Model/Dwarf.v models the address classifier (CodeAddressGenerator::find_address), the converter
   (CodeAddressConverter::find_address) and the rebase to the start of the code section contents.
   [tables_wf t] is what parsing guarantees about the two tables (instruction addresses strictly increasing, function
   entries disjoint and of the shape size-LEB ++ body, every instruction strictly after the body start of its function);
   c10_premises_satisfiable exhibits such tables.
   - a row whose address was the start of an instruction is classified as THAT instruction (either search preference) and
     is converted to the output offset the instruction map gives for it - by C11 the first byte of the same instruction -,
     relative to the code section contents; if the instruction is not in the map (removed code) the result is None: the
     row is dropped, never redirected;
   - low_pc (start of the function body) and high_pc (end of the function) of a subprogram are classified as body start
     and function end of THAT function and converted to the body start and end of its emitted entry: the converted range
     has exactly the size of the emitted body, whatever happened to the size, the size field or the first instruction;
     for a removed function both are None (the emitter tombstones them);
   - addresses outside every function are Unknown / None.
   The DIE and line-program plumbing around these functions (gimli reader/writer, sequence handling) is covered
   end-to-end by the correspondence run, not modelled. *)
From Coq Require Import List NArith Bool Sorted. Import ListNotations.
From WV Require Import Model.Common Model.Dwarf Model.CodeMap Proofs.Dwarf.
Open Scope N_scope.

Theorem c10_row_address_is_its_instruction :
  forall t : dtables,
         tables_wf t ->
         forall a loc : N, In (a, loc) (dt_instrs t) -> forall incl : bool, find_address t a incl = CInstr loc.
Proof. exact find_instr. Qed.

Theorem c10_row_follows_instruction :
  forall t : dtables,
         tables_wf t ->
         forall (c : ctrans) (a loc x : N) (incl : bool),
         In (a, loc) (dt_instrs t) ->
         lookup loc (ct_imap c) = Some x -> convert_address t c a incl = Some (x - ct_start c).
Proof. exact convert_instr_kept. Qed.

Theorem c10_removed_code_dropped :
  forall t : dtables,
         tables_wf t ->
         forall (c : ctrans) (a loc : N) (incl : bool),
         In (a, loc) (dt_instrs t) -> lookup loc (ct_imap c) = None -> convert_address t c a incl = None.
Proof. exact convert_instr_removed. Qed.

Theorem c10_body_start_recovered :
  forall s sz : N, body_start (s, s + leb5 sz + sz) = s + leb5 sz.
Proof. exact body_start_spec_gen. Qed.

Theorem c10_low_pc_is_body_start :
  forall t : dtables,
         tables_wf t ->
         forall r : N * N * N,
         In r (dt_ranges t) ->
         forall incl : bool, find_address t (body_start (fst r)) incl = CBodyStart (snd r).
Proof. exact find_body_start. Qed.

Theorem c10_high_pc_is_function_end :
  forall t : dtables,
         tables_wf t ->
         forall r : N * N * N, In r (dt_ranges t) -> find_address t (rng_end r) true = CFnEdge (snd r).
Proof. exact find_fn_end. Qed.

Theorem c10_subprogram_covers_same_function :
  forall t : dtables,
         tables_wf t ->
         forall (c : ctrans) (r : N * N * N) (s' e' sz' : N) (incl : bool),
         In r (dt_ranges t) ->
         lookup (snd r) (ct_franges c) = Some (s', e') ->
         2 <= sz' ->
         e' = s' + leb5 sz' + sz' ->
         ct_start c <= s' ->
         convert_address t c (body_start (fst r)) incl = Some (s' + leb5 sz' - ct_start c) /\
         convert_address t c (rng_end r) true = Some (e' - ct_start c) /\
         e' - ct_start c - (s' + leb5 sz' - ct_start c) = sz'.
Proof. exact subprogram_range. Qed.

Theorem c10_subprogram_of_removed_function :
  forall t : dtables,
         tables_wf t ->
         forall (c : ctrans) (r : N * N * N) (incl : bool),
         In r (dt_ranges t) ->
         lookup (snd r) (ct_franges c) = None ->
         convert_address t c (body_start (fst r)) incl = None /\ convert_address t c (rng_end r) true = None.
Proof. exact subprogram_removed. Qed.

Theorem c10_unknown_address :
  forall t : dtables,
         tables_wf t ->
         forall (a : N) (incl : bool),
         (forall r : N * N * N, In r (dt_ranges t) -> a < rng_start r \/ rng_end r < a) ->
         find_address t a incl = CUnknown /\ (forall c : ctrans, convert_address t c a incl = None).
Proof. exact find_unknown. Qed.

Theorem c10_premises_satisfiable :
  tables_wf ex_tables.
Proof. exact ex_tables_wf. Qed.

(* ---- the row loop of convert_line_program (Model/LineProg.v, replayed against the rows gimli reads back from every emission):
   for EVERY address converter cv: gimli's writer assertions cannot fire; on a well-formed program the conversion never errs
   and every emitted sequence is terminated; the non-end rows the reader sees are exactly the images of the input's non-end
   rows, in order, whether or not the base / end address of the sequence is still mapped; end rows are images of input end
   rows or "previous position + 1".  The code before the repair 10ea4f7 fails the second and third statement. *)
From WV Require Import Model.LineProg Proofs.LineProg.
Theorem c10_line_writer_never_asserts :
  forall (cv : N -> bool -> option N) (is : list lin) (s' : lst) (evs : list lev),
         lrun cv lst0 is = Some (s', evs) -> writer_ok false 0 evs = true /\ l_in s' = wopen false evs.
Proof. exact lrun_writer_ok0. Qed.

Theorem c10_line_program_total_and_terminated :
  forall (cv : N -> bool -> option N) (seqs : list (N * list lin)),
         Forall (fun p : N * list lin => seq_ok (snd p)) seqs ->
         exists (s' : lst) (evs : list lev), lrun cv lst0 (prog_of seqs) = Some (s', evs) /\ l_in s' = false.
Proof. exact lrun_wf_total. Qed.

Theorem c10_line_rows_exact :
  forall (cv : N -> bool -> option N) (seqs : list (N * list lin)) (s' : lst) (evs : list lev),
         Forall (fun p : N * list lin => seq_ok (snd p)) seqs ->
         lrun cv lst0 (prog_of seqs) = Some (s', evs) ->
         filter (fun r : N * N * bool => negb (snd r)) (rows_of 0 evs) =
         flat_map
           (fun p : N * list lin =>
            flat_map
              (fun i : lin =>
               match i with
               | LSetAddr _ => []
               | LRow a true _ => []
               | LRow a false ln =>
                   match cv (a + fst p) true with
                   | Some x => [(x, ln, false)]
                   | None => []
                   end
               end) (snd p)) seqs.
Proof. exact lrun_rows_exact. Qed.

Theorem c10_line_end_rows :
  forall (cv : N -> bool -> option N) (seqs : list (N * list lin)) (s' : lst) (evs : list lev),
         Forall (fun p : N * list lin => seq_ok (snd p)) seqs ->
         lrun cv lst0 (prog_of seqs) = Some (s', evs) ->
         Forall (fun xq : N * N => fst xq = snd xq + 1 \/ In (fst xq) (end_images cv seqs)) (ends_of 0 0 evs).
Proof. exact lrun_end_rows. Qed.

Theorem c10_line_old_code_refuted :
  (exists (cv : N -> bool -> option N) (seqs : list (N * list lin)),
            Forall (fun p : N * list lin => seq_ok (snd p)) seqs /\ lrun_old cv lst0 (prog_of seqs) = None) /\
         (exists (cv : N -> bool -> option N) (seqs : list (N * list lin)) (s' : lst) 
          (evs : list lev),
            Forall (fun p : N * list lin => seq_ok (snd p)) seqs /\
            lrun_old cv lst0 (prog_of seqs) = Some (s', evs) /\ l_in s' = true) /\
         (exists (cv : N -> bool -> option N) (seqs : list (N * list lin)) (s' : lst) 
          (evs : list lev),
            Forall (fun p : N * list lin => seq_ok (snd p)) seqs /\
            lrun_old cv lst0 (prog_of seqs) = Some (s', evs) /\
            filter (fun r : N * N * bool => negb (snd r)) (rows_of 0 evs) <>
            flat_map
              (fun p : N * list lin =>
               flat_map
                 (fun i : lin =>
                  match i with
                  | LSetAddr _ => []
                  | LRow a true _ => []
                  | LRow a false ln =>
                      match cv (a + fst p) true with
                      | Some x => [(x, ln, false)]
                      | None => []
                      end
                  end) (snd p)) seqs).
Proof. exact old_code_refuted. Qed.

Theorem c10_line_example :
  option_map (fun r : lst * list lev => rows_of 0 (snd r)) (lrun cvx lst0 (prog_of progx)) =
         Some
           [(112, 2, false); (113, 0, true); (7, 3, false); (10, 4, false); (11, 0, true); (
            110, 5, false); (115, 6, false); (119, 0, true)].
Proof. exact lrun_example_rows. Qed.


(* ---- composed with the converter of Model/Dwarf.v: every input row on an instruction that is still emitted yields exactly
   one output row at the code-section-relative output offset of THAT instruction, in input order; rows of removed
   instructions are dropped; nothing else is emitted *)
From WV Require Import Proofs.LineProg2.
Theorem c10_line_rows_follow_their_instructions :
  forall (t : dtables) (c : ctrans) (seqs : list (N * list lin)) (s' : lst) (evs : list lev),
         tables_wf t ->
         wf seqs ->
         (forall (p : N * list lin) (a ln : N),
          In p seqs -> In (LRow a false ln) (snd p) -> exists loc : N, In (a + fst p, loc) (dt_instrs t)) ->
         lrun (convert_address t c) lst0 (prog_of seqs) = Some (s', evs) ->
         filter (fun r : N * N * bool => negb (snd r)) (rows_of 0 evs) =
         flat_map
           (fun p : N * list lin =>
            flat_map
              (fun i : lin =>
               match i with
               | LSetAddr _ => []
               | LRow a true _ => []
               | LRow a false ln =>
                   match loc_of t (a + fst p) with
                   | Some loc =>
                       match lookup loc (ct_imap c) with
                       | Some x => [(x - ct_start c, ln, false)]
                       | None => []
                       end
                   | None => []
                   end
               end) (snd p)) seqs.
Proof. exact line_rows_end_to_end. Qed.

Theorem c10_line_program_never_panics :
  forall (t : dtables) (c : ctrans) (seqs : list (N * list lin)),
         wf seqs ->
         exists (s' : lst) (evs : list lev),
           lrun (convert_address t c) lst0 (prog_of seqs) = Some (s', evs) /\
           l_in s' = false /\ writer_ok false 0 evs = true.
Proof. exact line_program_total_end_to_end. Qed.


Print Assumptions c10_row_address_is_its_instruction.
Print Assumptions c10_row_follows_instruction.
Print Assumptions c10_removed_code_dropped.
Print Assumptions c10_body_start_recovered.
Print Assumptions c10_low_pc_is_body_start.
Print Assumptions c10_high_pc_is_function_end.
Print Assumptions c10_subprogram_covers_same_function.
Print Assumptions c10_subprogram_of_removed_function.
Print Assumptions c10_unknown_address.
Print Assumptions c10_premises_satisfiable.
Print Assumptions c10_line_writer_never_asserts.
Print Assumptions c10_line_program_total_and_terminated.
Print Assumptions c10_line_rows_exact.
Print Assumptions c10_line_end_rows.
Print Assumptions c10_line_old_code_refuted.
Print Assumptions c10_line_example.
Print Assumptions c10_line_rows_follow_their_instructions.
Print Assumptions c10_line_program_never_panics.
