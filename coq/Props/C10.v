(* C10 - DWARF addresses follow their instructions and functions.  Statements only; proofs in Proofs/Dwarf.v.
   Model/Dwarf.v models the address classifier (CodeAddressGenerator::find_address), the converter
   (CodeAddressConverter::find_address) and the rebase to the start of the code section contents.
   [tables_wf t] is what parsing guarantees about the two tables (instruction addresses strictly increasing, function
   entries disjoint and of the shape size-LEB ++ body, every instruction strictly after the body start of its function);
   c10_premises_satisfiable exhibits such tables.
   - a row whose address was the start of an instruction is classified as THAT instruction (either search preference) and
     is converted to the output offset the instruction map gives for it - by C11 the first byte of the same instruction -,
     relative to the code section contents; if the instruction is not in the map (removed code) the result is None: the
     row is dropped, never redirected;
   - low_pc (start of the function body) and high_pc (end of the function) of a subprogram are classified as body start
     and function end of THAT function and converted to the body start and end of its emitted entry: the converted range
     has exactly the size of the emitted body, whatever happened to the size, the size field or the first instruction;
     for a removed function both are None (the emitter tombstones them);
   - addresses outside every function are Unknown / None.
   The DIE and line-program plumbing around these functions (gimli reader/writer, sequence handling) is covered
   end-to-end by the correspondence run, not modelled. *)
From Coq Require Import List NArith Bool Sorted. Import ListNotations.
From WV Require Import Model.Common Model.Dwarf Model.CodeMap Proofs.Dwarf.
Open Scope N_scope.

Theorem c10_row_address_is_its_instruction :
  forall t : dtables,
         tables_wf t ->
         forall a loc : N, In (a, loc) (dt_instrs t) -> forall incl : bool, find_address t a incl = CInstr loc.
Proof. exact find_instr. Qed.

Theorem c10_row_follows_instruction :
  forall t : dtables,
         tables_wf t ->
         forall (c : ctrans) (a loc x : N) (incl : bool),
         In (a, loc) (dt_instrs t) ->
         lookup loc (ct_imap c) = Some x -> convert_address t c a incl = Some (x - ct_start c).
Proof. exact convert_instr_kept. Qed.

Theorem c10_removed_code_dropped :
  forall t : dtables,
         tables_wf t ->
         forall (c : ctrans) (a loc : N) (incl : bool),
         In (a, loc) (dt_instrs t) -> lookup loc (ct_imap c) = None -> convert_address t c a incl = None.
Proof. exact convert_instr_removed. Qed.

Theorem c10_body_start_recovered :
  forall s sz : N, body_start (s, s + leb5 sz + sz) = s + leb5 sz.
Proof. exact body_start_spec_gen. Qed.

Theorem c10_low_pc_is_body_start :
  forall t : dtables,
         tables_wf t ->
         forall r : N * N * N,
         In r (dt_ranges t) ->
         forall incl : bool, find_address t (body_start (fst r)) incl = CBodyStart (snd r).
Proof. exact find_body_start. Qed.

Theorem c10_high_pc_is_function_end :
  forall t : dtables,
         tables_wf t ->
         forall r : N * N * N, In r (dt_ranges t) -> find_address t (rng_end r) true = CFnEdge (snd r).
Proof. exact find_fn_end. Qed.

Theorem c10_subprogram_covers_same_function :
  forall t : dtables,
         tables_wf t ->
         forall (c : ctrans) (r : N * N * N) (s' e' sz' : N) (incl : bool),
         In r (dt_ranges t) ->
         lookup (snd r) (ct_franges c) = Some (s', e') ->
         2 <= sz' ->
         e' = s' + leb5 sz' + sz' ->
         ct_start c <= s' ->
         convert_address t c (body_start (fst r)) incl = Some (s' + leb5 sz' - ct_start c) /\
         convert_address t c (rng_end r) true = Some (e' - ct_start c) /\
         e' - ct_start c - (s' + leb5 sz' - ct_start c) = sz'.
Proof. exact subprogram_range. Qed.

Theorem c10_subprogram_of_removed_function :
  forall t : dtables,
         tables_wf t ->
         forall (c : ctrans) (r : N * N * N) (incl : bool),
         In r (dt_ranges t) ->
         lookup (snd r) (ct_franges c) = None ->
         convert_address t c (body_start (fst r)) incl = None /\ convert_address t c (rng_end r) true = None.
Proof. exact subprogram_removed. Qed.

Theorem c10_unknown_address :
  forall t : dtables,
         tables_wf t ->
         forall (a : N) (incl : bool),
         (forall r : N * N * N, In r (dt_ranges t) -> a < rng_start r \/ rng_end r < a) ->
         find_address t a incl = CUnknown /\ (forall c : ctrans, convert_address t c a incl = None).
Proof. exact find_unknown. Qed.

Theorem c10_premises_satisfiable :
  tables_wf ex_tables.
Proof. exact ex_tables_wf. Qed.

(* ---- the row loop of convert_line_program (Model/LineProg.v, replayed against the rows gimli reads back from every emission):
   for EVERY address converter cv: gimli's writer assertions cannot fire; on a well-formed program the conversion never errs
   and every emitted sequence is terminated; the non-end rows the reader sees are exactly the images of the input's non-end
   rows, in order, whether or not the base / end address of the sequence is still mapped; end rows are images of input end
   rows or "previous position + 1".  The code before the repair 10ea4f7 fails the second and third statement. *)
From WV Require Import Model.LineProg Proofs.LineProg.
Theorem c10_line_writer_never_asserts :
  forall (cv : N -> bool -> option N) (is : list lin) (s' : lst) (evs : list lev),
         lrun cv lst0 is = Some (s', evs) -> writer_ok false 0 evs = true /\ l_in s' = wopen false evs.
Proof. exact lrun_writer_ok0. Qed.

Theorem c10_line_program_total_and_terminated :
  forall (cv : N -> bool -> option N) (seqs : list (N * list lin)),
         Forall (fun p : N * list lin => seq_ok (snd p)) seqs ->
         exists (s' : lst) (evs : list lev), lrun cv lst0 (prog_of seqs) = Some (s', evs) /\ l_in s' = false.
Proof. exact lrun_wf_total. Qed.

Theorem c10_line_rows_exact :
  forall (cv : N -> bool -> option N) (seqs : list (N * list lin)) (s' : lst) (evs : list lev),
         Forall (fun p : N * list lin => seq_ok (snd p)) seqs ->
         lrun cv lst0 (prog_of seqs) = Some (s', evs) ->
         filter (fun r : N * N * bool => negb (snd r)) (rows_of 0 evs) =
         flat_map
           (fun p : N * list lin =>
            flat_map
              (fun i : lin =>
               match i with
               | LSetAddr _ => []
               | LRow a true _ => []
               | LRow a false ln =>
                   match cv (a + fst p) true with
                   | Some x => [(x, ln, false)]
                   | None => []
                   end
               end) (snd p)) seqs.
Proof. exact lrun_rows_exact. Qed.

Theorem c10_line_end_rows :
  forall (cv : N -> bool -> option N) (seqs : list (N * list lin)) (s' : lst) (evs : list lev),
         Forall (fun p : N * list lin => seq_ok (snd p)) seqs ->
         lrun cv lst0 (prog_of seqs) = Some (s', evs) ->
         Forall (fun xq : N * N => fst xq = snd xq + 1 \/ In (fst xq) (end_images cv seqs)) (ends_of 0 0 evs).
Proof. exact lrun_end_rows. Qed.

Theorem c10_line_old_code_refuted :
  (exists (cv : N -> bool -> option N) (seqs : list (N * list lin)),
            Forall (fun p : N * list lin => seq_ok (snd p)) seqs /\ lrun_old cv lst0 (prog_of seqs) = None) /\
         (exists (cv : N -> bool -> option N) (seqs : list (N * list lin)) (s' : lst) 
          (evs : list lev),
            Forall (fun p : N * list lin => seq_ok (snd p)) seqs /\
            lrun_old cv lst0 (prog_of seqs) = Some (s', evs) /\ l_in s' = true) /\
         (exists (cv : N -> bool -> option N) (seqs : list (N * list lin)) (s' : lst) 
          (evs : list lev),
            Forall (fun p : N * list lin => seq_ok (snd p)) seqs /\
            lrun_old cv lst0 (prog_of seqs) = Some (s', evs) /\
            filter (fun r : N * N * bool => negb (snd r)) (rows_of 0 evs) <>
            flat_map
              (fun p : N * list lin =>
               flat_map
                 (fun i : lin =>
                  match i with
                  | LSetAddr _ => []
                  | LRow a true _ => []
                  | LRow a false ln =>
                      match cv (a + fst p) true with
                      | Some x => [(x, ln, false)]
                      | None => []
                      end
                  end) (snd p)) seqs).
Proof. exact old_code_refuted. Qed.

Theorem c10_line_example :
  option_map (fun r : lst * list lev => rows_of 0 (snd r)) (lrun cvx lst0 (prog_of progx)) =
         Some
           [(112, 2, false); (113, 0, true); (7, 3, false); (10, 4, false); (11, 0, true); (
            110, 5, false); (115, 6, false); (119, 0, true)].
Proof. exact lrun_example_rows. Qed.


(* ---- composed with the converter of Model/Dwarf.v: every input row on an instruction that is still emitted yields exactly
   one output row at the code-section-relative output offset of THAT instruction, in input order; rows of removed
   instructions are dropped; nothing else is emitted *)
From WV Require Import Proofs.LineProg2.
Theorem c10_line_rows_follow_their_instructions :
  forall (t : dtables) (c : ctrans) (seqs : list (N * list lin)) (s' : lst) (evs : list lev),
         tables_wf t ->
         wf seqs ->
         (forall (p : N * list lin) (a ln : N),
          In p seqs -> In (LRow a false ln) (snd p) -> exists loc : N, In (a + fst p, loc) (dt_instrs t)) ->
         lrun (convert_address t c) lst0 (prog_of seqs) = Some (s', evs) ->
         filter (fun r : N * N * bool => negb (snd r)) (rows_of 0 evs) =
         flat_map
           (fun p : N * list lin =>
            flat_map
              (fun i : lin =>
               match i with
               | LSetAddr _ => []
               | LRow a true _ => []
               | LRow a false ln =>
                   match loc_of t (a + fst p) with
                   | Some loc =>
                       match lookup loc (ct_imap c) with
                       | Some x => [(x - ct_start c, ln, false)]
                       | None => []
                       end
                   | None => []
                   end
               end) (snd p)) seqs.
Proof. exact line_rows_end_to_end. Qed.

Theorem c10_line_program_never_panics :
  forall (t : dtables) (c : ctrans) (seqs : list (N * list lin)),
         wf seqs ->
         exists (s' : lst) (evs : list lev),
           lrun (convert_address t c) lst0 (prog_of seqs) = Some (s', evs) /\
           l_in s' = false /\ writer_ok false 0 evs = true.
Proof. exact line_program_total_end_to_end. Qed.


(* ---- the address attributes of DIEs as a reader of the output sees them (convert_attr_address / convert_subprogram, replayed against
   the (low_pc, high_pc) of every subprogram of every emission): an attribute address is its own image, or the tombstone, never anything
   else; a subprogram DIE of a kept function covers exactly its emitted body, of a removed function is tombstoned with its size untouched.
   The side condition low <> 0xFFFFFFFF is needed (last statement) but no module can have a body starting there: a code section is
   shorter than 2^32 bytes. *)
From WV Require Import Proofs.Dwarf2.
Theorem c10_attribute_address_own_image_or_tombstone :
  forall (t : dtables) (c : ctrans) (a : N),
         convert_attr_address t c a = a /\ (a = 0 \/ a = dead_code) \/
         (exists x : N, convert_address t c a true = Some x /\ convert_attr_address t c a = x) \/
         convert_address t c a true = None /\ convert_attr_address t c a = dead_code.
Proof. exact attr_address_trichotomy. Qed.

Theorem c10_subprogram_die_covers_emitted_body :
  forall (t : dtables) (c : ctrans) (r : N * N * N) (s' e' sz' low off : N),
         tables_wf t ->
         In r (dt_ranges t) ->
         lookup (snd r) (ct_franges c) = Some (s', e') ->
         2 <= sz' ->
         e' = s' + leb5 sz' + sz' ->
         ct_start c <= s' ->
         low = body_start (fst r) ->
         off = rng_end r - low ->
         low <> dead_code -> convert_subprogram t c low off = (s' + leb5 sz' - ct_start c, sz').
Proof. exact subprogram_die_kept. Qed.

Theorem c10_subprogram_die_of_removed_function_tombstoned :
  forall (t : dtables) (c : ctrans) (r : N * N * N) (low off : N),
         tables_wf t ->
         In r (dt_ranges t) ->
         lookup (snd r) (ct_franges c) = None ->
         low = body_start (fst r) -> off = rng_end r - low -> convert_subprogram t c low off = (dead_code, off).
Proof. exact subprogram_die_removed. Qed.

Theorem c10_subprogram_die_low_pc_on_instruction :
  forall (t : dtables) (c : ctrans) (low off loc x : N),
         tables_wf t ->
         In (low, loc) (dt_instrs t) ->
         lookup loc (ct_imap c) = Some x ->
         low <> dead_code -> fst (convert_subprogram t c low off) = x - ct_start c.
Proof. exact subprogram_die_of_instruction_start. Qed.

Theorem c10_tombstone_low_pc_passes_through :
  body_start (4294967294, 4294967301) = dead_code /\
         convert_address tomb_tables tomb_trans dead_code true = Some 11 /\
         convert_subprogram tomb_tables tomb_trans dead_code 6 = (dead_code, 6).
Proof. exact tombstone_low_pc_passes_through. Qed.


(* ---- the explicit-stack DIE cursor (units.rs; Model/DieCursor.v, run against the real cursor on units of random shape): it enumerates a
   unit in pre-order, each entry exactly once, and stops by itself; zipped with a pre-order walk of an input unit of the same shape
   (gimli's conversion keeps the shape; the harness checks the document order of every emission) every input DIE meets ITS OWN image, so a
   recomputed high_pc lands on the DIE it was computed from; without the shape premise it would not (witness) *)
From WV Require Import Model.DieCursor Proofs.DieCursor.
Theorem c10_die_cursor_is_preorder :
  forall root : dtree, visit_all root = preorder root.
Proof. exact visit_all_is_preorder. Qed.

Theorem c10_die_cursor_terminates_by_itself :
  forall (root : dtree) (k : nat), visit root (S (dsize root) + k) cursor0 = preorder root.
Proof. exact visit_more_fuel. Qed.

Theorem c10_die_cursor_each_entry_once :
  forall root : dtree,
         length (visit_all root) = dsize root /\
         (NoDup (preorder root) ->
          NoDup (visit_all root) /\ (forall i : N, In i (preorder root) <-> In i (visit_all root))).
Proof. exact visit_all_each_once. Qed.

Theorem c10_high_pc_lands_on_own_die :
  forall (f : N -> N) (from : dtree),
         high_pc_pairs from (map_tree f from) = map (fun i : N => (i, f i)) (preorder from).
Proof. exact high_pc_pairs_own_image. Qed.

Theorem c10_high_pc_needs_same_shape :
  exists (f : N -> N) (from to : dtree) (i j : N),
           (forall a b : N, f a = f b -> a = b) /\
           i <> j /\
           In i (preorder from) /\
           In j (preorder from) /\
           In (i, f j) (high_pc_pairs from to) /\
           high_pc_pairs from to <> map (fun i0 : N => (i0, f i0)) (preorder from).
Proof. exact high_pc_pairs_shape_mismatch_refuted. Qed.


Print Assumptions c10_row_address_is_its_instruction.
Print Assumptions c10_row_follows_instruction.
Print Assumptions c10_removed_code_dropped.
Print Assumptions c10_body_start_recovered.
Print Assumptions c10_low_pc_is_body_start.
Print Assumptions c10_high_pc_is_function_end.
Print Assumptions c10_subprogram_covers_same_function.
Print Assumptions c10_subprogram_of_removed_function.
Print Assumptions c10_unknown_address.
Print Assumptions c10_premises_satisfiable.
Print Assumptions c10_line_writer_never_asserts.
Print Assumptions c10_line_program_total_and_terminated.
Print Assumptions c10_line_rows_exact.
Print Assumptions c10_line_end_rows.
Print Assumptions c10_line_old_code_refuted.
Print Assumptions c10_line_example.
Print Assumptions c10_line_rows_follow_their_instructions.
Print Assumptions c10_line_program_never_panics.
Print Assumptions c10_attribute_address_own_image_or_tombstone.
Print Assumptions c10_subprogram_die_covers_emitted_body.
Print Assumptions c10_subprogram_die_of_removed_function_tombstoned.
Print Assumptions c10_subprogram_die_low_pc_on_instruction.
Print Assumptions c10_tombstone_low_pc_passes_through.
Print Assumptions c10_die_cursor_is_preorder.
Print Assumptions c10_die_cursor_terminates_by_itself.
Print Assumptions c10_die_cursor_each_entry_once.
Print Assumptions c10_high_pc_lands_on_own_die.
Print Assumptions c10_high_pc_needs_same_shape.
