(* C15 - IR built through the builder API is emitted faithfully. Statements only.
   Model/Builder.v = FunctionBuilder / InstrSeqBuilder (append, positional insert, nested
   block / loop / if_else and their *_at forms); [tree_of] = the tree a builder program denotes
   (positions are final positions: insertion order is irrelevant); [flt_tree] (Model/EmitSpec.v)
   = the in-order flattening with branch depths = number of enclosing sequences up to the target. *)
From Coq Require Import List NArith Bool Arith Permutation. Import ListNotations.
From WV Require Import Gen.Ops Model.Common Model.IR Model.Traversal Model.EmitFn Model.EmitSpec Model.Locals Model.Builder
                       Proofs.EmitFn Proofs.Builder.
Local Open Scope nat_scope.

(* every structured builder program builds, without panic, an arena that holds exactly the
   denoted tree (fresh, pairwise distinct sequence ids; nothing dangling) *)
Theorem c15_build : forall entry_ty prog t,
  tree_of entry_ty prog = Some t ->
  exists ar, run_builder entry_ty prog = Ok ar /\ Den ar t /\
    Permutation (tree_ids t) (nrange 0%N (len_N ar)) /\ NoDup (tree_ids t).
Proof. exact builder_den_ids. Qed.

(* ... and emitting it yields exactly the in-order flattening of the built tree: same
   instructions in the same order, correct nesting, branch depths reaching the intended construct *)
Theorem c15_emit : forall entry_ty prog t cx tg p0,
  tree_of entry_ty prog = Some t ->
  flt_tree cx [] t KEntry = Ok tg ->
  exists ar st, run_builder entry_ty prog = Ok ar /\
    emit_body cx (S (size t)) ar 0%N p0 = Ok st /\ out st = map snd tg /\ imap st = tag_positions cx p0 tg.
Proof. exact builder_emit. Qed.

(* the flattening exists (no panic) whenever every branch targets an enclosing sequence *)
Theorem c15_scoped_ok : forall cx env t k, scoped (ex_id2i cx) env t -> exists tg, flt_tree cx env t k = Ok tg.
Proof. exact flt_ok. Qed.

(* branch immediates: depth = index of the first occurrence of the target among the enclosing sequences *)
Theorem c15_branch_depth : forall cx env s loc tg,
  flt_item cx env (ItBr s) loc = Ok tg -> exists d, tg = [(loc, WBr d)] /\ position s env 0%N = Some d.
Proof. exact flt_depth_position. Qed.

(* correct nesting of the emitted stream *)
Theorem c15_nested : forall cx t tg, flt_tree cx [] t KEntry = Ok tg -> wnest (map snd tg) 1 = Some O.
Proof. exact flt_nested. Qed.

(* positional inserts: only final positions matter *)
Theorem c15_positional :
  (forall it items, put (Some (len_N items)) it items = put None it items) /\
  (forall A (l : list A) n x l', insert_at l n x = Some l' ->
     nth_error l' n = Some x /\ length l' = S (length l) /\
     (forall k, k < n -> nth_error l' k = nth_error l k) /\
     (forall k, n <= k -> nth_error l' (S k) = nth_error l k)).
Proof. exact bspec_positional. Qed.

(* non-vacuity *)
Example c15_nonvacuous :
  let prog := [BInstr (IPlain P_Drop); BBlockAt 0%N (ST_Simple None) [BInstr (IBr 1%N); BInstrAt 0%N (IPlain P_RefIsNull);
               BIfElse (ST_Simple None) [BInstr (IBrIf 0%N)] []]; BInstrAt 1%N (IPlain P_Return); BLoop (ST_Simple (Some VT_I32)) []] in
  exists t, tree_of 9%N prog = Some t.
Proof. eexists. vm_compute. reflexivity. Qed.

(* programs with dangling sequences attached later (also inside sequences created afterwards, so ids are NOT monotone along
   the nesting): [well_attached] (decidable: every dangling sequence attached exactly once, after its creation, not inside
   itself) iff the program denotes a tree; then the machine builds exactly that tree and emission is its flattening *)
From WV Require Import Proofs.Builder2.
Theorem c15_dangling_programs_denote_their_tree :
  forall (entry_ty : N) (prog : list bop),
         well_attached prog = true ->
         exists (t : tree) (ar : IR.arena),
           tree_of2 entry_ty prog = Some t /\
           run_builder entry_ty prog = Ok ar /\ Den ar t /\ NoDup (tree_ids t).
Proof. exact builder2_den_wa. Qed.

Theorem c15_dangling_programs_emit_flattening :
  forall (entry_ty : N) (prog : list bop) (t : tree) (cx : ectx) (tg : list (N * wins)) (p0 : N),
         tree_of2 entry_ty prog = Some t ->
         flt_tree cx [] t KEntry = Ok tg ->
         exists (ar : IR.arena) (st : estate),
           run_builder entry_ty prog = Ok ar /\
           emit_body cx (S (size t)) ar 0 p0 = Ok st /\ out st = map snd tg /\ imap st = tag_positions cx p0 tg.
Proof. exact builder2_emit. Qed.

Theorem c15_well_attached_iff_denotes :
  forall (ety : N) (prog : list bop),
         well_attached prog = true <-> (exists t : tree, tree_of2 ety prog = Some t).
Proof. exact well_attached_tree_of2. Qed.

Theorem c15_structured_is_well_attached :
  forall (ety : N) (prog : list bop) (t : tree), tree_of ety prog = Some t -> well_attached prog = true.
Proof. exact structured_well_attached. Qed.


Print Assumptions c15_build.
Print Assumptions c15_emit.
Print Assumptions c15_scoped_ok.
Print Assumptions c15_branch_depth.
Print Assumptions c15_nested.
Print Assumptions c15_positional.
Print Assumptions c15_dangling_programs_denote_their_tree.
Print Assumptions c15_dangling_programs_emit_flattening.
Print Assumptions c15_well_attached_iff_denotes.
Print Assumptions c15_structured_is_well_attached.
