(* C04 - module-level structure is preserved by the round trip.  Statements only; proofs in Proofs/Structure.v.
   Part A: the attribute plumbing REGENERATED from src/module/{tables,memories,globals,imports}.rs (Gen/Attrs.v)
           round-trips every attribute (limits, shared, 64-bit, page size, element type, value type, mutability):
           a record field that the Rust code drops or replaces by a literal makes these `reflexivity` proofs fail.
   Part B: for an arbitrary payload stream w accepted by the parse model and emitted without a pass in between,
           each section of the output is the input's section with indices renamed through the emit-time map
           (tables and memories: literally equal).  [stream_wf] = every standard section occurs at most once;
           the *_any_stream forms need no such premise.
   Not yet proved at this level (decided by the correspondence run + structure oracle only): data segments
   (the data-count pre-reservation path), function signatures through the type de-duplication. *)
From Coq Require Import List NArith ZArith Bool Arith. Import ListNotations.
From WV Require Import Gen.Ops Gen.Attrs Model.Common Model.IR Model.Arena Model.ModuleM Model.ParseM Model.EmitM.
From WV Require Import Proofs.GcDeclare.
From WV Require Import Proofs.IndexMaps Proofs.Structure.
Local Open Scope nat_scope.

Theorem c04_attr_table_local : forall t, gen_emit_table_local (gen_parse_table_local t) = t.
Proof. exact attr_table_local_rt. Qed.

Theorem c04_attr_table_import : forall t imp, gen_emit_table_import (gen_parse_table_import t imp) = t.
Proof. exact attr_table_import_rt. Qed.

Theorem c04_attr_memory_local : forall t, gen_emit_memory_local (gen_parse_memory_local t) = t.
Proof. exact attr_memory_local_rt. Qed.

Theorem c04_attr_memory_import : forall t imp, gen_emit_memory_import (gen_parse_memory_import t imp) = t.
Proof. exact attr_memory_import_rt. Qed.

Theorem c04_attr_global_local : forall g init, gen_emit_global_local (gen_parse_global_local g init) = g.
Proof. exact attr_global_local_rt. Qed.

Theorem c04_attr_global_import : forall g imp, gen_emit_global_import (gen_parse_global_import g imp) = g.
Proof. exact attr_global_import_rt. Qed.

Theorem c04_tables : forall cf ver w s ilen dw e l, parseM cf ver w = POk s -> emitM (ps_m s) ilen dw = Ok e ->
  stream_wf w = true -> In (S_Tables l) w -> l <> [] -> In (S_Tables l) (em_secs e).
Proof. exact structure_tables. Qed.

Theorem c04_memories : forall cf ver w s ilen dw e l, parseM cf ver w = POk s -> emitM (ps_m s) ilen dw = Ok e ->
  stream_wf w = true -> In (S_Mems l) w -> l <> [] -> In (S_Mems l) (em_secs e).
Proof. exact structure_mems. Qed.

Theorem c04_tables_any_stream : forall cf ver w s ilen dw e, parseM cf ver w = POk s -> emitM (ps_m s) ilen dw = Ok e ->
  flat_map tables_of w <> [] -> In (S_Tables (flat_map tables_of w)) (em_secs e).
Proof. exact structure_tables_gen. Qed.

Theorem c04_memories_any_stream : forall cf ver w s ilen dw e, parseM cf ver w = POk s -> emitM (ps_m s) ilen dw = Ok e ->
  flat_map mems_of w <> [] -> In (S_Mems (flat_map mems_of w)) (em_secs e).
Proof. exact structure_mems_gen. Qed.

Theorem c04_imports : forall cf ver w s ilen dw e l, parseM cf ver w = POk s -> emitM (ps_m s) ilen dw = Ok e ->
  stream_wf w = true -> In (S_Imports l) w -> l <> [] ->
  exists ws, In (S_Imports ws) (em_secs e) /\ Forall2 (import_rt s e) l ws.
Proof. exact structure_imports. Qed.

Theorem c04_globals : forall cf ver w s ilen dw e l, parseM cf ver w = POk s -> emitM (ps_m s) ilen dw = Ok e ->
  stream_wf w = true -> In (S_Globals l) w -> l <> [] ->
  exists gs, In (S_Globals gs) (em_secs e) /\ Forall2 (global_rt e) l gs.
Proof. exact structure_globals. Qed.

Theorem c04_exports : forall cf ver w s ilen dw e l, parseM cf ver w = POk s -> emitM (ps_m s) ilen dw = Ok e ->
  stream_wf w = true -> In (S_Exports l) w -> l <> [] ->
  exists es, In (S_Exports es) (em_secs e) /\ Forall2 (export_rt e) l es.
Proof. exact structure_exports. Qed.

Theorem c04_start : forall cf ver w s ilen dw e f, parseM cf ver w = POk s -> emitM (ps_m s) ilen dw = Ok e ->
  stream_wf w = true -> In (S_Start f) w ->
  exists f', get_idx (em_x2i e) S_func f = Ok f' /\ In (S_Start f') (em_secs e).
Proof. exact structure_start. Qed.

Theorem c04_no_start : forall cf ver w s, parseM cf ver w = POk s ->
  (forall f, ~ In (S_Start f) w) -> m_start (ps_m s) = None.
Proof. exact structure_start_none. Qed.

Theorem c04_elements : forall cf ver w s ilen dw e l, parseM cf ver w = POk s -> emitM (ps_m s) ilen dw = Ok e ->
  stream_wf w = true -> In (S_Elems l) w -> l <> [] ->
  exists es, In (S_Elems es) (em_secs e) /\ Forall2 (elem_rt (em_x2i e)) l es.
Proof. exact structure_elems. Qed.

Theorem c04_counts : forall cf ver w s ilen dw e, parseM cf ver w = POk s -> emitM (ps_m s) ilen dw = Ok e ->
  (flat_map tables_of w <> [] -> exists l, In (S_Tables l) (em_secs e) /\ length l = length (flat_map tables_of w)) /\
  (flat_map mems_of w <> [] -> exists l, In (S_Mems l) (em_secs e) /\ length l = length (flat_map mems_of w)) /\
  (flat_map imports_of w <> [] -> exists l, In (S_Imports l) (em_secs e) /\ length l = length (flat_map imports_of w)) /\
  (flat_map exports_of w <> [] -> exists l, In (S_Exports l) (em_secs e) /\ length l = length (flat_map exports_of w)) /\
  (flat_map globals_of w <> [] -> exists l, In (S_Globals l) (em_secs e) /\ length l = length (flat_map globals_of w)) /\
  (* and the index spaces of the module have exactly the input's sizes *)
  length (items (m_tables (ps_m s))) = length (flat_map sec_tables w) /\
  length (items (m_memories (ps_m s))) = length (flat_map sec_mems w) /\
  length (items (m_globals (ps_m s))) = length (flat_map sec_globals w) /\
  length (items (m_imports (ps_m s))) = length (flat_map imports_of w) /\
  length (items (m_exports (ps_m s))) = length (flat_map exports_of w).
Proof. exact structure_counts. Qed.

(* data segments (through the data-count pre-reservation path), the data-count section, no start function invented,
   and function signatures through the de-duplicated, sorted type section *)
From WV Require Import Proofs.Structure2 Proofs.Names.
Theorem c04_data_segments :
  forall (cf : config) (ver : nstr) (w : wmod) (s : pst) (ilen : wins -> N) 
           (dw : list wsec) (e : emitted) (l : list wdata),
         parseM cf ver w = POk s ->
         emitM (ps_m s) ilen dw = Ok e ->
         stream_wf w = true ->
         In (S_Data l) w ->
         dc_before w l ->
         l <> [] -> exists ds : list wdata, In (S_Data ds) (em_secs e) /\ Forall2 (data_rt (em_x2i e)) l ds.
Proof. exact structure_data. Qed.

Theorem c04_data_count :
  forall (cf : config) (ver : nstr) (w : wmod) (s : pst) (ilen : wins -> N) 
           (dw : list wsec) (e : emitted) (l : list wdata),
         parseM cf ver w = POk s ->
         emitM (ps_m s) ilen dw = Ok e ->
         stream_wf w = true ->
         In (S_Data l) w ->
         dc_before w l ->
         l <> [] ->
         (forall n : N, ~ In (S_DataCount n) dw) ->
         (forall n' : N, In (S_DataCount n') (em_secs e) -> n' = N.of_nat (length l)) /\
         ((exists n' : N, In (S_DataCount n') (em_secs e)) <->
          existsb is_passive l = true \/
          (exists (p : N * mfunc) (lf : mlocalfunc),
             In p (aiter (m_funcs (ps_m s))) /\ fn_kind (snd p) = FK_Local lf /\ uses_data lf = Ok true)).
Proof. exact structure_data_count. Qed.

Theorem c04_no_start_invented :
  forall (cf : config) (ver : nstr) (w : wmod) (s : pst) (ilen : wins -> N) 
           (dw : list wsec) (e : emitted),
         parseM cf ver w = POk s ->
         emitM (ps_m s) ilen dw = Ok e ->
         (forall f : N, ~ In (S_Start f) w) ->
         (forall f : N, ~ In (S_Start f) dw) -> forall f : N, ~ In (S_Start f) (em_secs e).
Proof. exact structure_no_start. Qed.

Theorem c04_function_signatures :
  forall (cf : config) (ver : nstr) (w : wmod) (s : pst) (ilen : wins -> N) 
           (dw : list wsec) (e : emitted),
         parseM cf ver w = POk s ->
         emitM (ps_m s) ilen dw = Ok e ->
         dw_custom dw ->
         forall (i : nat) (ti : N) (t : list valty * list valty) (j : N),
         nth_error (flat_map sec_ftys w) i = Some ti ->
         nth_error (flat_map types_of w) (N.to_nat ti) = Some t ->
         get_idx (em_x2i e) S_func (N.of_nat i) = Ok j ->
         exists tj : N,
           nth_error (out_ftys e) (N.to_nat j) = Some tj /\ nth_error (out_types e) (N.to_nat tj) = Some t.
Proof. exact structure_func_sigs. Qed.


(* "up to CONSISTENT renumbering": per index space the renumbering of the round trip is a permutation of the input indices (total,
   injective, onto: nothing dropped, nothing invented, no two entities collapsed), the identity for tables / memories / globals / segments on
   streams in the validator's section order, the emitter's size order for functions; types are merged exactly when their signatures are
   equal; after GC it is an injective partial map defined exactly on the kept entities *)
From WV Require Import Model.GC Proofs.ParseTotal Proofs.Renumbering.
Theorem c04_renumbering_is_a_permutation :
  forall (cf : config) (ver : list N) (w : wmod) (s : pst) (ilen : wins -> N) 
           (dw : list wsec) (e : emitted),
         parseM cf ver w = POk s ->
         emitM (ps_m s) ilen dw = Ok e ->
         forall S : space, S <> S_type -> S <> S_local -> perm_on (n_in s S) (rho s e S).
Proof. exact rho_perm. Qed.

Theorem c04_renumbering_injective :
  forall (cf : config) (ver : list N) (w : wmod) (s : pst) (ilen : wins -> N) 
           (dw : list wsec) (e : emitted),
         parseM cf ver w = POk s ->
         emitM (ps_m s) ilen dw = Ok e ->
         forall (S : space) (i i' j : N),
         S <> S_type -> S <> S_local -> rho s e S i = Ok j -> rho s e S i' = Ok j -> i = i'.
Proof. exact rho_inj. Qed.

Theorem c04_nothing_dropped_or_invented :
  forall (cf : config) (ver : list N) (w : wmod) (s : pst) (ilen : wins -> N) 
           (dw : list wsec) (e : emitted),
         parseM cf ver w = POk s ->
         emitM (ps_m s) ilen dw = Ok e ->
         forall (S : space) (id : N),
         S <> S_type -> S <> S_local -> In id (emitted_ids e S) <-> (N.to_nat id < n_in s S)%nat.
Proof. exact emitted_full. Qed.

Theorem c04_identity_for_tables_memories_globals :
  forall (cf : config) (ver : str) (w : wmod) (s : pst) (ilen : wins -> N) (dw : list wsec)
           (e : emitted) (S : space),
         parseM cf ver w = POk s ->
         emitM (ps_m s) ilen dw = Ok e ->
         tmg S -> valid_stream w -> forall i : N, (N.to_nat i < n_in s S)%nat -> rho s e S i = Ok i.
Proof. exact rho_tmg_identity_valid. Qed.

Theorem c04_identity_for_segments :
  forall (cf : config) (ver : list N) (w : wmod) (s : pst) (ilen : wins -> N) 
           (dw : list wsec) (e : emitted),
         parseM cf ver w = POk s ->
         emitM (ps_m s) ilen dw = Ok e ->
         forall i : N, (N.to_nat i < n_in s S_elem)%nat -> rho s e S_elem i = Ok i.
Proof. exact rho_elem_id. Qed.

Theorem c04_functions_in_emitter_order :
  forall (cf : config) (ver : str) (w : wmod) (s : pst) (ilen : wins -> N) (dw : list wsec)
           (e : emitted),
         parseM cf ver w = POk s ->
         emitM (ps_m s) ilen dw = Ok e ->
         exists fs : list (N * mlocalfunc),
           used_local_functions (ps_m s) = Ok fs /\
           (forall i j : N,
            rho s e S_func i = Ok j <->
            (N.to_nat i < n_in s S_func)%nat /\
            nth_error (imported_funcs (ps_m s) ++ map fst fs) (N.to_nat j) = Some i).
Proof. exact rho_func_order. Qed.

Theorem c04_types_merged_exactly_when_equal :
  forall (cf : config) (ver : list N) (w : wmod) (s : pst) (ilen : wins -> N) 
           (dw : list wsec) (e : emitted),
         parseM cf ver w = POk s ->
         emitM (ps_m s) ilen dw = Ok e ->
         forall (i i' : N) (t t' : list valty * list valty),
         nth_error (flat_map Structure2.types_of w) (N.to_nat i) = Some t ->
         nth_error (flat_map Structure2.types_of w) (N.to_nat i') = Some t' ->
         rho s e S_type i = rho s e S_type i' <-> t = t'.
Proof. exact rho_type_eq_iff. Qed.

Theorem c04_renumbering_after_gc_injective :
  forall (cf : config) (ver : list N) (w : wmod) (s : pst) (ilen : wins -> N) 
           (dw : list wsec) (m' : wir) (e' : emitted),
         parseM cf ver w = POk s ->
         gc (ps_m s) = Ok m' ->
         emitM m' ilen dw = Ok e' ->
         forall (S : space) (i i' j : N),
         S <> S_type -> S <> S_local -> rho s e' S i = Ok j -> rho s e' S i' = Ok j -> i = i'.
Proof. exact rho_gc_inj_full. Qed.

Theorem c04_renumbering_after_gc_defined_on_kept :
  forall (cf : config) (ver : list N) (w : wmod) (s : pst) (ilen : wins -> N) 
           (dw : list wsec) (m' : wir) (e' : emitted),
         parseM cf ver w = POk s ->
         gc (ps_m s) = Ok m' ->
         emitM m' ilen dw = Ok e' ->
         exists u : list ent,
           used (ps_m s) = Ok u /\
           (forall (S : space) (i : N),
            S <> S_type ->
            S <> S_local -> (exists j : N, rho s e' S i = Ok j) <-> (N.to_nat i < n_in s S)%nat /\ In (S, i) u).
Proof. exact rho_gc_defined_full. Qed.


(* ---- every function of a parsed module has an emitted index (no GC), so the signature theorem holds without its side premises; the
   function renumbering is a bijection of [0, n) *)
From Coq Require Import List NArith ZArith Bool Arith Lia Permutation.
Import ListNotations.
From WV Require Import Gen.Ops Model.Common Model.IR Model.Arena Model.Traversal Model.EmitFn Model.Locals
                       Model.ParseFn Model.ModuleM Model.ParseM Model.EmitM Gen.Attrs.
From WV Require Import Proofs.Arena Proofs.Order Proofs.IndexMaps Proofs.Names Proofs.Totality Proofs.TotalityBodies
                       Proofs.CustomsCfg Proofs.Locals2 Proofs.Structure Proofs.ParsedWf Proofs.Structure2
                       Proofs.Renumbering Proofs.Locals3.
From WV Require Import Proofs.Sigs2.
Local Open Scope nat_scope.
Theorem c04_every_function_emitted :
  forall (cf : config) (ver : nstr) (w : wmod) (s : pst) (ilen : wins -> N) 
           (dw : list wsec) (e : emitted),
         parseM cf ver w = POk s ->
         emitM (ps_m s) ilen dw = Ok e ->
         forall i : nat,
         i < length (flat_map sec_ftys w) ->
         exists j : N,
           get_idx (em_x2i e) S_func (N.of_nat i) = Ok j /\ N.to_nat j < length (flat_map sec_ftys w).
Proof. exact parsed_funcs_all_emitted. Qed.

Theorem c04_function_signatures_unconditional :
  forall (cf : config) (ver : nstr) (w : wmod) (s : pst) (ilen : wins -> N) 
           (dw : list wsec) (e : emitted),
         parseM cf ver w = POk s ->
         emitM (ps_m s) ilen dw = Ok e ->
         dw_custom dw ->
         forall (i : nat) (ti : N),
         nth_error (flat_map sec_ftys w) i = Some ti ->
         exists (t : list valty * list valty) (j tj : N),
           nth_error (flat_map types_of w) (N.to_nat ti) = Some t /\
           get_idx (em_x2i e) S_func (N.of_nat i) = Ok j /\
           nth_error (out_ftys e) (N.to_nat j) = Some tj /\ nth_error (out_types e) (N.to_nat tj) = Some t.
Proof. exact structure_func_sigs_unconditional. Qed.

Theorem c04_function_renumbering_bijective :
  forall (cf : config) (ver : nstr) (w : wmod) (s : pst) (ilen : wins -> N) 
           (dw : list wsec) (e : emitted),
         parseM cf ver w = POk s ->
         emitM (ps_m s) ilen dw = Ok e ->
         dw_custom dw ->
         let n := length (flat_map sec_ftys w) in
         let f := fun i : nat => get_idx (em_x2i e) S_func (N.of_nat i) in
         length (out_ftys e) = n /\
         (forall i : nat, i < n -> exists j : N, f i = Ok j /\ N.to_nat j < n) /\
         (forall (i i' : nat) (j : N), f i = Ok j -> f i' = Ok j -> i = i') /\
         (forall j : N, N.to_nat j < n -> exists i : nat, i < n /\ f i = Ok j) /\
         (forall (i : nat) (j : N), f i = Ok j -> i < n).
Proof. exact func_renumbering_bijective. Qed.


(* ---- the value-type conversions of src/ty.rs, REGENERATED arm by arm (Gen/ValTypes.v): emitting and re-parsing a value type gives it back;
   two different binary types never become the same walrus type *)
From WV Require Import Gen.Ops Gen.ValTypes Proofs.ValTypes.
Theorem c04_value_types_roundtrip : forall v : valty, gen_vt_parse (gen_vt_emit v) = Some v.
Proof. exact vt_emit_parse. Qed.
Theorem c04_value_types_parse_injective : forall (x y : xvalty) (v : valty), gen_vt_parse x = Some v -> gen_vt_parse y = Some v -> x = y.
Proof. exact vt_parse_injective. Qed.


(* ================================================================== THE WHOLE MODULE AS BYTES (Model/ModBytes.v, Proofs/ModBytes.v): the binary format of
   every section kind on top of LEB128 (Model/Leb.v), the framing (Model/Frame.v) and the bytes of bodies (Model/Bytes.v).  The section stream the module
   model starts from is what the model's own reader gives on the bytes (compared on every input by Run/ModBytesRun.v), and walrus's output bytes are what
   the model's writer gives on the emitted stream *)
From WV Require Import Model.Leb Model.Frame Model.Bytes Model.ModBytes Proofs.ModBytes.
Section ModuleBytes.
Local Open Scope N_scope.
(* every well-formed section stream has bytes, and reading them gives the stream back: without operator positions literally, with positions up to
   the positions the writer's byte lengths imply *)
Theorem c04_module_bytes_round_trip :
  forall w : wmod, wf_wmod w = true ->
    exists bs : list N, enc_wmod w = Some bs /\ dec_wmod false bs = Some (zero_wmod w) /\
      (exists w' : wmod, place_wmod true w = Some w' /\ dec_wmod true bs = Some w' /\ zero_wmod w' = zero_wmod w).
Proof. exact wf_wmod_round_trip. Qed.
Theorem c04_section_bytes_round_trip :
  forall (wp : bool) (pos : N) (s : wsec) (id : N) (p : list N),
    enc_sec s = Some (id, p) -> wf_sec s = true -> exists s' : wsec, place_sec wp pos s = Some s' /\ dec_sec wp pos id p = Some s'.
Proof. exact dec_enc_sec. Qed.
(* the writer is injective up to operator positions: two streams with the same bytes are the same module *)
Theorem c04_module_bytes_determine_the_stream :
  forall (w1 w2 : wmod) (bs : list N), enc_wmod w1 = Some bs -> enc_wmod w2 = Some bs -> wf_wmod w1 = true -> wf_wmod w2 = true -> zero_wmod w1 = zero_wmod w2.
Proof. exact enc_wmod_inj. Qed.
(* what emitM produces has bytes (the premise is about constants and operators only: no unmodelled constant expression, no foreign heap type) and they read back *)
Theorem c04_emitted_stream_has_bytes :
  forall (m : wir) (ilen : wins -> N) (e : emitted), emitM m ilen nil = Ok e -> forallb consts_ops_ok (em_secs e) = true -> exists bs : list N, enc_wmod (em_secs e) = Some bs.
Proof. exact emitted_bytes. Qed.
Theorem c04_emitted_bytes_read_back :
  forall (m : wir) (ilen : wins -> N) (e : emitted), emitM m ilen nil = Ok e -> wf_wmod (em_secs e) = true ->
    exists bs : list N, enc_wmod (em_secs e) = Some bs /\ dec_wmod false bs = Some (zero_wmod (em_secs e)) /\
      (exists w' : wmod, place_wmod true (em_secs e) = Some w' /\ dec_wmod true bs = Some w' /\ zero_wmod w' = zero_wmod (em_secs e)).
Proof. exact emitted_bytes_read_back. Qed.
(* the canonical-form premise on element segments is needed *)
Theorem c04_noncanonical_element_segment_does_not_round_trip :
  wf_wmod noncanonical = false /\ (exists (bs : list N) (w' : wmod), enc_wmod noncanonical = Some bs /\ dec_wmod false bs = Some w' /\ w' <> noncanonical).
Proof. exact noncanonical_refuted. Qed.
(* non-vacuity: a module with one of everything, on wasm-encoder's own bytes *)
Example c04_module_with_one_of_everything_reads_back : dec_wmod false everything_bytes = Some everything.
Proof. exact everything_by_theorem. Qed.
End ModuleBytes.


(* how the input was ENCODED (padded LEB128, padded section sizes) cannot influence the output *)
From WV Require Import Proofs.BytesEnd.
Theorem c04_input_encoding_cannot_influence_the_output :
  forall (cf : config) (ver : str) (ilen : wins -> N) (b b' : list N),
    dec_wmod false b = dec_wmod false b' -> roundtrip_bytes cf ver ilen b = roundtrip_bytes cf ver ilen b'.
Proof. exact bytes_determine_behaviour_inputs. Qed.

Print Assumptions c04_attr_table_local.
Print Assumptions c04_attr_table_import.
Print Assumptions c04_attr_memory_local.
Print Assumptions c04_attr_memory_import.
Print Assumptions c04_attr_global_local.
Print Assumptions c04_attr_global_import.
Print Assumptions c04_tables.
Print Assumptions c04_memories.
Print Assumptions c04_tables_any_stream.
Print Assumptions c04_memories_any_stream.
Print Assumptions c04_imports.
Print Assumptions c04_globals.
Print Assumptions c04_exports.
Print Assumptions c04_start.
Print Assumptions c04_no_start.
Print Assumptions c04_elements.
Print Assumptions c04_counts.
Print Assumptions c04_data_segments.
Print Assumptions c04_data_count.
Print Assumptions c04_no_start_invented.
Print Assumptions c04_function_signatures.
Print Assumptions c04_renumbering_is_a_permutation.
Print Assumptions c04_renumbering_injective.
Print Assumptions c04_nothing_dropped_or_invented.
Print Assumptions c04_identity_for_tables_memories_globals.
Print Assumptions c04_identity_for_segments.
Print Assumptions c04_functions_in_emitter_order.
Print Assumptions c04_types_merged_exactly_when_equal.
Print Assumptions c04_renumbering_after_gc_injective.
Print Assumptions c04_renumbering_after_gc_defined_on_kept.
Print Assumptions c04_every_function_emitted.
Print Assumptions c04_function_signatures_unconditional.
Print Assumptions c04_function_renumbering_bijective.
Print Assumptions c04_value_types_roundtrip.
Print Assumptions c04_value_types_parse_injective.
Print Assumptions c04_module_bytes_round_trip.
Print Assumptions c04_section_bytes_round_trip.
Print Assumptions c04_module_bytes_determine_the_stream.
Print Assumptions c04_emitted_stream_has_bytes.
Print Assumptions c04_emitted_bytes_read_back.
Print Assumptions c04_noncanonical_element_segment_does_not_round_trip.
Print Assumptions c04_module_with_one_of_everything_reads_back.
Print Assumptions c04_input_encoding_cannot_influence_the_output.
