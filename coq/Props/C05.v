(* C05 - parsing is a total, sound and complete validation gate.  Statements only; proofs in Proofs/Gate.v.
   Gen/Gate.v is REGENERATED from Module::parse, parse_local_functions and LocalFunction::parse on every run: for each
   payload kind, whether the arm hands the payload to the reference validator (and propagates its error) BEFORE
   walrus touches it, rejects it, or - custom sections - stores it; and whether every operator, every locals
   declaration and the end of every body go through the function validator before use.
   - soundness: whatever the abstract gate accepts, the standalone validator accepts (for ANY validator step function
     that ignores custom sections, any payload stream, any behaviour of walrus's own section readers);
   - completeness: what the validator accepts is accepted provided it uses only implemented payload kinds and
     walrus's own readers do not refuse it (that they do not, on valid streams, is Proofs/ParseTotal.v when present,
     and the correspondence run: `walrus-rejects-valid-module`);
   - an unimplemented payload kind (component model, tags) is rejected wherever it occurs;
   - only_stable_features removes exactly multi-memory, memory64 and threads from the feature set.
   Never panicking / overflowing / hanging on arbitrary bytes is decided by the correspondence run over the malformed
   stream (mutations, truncations, deep nesting, count bombs), each parse on a thread with a main-thread-sized stack;
   the parse model's panic paths are shown unreachable on validated streams in Proofs/ParseTotal.v. *)
From Coq Require Import List Bool. Import ListNotations.
From WV Require Import Gen.Gate Gen.Features Model.Gate Proofs.Gate.
From WV Require Import Model.ModuleM Model.ParseM Proofs.ParseTotal.

Theorem c05_every_payload_validated_before_use : forall k, arm k <> AK_Unchecked.
Proof. exact no_unchecked_arm. Qed.

Theorem c05_bodies_validated_before_use :
  operator_validated_before_use = true /\ body_end_validated = true /\ locals_validated_before_use = true.
Proof. exact body_gate. Qed.

Theorem c05_features_reach_reader_and_validator : reader_uses_configured_features = true /\ validator_uses_configured_features = true.
Proof. exact features_reach_reader_and_validator. Qed.

Theorem c05_sound : forall (payload vstate : Type) (kind_of : payload -> payload_kind)
    (vstep : vstate -> payload -> option vstate) (consume_ok : payload -> bool),
  (forall v p, arm (kind_of p) = AK_Custom -> vstep v p = Some v) ->
  forall ps v, gate payload vstate kind_of vstep consume_ok v ps = Accept ->
  exists v', reference payload vstate vstep v ps = Some v'.
Proof. exact gate_sound. Qed.

Theorem c05_complete : forall (payload vstate : Type) (kind_of : payload -> payload_kind)
    (vstep : vstate -> payload -> option vstate) (consume_ok : payload -> bool),
  (forall v p, arm (kind_of p) = AK_Custom -> vstep v p = Some v) ->
  forall ps v v', reference payload vstate vstep v ps = Some v' ->
  Forall (fun p => supported (kind_of p) = true) ps -> Forall (fun p => consume_ok p = true) ps ->
  gate payload vstate kind_of vstep consume_ok v ps = Accept.
Proof. exact gate_complete. Qed.

Theorem c05_unsupported_rejected : forall (payload vstate : Type) (kind_of : payload -> payload_kind)
    (vstep : vstate -> payload -> option vstate) (consume_ok : payload -> bool),
  forall pre p post v, supported (kind_of p) = false ->
  gate payload vstate kind_of vstep consume_ok v (pre ++ p :: post) = Reject.
Proof. exact gate_rejects_unsupported. Qed.

Theorem c05_supported_kinds : forall k, supported k = true <->
  In k [PK_Version; PK_DataSection; PK_TypeSection; PK_ImportSection; PK_TableSection; PK_MemorySection; PK_GlobalSection;
        PK_ExportSection; PK_ElementSection; PK_StartSection; PK_FunctionSection; PK_DataCountSection; PK_CodeSectionStart;
        PK_CodeSectionEntry; PK_CustomSection; PK_End].
Proof. exact supported_kinds. Qed.

Theorem c05_only_stable_removes_exactly : forall f,
  has (features_of true) f = has (features_of false) f && negb (feature_eqb f F_MULTI_MEMORY || feature_eqb f F_MEMORY64 || feature_eqb f F_THREADS).
Proof. exact only_stable_removes_exactly. Qed.

Theorem c05_default_features : forall f, has (features_of false) f = true.
Proof. exact default_features. Qed.

(* on a stream with the guarantees of the validator (section order, indices in range, counts consistent, supported
   constant expressions, bodies that are well-formed operator forests - [valid_stream] never mentions parseM) the parse
   model returns a module: none of its error or panic paths (unwrap, index, usize underflow) is reachable *)
Theorem c05_parse_total_on_valid_streams cf ver w : valid_stream w -> exists s, parseM cf ver w = POk s.
Proof. exact (parse_total cf ver w). Qed.

Theorem c05_parse_never_panics_on_valid_streams cf ver w : valid_stream w -> parseM cf ver w <> PPanic.
Proof. exact (parse_no_panic cf ver w). Qed.

Theorem c05_parse_never_errs_on_valid_streams cf ver w : valid_stream w -> parseM cf ver w <> PErr.
Proof. exact (parse_no_err cf ver w). Qed.

(* ---- src/ty.rs ValType::parse, REGENERATED: every value type walrus knows is accepted, every other reference type is an error (not a panic) *)
From WV Require Import Gen.Ops Gen.ValTypes Proofs.ValTypes.
Theorem c05_unknown_reference_types_rejected : gen_vt_parse X_OtherRef = None.
Proof. exact vt_unknown_ref_rejected. Qed.
Theorem c05_known_value_types_accepted : forall x : xvalty, x <> X_OtherRef -> exists v : valty, gen_vt_parse x = Some v.
Proof. exact vt_parse_total_on_known. Qed.

(* the payload loop of the SOURCE (regenerated): every section is handed to its validator method before it is consumed; unsupported kinds bail *)
From WV Require Gen.ParseSkeleton Proofs.ParsePinned.
Theorem c05_parse_source_skeleton : WV.Gen.ParseSkeleton.parse_skeleton = WV.Proofs.ParsePinned.expected_parse_skeleton.
Proof. exact WV.Proofs.ParsePinned.parse_skeleton_pinned. Qed.

Print Assumptions c05_every_payload_validated_before_use.
Print Assumptions c05_bodies_validated_before_use.
Print Assumptions c05_features_reach_reader_and_validator.
Print Assumptions c05_sound.
Print Assumptions c05_complete.
Print Assumptions c05_unsupported_rejected.
Print Assumptions c05_supported_kinds.
Print Assumptions c05_only_stable_removes_exactly.
Print Assumptions c05_default_features.
Print Assumptions c05_parse_total_on_valid_streams.
Print Assumptions c05_parse_never_panics_on_valid_streams.
Print Assumptions c05_parse_never_errs_on_valid_streams.
Print Assumptions c05_unknown_reference_types_rejected.
Print Assumptions c05_known_value_types_accepted.
Print Assumptions c05_parse_source_skeleton.
