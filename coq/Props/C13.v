(* C13 - debug names stay attached to the same entities.  Statements only; proofs in Proofs/Names.v.
   [kind_rt x S n l out]: the emitted name map [out] of one kind contains (j, nm) iff some in-range input index i
   has nm as its (last) name and is emitted at index j - so no name moves and none is lost -, sorted by index.
   For functions, tables, memories, globals, element and data segments the emitted map is moreover EQUAL to the
   sorted, renumbered, in-range, last-entry-wins input map; for types a merged type carries the name of the last
   entry that resolves to it; for locals, names come out at the slot the emitter assigns to that local, in the
   function at its emitted index, and names of locals that are not emitted are dropped; the module name is kept.
   A stale local-names entry (unknown function) is skipped (this used to abort the section: see known_findings.json).
   With synthetic names switched on, unnamed functions additionally get names (last theorem): the exact statements
   for functions are therefore under cf_synthetic_names = false. *)
From Coq Require Import List NArith ZArith Bool Arith Lia Permutation Sorted.
Import ListNotations.
From WV Require Import Gen.Ops Model.Common Model.IR Model.Arena Model.Traversal Model.EmitFn Model.Locals
                       Model.ParseFn Model.ModuleM Model.ParseM Model.EmitM Gen.Attrs.
From WV Require Import Proofs.Arena Proofs.Order Proofs.IndexMaps.
Local Open Scope nat_scope.
From WV Require Import Proofs.Names.
Local Open Scope nat_scope.

Theorem c13_names_roundtrip : forall cf ver w s ilen dw e,
  parseM cf ver w = POk s -> emitM (ps_m s) ilen dw = Ok e -> cf_skip_name cf = false ->
  let ids := ps_ids s in let x := em_x2i e in let ns := name_sections w in
  exists s_nm pre post,
    em_secs e = pre ++ s_nm ++ post /\ (s_nm = [] \/ s_nm = [S_Custom (CS_Name (Some (names_of s_nm)))]) /\
    let out := names_of s_nm in
    wn_module out = last_module_name ns /\
    (cf_synthetic_names cf = false ->
       kind_rt x S_func (length (ii_funcs ids)) (flat_map wn_funcs ns) (wn_funcs out)) /\
    kind_rt x S_table (length (ii_tables ids)) (flat_map wn_tables ns) (wn_tables out) /\
    kind_rt x S_memory (length (ii_memories ids)) (flat_map wn_mems ns) (wn_mems out) /\
    kind_rt x S_global (length (ii_globals ids)) (flat_map wn_globals ns) (wn_globals out) /\
    kind_rt x S_elem (length (ii_elements ids)) (flat_map wn_elems ns) (wn_elems out) /\
    kind_rt x S_data (length (ii_data ids)) (flat_map wn_data ns) (wn_data out).
Proof. exact names_roundtrip. Qed.

Theorem c13_no_name_moves x S n l out j nm : kind_rt x S n l out -> In (j, nm) out ->
  exists i, N.to_nat i < n /\ get_idx x S i = Ok j /\ last_name l i = Some nm.
Proof. exact (kind_rt_no_move x S n l out j nm). Qed.

Theorem c13_no_name_lost x S n l out i nm : kind_rt x S n l out -> N.to_nat i < n -> last_name l i = Some nm ->
  exists j, get_idx x S i = Ok j /\ In (j, nm) out.
Proof. exact (kind_rt_no_loss x S n l out i nm). Qed.

Theorem c13_functions_exact : forall cf ver w s ilen dw e,
  parseM cf ver w = POk s -> emitM (ps_m s) ilen dw = Ok e -> cf_skip_name cf = false -> cf_synthetic_names cf = false ->
  exists s_nm pre post,
    em_secs e = pre ++ s_nm ++ post /\ (s_nm = [] \/ s_nm = [S_Custom (CS_Name (Some (names_of s_nm)))]) /\
    rt_eq (em_x2i e) S_func (length (ii_funcs (ps_ids s))) (flat_map wn_funcs (name_sections w)) (wn_funcs (names_of s_nm)).
Proof. exact names_roundtrip_funcs_eq. Qed.

Theorem c13_tables_memories_globals_exact : forall cf ver w s ilen dw e,
  parseM cf ver w = POk s -> emitM (ps_m s) ilen dw = Ok e -> cf_skip_name cf = false ->
  let ids := ps_ids s in let x := em_x2i e in let ns := name_sections w in
  exists s_nm pre post,
    em_secs e = pre ++ s_nm ++ post /\ (s_nm = [] \/ s_nm = [S_Custom (CS_Name (Some (names_of s_nm)))]) /\
    let out := names_of s_nm in
    rt_eq x S_table (length (ii_tables ids)) (flat_map wn_tables ns) (wn_tables out) /\
    rt_eq x S_memory (length (ii_memories ids)) (flat_map wn_mems ns) (wn_mems out) /\
    rt_eq x S_global (length (ii_globals ids)) (flat_map wn_globals ns) (wn_globals out).
Proof. exact names_roundtrip_tmg_eq. Qed.

Theorem c13_elements_data_exact : forall cf ver w s ilen dw e,
  parseM cf ver w = POk s -> emitM (ps_m s) ilen dw = Ok e -> cf_skip_name cf = false ->
  let ids := ps_ids s in let ns := name_sections w in
  exists s_nm pre post,
    em_secs e = pre ++ s_nm ++ post /\ (s_nm = [] \/ s_nm = [S_Custom (CS_Name (Some (names_of s_nm)))]) /\
    wn_elems (names_of s_nm) =
      sort_nm (filter (fun p => N.to_nat (fst p) <? length (ii_elements ids)) (dedupe_last (flat_map wn_elems ns))) /\
    wn_data (names_of s_nm) =
      sort_nm (filter (fun p => N.to_nat (fst p) <? length (ii_data ids)) (dedupe_last (flat_map wn_data ns))).
Proof. exact names_roundtrip_elements_data. Qed.

Theorem c13_types : forall cf ver w s ilen dw e,
  parseM cf ver w = POk s -> emitM (ps_m s) ilen dw = Ok e -> cf_skip_name cf = false ->
  let ids := ps_ids s in let x := em_x2i e in let l := flat_map wn_types (name_sections w) in
  exists s_nm pre post,
    em_secs e = pre ++ s_nm ++ post /\ (s_nm = [] \/ s_nm = [S_Custom (CS_Name (Some (names_of s_nm)))]) /\
    let out := wn_types (names_of s_nm) in
    (forall j nm, In (j, nm) out <->
       exists id, N.to_nat id < length (items (Arena.arena (m_types (ps_m s)))) /\
                  last_for (ii_types ids) l id = Some nm /\ get_idx x S_type id = Ok j) /\
    (forall id nm, N.to_nat id < length (items (Arena.arena (m_types (ps_m s)))) -> last_for (ii_types ids) l id = Some nm ->
       exists j, get_idx x S_type id = Ok j /\ In (j, nm) out) /\
    StronglySorted N.lt (map fst out).
Proof. exact names_roundtrip_types. Qed.

Theorem c13_locals : forall cf ver w s ilen dw e,
  parseM cf ver w = POk s -> emitM (ps_m s) ilen dw = Ok e -> cf_skip_name cf = false -> cf_synthetic_names cf = false ->
  let m := ps_m s in let x := em_x2i e in let L := local_entries cf (ps_ids s) (name_sections w) in
  exists s_nm pre post,
    em_secs e = pre ++ s_nm ++ post /\ (s_nm = [] \/ s_nm = [S_Custom (CS_Name (Some (names_of s_nm)))]) /\
    (forall fi lnames, In (fi, lnames) (wn_locals (names_of s_nm)) <->
       exists fid f ef, In (fid, f) (aiter (m_funcs m)) /\ find (fun ef => N.eqb (ef_id ef) fid) (em_fns e) = Some ef /\
                        fn_local_names m ef <> [] /\ get_idx x S_func fid = Ok fi /\ lnames = sort_nm (fn_local_names m ef)) /\
    (forall ef slot n, In (slot, n) (sort_nm (fn_local_names m ef)) <->
       exists lid lo q, In lid (ef_used ef) /\ aget (m_locals m) lid = Some lo /\ last_name L lid = Some n /\
                        find (fun q => N.eqb (fst q) lid) (ef_lmap ef) = Some q /\ snd q = slot).
Proof. exact local_names_roundtrip_partial. Qed.

Theorem c13_locals_no_loss : forall cf ver w s ilen dw e,
  parseM cf ver w = POk s -> emitM (ps_m s) ilen dw = Ok e -> cf_skip_name cf = false ->
  let m := ps_m s in let L := local_entries cf (ps_ids s) (name_sections w) in
  forall ef lid lo q n, In lid (ef_used ef) -> aget (m_locals m) lid = Some lo -> last_name L lid = Some n ->
    find (fun q => N.eqb (fst q) lid) (ef_lmap ef) = Some q -> In (snd q, n) (sort_nm (fn_local_names m ef)).
Proof. exact local_names_roundtrip_no_loss. Qed.

Theorem c13_module_name_in : forall cf ver w s, parseM cf ver w = POk s ->
  m_name (ps_m s) = last_module_name (name_sections w).
Proof. exact module_name_parse. Qed.

Theorem c13_module_name_out : forall m ilen dw e, emitM m ilen dw = Ok e -> cf_skip_name (m_config m) = false ->
  exists s_nm pre post, em_secs e = pre ++ s_nm ++ post /\
    (s_nm = [] \/ s_nm = [S_Custom (CS_Name (Some (names_of s_nm)))]) /\ wn_module (names_of s_nm) = m_name m.
Proof. exact module_name_emit. Qed.

Theorem c13_stale_local_entry_skipped : forall l m ids, exists m', apply_local_names m ids l = Some m'.
Proof. exact apply_local_names_some. Qed.

(* (Proofs/Names.v: names_roundtrip_funcs_synthetic_refuted is the witness for the synthetic-names remark above.) *)

Print Assumptions c13_names_roundtrip.
Print Assumptions c13_no_name_moves.
Print Assumptions c13_no_name_lost.
Print Assumptions c13_functions_exact.
Print Assumptions c13_tables_memories_globals_exact.
Print Assumptions c13_elements_data_exact.
Print Assumptions c13_types.
Print Assumptions c13_locals.
Print Assumptions c13_locals_no_loss.
Print Assumptions c13_module_name_in.
Print Assumptions c13_module_name_out.
Print Assumptions c13_stale_local_entry_skipped.
