From WV Require Import Model.ParseM.
