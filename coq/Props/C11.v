(* C11 - placeholder while the proofs are integrated; replaced below *)
From WV Require Import Model.CodeMap.
