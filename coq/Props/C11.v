(* C11 - the code-offset map handed to custom sections is exact.  Statements only; proofs in Proofs/CodeMap.v.
   Model/CodeMap.v models the tail of ModuleFunctions::emit; positions inside a body are the [imap] of the Emit
   visitor model (Model/EmitFn.v), tied to the normal form of the parsed body by roundtrip_body (C03).
   - every location occurs in at most one pair; a pair (loc, (k, pos)) means: in the k-th emitted function the
     instruction whose InstrLocId is loc starts at byte pos of the body, and that instruction is the image of the
     input instruction at input offset loc (c11_roundtrip_imap_exact); instructions carrying the default location
     (everything inserted through the builder API) are in no pair;
   - the function ranges are the extents [size LEB, end of body) of the entries, contiguous from the first entry,
     sorted by function id;
   - code_section_start is where the contents of the code section (the function count) start; the formula the
     code used before the repair (first entry - 2) is refuted and shown right only for 128..16383 bodies. *)
From Coq Require Import List NArith ZArith Arith Bool Sorting.Sorted Sorting.Permutation. Import ListNotations.
From WV Require Import Gen.Ops Model.Common Model.IR Model.Arena Model.Builder Model.ParseFn Model.ParseSpec
  Model.Traversal Model.EmitFn Model.EmitSpec Model.BodySpec Model.ModuleM Model.ParseM Model.EmitM Model.CodeMap.
From WV Require Import Proofs.ParseFn Proofs.Body.
From WV Require Proofs.Builder.
From WV Require Import Proofs.CodeMap Model.Leb Model.Dwarf Proofs.Leb.
Local Open Scope nat_scope.

Theorem c11_pairs_one_per_location : forall efs loc v v',
  In (loc, v) (ct_pairs efs) -> In (loc, v') (ct_pairs efs) -> v = v'.
Proof. exact ct_pairs_functional. Qed.

Theorem c11_inserted_instructions_in_no_pair : forall efs loc v, In (loc, v) (ct_pairs efs) -> loc <> default_loc.
Proof. exact ct_pairs_no_default. Qed.

Theorem c11_pairs_sound : forall efs loc k pos,
  In (loc, (k, pos)) (ct_pairs efs) -> exists e, nth_error efs (N.to_nat k) = Some e /\ In (loc, pos) (ef_imap e).
Proof. exact ct_pairs_sound. Qed.

Theorem c11_pairs_complete : forall efs k e loc pos,
  nth_error efs k = Some e -> In (loc, pos) (ef_imap e) -> loc <> default_loc -> exists v, In (loc, v) (ct_pairs efs).
Proof. exact ct_pairs_complete. Qed.

Theorem c11_pairs_exact : forall efs, NoDup (all_nd_keys efs) ->
  forall loc k pos,
  In (loc, (k, pos)) (ct_pairs efs) <->
  (loc <> default_loc /\ exists e, nth_error efs (N.to_nat k) = Some e /\ In (loc, pos) (ef_imap e)).
Proof. exact ct_pairs_unique_source. Qed.

Theorem c11_position_is_first_byte : forall cx tg p0 loc pos,
  In (loc, pos) (tag_positions cx p0 tg) <->
  exists pre w post, tg = pre ++ (loc, w) :: post /\ pos = (p0 + total_len cx pre)%N.
Proof. exact tag_positions_In_iff. Qed.

Theorem c11_tag_is_location_of_source_instruction : forall cx ecx l eloc loc w, In (loc, w) (nf_body cx ecx l eloc) ->
    (loc = default_loc /\ w = WElse) \/ exists wi, In (wi, loc) (flat_list l ++ [(WEnd, eloc)]) /\ img cx ecx wi w.
Proof. exact nf_body_tag_origin. Qed.

Theorem c11_roundtrip_imap_exact : forall cx ecx ety rs l eloc p0,
  wfl cx 1 l ->
  (forall o, decode_plain (px_i2id cx) o <> None -> encode_plain (ex_id2i ecx) (dec cx o) <> None) ->
  exists ar st fuel,
    parse_body cx ety rs (flat_list l ++ [(WEnd, eloc)]) = Ok ar /\
    emit_body ecx fuel ar 0 p0 = Ok st /\
    forall loc pos, In (loc, pos) (imap st) <->
      exists pre w post, nf_body cx ecx l eloc = pre ++ (loc, w) :: post /\ pos = (p0 + total_len ecx pre)%N /\
        ((loc = default_loc /\ w = WElse) \/
         exists wi, In (wi, loc) (flat_list l ++ [(WEnd, eloc)]) /\ img cx ecx wi w).
Proof. exact roundtrip_imap_exact. Qed.

Theorem c11_function_ranges_are_entries : forall l first k id s e,
  nth_error (ranges_from first l) k = Some (id, (s, e)) ->
  exists sz, nth_error l k = Some (id, sz) /\
             s = (first + entries_len (firstn k l))%N /\ e = (s + leb_len sz + sz)%N.
Proof. exact ranges_from_spec. Qed.

Theorem c11_function_ranges_contiguous : forall l first k id s e id' s' e',
  nth_error (ranges_from first l) k = Some (id, (s, e)) ->
  nth_error (ranges_from first l) (S k) = Some (id', (s', e')) -> s' = e.
Proof. exact ranges_from_contiguous. Qed.

Theorem c11_function_ranges_members : forall first ids sizes x,
  In x (ct_function_ranges first ids sizes) <-> In x (ranges_from first (combine ids sizes)).
Proof. exact ct_function_ranges_In. Qed.

Theorem c11_function_ranges_sorted : forall first ids sizes,
  StronglySorted id_le (ct_function_ranges first ids sizes).
Proof. exact ct_function_ranges_sorted. Qed.

Theorem c11_code_section_start : forall c n, ct_code_section_start (c + leb_len n) n = c.
Proof. exact ct_code_section_start_spec. Qed.

Theorem c11_old_formula_refuted : exists c n, (n < 128)%N /\ (c + leb_len n - 2)%N <> c.
Proof. exact old_formula_refuted. Qed.

Theorem c11_old_formula_right_only_for_two_byte_count : forall c n, (1 <= c)%N ->
  ((c + leb_len n - 2)%N = c <-> (128 <= n < 16384)%N).
Proof. exact old_formula_right_range. Qed.

Theorem c11_marker_default_loc a cur pos i a' : insert_i a cur pos i = Ok a' ->
  exists q l1 l2, nth_error a (N.to_nat cur) = Some q /\ sq_instrs q = l1 ++ l2 /\ length l1 = N.to_nat pos /\
    nth_error a' (N.to_nat cur) = Some {| sq_ty := sq_ty q; sq_instrs := l1 ++ (i, default_loc) :: l2; sq_end := sq_end q |} /\
    (forall c, c <> N.to_nat cur -> nth_error a' c = nth_error a c).
Proof. exact (insert_i_spec a cur pos i a'). Qed.

Theorem c11_inserted_not_in_map : forall efs v, ~ In (default_loc, v) (ct_pairs efs).
Proof. exact inserted_not_in_map. Qed.

(* ---- LEB128 below the layout model (Model/Leb.v; proofs in Proofs/Leb.v): the bytes of every count, size field and integer
   immediate.  Compared byte for byte with wasm-encoder / wasmparser by the C11 harness run (Run/LebRun.v). *)
Theorem c11_leb_roundtrip : forall n rest, (n < 2^126)%N -> dec_u (enc_u n ++ rest) = Some (n, rest).
Proof. exact dec_enc_u. Qed.

Theorem c11_leb_prefix_free : forall n m r1 r2, (n < 2^126)%N -> (m < 2^126)%N ->
  enc_u n ++ r1 = enc_u m ++ r2 -> n = m /\ r1 = r2.
Proof. exact enc_u_prefix_free. Qed.

Theorem c11_leb_shape : forall n, exists pre l, enc_u n = pre ++ [l] /\ (l < 128)%N /\ Forall (fun b => (128 <= b)%N) pre.
Proof. exact enc_u_last. Qed.

(* the length functions of the layout models ARE the encoded lengths *)
Theorem c11_leb_length_is_leb_len : forall n, (n < 2^64)%N -> N.of_nat (length (enc_u n)) = leb_len n.
Proof. exact enc_u_len. Qed.

Theorem c11_leb_length_is_leb5 : forall n, (n < 2^32)%N -> N.of_nat (length (enc_u n)) = leb5 n.
Proof. exact enc_u_len5. Qed.

(* minimal encoding: the length is the least k with n < 2^(7k); monotone *)
Theorem c11_leb_len_minimal : forall n, (n < 2^64)%N ->
  (n < 2^(7 * leb_len n))%N /\ forall k, (0 < k)%N -> (n < 2^(7 * k))%N -> (leb_len n <= k)%N.
Proof. exact leb_len_least. Qed.

Theorem c11_leb_len_monotone : forall n m, (n <= m)%N -> (m < 2^64)%N -> (leb_len n <= leb_len m)%N.
Proof. exact leb_len_mono. Qed.

Theorem c11_leb_signed_roundtrip : forall z rest, (-2^125 <= z < 2^125)%Z -> dec_s (enc_s z ++ rest) = Some (z, rest).
Proof. exact dec_enc_s. Qed.

Theorem c11_leb_signed_prefix_free : forall z w r1 r2, (-2^125 <= z < 2^125)%Z -> (-2^125 <= w < 2^125)%Z ->
  enc_s z ++ r1 = enc_s w ++ r2 -> z = w /\ r1 = r2.
Proof. exact enc_s_prefix_free. Qed.

(* ---- the layout of the code section at byte level (Model/Frame.v): count, then size-prefixed bodies.  The offsets the layout model
   (Model/CodeMap.v ranges_from, ct_code_section_start) computes from LEB LENGTHS are the offsets in the actual bytes. *)
From WV Require Import Model.Frame Proofs.Frame.
Theorem c11_code_payload_reads_back : forall bodies, Forall small bodies -> (lenN bodies < 2 ^ 126)%N ->
  split_code (code_payload bodies) = Some bodies.
Proof. exact split_code_payload. Qed.

Theorem c11_body_is_at_its_offset : forall bodies k s t b,
  nth_error (code_entry_offsets bodies) k = Some (s, t) -> nth_error bodies k = Some b ->
  takeN (lenN b) (dropN t (code_payload bodies)) = b.
Proof. exact code_entry_body. Qed.

Theorem c11_size_field_is_at_its_offset : forall bodies k s t b, small b ->
  nth_error (code_entry_offsets bodies) k = Some (s, t) -> nth_error bodies k = Some b ->
  exists rest, dec_u (dropN s (code_payload bodies)) = Some (lenN b, b ++ rest).
Proof. exact code_entry_field_dec. Qed.

Theorem c11_ranges_are_the_byte_extents : forall bodies ids cur, Forall (fun b => (lenN b < 2 ^ 64)%N) bodies ->
  ranges_from cur (combine ids (map lenN bodies)) = combine ids (entry_ranges cur bodies).
Proof. exact entry_starts_ranges. Qed.

Theorem c11_code_section_start_is_the_payload_start : forall base bodies, (lenN bodies < 2 ^ 64)%N ->
  forall s t, nth_error (entry_starts (base + lenN (enc_u (lenN bodies))) bodies) 0 = Some (s, t) ->
  ct_code_section_start s (lenN bodies) = base.
Proof. exact code_section_start_link. Qed.


(* ================================================================== instruction LENGTHS are the lengths of the modelled encodings (Model/Bytes.v):
   the positions the emitter model records with [ex_ilen := ilen_total] are the byte offsets of the instructions in the encoded body, and every
   instruction of every body is found at its offset inside the code section payload *)
From WV Require Import Model.Bytes Proofs.Bytes.
Section ByteOffsets.
Local Open Scope N_scope.
Theorem c11_instruction_lengths_positive : forall (i : wins) (bs : list N), enc_ins i = Some bs -> 0 < lenB bs.
Proof. exact enc_ins_length_positive. Qed.
Theorem c11_body_length_is_the_sum_of_instruction_lengths :
  forall (locals : list (N * valty)) (ops : list wins) (bs : list N),
    enc_body locals ops = Some bs -> exists s : N, sum_ilen ops = Some s /\ lenB bs = lenB (enc_locals locals) + s.
Proof. exact enc_body_length. Qed.
Theorem c11_recorded_positions_are_byte_offsets :
  forall (cx : ParseFn.pctx) (ecx : EmitFn.ectx) (ety : N) (rs : list valty) (l : list ParseSpec.rt) (eloc p0 : N) (ar1 : IR.arena)
         (st1 : EmitFn.estate) (fuel1 : nat) (ib : list N),
    ParseSpec.wfl cx 1 l -> ModFix10.enc_ok cx ecx ->
    ParseFn.parse_body cx ety rs (ParseSpec.flat_list l ++ (WEnd, eloc) :: nil)%list = Ok ar1 ->
    EmitFn.emit_body ecx fuel1 ar1 0 p0 = Ok st1 ->
    EmitFn.ex_ilen ecx = ilen_total -> enc_inss (EmitFn.out st1) = Some ib -> ins_offsets p0 (EmitFn.out st1) = Some (map snd (EmitFn.imap st1)).
Proof. exact emitted_positions_are_byte_offsets. Qed.
Theorem c11_instruction_is_at_its_offset_in_the_code_section :
  forall (bodies : list fbody) (bytess : list (list N)) (k : nat) (locals : list (N * valty)) (ops : list wins) (s t : N) (offs : list N)
         (j : nat) (i : wins) (off : N),
    enc_bodies bodies = Some bytess -> nth_error bodies k = Some (locals, ops) -> nth_error (code_entry_offsets bytess) k = Some (s, t) ->
    ins_offsets (lenB (enc_locals locals)) ops = Some offs -> nth_error ops j = Some i -> nth_error offs j = Some off -> wf_imm i = true ->
    exists rest : list N, dec_ins (dropN (t + off) (code_payload bytess)) = Some (i, rest).
Proof. exact ins_at_offset. Qed.
End ByteOffsets.

Print Assumptions c11_pairs_one_per_location.
Print Assumptions c11_inserted_instructions_in_no_pair.
Print Assumptions c11_pairs_sound.
Print Assumptions c11_pairs_complete.
Print Assumptions c11_pairs_exact.
Print Assumptions c11_position_is_first_byte.
Print Assumptions c11_tag_is_location_of_source_instruction.
Print Assumptions c11_roundtrip_imap_exact.
Print Assumptions c11_function_ranges_are_entries.
Print Assumptions c11_function_ranges_contiguous.
Print Assumptions c11_function_ranges_members.
Print Assumptions c11_function_ranges_sorted.
Print Assumptions c11_code_section_start.
Print Assumptions c11_old_formula_refuted.
Print Assumptions c11_old_formula_right_only_for_two_byte_count.
Print Assumptions c11_marker_default_loc.
Print Assumptions c11_inserted_not_in_map.
Print Assumptions c11_leb_roundtrip.
Print Assumptions c11_leb_prefix_free.
Print Assumptions c11_leb_shape.
Print Assumptions c11_leb_length_is_leb_len.
Print Assumptions c11_leb_length_is_leb5.
Print Assumptions c11_leb_len_minimal.
Print Assumptions c11_leb_len_monotone.
Print Assumptions c11_leb_signed_roundtrip.
Print Assumptions c11_leb_signed_prefix_free.
Print Assumptions c11_code_payload_reads_back.
Print Assumptions c11_body_is_at_its_offset.
Print Assumptions c11_size_field_is_at_its_offset.
Print Assumptions c11_ranges_are_the_byte_extents.
Print Assumptions c11_code_section_start_is_the_payload_start.
Print Assumptions c11_instruction_lengths_positive.
Print Assumptions c11_body_length_is_the_sum_of_instruction_lengths.
Print Assumptions c11_recorded_positions_are_byte_offsets.
Print Assumptions c11_instruction_is_at_its_offset_in_the_code_section.
