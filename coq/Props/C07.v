(* C07 - GC is precise and idempotent. Statements only.
   Model/GC.v = Used::new (roots + worklist over the REGENERATED visited-reference tables) and
   gc::run; [greach m rs] = reachability in the module's reference graph from the roots
   (exports, start, active data, active elements of imported tables, declared elements,
   custom-section roots). [refs_wf] = every reference is to an allocated, live entity. *)
From Coq Require Import List NArith Bool Arith. Import ListNotations.
From WV Require Import Gen.Ops Model.Common Model.IR Model.Arena Model.ModuleM Model.GC Proofs.C07L.
From WV Require Proofs.GC.
From WV Require Import Model.ParseM Model.EmitM Proofs.Totality Proofs.GcDeclare.
Local Open Scope nat_scope.

(* the worklist terminates within |entities| + 2 steps and computes EXACTLY the reachable set *)
Theorem c07_used_is_reachable_set : forall m rs U,
  roots m = Ok rs -> refs_wf m rs ->
  wl (S (S (n_entities m))) m (fold_left push rs {| u_used := []; u_stack := [] |}) = Ok U ->
  NoDup U /\ forall x, In x U <-> G.greach m rs x.
Proof. intros m rs U Hr [Ha Hl]. exact (G.used_reach m rs U Hr Ha Hl). Qed.
Theorem c07_no_fuel_exhaustion : forall m rs, roots m = Ok rs -> refs_wf m rs ->
  exists U, wl (S (S (n_entities m))) m (fold_left push rs {| u_used := []; u_stack := [] |}) = Ok U.
Proof. intros m rs Hr [Ha Hl]. exact (G.used_no_fuel m rs Hr Ha Hl). Qed.

(* precision: everything in the used set is reachable from the roots - sole tolerated residue: one
   memory (the first), kept only when a data segment is kept and no memory is otherwise used *)
Theorem c07_precise : forall m u, used m = Ok u ->
  exists rs, roots m = Ok rs /\ (refs_wf m rs ->
    forall x, In x u -> G.greach m rs x \/
      (exists mid v rest, aiter (m_memories m) = (mid, v) :: rest /\ x = (S_memory, mid) /\
                          (forall y, In y u -> fst y = S_memory -> y = x) /\ (exists d, In (S_data, d) u))).
Proof. exact used_is_reach. Qed.

(* the pass keeps exactly the used entities of every kind (nothing unreachable survives); the only other entity of the result is the
   declared element segment the last step may add (id = the next id of the element arena): a root by definition, listing live functions *)
Theorem c07_sweep_exact :
  forall m m' : wir,
         gc m = Ok m' ->
         forall u : list ent,
         used m = Ok u ->
         (forall id : N,
          contains (m_funcs m') (N.to_nat id) = true <->
          contains (m_funcs m) (N.to_nat id) = true /\ mem_ent (S_func, id) u = true) /\
         (forall id : N,
          contains (m_tables m') (N.to_nat id) = true <->
          contains (m_tables m) (N.to_nat id) = true /\ mem_ent (S_table, id) u = true) /\
         (forall id : N,
          contains (m_globals m') (N.to_nat id) = true <->
          contains (m_globals m) (N.to_nat id) = true /\ mem_ent (S_global, id) u = true) /\
         (forall id : N,
          contains (m_memories m') (N.to_nat id) = true <->
          contains (m_memories m) (N.to_nat id) = true /\ mem_ent (S_memory, id) u = true) /\
         (forall id : N,
          contains (m_data m') (N.to_nat id) = true <->
          contains (m_data m) (N.to_nat id) = true /\ mem_ent (S_data, id) u = true) /\
         (forall id : N,
          contains (m_elements m') (N.to_nat id) = true <->
          contains (m_elements m) (N.to_nat id) = true /\ mem_ent (S_elem, id) u = true \/
          id = anext (m_elements m) /\
          (exists fs : list N,
             fs <> [] /\ aget (m_elements m') id = Some (decl_seg fs) /\ (forall f : N, In f fs -> liveF m' f))).
Proof. exact gc_keeps_exactly_used_full. Qed.

(* idempotence at the level of sets: recomputing reachability on the graph restricted to the kept
   set (deleted entities are gone) yields the same set again, so a second run deletes nothing *)
Theorem c07_idempotent_sets : forall (X : Type) (eqb : X -> X -> bool) (stacked : X -> bool)
        (succ : X -> option (list X)) (roots U : list X),
  (forall a b, eqb a b = true <-> a = b) ->
  (forall x, In x U <-> G.reach stacked succ roots x) ->
  let succ' := fun x => if G.amem eqb x U then succ x else None in
  forall x, G.reach stacked succ' roots x <-> In x U.
Proof. exact G.gc_idempotent_sets. Qed.

(* the source of the used-analysis and of the sweep still has the control skeleton the model was written against
   (regenerated Gen/GcSkeleton.v = the pinned copy in Proofs/GcPinned.v): roots, edges, residue, sweep order *)
From WV Require Import Gen.GcSkeleton Proofs.GcPinned.
Theorem c07_source_skeleton : used_new_skeleton = expected_used_new /\ used_visitor_skeleton = expected_used_visitor /\ gc_run_skeleton = expected_gc_run /\ gc_declare_skeleton = expected_gc_declare.
Proof. exact used_skeleton_pinned. Qed.

(* ---- the declared segment added by the last step is a root of the used-analysis and survives a further sweep; running the declaration step
   again adds nothing (so a second run of the pass changes nothing once its sweep changes nothing) *)
Theorem c07_new_segment_is_root :
  forall (m m' m2 : wir) (id : N) (fs : list N),
         gc m = Ok m' ->
         aget (m_elements m') id = Some (decl_seg fs) ->
         (forall rs : list ent, roots m' = Ok rs -> In (S_elem, id) rs) /\
         (gc_sweep m' = Ok m2 -> aget (m_elements m2) id = Some (decl_seg fs)).
Proof. exact gc_new_segment_is_root. Qed.
Theorem c07_declare_idempotent :
  forall m m1 : wir,
         dead_in_range (m_elements m) ->
         gc m = Ok m1 -> declare_referenced_funcs m1 = Ok m1 /\ (gc_sweep m1 = Ok m1 -> gc m1 = Ok m1).
Proof. exact gc_declare_idempotent_partial. Qed.

(* ---- idempotence at MODULE level: a second run of the pass returns the very same module (records, not just sets): the used-analysis of
   the swept module is the identical list, a sweep whose keep-list contains every live id returns the arena itself, the declared segment of
   the declaration step is a root and is not added twice.  The only premise - no tombstone on a not-yet-allocated element id - holds for
   every module built by arena operations (witness for its necessity: an arena no operation sequence can build). *)
From WV Require Import Proofs.GcIdem.
Theorem c07_sweep_idempotent :
  forall m m1 : wir, gc_sweep m = Ok m1 -> gc_sweep m1 = Ok m1.
Proof. exact gc_sweep_idempotent. Qed.

Theorem c07_gc_idempotent :
  forall (cf : config) (ver : str) (w : wmod) (s : pst) (m1 : wir),
         parseM cf ver w = POk s -> gc (ps_m s) = Ok m1 -> gc m1 = Ok m1.
Proof. exact gc_idempotent_after_parse. Qed.

Theorem c07_gc_idempotent_wf :
  forall m m1 : wir, dead_in_range (m_elements m) -> gc m = Ok m1 -> gc m1 = Ok m1.
Proof. exact gc_idempotent_partial. Qed.

Theorem c07_gc_idempotent_needs_wellformed_arena :
  exists m m1 m2 : wir, gc m = Ok m1 /\ gc m1 = Ok m2 /\ m2 <> m1.
Proof. exact gc_idempotent_refuted. Qed.


Print Assumptions c07_used_is_reachable_set.
Print Assumptions c07_no_fuel_exhaustion.
Print Assumptions c07_precise.
Print Assumptions c07_sweep_exact.
Print Assumptions c07_idempotent_sets.
Print Assumptions c07_source_skeleton.
Print Assumptions c07_new_segment_is_root.
Print Assumptions c07_declare_idempotent.
Print Assumptions c07_sweep_idempotent.
Print Assumptions c07_gc_idempotent.
Print Assumptions c07_gc_idempotent_wf.
Print Assumptions c07_gc_idempotent_needs_wellformed_arena.
