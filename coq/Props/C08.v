(* C08 - emission is deterministic, repeatable and a fixpoint of the round trip. Statements only.
   Hash-ordered containers of the Rust (IdHashSet iteration in used_locals, the per-function
   maps) are modelled as lists in ARBITRARY order; determinism = the output does not depend on
   that order. *)
From Coq Require Import List NArith Bool Permutation Sorted. Import ListNotations.
From WV Require Import Gen.Ops Model.Common Model.IR Model.ModuleM Model.ParseM Model.EmitM Model.Locals
                       Proofs.CustomsCfg Proofs.Order.
Local Open Scope nat_scope.

(* (1) repeatable: emitting consumes or alters nothing (custom sections included); emitting the
   returned module again gives exactly the same result - hence any number of times *)
Theorem c08_emit_keeps_module : forall m ilen dw e, emitM m ilen dw = Ok e -> em_module e = m.
Proof. exact emit_keeps_module. Qed.
Theorem c08_repeat : forall m ilen dw e, emitM m ilen dw = Ok e -> emitM (em_module e) ilen dw = Ok e.
Proof. exact emit_repeat. Qed.

(* (2) deterministic: the iteration order of the used-locals hash set cannot reach the output *)
Theorem c08_locals_order_free : forall ty args l l', (forall x, In x l <-> In x l') ->
  emit_locals ty args l = emit_locals ty args l'.
Proof. exact emit_locals_order_free. Qed.
(* ... nor can the arrival order of names or of the local functions (keys are distinct ids) *)
Theorem c08_names_order_free : forall A (l l' : list (N * A)),
  Permutation l l' -> NoDup (map fst l) -> sort_nm l = sort_nm l'.
Proof. exact sort_nm_order_free. Qed.
Theorem c08_func_order_free : forall l l', Permutation l l' ->
  NoDup (map (fun t : N * N * mlocalfunc => snd (fst t)) l) -> sort_funcs l = sort_funcs l'.
Proof. exact func_order_free. Qed.

(* (3) fixpoint halves: what is already in canonical order stays put when processed again *)
Theorem c08_sorted_locals_stay : forall l, StronglySorted N.lt l -> sort_ids l = l.
Proof. exact sort_ids_id. Qed.
Theorem c08_sorted_types_stay : forall l,
  StronglySorted (fun a b => ty_le (snd a) (snd b) = true) l -> sort_types l = l.
Proof. exact sort_types_stable_id. Qed.
Theorem c08_func_order_canonical : forall l, StronglySorted func_before (sort_funcs l).
Proof. exact sort_funcs_sorted. Qed.

Print Assumptions c08_emit_keeps_module.
Print Assumptions c08_repeat.
Print Assumptions c08_locals_order_free.
Print Assumptions c08_names_order_free.
Print Assumptions c08_func_order_free.
Print Assumptions c08_sorted_locals_stay.
Print Assumptions c08_sorted_types_stay.
Print Assumptions c08_func_order_canonical.
