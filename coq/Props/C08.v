(* C08 - emission is deterministic, repeatable and a fixpoint of the round trip. Statements only.
   Hash-ordered containers of the Rust (IdHashSet iteration in used_locals, the per-function
   maps) are modelled as lists in ARBITRARY order; determinism = the output does not depend on
   that order. *)
From Coq Require Import List NArith Bool Permutation Sorted. Import ListNotations.
From WV Require Import Gen.Ops Model.Common Model.IR Model.ModuleM Model.ParseM Model.EmitM Model.Locals
                       Proofs.CustomsCfg Proofs.Order.
Local Open Scope nat_scope.

(* (1) repeatable: emitting consumes or alters nothing (custom sections included); emitting the
   returned module again gives exactly the same result - hence any number of times *)
Theorem c08_emit_keeps_module : forall m ilen dw e, emitM m ilen dw = Ok e -> em_module e = m.
Proof. exact emit_keeps_module. Qed.
Theorem c08_repeat : forall m ilen dw e, emitM m ilen dw = Ok e -> emitM (em_module e) ilen dw = Ok e.
Proof. exact emit_repeat. Qed.

(* (2) deterministic: the iteration order of the used-locals hash set cannot reach the output *)
Theorem c08_locals_order_free : forall ty args l l', (forall x, In x l <-> In x l') ->
  emit_locals ty args l = emit_locals ty args l'.
Proof. exact emit_locals_order_free. Qed.
(* ... nor can the arrival order of names or of the local functions (keys are distinct ids) *)
Theorem c08_names_order_free : forall A (l l' : list (N * A)),
  Permutation l l' -> NoDup (map fst l) -> sort_nm l = sort_nm l'.
Proof. exact sort_nm_order_free. Qed.
Theorem c08_func_order_free : forall l l', Permutation l l' ->
  NoDup (map (fun t : N * N * mlocalfunc => snd (fst t)) l) -> sort_funcs l = sort_funcs l'.
Proof. exact func_order_free. Qed.

(* (3) fixpoint halves: what is already in canonical order stays put when processed again *)
Theorem c08_sorted_locals_stay : forall l, StronglySorted N.lt l -> sort_ids l = l.
Proof. exact sort_ids_id. Qed.
Theorem c08_sorted_types_stay : forall l,
  StronglySorted (fun a b => ty_le (snd a) (snd b) = true) l -> sort_types l = l.
Proof. exact sort_types_stable_id. Qed.
Theorem c08_func_order_canonical : forall l, StronglySorted func_before (sort_funcs l).
Proof. exact sort_funcs_sorted. Qed.




(* (5) the iteration order of the type arena, of the function arena, of the used-locals set and of the name vectors cannot
   reach the output; type keys are pairwise distinct for parsed modules (on arbitrary arenas ties are possible: witness) *)
From WV Require Import Proofs.Names Proofs.SortKeys.
Theorem c08_types_order_free_for_parsed_modules :
  forall (cf : config) (ver : nstr) (w : wmod) (s : pst) (x : x2i) (l' : list (N * mtype)),
         parseM cf ver w = POk s ->
         Permutation (emitted_types (ps_m s)) l' -> emit_types (ps_m s) x = emit_types_from l' x.
Proof. exact parsed_emit_types_order_free. Qed.

Theorem c08_functions_iteration_order_free :
  forall (ps1 ps2 : list (N * mfunc)) (l1 : list (list (N * N * mlocalfunc))),
         Permutation ps1 ps2 ->
         NoDup (map fst ps1) ->
         rmapM func_entry ps1 = Ok l1 ->
         exists l2 : list (list (N * N * mlocalfunc)),
           rmapM func_entry ps2 = Ok l2 /\ Order.sort_funcs (concat l1) = Order.sort_funcs (concat l2).
Proof. exact used_funcs_iteration_order_free. Qed.

Theorem c08_locals_perm_invariant :
  forall (ty : N -> valty) (args u1 u2 : list N),
         Permutation u1 u2 -> emit_locals ty args u1 = emit_locals ty args u2.
Proof. exact emit_locals_perm_invariant. Qed.

Theorem c08_names_perm_invariant :
  forall (A : Type) (x : x2i) (s : space) (getn : A -> option nstr) (l1 l2 : list (N * A))
           (nm : namemap),
         Permutation l1 l2 ->
         NoDup (map fst l1) ->
         NoDup (map snd (space_map x s)) -> named x s getn l1 = Ok nm -> named x s getn l2 = Ok nm.
Proof. exact named_perm_invariant. Qed.

Theorem c08_type_ties_possible_on_arbitrary_arenas :
  exists l1 l2 : list (N * mtype), Permutation l1 l2 /\ sort_types l1 <> sort_types l2.
Proof. exact sort_types_perm_invariant_refuted. Qed.


(* (6) the function-body half of the round-trip fixpoint: the normal form is idempotent, normal forms are exactly its fixed
   points, an operator whose indices are already the output indices is re-emitted unchanged, and a body in normal form is
   reproduced exactly (operators AND locations): the emitted operator stream is the stream that was parsed *)
From WV Require Import Model.ParseFn Model.ParseSpec Model.EmitFn Model.EmitSpec Model.BodySpec Model.Sem Proofs.Codec Proofs.Fixpoint.
Theorem c08_normal_form_idempotent :
  forall l : list rt, fst (nf_rt_list false (fst (nf_rt_list false l))) = fst (nf_rt_list false l).
Proof. exact nf_rt_idem. Qed.

Theorem c08_normal_forms_are_the_fixed_points :
  forall l : list rt, is_nf l <-> fst (nf_rt_list false l) = l.
Proof. exact nf_rt_normal. Qed.

Theorem c08_operator_fixed_under_identity_renaming :
  forall (cx : pctx) (ecx : ectx) (o : wop),
         maps_id cx ecx -> imm_ok o -> ~ known_big_offset o -> nf_op cx ecx o = WOp o.
Proof. exact nf_op_fixed. Qed.

Theorem c08_body_fixpoint :
  forall (cx : pctx) (ecx : ectx) (l : list rt),
         is_nf l ->
         Forall (insf cx ecx) (flat_list l) ->
         map (fun p : N * wins => (snd p, fst p)) (fst (nf_list cx ecx false l)) = flat_list l.
Proof. exact body_fixpoint. Qed.

Theorem c08_emitted_stream_is_parsed_stream :
  forall (cx : pctx) (ecx : ectx) (ety : N) (rs : list valty) (l : list rt) (eloc p0 : N),
         wfl cx 1 l ->
         (forall o : wop, decode_plain (px_i2id cx) o <> None -> encode_plain (ex_id2i ecx) (dec cx o) <> None) ->
         is_nf l ->
         Forall (insf cx ecx) (flat_list l) ->
         exists (ar : arena) (st : estate) (fuel : nat),
           parse_body cx ety rs (flat_list l ++ [(WEnd, eloc)]) = Ok ar /\
           emit_body ecx fuel ar 0 p0 = Ok st /\ out st = map fst (flat_list l ++ [(WEnd, eloc)]).
Proof. exact body_fixpoint_emitted. Qed.


(* (4) the sort calls of the SOURCE (regenerated, Gen/SortKeys.v) are the ones the models implement: used locals by id
   (natural order of LocalId), local functions by (Reverse(size), id), types by their (params, results) order, every
   name-section vector by index, function ranges by id, the DWARF tables by start / address.  A changed key or a dropped
   sort changes the regenerated text and breaks this theorem. *)
(* ---- the MODULE-level fixpoint: emit (parse (emit (parse w))) = emit (parse w) on the abstract section stream, for every stream with the
   validator's guarantees, unless names are emitted AND synthesised (that case needs the extra input premise [locals_in_range], see the end of this block).  Ingredients: every emitted stream is canonical (section order, types strictly sorted and distinct, imports first,
   element tables canonical, one name section; bodies are flattenings of normal forms); on the second trip every renumbering is the identity;
   hence every section is reproduced literally.  The second trip cannot fail.
   The unrestricted statement is FALSE OF THE MODEL: the witness has an out-of-range local index, which the model's [valid_stream] does not
   exclude and the model's parser turns into an invented local (the real validator rejects such a body; the fidelity gap of section 0.7) - under
   synthetic names the invented local gets a name on the second trip. *)
From WV Require Import Proofs.IndexMaps Proofs.ParseTotal Proofs.ModFix Proofs.ModFix2 Proofs.ModFix9 Proofs.ModFix20.
From WV Require Proofs.ModFixEx Proofs.ModFix31 Proofs.ModFix3 Proofs.ModFix4 Proofs.ModFix10 Proofs.ModFix14 Proofs.ModFix8.
Theorem c08_module_fixpoint :
  forall (cf : config) (ver : str) (w : wmod) (ilen : wins -> N) (s1 : pst) 
           (e1 : emitted) (s2 : pst) (e2 : emitted),
         parseM cf ver w = POk s1 ->
         emitM (ps_m s1) ilen [] = Ok e1 ->
         parseM cf ver (em_secs e1) = POk s2 ->
         emitM (ps_m s2) ilen [] = Ok e2 ->
         valid_stream w -> cf_skip_name cf = true \/ cf_synthetic_names cf = false -> em_secs e2 = em_secs e1.
Proof. exact module_fixpoint_partial. Qed.

Theorem c08_module_fixpoint_unrestricted_refuted :
  exists
           (cf : config) (ver : str) (w : wmod) (ilen : wins -> N) (s1 : pst) (e1 : emitted) 
         (s2 : pst) (e2 : emitted),
           valid_stream w /\ two_trips cf ver w ilen s1 e1 s2 e2 /\ em_secs e2 <> em_secs e1.
Proof. exact ModFixEx.module_fixpoint_refuted_valid_stream. Qed.

Theorem c08_emitted_stream_canonical :
  forall (cf : config) (ver : str) (w : wmod) (s : pst) (ilen : wins -> N) (e : emitted),
         parseM cf ver w = POk s -> emitM (ps_m s) ilen [] = Ok e -> canonical (em_secs e).
Proof. exact emit_canonical. Qed.

Theorem c08_second_trip_renumbering_is_identity :
  forall (cf : config) (ver : str) (w : wmod) (ilen : wins -> N) (s1 : pst) 
           (e1 : emitted) (s2 : pst) (e2 : emitted),
         two_trips cf ver w ilen s1 e1 s2 e2 -> valid_stream w -> forall S : space, rho_id s2 e2 S.
Proof. exact canonical_identity_maps_valid. Qed.

Theorem c08_module_fixpoint_all_but_names :
  forall (cf : config) (ver : str) (w : wmod) (ilen : wins -> N) (s1 : pst) 
           (e1 : emitted) (s2 : pst) (e2 : emitted),
         two_trips cf ver w ilen s1 e1 s2 e2 ->
         valid_stream w ->
         ModFix8.name_payload (em_secs e2) = ModFix8.name_payload (em_secs e1) -> em_secs e2 = em_secs e1.
Proof. exact module_fixpoint_but_names. Qed.

(* the second trip cannot fail, and iterating the round trip any number of times gives the stream of the first trip *)
From WV Require Import Proofs.ModFix32.
Theorem c08_second_trip_total :
  forall (cf : config) (ver : str) (w : wmod) (s1 : pst) (ilen : wins -> N) (e1 : emitted),
         valid_stream w ->
         parseM cf ver w = POk s1 ->
         emitM (ps_m s1) ilen [] = Ok e1 ->
         valid_stream (em_secs e1) /\
         (exists (s2 : pst) (e2 : emitted),
            parseM cf ver (em_secs e1) = POk s2 /\
            emitM (ps_m s2) ilen [] = Ok e2 /\
            (cf_skip_name cf = true \/ cf_synthetic_names cf = false -> em_secs e2 = em_secs e1)).
Proof. exact module_fixpoint_total. Qed.

Theorem c08_round_trip_idempotent :
  forall (cf : config) (ver : str) (ilen : wins -> N) (w w1 : wmod),
         valid_stream w ->
         cf_skip_name cf = true \/ cf_synthetic_names cf = false ->
         trip cf ver ilen w = Some w1 -> forall n : nat, (n >= 1)%nat -> trips cf ver ilen n w = Some w1.
Proof. exact emit_parse_idempotent_on_valid. Qed.

Theorem c08_module_fixpoint_nonvacuous :
  exists (s1 : pst) (e1 : emitted) (s2 : pst) (e2 : emitted),
           two_trips default_config [49] ModFixEx.wA ModFixEx.il1 s1 e1 s2 e2 /\
           em_secs e2 = em_secs e1 /\ em_secs e1 <> ModFixEx.wA.
Proof. exact ModFixEx.module_fixpoint_nonvacuous. Qed.

Theorem c08_fix_types :
  forall (cf : config) (ver : str) (w : wmod) (ilen : wins -> N) (s1 : pst) 
           (e1 : emitted) (s2 : pst) (e2 : emitted),
         two_trips cf ver w ilen s1 e1 s2 e2 ->
         flat_map Structure2.types_of (em_secs e2) = flat_map Structure2.types_of (em_secs e1).
Proof. exact ModFix3.fix_types. Qed.

Theorem c08_fix_tables :
  forall (cf : config) (ver : str) (w : wmod) (ilen : wins -> N) (s1 : pst) 
           (e1 : emitted) (s2 : pst) (e2 : emitted),
         two_trips cf ver w ilen s1 e1 s2 e2 ->
         flat_map Structure.tables_of (em_secs e2) = flat_map Structure.tables_of (em_secs e1).
Proof. exact ModFix4.fix_tables. Qed.


(* ---- the open case (names emitted AND synthesised) reduced to two visible facts about the second parse (it finds exactly the names the first
   emit wrote); the parse invariants behind them (under synthetic names every local and every local function is named after parsing); the
   refutation witness of the unrestricted statement has a local index out of range *)
From WV Require Import Proofs.ModFix40.
Theorem c08_module_fixpoint_all_configs_partial :
  forall (cf : config) (ver : str) (w : wmod) (ilen : wins -> N) (s1 : pst) 
           (e1 : emitted) (s2 : pst) (e2 : emitted),
         two_trips cf ver w ilen s1 e1 s2 e2 ->
         valid_stream w ->
         (cf_skip_name cf = false ->
          cf_synthetic_names cf = true ->
          ModFix21.funcs_named_kept s2 (ModFix7.stream_names (em_secs e1)) /\
          locals_named_kept s2 (ModFix7.stream_names (em_secs e1))) -> em_secs e2 = em_secs e1.
Proof. exact module_fixpoint_all_configs_partial. Qed.

Theorem c08_synthetic_names_every_local_named :
  forall (cf : config) (ver : str) (w : wmod) (s : pst),
         parseM cf ver w = POk s -> cf_synthetic_names cf = true -> LN (m_locals (ps_m s)).
Proof. exact parseM_locals_named. Qed.

Theorem c08_synthetic_names_every_function_named :
  forall (cf : config) (ver : str) (w : wmod) (s : pst),
         parseM cf ver w = POk s -> cf_synthetic_names cf = true -> Forall fnl (WV.Model.Arena.items (m_funcs (ps_m s))).
Proof. exact parseM_funcs_named. Qed.

Theorem c08_refutation_witness_has_local_out_of_range :
  ~ locals_in_range ModFixEx.wP.
Proof. exact wP_violates. Qed.


(* ---- the open case CLOSED: for EVERY configuration (synthetic names included) the round trip is a fixpoint on every stream with the validator's
   guarantees whose bodies use no local index out of range (the executable premise [locals_in_range]; the real validator guarantees it, the model's
   [valid_stream] does not - it is exactly what the refutation witness above violates); the second trip exists; one trip lands on a fixed point *)
From WV Require Import Proofs.ModFix41.
Theorem c08_module_fixpoint_all_configs :
  forall (cf : config) (ver : str) (w : wmod) (ilen : wins -> N) (s1 : pst) 
           (e1 : emitted) (s2 : pst) (e2 : emitted),
         two_trips cf ver w ilen s1 e1 s2 e2 -> valid_stream w -> locals_in_range w -> em_secs e2 = em_secs e1.
Proof. exact module_fixpoint_all_configs. Qed.

Theorem c08_module_fixpoint_total_all_configs :
  forall (cf : config) (ver : str) (w : wmod) (s1 : pst) (ilen : wins -> N) (e1 : emitted),
         valid_stream w ->
         locals_in_range w ->
         parseM cf ver w = POk s1 ->
         emitM (ps_m s1) ilen [] = Ok e1 ->
         valid_stream (em_secs e1) /\
         (exists (s2 : pst) (e2 : emitted),
            parseM cf ver (em_secs e1) = POk s2 /\ emitM (ps_m s2) ilen [] = Ok e2 /\ em_secs e2 = em_secs e1).
Proof. exact module_fixpoint_total_all_configs. Qed.

Theorem c08_round_trip_idempotent_all_configs :
  forall (cf : config) (ver : str) (ilen : wins -> N) (w w1 : wmod),
         valid_stream w ->
         locals_in_range w ->
         trip cf ver ilen w = Some w1 -> forall n : nat, (n >= 1)%nat -> trips cf ver ilen n w = Some w1.
Proof. exact emit_parse_idempotent_all_configs. Qed.


From WV Require Gen.ConfigEmit Proofs.Config.
(* the order in which Module::emit_wasm calls the section emitters (regenerated on every run) *)
Theorem c08_emit_wasm_source_pinned : WV.Gen.ConfigEmit.emit_wasm_skeleton = WV.Proofs.Config.expected_emit_wasm_skeleton.
Proof. exact WV.Proofs.Config.emit_wasm_skeleton_pinned. Qed.

Require Import Coq.Strings.String.
From WV Require Import Gen.SortKeys.
Theorem c08_source_sort_keys :
  sort_call SS_used_locals = "sort_unstable()"%string /\
  sort_call SS_local_functions = "sort_by_key(|(id,_,size)|(cmp::Reverse( *size),*id))"%string /\
  sort_call SS_types = "sort_by_key(|&(_,ty)|ty)"%string /\
  sort_call SS_function_ranges = "sort_by_key(|i|i.0)"%string /\
  sort_call SS_dwarf_ranges = "sort_by_key(|i|i.0.start)"%string /\
  sort_call SS_dwarf_instrs = "sort_by_key(|i|i.0)"%string /\
  Forall (fun p => snd p = "sort_by_key(|p|p.0)"%string) name_section_sorts /\
  map fst name_section_sorts = ["funcs"; "locals"; "types"; "tables"; "memories"; "globals"; "elements"; "data"; "map"]%string.
Proof. repeat split; try reflexivity. repeat constructor. Qed.


(* ================================================================== THE FIXPOINT AT BYTE LEVEL (Model/ModBytes.v, Proofs/BytesEnd.v):
   [roundtrip_bytes] = the model's reader, parseM, emitM, the model's writer; walrus's output bytes are a fixpoint of it, for every configuration *)
From WV Require Import Model.ModBytes Proofs.ModBytes Proofs.BytesEnd.
Theorem c08_bytes_fixpoint :
  forall (cf : config) (ver : str) (ilen : wins -> N) (bs b1 : list N) (w : wmod),
    dec_wmod false bs = Some w -> ParseTotal.valid_stream w -> ModFix40.locals_in_range w ->
    (forall (s : pst) (e : emitted), parseM cf ver w = POk s -> emitM (ps_m s) ilen nil = Ok e -> wf_wmod (em_secs e) = true) ->
    roundtrip_bytes cf ver ilen bs = Some b1 -> roundtrip_bytes cf ver ilen b1 = Some b1.
Proof. exact bytes_fixpoint. Qed.
Theorem c08_bytes_round_trip_idempotent :
  forall (cf : config) (ver : str) (ilen : wins -> N) (bs b1 : list N) (w : wmod),
    dec_wmod false bs = Some w -> ParseTotal.valid_stream w -> ModFix40.locals_in_range w ->
    (forall (s : pst) (e : emitted), parseM cf ver w = POk s -> emitM (ps_m s) ilen nil = Ok e -> wf_wmod (em_secs e) = true) ->
    roundtrip_bytes cf ver ilen bs = Some b1 -> forall n : nat, (n >= 1)%nat -> roundtrips_bytes cf ver ilen n bs = Some b1.
Proof. exact bytes_round_trip_idempotent. Qed.
(* non-vacuity, by the theorem and again by computation: the round trip of the module with one of everything, with the encoder's real instruction lengths *)
Example c08_bytes_fixpoint_example : roundtrip_bytes default_config ev_ver Bytes.ilen_total everything_out = Some everything_out.
Proof. exact everything_out_is_fixpoint. Qed.

Print Assumptions c08_emit_keeps_module.
Print Assumptions c08_repeat.
Print Assumptions c08_locals_order_free.
Print Assumptions c08_names_order_free.
Print Assumptions c08_func_order_free.
Print Assumptions c08_sorted_locals_stay.
Print Assumptions c08_sorted_types_stay.
Print Assumptions c08_func_order_canonical.
Print Assumptions c08_source_sort_keys.
Print Assumptions c08_types_order_free_for_parsed_modules.
Print Assumptions c08_functions_iteration_order_free.
Print Assumptions c08_locals_perm_invariant.
Print Assumptions c08_names_perm_invariant.
Print Assumptions c08_type_ties_possible_on_arbitrary_arenas.
Print Assumptions c08_normal_form_idempotent.
Print Assumptions c08_normal_forms_are_the_fixed_points.
Print Assumptions c08_operator_fixed_under_identity_renaming.
Print Assumptions c08_body_fixpoint.
Print Assumptions c08_emitted_stream_is_parsed_stream.
Print Assumptions c08_emit_wasm_source_pinned.
Print Assumptions c08_module_fixpoint.
Print Assumptions c08_module_fixpoint_unrestricted_refuted.
Print Assumptions c08_emitted_stream_canonical.
Print Assumptions c08_second_trip_renumbering_is_identity.
Print Assumptions c08_module_fixpoint_all_but_names.
Print Assumptions c08_second_trip_total.
Print Assumptions c08_module_fixpoint_nonvacuous.
Print Assumptions c08_fix_types.
Print Assumptions c08_fix_tables.
Print Assumptions c08_round_trip_idempotent.
Print Assumptions c08_module_fixpoint_all_configs_partial.
Print Assumptions c08_synthetic_names_every_local_named.
Print Assumptions c08_synthetic_names_every_function_named.
Print Assumptions c08_refutation_witness_has_local_out_of_range.
Print Assumptions c08_module_fixpoint_all_configs.
Print Assumptions c08_module_fixpoint_total_all_configs.
Print Assumptions c08_round_trip_idempotent_all_configs.
Print Assumptions c08_bytes_fixpoint.
Print Assumptions c08_bytes_round_trip_idempotent.
Print Assumptions c08_bytes_fixpoint_example.
