(* C02 - emitted binaries always validate and emission never panics.  Statements only; proofs in Proofs/Totality.v
   (module level), Proofs/EmitFn.v (function bodies), Proofs/IndexMaps.v (per-emitter totality).
   What is proved: the "never panics / no referenced entity without an emitted index" half, on the models:
   - [closed m]: every id a live entity mentions (import -> entity, export item, start, segment items / targets /
     offsets, global initialisers, function types) denotes a live entity of the right arena;
   - a successfully parsed module is closed; the GC pass keeps it closed (a kept entity only refers to kept entities);
   - a closed module is emitted without any "index not set" / dead-arena panic in the section emitters, immediately
     and after GC, provided every local function body is emitted without panic on the final maps ([body_ok]: its
     references are in the final maps and the Emit visitor does not panic - for bodies denoting a tree whose branch
     targets are enclosing sequences that is c02_body_emission_total below);
   - the one corner in which GC breaks closedness (a ref.func OFFSET of an active segment, which the parser rejects
     and no valid binary contains; reachable only by building such a segment through the API) is exhibited.
   What is observed rather than proved: that an independent validator accepts the output (wasmparser is run on
   every output of every module-level case, also after GC and after edits); see the recorded findings. *)
From Coq Require Import List NArith ZArith Bool Arith. Import ListNotations.
From WV Require Import Gen.Ops Model.Common Model.IR Model.Arena Model.Traversal Model.EmitFn Model.EmitSpec Model.Locals
                       Model.ParseFn Model.ModuleM Model.ParseM Model.EmitM Model.GC.
From WV Require Import Proofs.GcDeclare.
From WV Require Import Proofs.IndexMaps Proofs.Totality.
From WV Require Proofs.EmitFn.
Local Open Scope nat_scope.

Theorem c02_parsed_module_closed cf ver w s : parseM cf ver w = POk s -> closed (ps_m s).
Proof. exact (parseM_closed cf ver w s). Qed.

Theorem c02_gc_keeps_closed cf ver w s m : parseM cf ver w = POk s -> gc (ps_m s) = Ok m -> closed m /\ no_func_offsets m.
Proof. exact (gc_closed_after_parse_full cf ver w s m). Qed.

Theorem c02_closed_means_every_reference_indexed m fs : closed m -> used_local_functions m = Ok fs -> emit_closed m fs.
Proof. exact (closed_emit_closed m fs). Qed.

Theorem c02_emit_total_after_parse cf ver w s ilen dw fs :
  parseM cf ver w = POk s -> used_local_functions (ps_m s) = Ok fs ->
  (forall x, final_maps (ps_m s) fs x -> forall id lf, In (id, lf) fs -> body_ok (ps_m s) x ilen lf) ->
  exists e, emitM (ps_m s) ilen dw = Ok e.
Proof. exact (emit_total_after_parse_bodies cf ver w s ilen dw fs). Qed.

Theorem c02_emit_total_after_gc cf ver w s m ilen dw fs :
  parseM cf ver w = POk s -> gc (ps_m s) = Ok m -> used_local_functions m = Ok fs ->
  (forall x, final_maps m fs x -> forall id lf, In (id, lf) fs -> body_ok m x ilen lf) ->
  exists e, emitM m ilen dw = Ok e.
Proof. exact (emit_total_after_gc_bodies_full cf ver w s m ilen dw fs). Qed.

Theorem c02_names_never_panic m fs x x' efs :
  closed m -> used_local_functions m = Ok fs -> final_maps m fs x ->
  (forall S, space_map x' S = space_map x S) -> types_named_ok m ->
  exists r, emit_names m x' efs = Ok r.
Proof. exact (emit_names_closed m fs x x' efs). Qed.

Theorem c02_gc_corner_refuted :
  exists m m', closed m /\ gc m = Ok m' /\ ~ closed m' /\
               (exists e, emitM m (fun _ => 0%N) [] = Ok e) /\ emitM m' (fun _ => 0%N) [] = Panic.
Proof. exact gc_closed_refuted_full. Qed.

Theorem c02_body_emission_total : forall cx ar t p0, Den ar t -> scoped (ex_id2i cx) [] t ->
  exists st', emit_events cx ar (init_estate p0) (events false t) = Ok st' /\ blocks st' = [] /\ kinds st' = [].
Proof. exact Proofs.EmitFn.emit_no_panic. Qed.

(* End to end on the models, with NO premise about function bodies: on a stream with the validator's guarantees
   ([valid_stream]: section order, module-level indices, counts, well-formed bodies; [refs_in_range]: the entity indices
   carried by operators are in range) parsing succeeds and emitting the parsed module - immediately or after GC - never
   hits a panic path.  Without the index bounds the statement is false (witness: `call 7` in a one-function module:
   the parse model maps the index to an invalid id and the emit model panics) - the real parser would already
   have unwrapped an error there, and the validator rejects the input first. *)
From WV Require Import Model.ParseSpec Proofs.ParseTotal Proofs.TotalityBodies Proofs.Names.
Theorem c02_emit_total_after_parse_no_body_premise :
  forall (cf : config) (ver : nstr) (w : wmod) (s : pst) (ilen : wins -> N) (dw : list wsec),
         valid_stream w ->
         parseM cf ver w = POk s ->
         refs_in_range w (ps_ids s) -> exists e : emitted, emitM (ps_m s) ilen dw = Ok e.
Proof. exact emit_total_after_parse_final_partial. Qed.

Theorem c02_emit_total_after_gc_no_body_premise :
  forall (cf : config) (ver : nstr) (w : wmod) (s : pst) (m' : wir) (ilen : wins -> N) (dw : list wsec),
         valid_stream w ->
         parseM cf ver w = POk s ->
         refs_in_range w (ps_ids s) -> gc (ps_m s) = Ok m' -> exists e : emitted, emitM m' ilen dw = Ok e.
Proof. exact emit_total_after_gc_final_partial_full. Qed.

Theorem c02_index_bounds_needed :
  exists w : wmod,
           valid_stream w /\
           (exists s : pst,
              parseM default_config [49] w = POk s /\ emitM (ps_m s) (fun _ : wins => 1) [] = Panic).
Proof. exact emit_total_after_parse_final_refuted. Qed.

Theorem c02_parsed_bodies_never_panic_the_emitter :
  forall (cf : config) (ver : nstr) (w : wmod) (s : pst) (id : N) (fn : mfunc) 
           (lf : mlocalfunc) (ecx : ectx),
         valid_stream w ->
         parseM cf ver w = POk s ->
         aget (m_funcs (ps_m s)) id = Some fn ->
         fn_kind fn = FK_Local lf ->
         exists st : estate, emit_body ecx (lf_fuel lf) (lf_arena lf) (lf_entry lf) 0 = Ok st.
Proof. exact parsed_emit_no_panic. Qed.


(* the STRUCTURAL half of "the output validates": the emitted stream of a parsed module has again every guarantee the model asks of a
   validator-accepted stream (section order, index bounds in every section, constant-expression forms, counts, structured bodies with indices in
   range) - so it can be parsed and emitted again (C08) *)
From WV Require Import Proofs.ParseTotal Proofs.EmitValid.
Theorem c02_emitted_stream_has_the_validator_guarantees : forall cf ver w s1 ilen e1,
  valid_stream w -> parseM cf ver w = POk s1 -> emitM (ps_m s1) ilen [] = Ok e1 -> valid_stream (em_secs e1).
Proof. exact emitted_stream_valid. Qed.

(* the control skeleton of the GC pass in the SOURCE (regenerated), including its declaration step: what counts as a declaration of a `ref.func`
   target (exports, element segments, global initialisers - not the start section) *)
From WV Require Import Gen.GcSkeleton Proofs.GcPinned.
Theorem c02_gc_source_skeleton : used_new_skeleton = expected_used_new /\ used_visitor_skeleton = expected_used_visitor /\ gc_run_skeleton = expected_gc_run /\ gc_declare_skeleton = expected_gc_declare.
Proof. exact used_skeleton_pinned. Qed.

(* the same after the GC pass: the emitted stream of the collected module has every guarantee of a validator-accepted stream (no clause excluded),
   and can be parsed again *)
From WV Require Import Proofs.EmitValidGc.
Theorem c02_emitted_stream_after_gc_has_the_validator_guarantees :
  forall (cf : config) (ver : str) (w : wmod) (s : pst) (m' : wir) (ilen : IR.wins -> N) (e : emitted),
         valid_stream w ->
         parseM cf ver w = POk s -> gc (ps_m s) = Ok m' -> emitM m' ilen [] = Ok e -> valid_stream (em_secs e).
Proof. exact emitted_stream_valid_after_gc. Qed.

Theorem c02_gc_output_reparses :
  forall (cf : config) (ver : str) (w : wmod) (s : pst) (m' : wir) (ilen : IR.wins -> N) 
           (e : emitted) (cf2 : config) (ver2 : str),
         valid_stream w ->
         parseM cf ver w = POk s ->
         gc (ps_m s) = Ok m' ->
         emitM m' ilen [] = Ok e -> exists s2 : pst, parseM cf2 ver2 (em_secs e) = POk s2.
Proof. exact gc_output_reparses. Qed.


(* ---- TYPE checking of the emitted bodies (Model/Typing.v, Proofs/TypingNf.v): the declarative stack typing of the WebAssembly
   specification over structured bodies, PARAMETRIC in the value types, the typing of the individual operators (any relation; return /
   unreachable stack-polymorphic) and the meaning of block types.  [ht] types a whole body; [hl] looks only at the code the round trip
   keeps (a sequence up to and including its first br / br_table / return / unreachable).
   - what the round trip emits for a body (nops and dead code dropped, `else` synthesised, block types canonical, operators re-encoded
     with renamed indices) is typeable whenever the input body is - for EVERY operator typing that is invariant under the renaming;
   - exactly: the emitted body is typeable IF AND ONLY IF the kept part of the input body is (so the round trip neither loses typeability
     nor depends on the dropped code). *)
From WV Require Import Model.ParseFn Model.ParseSpec Model.BodySpec Model.Sem Model.Typing Proofs.TypingNf.
Theorem c02_normal_form_preserves_typing :
  forall (T : Type) (t_i32 : T) (optype : IR.wins -> list T -> list T -> Prop) (opdead : IR.wins -> list T -> Prop)
         (params results : blockty -> list T) L l a b,
    ht T t_i32 optype opdead params results L l a b ->
    ht T t_i32 optype opdead params results L (fst (nf_rt_list false l)) a b.
Proof. exact nf_preserves_typing. Qed.

Theorem c02_emitted_body_typeable_iff_kept_input_typeable :
  forall (T : Type) (t_i32 : T) (optype : IR.wins -> list T -> list T -> Prop) (opdead : IR.wins -> list T -> Prop)
         (params results : blockty -> list T) L l a b,
    hl T t_i32 optype opdead params results L l a b <->
    ht T t_i32 optype opdead params results L (fst (nf_rt_list false l)) a b.
Proof. exact nf_typing_iff. Qed.

Theorem c02_declarative_typing_implies_kept_typing :
  forall (T : Type) (t_i32 : T) (optype : IR.wins -> list T -> list T -> Prop) (opdead : IR.wins -> list T -> Prop)
         (params results : blockty -> list T) L l a b,
    ht T t_i32 optype opdead params results L l a b -> hl T t_i32 optype opdead params results L l a b.
Proof. exact ht_hl. Qed.

(* on the RE-ENCODED operators and canonical block types of the output module (cf. c01_equivalence_on_the_renamed_operators) *)
Theorem c02_emitted_body_typing_on_the_renamed_operators :
  forall (T : Type) (t_i32 : T) (cx : pctx) (ecx : ectx)
         (optype optype' : IR.wins -> list T -> list T -> Prop) (opdead opdead' : IR.wins -> list T -> Prop)
         (params params' results results' : blockty -> list T),
    (forall o i r, optype' (nf_op cx ecx o) i r <-> optype (WOp o) i r) ->
    (forall o i, opdead' (nf_op cx ecx o) i <-> opdead (WOp o) i) ->
    (forall bt, params' (nf_bt cx ecx bt) = params bt) ->
    (forall bt, results' (nf_bt cx ecx bt) = results bt) ->
    forall L l a b,
    hl T t_i32 optype opdead params results L l a b <->
    ht T t_i32 (fun w => optype' (ren cx ecx w)) (fun w => opdead' (ren cx ecx w))
       (fun bt => params' (nf_bt cx ecx bt)) (fun bt => results' (nf_bt cx ecx bt)) L (fst (nf_rt_list false l)) a b.
Proof. intros T t_i32 cx ecx optype optype' opdead opdead' params params' results results'.
  exact (nf_typing_iff_renamed T t_i32 optype opdead params results cx ecx optype' opdead' params' results'). Qed.

(* non-vacuity: a body with a nop, an else-less if, dead code that is NOT typeable: kept part typeable, output typeable, input not *)
Theorem c02_typing_example :
  Example.ehl [] Example.ex_body [] [] /\ Example.eht [] (fst (nf_rt_list false Example.ex_body)) [] [] /\ ~ Example.eht [] Example.ex_body [] [].
Proof. exact (conj Example.ex_hl (conj Example.ex_nf_ht Example.ex_not_ht)). Qed.

(* ---- a VALIDATOR for the integer / memory core (Model/TypeCore.v: the standard algorithm on structured bodies - operand stack with unknowns,
   unreachable flag - over the 98 operators of Model/SemCore.v with their concrete signatures; Proofs/TypeCore.v):
   it decides exactly the declarative typing (given that the block types exist), and it ACCEPTS THE EMITTED BODY of every body it accepts.
   Compared with wasmparser's verdict on generated valid and deliberately type-broken bodies (Run/TypeCoreRun.v). *)
From WV Require Import Model.TypeCore Proofs.TypeCore.
Theorem c02_core_validator_decides_the_declarative_typing : forall e body,
  check_body e body = true <-> bts e body /\ cht e [te_results e] body [] (te_results e).
Proof. exact check_body_iff. Qed.

Theorem c02_core_validator_accepts_the_emitted_body : forall e body,
  check_body e body = true -> check_body e (fst (nf_rt_list false body)) = true.
Proof. exact check_body_nf. Qed.

Theorem c02_core_validator_sound_for_the_emitted_body : forall e body,
  check_body e body = true -> cht e [te_results e] (fst (nf_rt_list false body)) [] (te_results e).
Proof. exact check_body_nf_typed. Qed.

Print Assumptions c02_parsed_module_closed.
Print Assumptions c02_gc_keeps_closed.
Print Assumptions c02_closed_means_every_reference_indexed.
Print Assumptions c02_emit_total_after_parse.
Print Assumptions c02_emit_total_after_gc.
Print Assumptions c02_names_never_panic.
Print Assumptions c02_gc_corner_refuted.
Print Assumptions c02_body_emission_total.
Print Assumptions c02_emit_total_after_parse_no_body_premise.
Print Assumptions c02_emit_total_after_gc_no_body_premise.
Print Assumptions c02_index_bounds_needed.
Print Assumptions c02_parsed_bodies_never_panic_the_emitter.
Print Assumptions c02_emitted_stream_has_the_validator_guarantees.
Print Assumptions c02_gc_source_skeleton.
Print Assumptions c02_emitted_stream_after_gc_has_the_validator_guarantees.
Print Assumptions c02_gc_output_reparses.
Print Assumptions c02_normal_form_preserves_typing.
Print Assumptions c02_emitted_body_typeable_iff_kept_input_typeable.
Print Assumptions c02_declarative_typing_implies_kept_typing.
Print Assumptions c02_emitted_body_typing_on_the_renamed_operators.
Print Assumptions c02_typing_example.
Print Assumptions c02_core_validator_decides_the_declarative_typing.
Print Assumptions c02_core_validator_accepts_the_emitted_body.
Print Assumptions c02_core_validator_sound_for_the_emitted_body.

(* ---- TYPE SAFETY of the concrete machine (Model/SemCore.v) with respect to that validator (Proofs/TypeSafety.v): typing (C02) and
   semantics (C01) of a body tied together.  A body the validator accepts, run from the empty stack in a state whose locals / globals are
   bound to values of their declared types ([st_ok], identity slot maps, the type table of the environment), NEVER GOES WRONG (stack
   underflow, operand of the wrong type, unbound or ill-typed slot, wrong memory slot, operator outside the core: [Stop Wrong]) and is never
   [Stuck]; it falls through with exactly the results, branches to the function label / returns with the results on top, traps (a genuine
   WebAssembly trap) or runs out of fuel.  EVERY accepted body: blocks, loops, ifs, br / br_if / br_table with exact unwinding, dead code.
   The same for the emitted body (the normal form of the round trip). *)
From WV Require Import Model.Sem Model.SemCore Proofs.TypeSafety.
Theorem c02_accepted_bodies_never_go_wrong : forall (e : tenv) (body : list rt) (s0 : SemCore.st),
  check_body e body = true -> st_ok e s0 -> stk s0 = [] -> labs s0 = [] ->
  forall fuel : nat,
    match run_core id id id (tys_of e) fuel body s0 with
    | Fall s => st_ok e s /\ labs s = [] /\ has_types (stk s) (te_results e)
    | Br d s => st_ok e s /\ d = 0%nat /\ labs s = [] /\ exists vs rest, stk s = vs ++ rest /\ has_types vs (te_results e)
    | Stop Return s => st_ok e s /\ exists vs rest, stk s = vs ++ rest /\ has_types vs (te_results e)
    | Stop Trap s => st_ok e s
    | Stop Wrong _ => False
    | Stuck => False
    | Fuel => True
    end.
Proof. exact type_safety. Qed.

Theorem c02_emitted_bodies_never_go_wrong : forall (e : tenv) (body : list rt) (s0 : SemCore.st),
  check_body e body = true -> st_ok e s0 -> stk s0 = [] -> labs s0 = [] ->
  forall fuel : nat,
    match run_core id id id (tys_of e) fuel (fst (nf_rt_list false body)) s0 with
    | Fall s => st_ok e s /\ labs s = [] /\ has_types (stk s) (te_results e)
    | Br d s => st_ok e s /\ d = 0%nat /\ labs s = [] /\ exists vs rest, stk s = vs ++ rest /\ has_types vs (te_results e)
    | Stop Return s => st_ok e s /\ exists vs rest, stk s = vs ++ rest /\ has_types vs (te_results e)
    | Stop Trap s => st_ok e s
    | Stop Wrong _ => False
    | Stuck => False
    | Fuel => True
    end.
Proof. exact emitted_body_is_safe. Qed.

(* the per-operator fact behind it, for all 98 operators of the core *)
Theorem c02_core_operators_never_go_wrong : forall (e : tenv) (o : wop) (ins outs : list valty) (s : SemCore.st) (top rest : list val),
  core_optype e (WOp o) ins outs -> st_ok e s -> stk s = top ++ rest -> has_types top ins ->
  match core_sem (fun i => i) (fun i => i) (fun i => i) (WOp o) s with
  | Next s' => st_ok e s' /\ labs s' = labs s /\ exists vr, stk s' = vr ++ rest /\ has_types vr outs
  | Halt Trap s' => st_ok e s'
  | Halt _ _ => False
  end.
Proof. exact op_safe. Qed.

(* the premise [st_ok] is satisfiable by ANY assignment of values of the declared types *)
Theorem c02_well_typed_initial_states_exist : forall (e : tenv) (lv gv k : list val) (lb : list N) (m : list (N * N)) (p mx : N),
  Forall2 val_ty lv (te_locals e) -> Forall2 val_ty gv (map fst (te_globals e)) ->
  st_ok e {| stk := k; locs := bind_from 0 lv; globs := bind_from 0 gv; labs := lb; mem := m; pages := p; max_pages := mx |}.
Proof. exact st_ok_bind. Qed.

(* C01 + C02: the body AS EMITTED - normal form, every operator and block type re-encoded, i.e. the tree whose flattening is the emitted
   operator stream - run on the RENUMBERED slots and the OUTPUT type table never goes wrong either: it behaves exactly as the input body
   (c01_integer_core_instance).  Beyond acceptance only 32-bit offsets are asked (the model's validator does not bound the offset and
   walrus truncates it: c01_truncated_offset_changes_behaviour); alignment and decodability follow from acceptance. *)
From WV Require Import Proofs.Sem Proofs.ModFix10 Proofs.SemCore.
Theorem c02_emitted_renumbered_bodies_never_go_wrong :
  forall (cx : pctx) (ecx : ectx) (lslot' gslot' mslot' : N -> N) (tys' : N -> option (list valty * list valty))
         (e : tenv) (body : list rt) (s0 : SemCore.st),
  (forall i, lslot' (rl cx ecx i) = i) ->
  (forall i, gslot' (rg cx ecx i) = i) ->
  (forall i, mslot' (rm cx ecx i) = i) ->
  (forall i, tys_of e i = bt_tys cx (BT_Func i)) ->
  (forall i ps rs, tys_of e i = Some (ps, rs) -> existing cx ps rs <> None) ->
  (forall ps rs ty, find_type cx ps rs = Some ty -> tys' (ex_id2i ecx S_type ty) = Some (ps, rs)) ->
  check_body e body = true -> (forall o, In o (ops_of body) -> offset_ok o = true) ->
  st_ok e s0 -> stk s0 = [] -> labs s0 = [] ->
  forall fuel : nat,
    match run_core lslot' gslot' mslot' tys' fuel (map (ren_t cx ecx) (fst (nf_rt_list false body))) s0 with
    | Fall s => st_ok e s /\ labs s = [] /\ has_types (stk s) (te_results e)
    | Br d s => st_ok e s /\ d = 0%nat /\ labs s = [] /\ exists vs rest, stk s = vs ++ rest /\ has_types vs (te_results e)
    | Stop Return s => st_ok e s /\ exists vs rest, stk s = vs ++ rest /\ has_types vs (te_results e)
    | Stop Trap s => st_ok e s
    | Stop Wrong _ => False
    | Stuck => False
    | Fuel => True
    end.
Proof. exact emitted_renamed_body_is_safe. Qed.

Print Assumptions c02_accepted_bodies_never_go_wrong.
Print Assumptions c02_emitted_bodies_never_go_wrong.
Print Assumptions c02_core_operators_never_go_wrong.
Print Assumptions c02_well_typed_initial_states_exist.
Print Assumptions c02_emitted_renumbered_bodies_never_go_wrong.
