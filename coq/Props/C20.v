(* C20 - the round trip never escalates the features a module needs.  Statements only; the proofs
   are in Proofs/Escalation.v (and Proofs/Body.v for c20_operator_is_renamed_input_operator).
   The statement about validators ("validates under the smallest feature set under which the input
   validates") is decomposed into the places where an encoding that needs a later proposal could be
   introduced: block types, operators and their immediates, element-segment encodings, the data-count
   section.  That every operator of the output is the input operator with renamed indices is C03; here
   it is restated as "no operator is invented".  The validator itself is not modelled: the correspondence
   run validates input and output of every case under all reduced feature sets (oracle `features`). *)
From Coq Require Import List NArith ZArith Arith Bool. Import ListNotations.
From WV Require Import Gen.Ops Model.Common Model.IR Model.Arena Model.ParseFn Model.ParseSpec
  Model.Traversal Model.EmitFn Model.BodySpec Model.ModuleM Model.EmitM.
From WV Require Import Proofs.Codec Proofs.Body Proofs.Escalation.
Local Open Scope nat_scope.

Theorem c20_blocktype_empty : forall cx ecx, nf_bt cx ecx BT_Empty = BT_Empty.
Proof. exact nf_bt_empty. Qed.

Theorem c20_blocktype_value : forall cx ecx t, nf_bt cx ecx (BT_Val t) = BT_Val t.
Proof. exact nf_bt_val. Qed.

Theorem c20_blocktype_func_void : forall cx ecx i b,
  nth_N (px_types cx) (px_i2id cx S_type i) = Some ([], [], b) -> nf_bt cx ecx (BT_Func i) = BT_Empty.
Proof. exact nf_bt_func_void. Qed.

Theorem c20_blocktype_func_single : forall cx ecx i r b,
  nth_N (px_types cx) (px_i2id cx S_type i) = Some ([], [r], b) -> nf_bt cx ecx (BT_Func i) = BT_Val r.
Proof. exact nf_bt_func_single. Qed.

Theorem c20_blocktype_func_only_from_func : forall cx ecx bt j,
  nf_bt cx ecx bt = BT_Func j -> exists i, bt = BT_Func i.
Proof. exact nf_bt_func_only_from_func. Qed.

Theorem c20_no_new_func_blocktype : forall cx ecx u l,
  (forall w, In w (map fst (flat_list l)) -> ~ func_typed w) ->
  forall x, In x (fst (nf_list cx ecx u l)) -> ~ func_typed (snd x).
Proof. exact nf_no_new_func_blocktype. Qed.

Theorem c20_operators_from_input : forall cx ecx u l x w,
  In x (fst (nf_list cx ecx u l)) -> snd x = WOp w ->
  exists o, In o (plain_ops_list l) /\ nf_op cx ecx o = WOp w.
Proof. exact nf_ops_from_input. Qed.

Theorem c20_branch_depths_from_input : forall cx ecx u l x d,
  In x (fst (nf_list cx ecx u l)) -> snd x = WBr d \/ snd x = WBrIf d ->
  In (WBr d) (map fst (flat_list l)) \/ In (WBrIf d) (map fst (flat_list l)).
Proof. exact nf_br_depths_from_input. Qed.

Theorem c20_br_table_from_input : forall cx ecx u l x ds d,
  In x (fst (nf_list cx ecx u l)) -> snd x = WBrTable ds d -> In (WBrTable ds d) (map fst (flat_list l)).
Proof. exact nf_br_table_from_input. Qed.

Theorem c20_control_not_increased : forall cx ecx u l P,
  In P [is_block; is_loop; is_if; is_br; is_br_if; is_br_table] ->
  ctl_count P (map snd (fst (nf_list cx ecx u l))) <= ctl_count P (map fst (flat_list l)).
Proof. exact nf_ctl_not_increased. Qed.

Theorem c20_elem_table0_mvp_encoding : forall x e we t off,
  emit_elem x e = Ok we -> el_kind e = ELK_Active t off -> get_idx x S_table t = Ok 0%N ->
  exists o, wel_kind we = WEK_Active None o.
Proof. exact emit_elem_table0. Qed.

Theorem c20_elem_explicit_table_only_nonzero : forall x e we ti o,
  emit_elem x e = Ok we -> wel_kind we = WEK_Active (Some ti) o ->
  exists t off, el_kind e = ELK_Active t off /\ get_idx x S_table t = Ok ti /\ ti <> 0%N /\ emit_const x off = Ok o.
Proof. exact emit_elem_explicit_table. Qed.

Theorem c20_elem_kind_and_items_form : forall x e we, emit_elem x e = Ok we ->
  (el_kind e = ELK_Passive <-> wel_kind we = WEK_Passive) /\
  (el_kind e = ELK_Declared <-> wel_kind we = WEK_Declared) /\
  ((exists t off, el_kind e = ELK_Active t off) <-> (exists ti o, wel_kind we = WEK_Active ti o)) /\
  (forall fs, el_items e = ELI_Funcs fs ->
     exists fs', wel_items we = WEI_Funcs fs' /\ length fs' = length fs) /\
  (forall t es, el_items e = ELI_Exprs t es ->
     exists es', wel_items we = WEI_Exprs t es' /\ length es' = length es) /\
  (forall fs', wel_items we = WEI_Funcs fs' -> exists fs, el_items e = ELI_Funcs fs) /\
  (forall t es', wel_items we = WEI_Exprs t es' -> exists es, el_items e = ELI_Exprs t es).
Proof. exact emit_elem_kind_shape. Qed.

Theorem c20_data_count_iff : forall m x secs x', emit_data_count m x = Ok (secs, x') ->
  (secs <> [] <->
   (aiter (m_data m) <> [] /\
    (existsb (fun p => match da_kind (snd p) with DK_Passive => true | _ => false end) (aiter (m_data m)) = true \/
     exists p lf, In p (aiter (m_funcs m)) /\ fn_kind (snd p) = FK_Local lf /\ uses_data lf = Ok true))).
Proof. exact emit_data_count_iff. Qed.

Theorem c20_operator_is_renamed_input_operator :
  forall (i2id id2i rho : space -> N -> N), (forall s i, id2i s (i2id s i) = rho s i) ->
  forall cx ecx o, px_i2id cx = i2id -> ex_id2i ecx = id2i -> imm_ok o -> ~ known_big_offset o ->
  nf_op cx ecx o = WOp (map_idx rho o).
Proof. exact nf_op_codec. Qed.

Print Assumptions c20_blocktype_empty.
Print Assumptions c20_blocktype_value.
Print Assumptions c20_blocktype_func_void.
Print Assumptions c20_blocktype_func_single.
Print Assumptions c20_blocktype_func_only_from_func.
Print Assumptions c20_no_new_func_blocktype.
Print Assumptions c20_operators_from_input.
Print Assumptions c20_branch_depths_from_input.
Print Assumptions c20_br_table_from_input.
Print Assumptions c20_control_not_increased.
Print Assumptions c20_elem_table0_mvp_encoding.
Print Assumptions c20_elem_explicit_table_only_nonzero.
Print Assumptions c20_elem_kind_and_items_form.
Print Assumptions c20_data_count_iff.
Print Assumptions c20_operator_is_renamed_input_operator.
