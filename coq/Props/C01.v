(* C01 - the parse->emit round trip preserves execution behaviour (function-body level).  Statements only; proofs in
   Proofs/Sem.v.  Model/Sem.v: an abstract big-step semantics of structured operator forests ([eval], fuel counts loop
   re-entries; results Fall / Br d / Stop halt / Stuck / Fuel), PARAMETRIC in the machine state S, the semantics of the
   individual operators [sem], the popping of conditions and indices, label arities and the label discipline: [enter bt]
   at the entry of a block / loop / if-arm (an instance records the operand-stack height there), [leave] when the construct
   is left by its end or by a branch to an outer label, [unwind k] when a branch targets it (keep k values, drop to the
   recorded height).  An absent `else` arm is evaluated as an empty one (entered, then left).
   - [nf_rt_list] is what the round trip does to a body (nop dropped, everything after the first br / br_table /
     return / unreachable of a sequence dropped, `else` synthesised, block types canonicalised, operators re-encoded);
     c01_emitted_body_is_flattened_normal_form / c01_emitted_bytes tie it to the emitted operator stream (with C03);
   - c01_normal_form_is_equivalent: for EVERY state, fuel and operator semantics that is invariant under the renaming
     of indices (the interface to the WebAssembly semantics: the same operator on the renumbered store) and in which
     return / unreachable never fall through, the output body evaluates to exactly the same result - value state, branch,
     halt (trap / return / tail call), stuckness and divergence - as the input body;
   - what is dropped is a nop or code that no execution reaches; an `if` without `else` behaves as with an empty `else`.
   - c01_integer_core_instance: the hypotheses are discharged for a CONCRETE machine (Model/SemCore.v: the integer core of
     WebAssembly on bit patterns - 98 operators, i32 / i64 arithmetic, comparisons, shifts, rotations, bit counting, sign
     extension, loads / stores of every width on ONE linear memory, memory.size / memory.grow -, locals / globals / the memory
     reached through slot maps, EXACT label heights), for every parse / emit context and every body whose load / store
     immediates survive the round trip ([memarg_ok]: offset < 2^32, alignment exponent < 32) and whose operators are all
     decodable (true of every core operator; the parser panics otherwise): the output tree (the one whose
     flattening is the emitted stream) on the renumbered slots and the output type table gives exactly the result of the
     input body - stack, locals, globals, memory contents and size, and the verdict, where GOING WRONG (Wrong: a failure no
     validated body reaches, Props/C02.v c02_accepted_bodies_never_go_wrong) is told apart from TRAPPING.
   - c01_undecodable_operator_changes_verdict: without decodability the instance is false - `ref.null` of a concrete heap
     type goes wrong in the input and is totalised into `unreachable` (a trap) by the model of the parser.
   - c01_equivalence_for_the_operators_of_the_body: the abstract theorem with the per-operator hypotheses asked only for the
     operators that occur in the body ([ops_of], dead code included) - needed because
   - c01_truncated_offset_changes_behaviour: walrus keeps [offset mod 2^32] of a memory immediate; for an offset of 2^32 the
     input traps (out of bounds) where the output loads from address 0: the per-operator hypothesis is FALSE for such an
     operator, so it cannot be asked for all operators.
   Not in Coq: operator semantics outside that core, the module-level renumbering / reordering of functions (the
   renaming hypothesis covers it per operator); those are observed by executing input and output side by side. *)
From Coq Require Import List NArith Bool. Import ListNotations.
From WV Require Import Gen.Ops Model.Common Model.IR Model.ParseFn Model.ParseSpec Model.EmitFn Model.EmitSpec Model.BodySpec Model.Sem Proofs.Sem.

Theorem c01_normal_form_is_equivalent :
  forall (S halt : Type) (pop_cond : S -> option (bool * S)) (pop_index : S -> option (N * S))
           (unwind : N -> S -> S) (leave : S -> S) (sem_in sem_out : wins -> S -> step S halt)
           (enter_in enter_out : blockty -> S -> S)
           (arity_in arity_out loop_arity_in loop_arity_out : blockty -> N),
         (forall (o : wop) (s : S), sem_out (WOp o) s = sem_in (WOp o) s) ->
         (forall (bt : blockty) (s : S), enter_out bt s = enter_in bt s) ->
         (forall bt : blockty, arity_out bt = arity_in bt) ->
         (forall bt : blockty, loop_arity_out bt = loop_arity_in bt) ->
         (forall (o : wop) (s : S),
          marks_unreachable o = true -> exists (h : halt) (s' : S), sem_in (WOp o) s = Halt h s') ->
         forall (fuel : nat) (l : list rt) (s : S),
         eval S halt pop_cond pop_index unwind enter_out leave sem_out arity_out loop_arity_out fuel 
           (fst (nf_rt_list false l)) s =
         eval S halt pop_cond pop_index unwind enter_in leave sem_in arity_in loop_arity_in fuel l s.
Proof. exact nf_equiv. Qed.

Theorem c01_equivalence_on_the_renamed_operators :
  forall (S halt : Type) (pop_cond : S -> option (bool * S)) (pop_index : S -> option (N * S))
           (unwind : N -> S -> S) (leave : S -> S) (cx : pctx) (ecx : ectx) (sem_in sem_out' : wins -> S -> step S halt)
           (enter_in enter_out' : blockty -> S -> S)
           (arity_in arity_out' loop_arity_in loop_arity_out' : blockty -> N),
         (forall (o : wop) (s : S), sem_out' (nf_op cx ecx o) s = sem_in (WOp o) s) ->
         (forall (bt : blockty) (s : S), enter_out' (nf_bt cx ecx bt) s = enter_in bt s) ->
         (forall bt : blockty, arity_out' (nf_bt cx ecx bt) = arity_in bt) ->
         (forall bt : blockty, loop_arity_out' (nf_bt cx ecx bt) = loop_arity_in bt) ->
         (forall (o : wop) (s : S),
          marks_unreachable o = true -> exists (h : halt) (s' : S), sem_in (WOp o) s = Halt h s') ->
         forall (fuel : nat) (l : list rt) (s : S),
         eval S halt pop_cond pop_index unwind (fun bt : blockty => enter_out' (nf_bt cx ecx bt)) leave
           (sem_ren S halt cx ecx sem_out')
           (fun bt : blockty => arity_out' (nf_bt cx ecx bt))
           (fun bt : blockty => loop_arity_out' (nf_bt cx ecx bt)) fuel (fst (nf_rt_list false l)) s =
         eval S halt pop_cond pop_index unwind enter_in leave sem_in arity_in loop_arity_in fuel l s.
Proof. exact nf_equiv_renamed. Qed.

Theorem c01_divergence_preserved :
  forall (S halt : Type) (pop_cond : S -> option (bool * S)) (pop_index : S -> option (N * S))
           (unwind : N -> S -> S) (leave : S -> S) (sem_in sem_out : wins -> S -> step S halt)
           (enter_in enter_out : blockty -> S -> S)
           (arity_in arity_out loop_arity_in loop_arity_out : blockty -> N),
         (forall (o : wop) (s : S), sem_out (WOp o) s = sem_in (WOp o) s) ->
         (forall (bt : blockty) (s : S), enter_out bt s = enter_in bt s) ->
         (forall bt : blockty, arity_out bt = arity_in bt) ->
         (forall bt : blockty, loop_arity_out bt = loop_arity_in bt) ->
         (forall (o : wop) (s : S),
          marks_unreachable o = true -> exists (h : halt) (s' : S), sem_in (WOp o) s = Halt h s') ->
         forall (fuel : nat) (l : list rt) (s : S),
         eval S halt pop_cond pop_index unwind enter_out leave sem_out arity_out loop_arity_out fuel 
           (fst (nf_rt_list false l)) s = Fuel <->
         eval S halt pop_cond pop_index unwind enter_in leave sem_in arity_in loop_arity_in fuel l s = Fuel.
Proof. exact nf_equiv_fuel. Qed.

Theorem c01_only_dead_code_and_nops_dropped :
  forall (S halt : Type) (pop_cond : S -> option (bool * S)) (pop_index : S -> option (N * S))
           (unwind : N -> S -> S) (leave : S -> S) (sem_in : wins -> S -> step S halt)
           (enter_in : blockty -> S -> S) (arity_in loop_arity_in : blockty -> N),
         (forall (o : wop) (s : S),
          marks_unreachable o = true -> exists (h : halt) (s' : S), sem_in (WOp o) s = Halt h s') ->
         forall (l1 : list rt) (t : rt) (l2 : list rt),
         fst (nf_rt (snd (nf_rt_list false l1)) t) = [] ->
         (exists loc : N, t = RNop loc) \/
         (forall (fuel : nat) (s s' : S),
          eval S halt pop_cond pop_index unwind enter_in leave sem_in arity_in loop_arity_in fuel l1 s <> Fall s') /\
         (forall (fuel : nat) (s : S),
          eval S halt pop_cond pop_index unwind enter_in leave sem_in arity_in loop_arity_in fuel (l1 ++ t :: l2) s =
          eval S halt pop_cond pop_index unwind enter_in leave sem_in arity_in loop_arity_in fuel l1 s).
Proof. exact nf_drops_only_dead. Qed.

Theorem c01_else_synthesis :
  forall (S halt : Type) (pop_cond : S -> option (bool * S)) (pop_index : S -> option (N * S))
           (unwind : N -> S -> S) (leave : S -> S) (sem_in : wins -> S -> step S halt)
           (enter_in : blockty -> S -> S) (arity_in loop_arity_in : blockty -> N)
           (fuel : nat) (bt : blockty) (th : list rt) (l e le : N) (s : S),
         eval_t S halt pop_cond pop_index unwind enter_in leave sem_in arity_in loop_arity_in fuel (RIf bt th None l e) s =
         eval_t S halt pop_cond pop_index unwind enter_in leave sem_in arity_in loop_arity_in fuel
           (RIf bt th (Some (le, [])) l e) s.
Proof. exact else_synthesis. Qed.

Theorem c01_emitted_body_is_flattened_normal_form :
  forall (cx : pctx) (ecx : ectx) (u : bool) (l : list rt),
         map (fun p : N * wins => (snd p, fst p)) (fst (nf_list cx ecx u l)) =
         flat_list' cx ecx (fst (nf_rt_list u l)).
Proof. exact flat_nf_rt. Qed.

Theorem c01_emitted_bytes :
  forall (cx : pctx) (ecx : ectx) (ety : N) (rs : list valty) (l : list rt) (eloc p0 : N),
         wfl cx 1 l ->
         (forall o : wop, decode_plain (px_i2id cx) o <> None -> encode_plain (ex_id2i ecx) (dec cx o) <> None) ->
         exists (ar : arena) (st : estate) (fuel : nat),
           parse_body cx ety rs (flat_list l ++ [(WEnd, eloc)]) = Ok ar /\
           emit_body ecx fuel ar 0 p0 = Ok st /\
           out st = map fst (flat_list' cx ecx (fst (nf_rt_list false l))) ++ [WEnd].
Proof. exact roundtrip_body_sem. Qed.

(* ---- function reordering / renumbering at MODULE level (Proofs/SemCalls.v: a self-contained executable semantics with direct calls, function
   references stored in stack / table / globals, call through a reference, call_indirect, structured control): for every injective renumbering
   rho of the function index space, the renamed module started at rho f on the renamed state behaves as the original started at f - same trap,
   same fuel exhaustion, same final state up to renaming of the references it contains; numeric results are literally equal.  The only interface
   left is per operator: an operator that is neither a call nor a ref.func commutes with the renaming of the references in the state (shown
   for a concrete set of reference-moving operators; violated by an operator that would turn a reference into its index, which wasm has not).
   Reordering WITHOUT renaming the call targets changes behaviour (witness). *)
From Coq Require Import String.
From WV Require Import Proofs.SemCalls.
Theorem c01_function_renumbering_preserves_behaviour :
  forall (op : Type) (step_op : op -> state -> option state) (rho rho_inv : N -> N),
         (forall f : N, rho_inv (rho f) = f) ->
         (forall (o : op) (st : state),
          step_op o (rename_state rho st) = option_map (rename_state rho) (step_op o st)) ->
         forall (fuel : nat) (M : module op) (f : N) (st : state),
         run op step_op fuel (rename_module op rho rho_inv M) (rho f) (rename_state rho st) =
         rename_outcome rho (run op step_op fuel M f st).
Proof. exact rename_preserves_behaviour. Qed.

Theorem c01_renumbering_a_permutation_of_the_functions :
  forall (op : Type) (step_op : op -> state -> option state) (n : N) (rho rho_inv : N -> N),
         (forall f : N, (f < n)%N -> (rho f < n)%N) ->
         (forall f : N, (f < n)%N -> rho_inv (rho f) = f) ->
         (forall (o : op) (st : state),
          step_op o (rename_state (ext n rho) st) = option_map (rename_state (ext n rho)) (step_op o st)) ->
         forall (fuel : nat) (M : module op) (f : N) (st : state),
         run op step_op fuel (rename_module op (ext n rho) (ext n rho_inv) M) (ext n rho f)
           (rename_state (ext n rho) st) = rename_outcome (ext n rho) (run op step_op fuel M f st).
Proof. exact rename_preserves_behaviour_perm. Qed.

Theorem c01_exports_behave_the_same :
  forall (op : Type) (step_op : op -> state -> option state) (rho rho_inv : N -> N),
         (forall f : N, rho_inv (rho f) = f) ->
         (forall (o : op) (st : state),
          step_op o (rename_state rho st) = option_map (rename_state rho) (step_op o st)) ->
         forall (fuel : nat) (M : module op) (n : string) (st : state),
         run_export op step_op fuel (rename_module op rho rho_inv M) n (rename_state rho st) =
         rename_outcome rho (run_export op step_op fuel M n st).
Proof. exact export_call_same_behaviour. Qed.

Theorem c01_numeric_results_identical :
  forall (op : Type) (step_op : op -> state -> option state) (rho rho_inv : N -> N),
         (forall f : N, rho_inv (rho f) = f) ->
         (forall (o : op) (st : state),
          step_op o (rename_state rho st) = option_map (rename_state rho) (step_op o st)) ->
         forall (fuel : nat) (M : module op) (f : N) (st : state) (vs : list value),
         results (run op step_op fuel M f st) = Some vs ->
         numeric vs ->
         results (run op step_op fuel (rename_module op rho rho_inv M) (rho f) (rename_state rho st)) = Some vs.
Proof. exact numeric_results_identical. Qed.

Theorem c01_interface_holds_for_reference_moving_operators :
  forall (rho : N -> N) (o : cop) (st : state),
         cstep o (rename_state rho st) = option_map (rename_state rho) (cstep o st).
Proof. exact cstep_rename. Qed.

Theorem c01_interface_has_content :
  exists (rho : N -> N) (st : state),
           leaky_step tt (rename_state rho st) <> option_map (rename_state rho) (leaky_step tt st).
Proof. exact leaky_op_violates_interface. Qed.

Theorem c01_reordering_without_renaming_differs :
  run cop cstep 50 {| funcs := fun g : N => funcs cop ex_M (sigma_inv g); exports := exports cop ex_M |}
           (sigma 0) ex_st <> run cop cstep 50 ex_M 0 ex_st.
Proof. exact ex_unrenamed_differs. Qed.

(* ---- the abstract statement instantiated with a concrete machine (Model/SemCore.v, Proofs/SemCore.v) *)
From WV Require Import Model.SemCore Proofs.ModFix10 Proofs.SemCore.
Theorem c01_integer_core_instance :
  forall (cx : pctx) (ecx : ectx) (lslot gslot mslot lslot' gslot' mslot' : N -> N)
           (tys tys' : N -> option (list valty * list valty)),
         (forall i : N, lslot' (rl cx ecx i) = lslot i) ->
         (forall i : N, gslot' (rg cx ecx i) = gslot i) ->
         (forall i : N, mslot' (rm cx ecx i) = mslot i) ->
         (forall i : N, tys i = bt_tys cx (BT_Func i)) ->
         (forall (i : N) (ps rs : list valty), tys i = Some (ps, rs) -> existing cx ps rs <> None) ->
         (forall (ps rs : list valty) (ty : N),
          find_type cx ps rs = Some ty -> tys' (ex_id2i ecx S_type ty) = Some (ps, rs)) ->
         forall l : list rt,
         (forall o : wop, In o (ops_of l) -> memarg_ok o = true) ->
         (forall o : wop, In o (ops_of l) -> decode_plain (px_i2id cx) o <> None) ->
         forall (fuel : nat) (s : SemCore.st),
         run_core lslot' gslot' mslot' tys' fuel (map (ren_t cx ecx) (fst (nf_rt_list false l))) s =
         run_core lslot gslot mslot tys fuel l s.
Proof. exact core_roundtrip_equiv_tys. Qed.

Theorem c01_integer_core_never_falls :
  forall (l g m : N -> N) (o : wop) (s : SemCore.st),
         marks_unreachable o = true ->
         exists (h : SemCore.halt) (s' : SemCore.st), core_sem l g m (WOp o) s = Halt h s'.
Proof. exact core_never_falls. Qed.

Theorem c01_equivalence_for_the_operators_of_the_body :
  forall (S halt : Type) (pop_cond : S -> option (bool * S)) (pop_index : S -> option (N * S))
           (unwind : N -> S -> S) (leave : S -> S) (cx : pctx) (ecx : ectx)
           (sem_in sem_out' : wins -> S -> step S halt) (enter_in enter_out' : blockty -> S -> S)
           (arity_in arity_out' loop_arity_in loop_arity_out' : blockty -> N) (l : list rt),
         (forall o : wop, In o (ops_of l) -> forall s : S, sem_out' (nf_op cx ecx o) s = sem_in (WOp o) s) ->
         (forall (bt : blockty) (s : S), enter_out' (nf_bt cx ecx bt) s = enter_in bt s) ->
         (forall bt : blockty, arity_out' (nf_bt cx ecx bt) = arity_in bt) ->
         (forall bt : blockty, loop_arity_out' (nf_bt cx ecx bt) = loop_arity_in bt) ->
         (forall o : wop,
          In o (ops_of l) ->
          marks_unreachable o = true -> forall s : S, exists (h : halt) (s' : S), sem_in (WOp o) s = Halt h s') ->
         forall (fuel : nat) (s : S),
         eval S halt pop_cond pop_index unwind (fun bt : blockty => enter_out' (nf_bt cx ecx bt)) leave
           (sem_ren S halt cx ecx sem_out') (fun bt : blockty => arity_out' (nf_bt cx ecx bt))
           (fun bt : blockty => loop_arity_out' (nf_bt cx ecx bt)) fuel (fst (nf_rt_list false l)) s =
         eval S halt pop_cond pop_index unwind enter_in leave sem_in arity_in loop_arity_in fuel l s.
Proof. exact nf_equiv_renamed_on. Qed.

Theorem c01_truncated_offset_changes_behaviour :
  exists (cx : pctx) (ecx : ectx) (lslot gslot mslot lslot' gslot' mslot' : N -> N) (o : wop) (s : SemCore.st),
         (forall i : N, lslot' (rl cx ecx i) = lslot i) /\
         (forall i : N, gslot' (rg cx ecx i) = gslot i) /\
         (forall i : N, mslot' (rm cx ecx i) = mslot i) /\
         is_core_shape o = true /\
         align_ok o = true /\
         core_sem lslot gslot mslot (WOp o) s = Halt Trap s /\
         core_sem lslot' gslot' mslot' (nf_op cx ecx o) s =
         Next {| stk := [VI32 42; VI32 0]; locs := []; globs := []; labs := []; mem := [(0%N, 42%N)]; pages := 1; max_pages := 1 |}.
Proof. exact core_sem_renamed_big_offset_refuted. Qed.

Theorem c01_undecodable_operator_changes_verdict :
  exists (cx : pctx) (ecx : ectx) (lslot gslot mslot lslot' gslot' mslot' : N -> N) (o : wop) (s : SemCore.st),
         (forall i : N, lslot' (rl cx ecx i) = lslot i) /\
         (forall i : N, gslot' (rg cx ecx i) = gslot i) /\
         (forall i : N, mslot' (rm cx ecx i) = mslot i) /\
         offset_ok o = true /\
         core_sem lslot gslot mslot (WOp o) s = Halt Wrong s /\
         core_sem lslot' gslot' mslot' (nf_op cx ecx o) s = Halt Trap s.
Proof. exact core_sem_renamed_undecodable_refuted. Qed.

Theorem c01_encoder_total :
  forall (id2i : space -> N -> N) (p : plain), encode_plain id2i p <> None.
Proof. exact encode_total. Qed.

(* ---- WHOLE MODULES with calls (Model/SemMod.v, Proofs/SemMod.v): the 98-operator machine plus direct calls and call_indirect (function
   identities through a slot map, a table of identities, structural signature check, callee frames, call depth k).  A module whose bodies are
   replaced by their emitted bodies (normal form, operators re-encoded, locals renumbered and possibly dropped per function), whose functions are
   REORDERED by rf with the table and every call site renamed accordingly, and whose types / globals / memories / tables are renumbered
   consistently, behaves exactly like the input module: same result, same trap, same exhaustion, same final globals and memory, for every entry
   function, arguments, call depth and fuel.  Compared with V8 on generated multi-function modules (Run/SemModRun.v). *)
From WV Require Import Model.SemMod Proofs.SemMod.
Theorem c01_whole_module_round_trip_preserves_behaviour :
  forall (m m' : cmod) (lslot lslot' : N -> N -> N) (fslot gslot mslot tslot fslot' gslot' mslot' tslot' : N -> N)
         (cxo : N -> pctx) (ecxo : N -> ectx) (rf : N -> N),
    (forall i, fslot' (rf i) = fslot i) ->
    (forall i i2 d d2, nth_optN i (cm_funcs m) = Some d -> nth_optN i2 (cm_funcs m) = Some d2 -> fslot i = fslot i2 -> i = i2) ->
    (forall j d', nth_optN j (cm_funcs m') = Some d' -> exists i d, nth_optN i (cm_funcs m) = Some d /\ rf i = j) ->
    (forall i ti ls body, nth_optN i (cm_funcs m) = Some (ti, ls, body) ->
       fn_ok (env_of m lslot fslot gslot mslot tslot) (env_of m' lslot' fslot' gslot' mslot' tslot') cxo ecxo (fslot i) body /\
       exists ti' ls', nth_optN (rf i) (cm_funcs m') = Some (ti', ls', out_body (cxo (fslot i)) (ecxo (fslot i)) body) /\
                       nth_optN ti' (cm_tys m') = nth_optN ti (cm_tys m) /\
                       frames_agree (env_of m lslot fslot gslot mslot tslot) (env_of m' lslot' fslot' gslot' mslot' tslot') (fslot i) ti ls ls' body) ->
    cm_table m' = map (option_map rf) (cm_table m) ->
    forall k fuel f args s0,
      run_mod (env_of m' lslot' fslot' gslot' mslot' tslot') k fuel f args s0 = run_mod (env_of m lslot fslot gslot mslot tslot) k fuel f args s0.
Proof. exact mod_roundtrip_equiv_cmod. Qed.

(* the per-operator step: with calls resolved through the function slot maps, the re-encoded operator of the output module steps like the input's *)
Theorem c01_call_operators_are_renamed_consistently : forall cx ecx f ti tb,
  nf_op cx ecx (W_Call f) = WOp (W_Call (rfn cx ecx f)) /\ nf_op cx ecx (W_CallIndirect ti tb) = WOp (W_CallIndirect (rty cx ecx ti) (rtb cx ecx tb)).
Proof. intros cx ecx f ti tb. exact (conj (nf_op_call cx ecx f) (nf_op_call_indirect cx ecx ti tb)). Qed.

(* ---- END TO END on the module-level models (Model/SemModOf.v, Proofs/SemModEnd.v): for a section stream with the validator's guarantees (no imports, at
   most one table filled by one active function-index segment at offset 0) whose functions are the bodies of a module m, parseM then emitM yield a stream
   whose functions are those of m' = out_cmod: every body is the renamed normal form of the input body at the index rf the emission order gives it, rf is
   a bijection undone by the function slot map read off the emit-time map, the table is renamed by rf, signatures are preserved - and therefore running
   m' on the renumbered slots equals running m, for every entry function, arguments, call depth and fuel.  Premises that stay visible: the local slot
   maps / frames of each function (follows from C19 / C03's local-map theorems; not yet connected), well-formedness of the bodies in the parse context,
   operators of the live code decodable with indices in range and memarg offsets below 2^32 (the recorded finding), fewer than 2^32 - 1 types. *)
From WV Require Import Model.SemModOf Proofs.SemModEnd Proofs.SemModEnd2.
Section EndToEnd.
Local Open Scope nat_scope.
Theorem c01_parse_then_emit_preserves_whole_module_behaviour :
  forall (cf : ModuleM.config) (ver : ModuleM.str) (w : ModuleM.wmod) (s : ParseM.pst)
           (ilen : IR.wins -> BinNums.N) (e : EmitM.emitted) (m : SemMod.cmod),
         ParseTotal.valid_stream w ->
         ParseM.parseM cf ver w = ParseM.POk s ->
         EmitM.emitM (ParseM.ps_m s) ilen nil = Common.Ok e ->
         stream_has_cmod w m ->
         BinNat.N.le (BinNat.N.of_nat (List.length (ParseM.types_list (ParseM.ps_m s))))
           (BinNums.Npos
              (BinNums.xI
                 (BinNums.xI
                    (BinNums.xI
                       (BinNums.xI
                          (BinNums.xI
                             (BinNums.xI
                                (BinNums.xI
                                   (BinNums.xI
                                      (BinNums.xI
                                         (BinNums.xI
                                            (BinNums.xI
                                               (BinNums.xI
                                                  (BinNums.xI
                                                     (BinNums.xI
                                                        (BinNums.xI
                                                           (BinNums.xI
                                                              (BinNums.xI
                                                                 (BinNums.xI
                                                                    (BinNums.xI
                                                                       (BinNums.xI
                                                                          (BinNums.xI
                                                                             (BinNums.xI
                                                                                (BinNums.xI
                                                                                  (BinNums.xI
                                                                                  (BinNums.xI
                                                                                  (BinNums.xI
                                                                                  (BinNums.xI
                                                                                  (BinNums.xI
                                                                                  (BinNums.xI
                                                                                  (BinNums.xI
                                                                                  (BinNums.xI BinNums.xH)))))))))))))))))))))))))))))))) ->
         (forall (i : nat) (d : SemMod.fdef),
          List.nth_error (SemMod.cm_funcs m) i = Some d ->
          ParseSpec.wfl (ModFix15.cx_of s (BinNat.N.of_nat i)) 1 (fd_body d)) ->
         (forall (i : nat) (d : SemMod.fdef) (o : Ops.wop),
          List.nth_error (SemMod.cm_funcs m) i = Some d ->
          List.In o (Sem.ops_of (SemMod.live (fd_body d))) -> op_ok_end s o) ->
         exists (m' : SemMod.cmod) (rf : BinNums.N -> BinNums.N),
           m' = out_cmod s e ilen m /\
           rf = rf_of (EmitM.em_x2i e) /\
           stream_has_cmod_ops (EmitM.em_secs e) m' /\
           (forall i : BinNums.N,
            BinNat.N.to_nat i < List.length (SemMod.cm_funcs m) ->
            BinNat.N.to_nat (rf i) < List.length (SemMod.cm_funcs m)) /\
           (forall i i' : BinNums.N,
            BinNat.N.to_nat i < List.length (SemMod.cm_funcs m) ->
            BinNat.N.to_nat i' < List.length (SemMod.cm_funcs m) -> rf i = rf i' -> i = i') /\
           (forall j : BinNums.N,
            BinNat.N.to_nat j < List.length (SemMod.cm_funcs m) ->
            exists i : BinNums.N, BinNat.N.to_nat i < List.length (SemMod.cm_funcs m) /\ rf i = j) /\
           (forall i : BinNums.N, fslot_of (EmitM.em_x2i e) (rf i) = i) /\
           SemMod.cm_table m' = List.map (option_map rf) (SemMod.cm_table m) /\
           (forall (i : nat) (ti : BinNums.N) (ls : list Ops.valty) (body : list ParseSpec.rt),
            List.nth_error (SemMod.cm_funcs m) i = Some (ti, ls, body) ->
            exists (ti' : BinNums.N) (ls' : list Ops.valty),
              SemMod.nth_optN (rf (BinNat.N.of_nat i)) (SemMod.cm_funcs m') =
              Some
                (ti', ls',
                 SemMod.out_body (ModFix15.cx_of s (BinNat.N.of_nat i)) (ecxo_of e ilen (BinNat.N.of_nat i))
                   body) /\ SemMod.nth_optN ti' (SemMod.cm_tys m') = SemMod.nth_optN ti (SemMod.cm_tys m)) /\
           (forall lslot' : BinNums.N -> BinNums.N -> BinNums.N,
            let E :=
              SemMod.env_of m (fun _ : BinNums.N => SemMod.idN) SemMod.idN SemMod.idN SemMod.idN SemMod.idN in
            let E' := SemMod.env_of m' lslot' (fslot_of (EmitM.em_x2i e)) SemMod.idN SemMod.idN SemMod.idN in
            (forall (i : nat) (ti : BinNums.N) (ls : list Ops.valty) (body : list ParseSpec.rt)
               (ti' : BinNums.N) (ls' : list Ops.valty) (b' : list ParseSpec.rt),
             List.nth_error (SemMod.cm_funcs m) i = Some (ti, ls, body) ->
             SemMod.nth_optN (rf (BinNat.N.of_nat i)) (SemMod.cm_funcs m') = Some (ti', ls', b') ->
             (forall j : BinNums.N,
              List.In j (SemMod.locals_used (SemMod.live body)) ->
              lslot' (BinNat.N.of_nat i)
                (SemCore.rl (ModFix15.cx_of s (BinNat.N.of_nat i)) (ecxo_of e ilen (BinNat.N.of_nat i)) j) = j) /\
             SemMod.frames_agree E E' (BinNat.N.of_nat i) ti ls ls' body) ->
            forall (k fuel : nat) (f : BinNums.N) (args : list SemCore.val) (s0 : SemCore.st),
            SemMod.run_mod E' k fuel f args s0 = SemMod.run_mod E k fuel f args s0).
Proof. exact sem_roundtrip_end_to_end. Qed.

Theorem c01_emitted_function_body_is_the_renamed_normal_form :
  forall (cf : ModuleM.config) (ver : ModuleM.str) (w : ModuleM.wmod) (s : ParseM.pst)
           (ilen : IR.wins -> BinNums.N) (e : EmitM.emitted),
         ParseTotal.valid_stream w ->
         ParseM.parseM cf ver w = ParseM.POk s ->
         EmitM.emitM (ParseM.ps_m s) ilen nil = Common.Ok e ->
         List.flat_map Structure.imports_of w = nil ->
         List.length (List.flat_map ModFix.funcs_of w) = List.length (List.flat_map ModFix.code_of w) ->
         forall (k : nat) (b : ModuleM.wbody),
         List.nth_error (List.flat_map ModFix.code_of w) k = Some b ->
         exists
           (l : list ParseSpec.rt) (eloc j : BinNums.N) (ef : EmitM.emitted_fn) (f : ModuleM.mfunc) 
         (lf : ModuleM.mlocalfunc),
           ModuleM.wb_ops b = (ParseSpec.flat_list l ++ (IR.WEnd, eloc) :: nil)%list /\
           ParseSpec.wfl (ModFix15.cx_of s (BinNat.N.of_nat k)) 1 l /\
           ModuleM.aget (ModuleM.m_funcs (ParseM.ps_m s)) (BinNat.N.of_nat k) = Some f /\
           ModuleM.fn_kind f = ModuleM.FK_Local lf /\
           EmitM.get_idx (EmitM.em_x2i e) Ops.S_func (BinNat.N.of_nat k) = Common.Ok j /\
           BinNat.N.to_nat j < List.length (List.flat_map ModFix.code_of w) /\
           List.nth_error (EmitM.em_fns e) (BinNat.N.to_nat j) = Some ef /\
           List.nth_error (List.flat_map ModFix.code_of (EmitM.em_secs e)) (BinNat.N.to_nat j) =
           Some (EmitM.ef_body ef) /\
           EmitM.emit_function (ParseM.ps_m s) (EmitM.em_x2i e) ilen (BinNat.N.of_nat k) lf = Common.Ok ef /\
           (let cx := ModFix15.cx_of s (BinNat.N.of_nat k) in
            let ecx := ModFix15.ecx_of e (EmitM.ef_lmap ef) ilen in
            (exists (pos : list BinNums.N) (eloc' : BinNums.N),
               ModuleM.wb_ops (EmitM.ef_body ef) =
               (ParseSpec.flat_list (ModFix10.reloc (SemMod.out_body cx ecx l) pos) ++ (IR.WEnd, eloc') :: nil)%list) /\
            List.map fst (ModuleM.wb_ops (EmitM.ef_body ef)) =
            (List.map fst (ParseSpec.flat_list (SemMod.out_body cx ecx l)) ++ IR.WEnd :: nil)%list).
Proof. exact end_function_body. Qed.

Theorem c01_function_renumbering_injective_on_the_stream :
  forall (cf : ModuleM.config) (ver : ModuleM.str) (w : ModuleM.wmod) (s : ParseM.pst)
           (ilen : IR.wins -> BinNums.N) (e : EmitM.emitted),
         ParseM.parseM cf ver w = ParseM.POk s ->
         EmitM.emitM (ParseM.ps_m s) ilen nil = Common.Ok e ->
         List.flat_map Structure.imports_of w = nil ->
         forall i i' : BinNums.N,
         BinNat.N.to_nat i < List.length (List.flat_map ModFix.funcs_of w) ->
         BinNat.N.to_nat i' < List.length (List.flat_map ModFix.funcs_of w) ->
         rf_of (EmitM.em_x2i e) i = rf_of (EmitM.em_x2i e) i' -> i = i'.
Proof. exact end_rf_injective. Qed.

Theorem c01_function_renumbering_onto_on_the_stream :
  forall (cf : ModuleM.config) (ver : ModuleM.str) (w : ModuleM.wmod) (s : ParseM.pst)
           (ilen : IR.wins -> BinNums.N) (e : EmitM.emitted),
         ParseM.parseM cf ver w = ParseM.POk s ->
         EmitM.emitM (ParseM.ps_m s) ilen nil = Common.Ok e ->
         List.flat_map Structure.imports_of w = nil ->
         forall j : BinNums.N,
         BinNat.N.to_nat j < List.length (List.flat_map ModFix.funcs_of w) ->
         exists i : BinNums.N,
           BinNat.N.to_nat i < List.length (List.flat_map ModFix.funcs_of w) /\ rf_of (EmitM.em_x2i e) i = j.
Proof. exact end_rf_onto. Qed.

Theorem c01_table_renamed_with_the_functions :
  forall (cf : ModuleM.config) (ver : ModuleM.str) (w : ModuleM.wmod) (s : ParseM.pst)
           (ilen : IR.wins -> BinNums.N) (e : EmitM.emitted) (tbl : list (option BinNums.N)),
         ParseTotal.valid_stream w ->
         ParseM.parseM cf ver w = ParseM.POk s ->
         EmitM.emitM (ParseM.ps_m s) ilen nil = Common.Ok e ->
         table_of_elems (List.flat_map Structure.elems_of w) = Some tbl ->
         table_of_elems (List.flat_map Structure.elems_of (EmitM.em_secs e)) =
         Some (List.map (option_map (rf_of (EmitM.em_x2i e))) tbl).
Proof. exact end_table. Qed.


(* the same composition with the premises about the parsed bodies DISCHARGED from the stream (s54): well-formedness of the bodies in the parse
   context, the local slot map of the output (exhibited: [lslot_end], the inverse of the emit-time local map of every function) with agreeing
   frames, decodability of every live operator, and the ranges of global / function / type indices (from the success of emitM).  What is left:
   local indices in range (an executable premise, shown NECESSARY below), memarg offsets < 2^32 (the recorded finding), memory / table indices
   in range, fewer than 2^32 - 1 types / functions / globals *)
Theorem c01_parse_then_emit_preserves_whole_module_behaviour_from_the_stream :
  forall (cf : ModuleM.config) (ver : ModuleM.str) (w : ModuleM.wmod) (s : ParseM.pst) (ilen : IR.wins -> N) (e : EmitM.emitted) (m : SemMod.cmod),
    ParseTotal.valid_stream w -> ParseM.parseM cf ver w = ParseM.POk s -> EmitM.emitM (ParseM.ps_m s) ilen nil = Common.Ok e -> stream_has_cmod w m ->
    ModFix40.locals_in_range w ->
    (N.of_nat (List.length (ParseM.types_list (ParseM.ps_m s))) <= 4294967295)%N ->
    (N.of_nat (Renumbering.n_in s Ops.S_func) <= 4294967295)%N -> (N.of_nat (Renumbering.n_in s Ops.S_global) <= 4294967295)%N ->
    (forall i d o, List.nth_error (SemMod.cm_funcs m) i = Some d -> List.In o (Sem.ops_of (SemMod.live (fd_body d))) -> op_ok_end3 s o) ->
    let m' := out_cmod s e ilen m in
    let E := SemMod.env_of m (fun _ => SemMod.idN) SemMod.idN SemMod.idN SemMod.idN SemMod.idN in
    let E' := SemMod.env_of m' (lslot_end s e) (fslot_of (EmitM.em_x2i e)) SemMod.idN SemMod.idN SemMod.idN in
    stream_has_cmod_ops (EmitM.em_secs e) m' /\
    forall k fuel f args s0, SemMod.run_mod E' k fuel f args s0 = SemMod.run_mod E k fuel f args s0.
Proof. exact sem_roundtrip_end_to_end_3. Qed.

(* the premise "local indices in range" cannot be dropped: a stream with every other guarantee whose round trip behaves differently for EVERY
   local slot map of the output (the input goes wrong on `local.get 0` in a function without locals; the output declares a local and returns) *)
Theorem c01_local_index_range_is_necessary :
  exists cf ver w s ilen e m,
    ParseTotal.valid_stream w /\ ParseM.parseM cf ver w = ParseM.POk s /\ EmitM.emitM (ParseM.ps_m s) ilen nil = Common.Ok e /\ stream_has_cmod w m /\
    (~ ModFix40.locals_in_range w) /\
    (N.of_nat (List.length (ParseM.types_list (ParseM.ps_m s))) <= 4294967295)%N /\
    (forall i d o, List.nth_error (SemMod.cm_funcs m) i = Some d -> List.In o (Sem.ops_of (SemMod.live (fd_body d))) -> op_ok_end2 s o) /\
    forall lslot' : N -> N -> N, exists k fuel f args s0,
      SemMod.run_mod (SemMod.env_of (out_cmod s e ilen m) lslot' (fslot_of (EmitM.em_x2i e)) SemMod.idN SemMod.idN SemMod.idN) k fuel f args s0 <>
      SemMod.run_mod (SemMod.env_of m (fun _ => SemMod.idN) SemMod.idN SemMod.idN SemMod.idN SemMod.idN) k fuel f args s0.
Proof. exact ExBad.sem_roundtrip_refuted_without_range. Qed.

(* non-vacuity: every premise of the theorem above holds for a concrete three-function stream *)
Theorem c01_from_the_stream_example :
  let E := SemMod.env_of ExEnd.m0 (fun _ => SemMod.idN) SemMod.idN SemMod.idN SemMod.idN SemMod.idN in
  let E' := SemMod.env_of (out_cmod ExEnd2.s0 ExEnd2.e0 ExEnd.il ExEnd.m0) (lslot_end ExEnd2.s0 ExEnd2.e0) (fslot_of (EmitM.em_x2i ExEnd2.e0)) SemMod.idN SemMod.idN SemMod.idN in
  stream_has_cmod_ops (EmitM.em_secs ExEnd2.e0) (out_cmod ExEnd2.s0 ExEnd2.e0 ExEnd.il ExEnd.m0) /\
  forall k fuel f args st, SemMod.run_mod E' k fuel f args st = SemMod.run_mod E k fuel f args st.
Proof. exact ExEnd3.ex_end_to_end_3. Qed.

(* a tree-shaped body is determined by its flat operator list *)
Theorem c01_flat_list_determines_the_tree :
  forall l1 l2 e1 e2, (ParseSpec.flat_list l1 ++ (IR.WEnd, e1) :: nil = ParseSpec.flat_list l2 ++ (IR.WEnd, e2) :: nil)%list -> l1 = l2 /\ e1 = e2.
Proof. exact flat_list_inj. Qed.

End EndToEnd.

(* ================================================================== INSTANTIATION (Model/Inst.v, Proofs/Inst.v, Proofs/InstGc.v)
   what an embedder does before the first call is inside the model: global initialisers (constants, global.get of an earlier global), active
   element segments into the table and active data segments into the memory (bounds-checked as a whole, out of bounds = instantiation fails),
   the start function; compared with V8 by Run/InstRun.v *)
From WV Require Import Model.Inst Proofs.Inst Proofs.InstGc.
Section Instantiation.
Local Open Scope N_scope.
(* instantiating the round-tripped module (functions reordered with start / element segments / call sites renamed, tables / memories renumbered,
   global indices renamed with compensating slot maps) gives the same verdict and, when it succeeds, the same initial state and table; every call
   afterwards behaves the same *)
Theorem c01_instantiate_then_call_round_trip :
  forall (im im' : imod) (lslot lslot' : N -> N -> N) (fslot gslot mslot tslot fslot' gslot' mslot' tslot' : N -> N)
         (cxo : N -> pctx) (ecxo : N -> ectx) (rf rg rtb rm : N -> N),
       renamed rf rg rtb rm im im' ->
       (forall g : N, gslot' (rg g) = gslot g) ->
       (forall k : N, k < N.of_nat (List.length (im_globals im)) -> gslot' k = gslot k) ->
       (forall tb : N, tslot' (rtb tb) = tslot tb) ->
       (forall mi : N, mslot' (rm mi) = mslot mi) ->
       (forall i : N, fslot' (rf i) = fslot i) ->
       (forall (i i2 : N) (d d2 : fdef), nth_optN i (im_funcs im) = Some d -> nth_optN i2 (im_funcs im) = Some d2 -> fslot i = fslot i2 -> i = i2) ->
       (forall (j : N) (d' : fdef), nth_optN j (im_funcs im') = Some d' -> exists (i : N) (d : fdef), nth_optN i (im_funcs im) = Some d /\ rf i = j) ->
       (forall (tbl : list (option N)) (i ti : N) (ls : list valty) (body : list rt),
        nth_optN i (im_funcs im) = Some (ti, ls, body) ->
        fn_ok (env_of (cmod_of im tbl) lslot fslot gslot mslot tslot)
          (env_of (cmod_of im' (map (option_map rf) tbl)) lslot' fslot' gslot' mslot' tslot') cxo ecxo (fslot i) body /\
        (exists (ti' : N) (ls' : list valty),
           nth_optN (rf i) (im_funcs im') = Some (ti', ls', out_body (cxo (fslot i)) (ecxo (fslot i)) body) /\
           nth_optN ti' (im_tys im') = nth_optN ti (im_tys im) /\
           frames_agree (env_of (cmod_of im tbl) lslot fslot gslot mslot tslot)
             (env_of (cmod_of im' (map (option_map rf) tbl)) lslot' fslot' gslot' mslot' tslot') (fslot i) ti ls ls' body)) ->
       forall (fuel k k2 fuel2 : nat) (f : N) (args : list val),
       inst_equiv cxo ecxo (instantiate fuel k im lslot fslot gslot mslot tslot) (instantiate fuel k im' lslot' fslot' gslot' mslot' tslot') /\
       call_after (instantiate fuel k im' lslot' fslot' gslot' mslot' tslot') k2 fuel2 f args =
       call_after (instantiate fuel k im lslot fslot gslot mslot tslot) k2 fuel2 f args.
Proof.
  intros im im' lslot lslot' fslot gslot mslot tslot fslot' gslot' mslot' tslot' cxo ecxo rf rg rtb rm H1 H2 H3 H4 H5 H6 H7 H8 H9 fuel k k2 fuel2 f args.
  split.
  - exact (inst_roundtrip im im' lslot lslot' fslot gslot mslot tslot fslot' gslot' mslot' tslot' cxo ecxo rf rg rtb rm H1 H2 H3 H4 H5 H6 H7 H8 H9 fuel k).
  - exact (inst_then_call_roundtrip im im' lslot lslot' fslot gslot mslot tslot fslot' gslot' mslot' tslot' cxo ecxo rf rg rtb rm H1 H2 H3 H4 H5 H6 H7 H8 H9 fuel k k2 fuel2 f args).
Qed.

(* the premise "listed globals keep their positions" is needed: with two constant globals swapped by the renaming the instances differ *)
Theorem c01_instantiate_round_trip_needs_global_positions :
  exists (im im' : imod) (rg gslot gslot' : N -> N) (cxo : N -> pctx) (ecxo : N -> ectx),
    renamed idN rg idN idN im im' /\ (forall g : N, gslot' (rg g) = gslot g) /\ (forall a b : N, rg a = rg b -> a = b) /\
    im_funcs im = nil /\ im_funcs im' = nil /\
    ~ inst_equiv cxo ecxo (instantiate 0 0 im (fun _ : N => idN) idN gslot idN idN) (instantiate 0 0 im' (fun _ : N => idN) idN gslot' idN idN).
Proof. exact inst_roundtrip_needs_gpos. Qed.

(* an active segment that does not fit fails instantiation, whatever follows *)
Theorem c01_out_of_bounds_element_segment_fails_instantiation :
  forall (gslot mslot tslot : N -> N) (fuel k : nat) (im : imod) (lslot : N -> N -> N) (fslot : N -> N) (pre : list eseg)
         (tb : N) (off : cexpr) (fs : list (option N)) (post : list eseg) (gl : list (N * val)) (t1 : list (option N)) (o : N),
       im_elems im = (pre ++ EActive tb off fs :: post)%list ->
       inst_globals gslot 0 (im_globals im) nil = Some gl ->
       inst_elems gslot tslot gl pre (tbl0 im) = POk t1 ->
       tslot tb = 0 ->
       eval_cexpr gslot gl off = Some (VI32 o) ->
       tbl_size t1 < o + N.of_nat (List.length fs) -> instantiate fuel k im lslot fslot gslot mslot tslot = ITrap.
Proof. exact inst_oob_traps_elem. Qed.
Theorem c01_out_of_bounds_data_segment_fails_instantiation :
  forall (gslot mslot tslot : N -> N) (fuel k : nat) (im : imod) (lslot : N -> N -> N) (fslot : N -> N) (pre : list dseg)
         (mi : N) (off : cexpr) (bs : list N) (post : list dseg) (gl : list (N * val)) (tbl : list (option N)) (m1 : list (N * N)) (o : N),
       im_datas im = (pre ++ DActive mi off bs :: post)%list ->
       inst_globals gslot 0 (im_globals im) nil = Some gl ->
       inst_elems gslot tslot gl (im_elems im) (tbl0 im) = POk tbl ->
       inst_datas gslot mslot gl (pages0 im) pre nil = POk m1 ->
       mslot mi = 0 ->
       eval_cexpr gslot gl off = Some (VI32 o) ->
       pages0 im * page_size < o + N.of_nat (List.length bs) -> instantiate fuel k im lslot fslot gslot mslot tslot = ITrap.
Proof. exact inst_oob_traps_data. Qed.

(* the GC pass drops unused passive / declared segments and unused globals: neither is visible *)
Theorem c01_dropping_passive_segments_is_invisible :
  forall (fuel k : nat) (im im' : imod) (lslot : N -> N -> N) (fslot gslot mslot tslot : N -> N),
       im_tys im' = im_tys im -> im_funcs im' = im_funcs im -> im_globals im' = im_globals im -> im_mem im' = im_mem im ->
       im_table im' = im_table im -> im_start im' = im_start im ->
       dropped e_passive (im_elems im) (im_elems im') -> dropped d_passive (im_datas im) (im_datas im') ->
       instantiate fuel k im' lslot fslot gslot mslot tslot = instantiate fuel k im lslot fslot gslot mslot tslot.
Proof. exact inst_dropping_passive_is_invisible. Qed.
Theorem c01_instantiate_then_call_round_trip_with_globals_dropped :
  forall (im im' : imod) (lslot lslot' : N -> N -> N) (fslot gslot mslot tslot fslot' gslot' mslot' tslot' : N -> N)
         (cxo : N -> pctx) (ecxo : N -> ectx) (rf rg rtb rm : N -> N) (U : list N) (gl : list (N * val)),
       renamed_gc rf rg rtb rm gslot U im im' ->
       (forall g : N, List.In (gslot g) U -> gslot' (rg g) = gslot g) ->
       (forall tb : N, tslot' (rtb tb) = tslot tb) ->
       (forall mi : N, mslot' (rm mi) = mslot mi) ->
       inst_globals gslot 0 (im_globals im) nil = Some gl ->
       (forall (i ti : N) (ls : list valty) (body : list rt),
        nth_optN i (im_funcs im) = Some (ti, ls, body) -> forall g : N, List.In g (globals_used body) -> List.In (gslot g) U) ->
       (forall i : N, fslot' (rf i) = fslot i) ->
       (forall (i i2 : N) (d d2 : fdef), nth_optN i (im_funcs im) = Some d -> nth_optN i2 (im_funcs im) = Some d2 -> fslot i = fslot i2 -> i = i2) ->
       (forall (j : N) (d' : fdef), nth_optN j (im_funcs im') = Some d' -> exists (i : N) (d : fdef), nth_optN i (im_funcs im) = Some d /\ rf i = j) ->
       (forall (tbl : list (option N)) (i ti : N) (ls : list valty) (body : list rt),
        nth_optN i (im_funcs im) = Some (ti, ls, body) ->
        fn_ok (env_of (cmod_of im tbl) lslot fslot gslot mslot tslot)
          (env_of (cmod_of im' (map (option_map rf) tbl)) lslot' fslot' gslot' mslot' tslot') cxo ecxo (fslot i) body /\
        (exists (ti' : N) (ls' : list valty),
           nth_optN (rf i) (im_funcs im') = Some (ti', ls', out_body (cxo (fslot i)) (ecxo (fslot i)) body) /\
           nth_optN ti' (im_tys im') = nth_optN ti (im_tys im) /\
           frames_agree (env_of (cmod_of im tbl) lslot fslot gslot mslot tslot)
             (env_of (cmod_of im' (map (option_map rf) tbl)) lslot' fslot' gslot' mslot' tslot') (fslot i) ti ls ls' body)) ->
       forall (fuel k k2 fuel2 : nat) (f : N) (args : list val),
       call_rel U (call_after (instantiate fuel k im lslot fslot gslot mslot tslot) k2 fuel2 f args)
         (call_after (instantiate fuel k im' lslot' fslot' gslot' mslot' tslot') k2 fuel2 f args).
Proof. exact inst_then_call_roundtrip_gc. Qed.

(* the initial state the whole-module tie (Run/SemModRun.v) used to take from the harness is the one the model computes *)
Theorem c01_instantiation_yields_the_initial_state_of_the_module_tie :
  forall (c : SemModRun.modcase) (fs : list (option N)) (n : nat) (mx : option N) (fuel k : nat),
       SemModRun.mc_table c = (fs ++ List.repeat None n)%list ->
       instantiate fuel k (imod_of_modcase c fs mx) (fun _ : N => SemCoreRun.idN) SemCoreRun.idN SemCoreRun.idN SemCoreRun.idN SemCoreRun.idN =
       IOk (SemModRun.env_id c) (SemModRun.mod_init c).
Proof. exact inst_of_modcase. Qed.
End Instantiation.

(* ================================================================== BULK-MEMORY operators and PASSIVE DATA SEGMENTS (Model/SemBulk.v, Proofs/SemBulk.v)
   memory.init / data.drop / memory.copy / memory.fill on top of the whole-module machine; the DATA index space is renumbered by the round trip
   (and unused passive segments are deleted by GC), so `memory.init 3` may become `memory.init 1`; compared with V8 by Run/BulkRun.v, also on
   walrus's output binary decoded back *)
From WV Require Import Model.SemBulk Proofs.SemBulk.
Section Bulk.
Local Open Scope N_scope.
Theorem c01_round_trip_with_bulk_memory_operators_preserves_behaviour :
  forall (m m' : cmod) (ds ds' : list dseg) (lslot lslot' : N -> N -> N) (fslot gslot mslot tslot dslot fslot' gslot' mslot' tslot' dslot' : N -> N)
         (cxo : N -> pctx) (ecxo : N -> ectx) (rf : N -> N),
       (forall i : N, fslot' (rf i) = fslot i) ->
       (forall (i i2 : N) (d d2 : fdef), nth_optN i (cm_funcs m) = Some d -> nth_optN i2 (cm_funcs m) = Some d2 -> fslot i = fslot i2 -> i = i2) ->
       (forall (j : N) (d' : fdef), nth_optN j (cm_funcs m') = Some d' -> exists (i : N) (d : fdef), nth_optN i (cm_funcs m) = Some d /\ rf i = j) ->
       (forall (i ti : N) (ls : list valty) (body : list rt),
        nth_optN i (cm_funcs m) = Some (ti, ls, body) ->
        fn_ok (env_of m lslot fslot gslot mslot tslot) (env_of m' lslot' fslot' gslot' mslot' tslot') cxo ecxo (fslot i) body /\
        (exists (ti' : N) (ls' : list valty),
           nth_optN (rf i) (cm_funcs m') = Some (ti', ls', out_body (cxo (fslot i)) (ecxo (fslot i)) body) /\
           nth_optN ti' (cm_tys m') = nth_optN ti (cm_tys m) /\
           frames_agree (env_of m lslot fslot gslot mslot tslot) (env_of m' lslot' fslot' gslot' mslot' tslot') (fslot i) ti ls ls' body)) ->
       cm_table m' = map (option_map rf) (cm_table m) ->
       (forall i j : N, dslot i = dslot j -> i = j) ->
       (forall i j : N, dslot' i = dslot' j -> i = j) ->
       (forall (i ti : N) (ls : list valty) (body : list rt),
        nth_optN i (cm_funcs m) = Some (ti, ls, body) ->
        (forall d : N,
         List.In d (datas_used (live body)) ->
         dslot' (rd (cxo (fslot i)) (ecxo (fslot i)) d) = dslot d /\
         option_map seg_bytes (nth_optN (rd (cxo (fslot i)) (ecxo (fslot i)) d) ds') = option_map seg_bytes (nth_optN d ds)) /\
        (forall mi : N, List.In mi (bulk_mems_used (live body)) -> mslot' (SemCore.rm (cxo (fslot i)) (ecxo (fslot i)) mi) = mslot mi)) ->
       forall (k fuel : nat) (f : N) (args : list val) (s0 : st) (dr : list N),
       run_mod_b (benv_of_cmod m' ds' lslot' fslot' gslot' mslot' tslot' dslot') k fuel f args s0 dr =
       run_mod_b (benv_of_cmod m ds lslot fslot gslot mslot tslot dslot) k fuel f args s0 dr.
Proof. exact bulk_roundtrip_equiv. Qed.
(* renumbering the segments WITHOUT renaming the operators changes behaviour: the theorem is not vacuous *)
Theorem c01_renumbering_data_without_renaming_differs :
  exists (m : cmod) (ds ds' : list dseg) (f : N) (s0 : st),
    RTB.result (run_mod_b (benv_of_cmod m ds (fun _ : N => idN) idN idN idN idN idN) 2 0 f nil s0 nil) = Some (VI32 12 :: nil, 1 :: nil) /\
    RTB.result (run_mod_b (benv_of_cmod m ds' (fun _ : N => idN) idN idN idN idN idN) 2 0 f nil s0 nil) = Some (VI32 22 :: nil, 1 :: nil).
Proof. exact renumbering_without_renaming_differs. Qed.
(* memory.copy: bounds checked first for the whole range, a trap writes nothing, overlapping ranges are copied correctly *)
Theorem c01_memory_copy_meets_its_specification :
  forall (c : st) (n s d : N) (k : list val),
    stk c = VI32 n :: VI32 s :: VI32 d :: k ->
    if (s + n <=? mem_len c) && (d + n <=? mem_len c)
    then exists c' : st, mem_copy 0 0 c = Next c' /\ stk c' = k /\ pages c' = pages c /\ globs c' = globs c /\ locs c' = locs c /\
                         (forall x : N, mget x (mem c') = (if within d n x then mget (s + (x - d)) (mem c) else mget x (mem c)))
    else mem_copy 0 0 c = Halt Trap c.
Proof. exact mem_copy_spec. Qed.
End Bulk.

Print Assumptions c01_normal_form_is_equivalent.
Print Assumptions c01_equivalence_on_the_renamed_operators.
Print Assumptions c01_divergence_preserved.
Print Assumptions c01_only_dead_code_and_nops_dropped.
Print Assumptions c01_else_synthesis.
Print Assumptions c01_emitted_body_is_flattened_normal_form.
Print Assumptions c01_emitted_bytes.
Print Assumptions c01_function_renumbering_preserves_behaviour.
Print Assumptions c01_renumbering_a_permutation_of_the_functions.
Print Assumptions c01_exports_behave_the_same.
Print Assumptions c01_numeric_results_identical.
Print Assumptions c01_interface_holds_for_reference_moving_operators.
Print Assumptions c01_interface_has_content.
Print Assumptions c01_reordering_without_renaming_differs.
Print Assumptions c01_integer_core_instance.
Print Assumptions c01_integer_core_never_falls.
Print Assumptions c01_undecodable_operator_changes_verdict.
Print Assumptions c01_equivalence_for_the_operators_of_the_body.
Print Assumptions c01_truncated_offset_changes_behaviour.
Print Assumptions c01_encoder_total.
Print Assumptions c01_whole_module_round_trip_preserves_behaviour.
Print Assumptions c01_call_operators_are_renamed_consistently.
Print Assumptions c01_parse_then_emit_preserves_whole_module_behaviour.
Print Assumptions c01_emitted_function_body_is_the_renamed_normal_form.
Print Assumptions c01_function_renumbering_injective_on_the_stream.
Print Assumptions c01_function_renumbering_onto_on_the_stream.
Print Assumptions c01_table_renamed_with_the_functions.
Print Assumptions c01_parse_then_emit_preserves_whole_module_behaviour_from_the_stream.
Print Assumptions c01_local_index_range_is_necessary.
Print Assumptions c01_from_the_stream_example.
Print Assumptions c01_flat_list_determines_the_tree.
Print Assumptions c01_instantiate_then_call_round_trip.
Print Assumptions c01_instantiate_round_trip_needs_global_positions.
Print Assumptions c01_out_of_bounds_element_segment_fails_instantiation.
Print Assumptions c01_out_of_bounds_data_segment_fails_instantiation.
Print Assumptions c01_dropping_passive_segments_is_invisible.
Print Assumptions c01_instantiate_then_call_round_trip_with_globals_dropped.
Print Assumptions c01_instantiation_yields_the_initial_state_of_the_module_tie.
Print Assumptions c01_round_trip_with_bulk_memory_operators_preserves_behaviour.
Print Assumptions c01_renumbering_data_without_renaming_differs.
Print Assumptions c01_memory_copy_meets_its_specification.
