(* placeholder until the statements are pinned *)
From WV Require Import Model.BodySpec.
