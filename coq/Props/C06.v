(* C06 - the GC pass never changes behaviour or breaks the module. Statements only.
   What is proved here is the structural half: everything reachable from an export, the start
   function, an active data segment, a retained element segment or a custom-section root is kept
   together with everything it refers to, exports / start / customs are untouched.  The behavioural
   half (same results, traps, host calls) and validity of the emitted module are decided by the
   oracles of the correspondence run; see the note in MANIFEST.json. *)
From Coq Require Import List NArith Bool Arith. Import ListNotations.
From WV Require Import Gen.Ops Model.Common Model.IR Model.Arena Model.ModuleM Model.GC Proofs.C07L Proofs.CustomsCfg.
From WV Require Proofs.GC.
From WV Require Import Model.ParseM Model.EmitM Proofs.Totality Proofs.Switches Proofs.GcDeclare.
Local Open Scope nat_scope.

(* completeness: every entity reachable from the roots is in the used set ... *)
Theorem c06_reachable_kept : forall m u, used m = Ok u ->
  exists rs, roots m = Ok rs /\ (refs_wf m rs -> forall x, G.greach m rs x -> In x u).
Proof. exact used_complete. Qed.

(* ... and the used set is closed: whatever a kept entity refers to is kept as well
   (so no kept function, segment, global or table can mention a deleted index) *)
Theorem c06_closed : forall m rs U,
  roots m = Ok rs -> refs_wf m rs ->
  wl (S (S (n_entities m))) m (fold_left push rs {| u_used := []; u_stack := [] |}) = Ok U ->
  forall x, In x U -> G.is_type x = false -> forall ys, succ m x = Ok ys -> forall y, In y ys -> In y U.
Proof. intros m rs U Hr [Ha Hl]. exact (G.used_closed m rs U Hr Ha Hl). Qed.
Theorem c06_roots_kept : forall m rs U,
  roots m = Ok rs -> refs_wf m rs ->
  wl (S (S (n_entities m))) m (fold_left push rs {| u_used := []; u_stack := [] |}) = Ok U -> incl rs U.
Proof. intros m rs U Hr [Ha Hl]. exact (G.used_roots m rs U Hr Ha Hl). Qed.

(* the pass touches nothing but the seven arenas it sweeps: same exports, start, customs, config ... *)
Theorem c06_frame : forall m m', gc m = Ok m' ->
  m_exports m' = m_exports m /\ m_start m' = m_start m /\ m_customs m' = m_customs m /\
  m_config m' = m_config m /\ m_locals m' = m_locals m /\ m_producers m' = m_producers m /\
  m_debug m' = m_debug m /\ m_name m' = m_name m /\ m_code_section_offset m' = m_code_section_offset m.
Proof. exact gc_preserves_full. Qed.

(* an entity is deleted only if it is not in the used set *)
Theorem c06_only_unused_deleted :
  forall m m' : wir,
         gc m = Ok m' ->
         forall u : list ent,
         used m = Ok u ->
         forall id : N,
         contains (m_funcs m) (N.to_nat id) = true ->
         mem_ent (S_func, id) u = true -> contains (m_funcs m') (N.to_nat id) = true.
Proof. exact gc_only_unused_deleted_full. Qed.

(* the source of the used-analysis and of the sweep still has the control skeleton the model was written against
   (regenerated Gen/GcSkeleton.v = the pinned copy in Proofs/GcPinned.v): roots, edges, residue, sweep order *)
From WV Require Import Gen.GcSkeleton Proofs.GcPinned.
Theorem c06_source_skeleton : used_new_skeleton = expected_used_new /\ used_visitor_skeleton = expected_used_visitor /\ gc_run_skeleton = expected_gc_run /\ gc_declare_skeleton = expected_gc_declare.
Proof. exact used_skeleton_pinned. Qed.

(* what the pass keeps it keeps UNCHANGED (nothing is altered, only removed): in every arena, for kept functions (kind, body,
   arguments, type, name), for everything a kept entity refers to, for the targets of exports and start: the part of the
   module reachable from the roots is identical before and after the pass *)
From WV Require Import Model.ParseM Model.EmitM Proofs.Totality Proofs.Switches.
Theorem c06_kept_entities_unchanged :
  forall m m' : wir,
         gc m = Ok m' ->
         (forall (id : N) (v : mfunc), aget (m_funcs m') id = Some v -> aget (m_funcs m) id = Some v) /\
         (forall (id : N) (v : mtable), aget (m_tables m') id = Some v -> aget (m_tables m) id = Some v) /\
         (forall (id : N) (v : mglobal), aget (m_globals m') id = Some v -> aget (m_globals m) id = Some v) /\
         (forall (id : N) (v : mmem), aget (m_memories m') id = Some v -> aget (m_memories m) id = Some v) /\
         (forall (id : N) (v : mdata), aget (m_data m') id = Some v -> aget (m_data m) id = Some v) /\
         (forall (id : N) (v : melem),
          aget (m_elements m') id = Some v ->
          aget (m_elements m) id = Some v \/
          id = anext (m_elements m) /\
          (exists fs : list N, fs <> [] /\ v = decl_seg fs /\ (forall f : N, In f fs -> liveF m' f))) /\
         (forall (id : N) (v : mimport), aget (m_imports m') id = Some v -> aget (m_imports m) id = Some v) /\
         (forall (id : N) (t : mtype), types_get m' id = Some t -> types_get m id = Some t) /\
         m_locals m' = m_locals m.
Proof. exact gc_kept_unchanged_full. Qed.

Theorem c06_kept_function_unchanged :
  forall (m m' : wir) (id : N) (f : mfunc),
         gc m = Ok m' ->
         aget (m_funcs m') id = Some f ->
         aget (m_funcs m) id = Some f /\
         types_get m' (func_ty f) = types_get m (func_ty f) /\ m_locals m' = m_locals m.
Proof. exact gc_kept_function_full. Qed.

Theorem c06_reachable_submodule_identical :
  forall m m' : wir,
         gc m = Ok m' ->
         exists u U : list ent,
           used m = Ok u /\
           incl U u /\
           (forall x : ent, In x u -> fst x <> S_memory -> In x U) /\
           (forall x : ent, In x u -> same_at m m' x) /\
           (forall x : ent,
            In x U ->
            exists ys : list ent,
              succ m x = Ok ys /\
              succ m' x = Ok ys /\ (forall y : ent, In y ys -> In y U /\ In y u /\ same_at m m' y)).
Proof. exact gc_reachable_closed_submodule_full. Qed.

Theorem c06_exports_and_start_same_targets :
  forall m m' : wir,
         gc m = Ok m' ->
         m_exports m' = m_exports m /\
         m_start m' = m_start m /\
         (forall (id : N) (e : mexport),
          aget (m_exports m') id = Some e -> item_same m m' (ex_kind e) (ex_item e)) /\
         (forall f : N, m_start m' = Some f -> item_same m m' EK_Func f).
Proof. exact gc_exports_start_same_targets_full. Qed.


(* ---- the last step of the pass (repair 831b911): a `ref.func f` in a kept body needs f declared outside function bodies; the sweep alone can
   remove every declarer (witness), so the pass lists the functions left undeclared in ONE new declared element segment: after the pass
   nothing is undeclared; the element arena is the swept one plus at most that segment, which lists live functions only *)
Theorem c06_gc_declares_all_referenced :
  forall (cf : config) (ver : str) (w : wmod) (s : pst) (m' : wir),
         parseM cf ver w = POk s -> gc (ps_m s) = Ok m' -> undeclared_funcs m' = Ok [].
Proof. exact gc_declares_all_referenced_after_parse. Qed.
Theorem c06_gc_declares_all_referenced_wf :
  forall m m' : wir, dead_in_range (m_elements m) -> gc m = Ok m' -> undeclared_funcs m' = Ok [].
Proof. exact gc_declares_all_referenced_partial. Qed.
Theorem c06_sweep_alone_leaves_undeclared :
  exists m m' : wir,
           gc_sweep m = Ok m' /\ (exists (f : N) (fs : list N), undeclared_funcs m' = Ok (f :: fs)).
Proof. exact gc_sweep_leaves_undeclared_refuted. Qed.
Theorem c06_elements_after_gc :
  forall m m' : wir,
         gc m = Ok m' ->
         exists (m1 : wir) (fs : list N),
           gc_sweep m = Ok m1 /\
           undeclared_funcs m1 = Ok fs /\
           (forall (id : N) (e : melem), aget (m_elements m1) id = Some e -> aget (m_elements m') id = Some e) /\
           (forall (id : N) (e : melem),
            aget (m_elements m') id = Some e ->
            aget (m_elements m1) id = Some e \/
            fs <> [] /\ id = anext (m_elements m) /\ e = decl_seg fs /\ (forall f : N, In f fs -> liveF m' f)) /\
           (forall id : N, id <> anext (m_elements m) -> aget (m_elements m') id = aget (m_elements m1) id).
Proof. exact gc_elements_full. Qed.

(* ---- the behavioural half at MODULE level (Proofs/SemGc.v over the executable call semantics of Proofs/SemCalls.v): removing every function
   outside a set that is closed under calls / ref.func and contains every function reference of the state leaves every run from a kept function
   unchanged, for every fuel; composed with an injective renumbering (what the pass does to the function index space) the outcome is the
   original one up to the renaming of references; the set reachable from the exports and the initial state is such a set (least fixpoint over
   a finite index range), so sequences of export calls behave identically; removing a reachable function changes behaviour (witness).
   Interface left per operator: a non-call operator cannot invent a function reference (shown for reference-moving operators). *)
(* the used-analysis follows EVERY reference emission needs: each index immediate the emitter writes for an instruction is the emit-time index of
   one of the references the derived Instr::visit reports for it (both tables regenerated from the source: a field marked skip_visit that the
   emitter still looks up breaks this); and conversely every visited reference of a parsed instruction was resolved from one of its indices *)
From WV Require Proofs.ModFix14 Proofs.TotalityBodies.
Theorem c06_every_index_the_emitter_writes_is_a_visited_reference : forall id2i p w, encode_plain id2i p = Some w ->
  forall s i, In (s, i) (wop_refs w) -> exists id, In (s, id) (visited_refs p) /\ i = id2i s id.
Proof. exact Proofs.ModFix14.encode_refs_in. Qed.

Theorem c06_every_visited_reference_comes_from_an_index : forall i2id o p, decode_plain i2id o = Some p ->
  forall sp id, In (sp, id) (visited_refs p) -> exists i, In (sp, i) (wop_refs o) /\ id = i2id sp i.
Proof. exact Proofs.TotalityBodies.decode_refs. Qed.

From Coq Require Import String.
From WV Require Import Proofs.SemCalls Proofs.SemGc.
Theorem c06_dropping_unreachable_functions_preserves_behaviour :
  forall (op : Type) (step_op : op -> state -> option state) (keep : N -> bool),
         (forall (o : op) (st st' : state),
          state_closed keep st -> step_op o st = Some st' -> state_closed keep st') ->
         forall (fuel : nat) (M : module op) (f : N) (st : state),
         closed_under op keep M ->
         state_closed keep st ->
         keep f = true -> run op step_op fuel (restrict op keep M) f st = run op step_op fuel M f st.
Proof. exact restrict_preserves_behaviour. Qed.

Theorem c06_gc_preserves_behaviour :
  forall (op : Type) (step_op : op -> state -> option state) (keep : N -> bool),
         (forall (o : op) (st st' : state),
          state_closed keep st -> step_op o st = Some st' -> state_closed keep st') ->
         forall rho rho_inv : N -> N,
         (forall f : N, rho_inv (rho f) = f) ->
         (forall (o : op) (st : state),
          step_op o (rename_state rho st) = option_map (rename_state rho) (step_op o st)) ->
         forall (fuel : nat) (M : module op) (f : N) (st : state),
         closed_under op keep M ->
         state_closed keep st ->
         keep f = true ->
         run op step_op fuel (rename_module op rho rho_inv (restrict op keep M)) (rho f) (rename_state rho st) =
         rename_outcome rho (run op step_op fuel M f st).
Proof. exact gc_preserves_behaviour. Qed.

Theorem c06_reachable_set_is_closed :
  forall (op : Type) (univ : list N) (M : module op) (names : list string) (st0 : state),
         refs_in_univ op univ M ->
         (forall g : N, In g (roots_of op M names st0) -> In g univ) ->
         let keep := reachable op univ M names st0 in
         closed_under op keep M /\
         state_closed keep st0 /\
         (forall (n : string) (f : N), In n names -> exports op M n = Some f -> keep f = true).
Proof. exact reachable_is_closed. Qed.

Theorem c06_export_call_sequences_behave_the_same :
  forall (op : Type) (step_op : op -> state -> option state) (n : nat) (M : module op)
           (names : list string) (st0 : state),
         (forall (o : op) (st st' : state),
          state_closed (reachable op (range n) M names st0) st ->
          step_op o st = Some st' -> state_closed (reachable op (range n) M names st0) st') ->
         (forall (f : N) (b : body op) (g : N),
          funcs op M f = Some b -> In g (body_refs op b) -> (g < N.of_nat n)%N) ->
         (forall g : N, In g (roots_of op M names st0) -> (g < N.of_nat n)%N) ->
         forall rho rho_inv : N -> N,
         (forall f : N, rho_inv (rho f) = f) ->
         (forall (o : op) (st : state),
          step_op o (rename_state rho st) = option_map (rename_state rho) (step_op o st)) ->
         forall (fuel : nat) (ns : list string),
         (forall nm : string, In nm ns -> In nm names) ->
         run_exports op step_op fuel
           (rename_module op rho rho_inv (restrict op (reachable op (range n) M names st0) M)) ns
           (rename_state rho st0) = rename_outcome rho (run_exports op step_op fuel M ns st0).
Proof. exact gc_reachable_exports_sequence. Qed.

Theorem c06_interface_holds_for_reference_moving_operators :
  forall (keep : N -> bool) (o : cop) (st st' : state),
         state_closed keep st -> cstep o st = Some st' -> state_closed keep st'.
Proof. exact cstep_closed. Qed.

Theorem c06_dropping_a_reachable_function_differs :
  exists (keep : N -> bool) (M : module cop) (f : N) (st : state),
           keep f = true /\
           state_closed keep st /\ run cop cstep 50 (restrict cop keep M) f st <> run cop cstep 50 M f st.
Proof. exact dropping_a_reachable_function_differs. Qed.



(* ================================================================== GC deletes unused passive data segments: invisible (Model/SemBulk.v) *)
From WV Require Import Model.SemCore Model.SemMod Model.Inst Model.SemBulk Proofs.SemBulk.
From WV Require Proofs.SemMod.
Section BulkGc.
Local Open Scope N_scope.
Theorem c06_dropping_unused_data_segments_preserves_behaviour :
  forall (E : benv) (q : N),
    (forall (id ti : N) (ls : list Ops.valty) (body : list ParseSpec.rt), me_funcs (be_menv E) id = Some (ti, ls, body) -> ~ List.In q (List.map (be_dslot E) (datas_used (Proofs.SemMod.live body)))) ->
    forall (k fuel : nat) (f : N) (args : list val) (s0 : st) (dr : list N), run_mod_b (without_data E q) k fuel f args s0 dr = run_mod_b E k fuel f args s0 dr.
Proof. exact dropping_unused_data_is_invisible. Qed.
End BulkGc.

Print Assumptions c06_reachable_kept.
Print Assumptions c06_closed.
Print Assumptions c06_roots_kept.
Print Assumptions c06_frame.
Print Assumptions c06_only_unused_deleted.
Print Assumptions c06_source_skeleton.
Print Assumptions c06_kept_entities_unchanged.
Print Assumptions c06_kept_function_unchanged.
Print Assumptions c06_reachable_submodule_identical.
Print Assumptions c06_exports_and_start_same_targets.
Print Assumptions c06_gc_declares_all_referenced.
Print Assumptions c06_gc_declares_all_referenced_wf.
Print Assumptions c06_sweep_alone_leaves_undeclared.
Print Assumptions c06_elements_after_gc.
Print Assumptions c06_dropping_unreachable_functions_preserves_behaviour.
Print Assumptions c06_gc_preserves_behaviour.
Print Assumptions c06_reachable_set_is_closed.
Print Assumptions c06_export_call_sequences_behave_the_same.
Print Assumptions c06_interface_holds_for_reference_moving_operators.
Print Assumptions c06_dropping_a_reachable_function_differs.
Print Assumptions c06_every_index_the_emitter_writes_is_a_visited_reference.
Print Assumptions c06_every_visited_reference_comes_from_an_index.
Print Assumptions c06_dropping_unused_data_segments_preserves_behaviour.
