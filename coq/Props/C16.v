(* C16 - IR traversals visit everything exactly once, in order, without recursion.
   Statements only. Model/Traversal.v = the explicit-stack machines of src/ir/traversals.rs;
   [events] = the obvious recursive in-order callback log of the tree an arena denotes;
   [visited_refs] / [visited_seqs_*] / [default_hook_*] are regenerated from src/ir/mod.rs
   and crates/macro on every run. *)
From Coq Require Import List NArith Bool Arith Permutation. Import ListNotations.
From WV Require Import Gen.Ops Model.Common Model.IR Model.Traversal Proofs.Traversal Proofs.C16L.
Local Open Scope nat_scope.

(* the iterative, explicit-stack dfs_in_order produces exactly the recursive in-order log,
   for every tree of any shape and depth, with enough fuel (fuel only bounds the loop) *)
Theorem c16_in_order : forall ov ar t f,
  Den ar t -> S (size t) <= f -> dfs_in_order ov f ar (tsid t) = Ok (events ov t).
Proof. exact dfs_in_order_fuel. Qed.

(* every instruction reachable from the start sequence exactly once, in program order *)
Theorem c16_instrs_once_in_order : forall ov t,
  flat_map (fun e => match e with EInstr i l => [(i, l)] | _ => [] end) (events ov t) = instrs_in_order t.
Proof. exact in_order_instrs. Qed.

(* sequence start events: each sequence once, in program order; start/end properly nested *)
Theorem c16_starts : forall ov t,
  flat_map (fun e => match e with EStart s => [s] | _ => [] end) (events ov t) = map tsid (subtrees t).
Proof. exact in_order_starts. Qed.
Theorem c16_nested : forall ov t, balanced (events ov t) [] = true.
Proof. exact in_order_balanced. Qed.

(* immutable traversal: every entity operand of every visited instruction exactly once
   (with default or overridden per-variant hooks) *)
Theorem c16_refs_once : forall ov t,
  flat_map (fun e => match e with ERef sp id => [(sp, id)] | _ => [] end) (events ov t)
  = flat_map (fun x => instr_refs (fst x)) (instrs_in_order t).
Proof. exact c16_refs_once_l. Qed.

(* mutable traversal: defined for every tree, visits exactly the sequences of the tree ... *)
Theorem c16_mut_total : forall ov ar t, Den ar t ->
  exists order, Permutation order (subtrees t) /\
    dfs_pre_order_mut ov (S (size t)) ar (tsid t) = Ok (flat_map (seq_events_mut ov) order).
Proof. exact c16_mut_total_l. Qed.

(* ... and reports every entity operand of every visited instruction exactly once *)
Theorem c16_mut_refs_once : forall ov order,
  flat_map (fun e => match e with ERef sp id => [(sp, id)] | _ => [] end) (flat_map (seq_events_mut ov) order)
  = flat_map (fun t => match t with T _ _ items _ => flat_map (fun x => instr_refs (shallow (fst x))) items end) order.
Proof. exact c16_mut_refs_once_l. Qed.

(* non-vacuity: a concrete arena satisfies Den *)
Example c16_nonvacuous :
  let inner := T 1%N (ST_Simple None) [(ItP (P_Call 3%N), 7%N); (ItBr 0%N, 8%N)] 9%N in
  let t := T 0%N (ST_Multi 2%N) [(ItB inner, 5%N); (ItP P_Drop, 6%N)] 10%N in
  Den [shallow_seq t; shallow_seq inner] t /\ dfs_in_order false 10 [shallow_seq t; shallow_seq inner] 0%N = Ok (events false t).
Proof. split; [cbn; repeat split; reflexivity|vm_compute; reflexivity]. Qed.

(* the SOURCE of the two drivers (regenerated list of the free functions each driver calls): neither calls itself, the other driver, or any free
   function at all - only methods of the visitor and of its explicit stack: no recursion on the call stack *)
From WV Require Gen.TraversalCalls Proofs.TraversalPinned.
Theorem c16_drivers_do_not_recurse : WV.Proofs.TraversalPinned.calls_nothing WV.Gen.TraversalCalls.traversal_calls.
Proof. exact WV.Proofs.TraversalPinned.traversal_drivers_call_nothing. Qed.

Print Assumptions c16_in_order.
Print Assumptions c16_instrs_once_in_order.
Print Assumptions c16_starts.
Print Assumptions c16_nested.
Print Assumptions c16_refs_once.
Print Assumptions c16_mut_total.
Print Assumptions c16_mut_refs_once.
Print Assumptions c16_drivers_do_not_recurse.
