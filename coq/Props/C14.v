(* C14 - configuration switches do exactly what they document. Statements only. *)
From Coq Require Import List NArith Bool. Import ListNotations.
From WV Require Import Gen.Ops Model.Common Model.IR Model.ModuleM Model.ParseM Model.EmitM Proofs.CustomsCfg.
Local Open Scope nat_scope.

(* disabling name generation removes exactly the name section and nothing else *)
Theorem c14_name : forall m ilen dw e,
  cf_skip_name (m_config m) = false -> emitM m ilen dw = Ok e ->
  (forall s, In s dw -> is_name_sec s = false) ->
  exists e', emitM (set_skip_name m true) ilen dw = Ok e' /\
             em_secs e' = filter (fun s => negb (is_name_sec s)) (em_secs e).
Proof. exact c14_name_switch. Qed.

(* disabling producers generation removes exactly the producers section and nothing else *)
Theorem c14_producers : forall m ilen dw e,
  cf_skip_producers (m_config m) = false -> emitM m ilen dw = Ok e ->
  (forall s, In s dw -> is_producers_sec s = false) ->
  exists e', emitM (set_skip_producers m true) ilen dw = Ok e' /\
             em_secs e' = filter (fun s => negb (is_producers_sec s)) (em_secs e).
Proof. exact c14_producers_switch. Qed.

(* walrus is recorded as processing tool exactly once, however often the module is round-tripped
   (the update is idempotent), and every other producers entry is preserved in order *)
Theorem c14_processed_by_once : forall p ver, field_names_distinct p -> walrus_entries p <= 1 ->
  walrus_entries (producers_field p s_processed_by s_walrus ver) = 1.
Proof. exact producers_once. Qed.
Theorem c14_processed_by_idempotent : forall p ver,
  producers_field (producers_field p s_processed_by s_walrus ver) s_processed_by s_walrus ver
  = producers_field p s_processed_by s_walrus ver.
Proof. exact producers_idempotent. Qed.
Theorem c14_other_fields_kept : forall p ver,
  strip_walrus (producers_field p s_processed_by s_walrus ver) = strip_walrus p.
Proof. exact producers_others_kept. Qed.

(* the parse callback runs exactly once on a successful parse (and the model invokes it nowhere else:
   it sits after every fallible step of parseM) *)
Theorem c14_callback : forall cf ver w s, parseM cf ver w = POk s -> ps_calls_on_parse s = 1%N.
Proof. exact parse_callback_once. Qed.

Example c14_nonvacuous :
  let p : wproducers := [([108]%N, [([114]%N, [49]%N)]); (s_processed_by, [([99]%N, [49]%N); (s_walrus, [48]%N)])] in
  field_names_distinct p /\ walrus_entries p <= 1.
Proof. split; [vm_compute; reflexivity|vm_compute; auto]. Qed.

(* the DWARF switch and all 2^3 combinations: [dw] = the sections the (unmodelled) DWARF emitter writes; with generation off
   the output does not depend on them and contains no debug section at all; with it on exactly [dw] is added at its place;
   the three switches factor: every combination is the all-on stream minus the sections of the switches that are off *)
From WV Require Import Proofs.Switches.
Theorem c14_dwarf_switch_off :
  forall (m : wir) (ilen : wins -> N) (dw : list wsec),
         cf_generate_dwarf (m_config m) = false -> emitM m ilen dw = emitM m ilen [].
Proof. exact dwarf_switch_off. Qed.

Theorem c14_dwarf_off_no_debug_section :
  forall (m : wir) (ilen : wins -> N) (dw : list wsec) (e : emitted),
         cf_generate_dwarf (m_config m) = false ->
         emitM m ilen dw = Ok e -> forall s : wsec, In s (em_secs e) -> is_debug_sec s = false.
Proof. exact dwarf_off_no_debug. Qed.

Theorem c14_dwarf_switch_on :
  forall (m : wir) (ilen : wins -> N) (dw : list wsec),
         cf_generate_dwarf (m_config m) = true ->
         (forall e0 : emitted,
          emitM m ilen [] = Ok e0 ->
          exists pre : list wsec,
            em_secs e0 = pre ++ sec_customs (m_customs m) /\
            emitM m ilen dw =
            Ok
              {|
                em_secs := pre ++ dw ++ sec_customs (m_customs m);
                em_module := em_module e0;
                em_x2i := em_x2i e0;
                em_fns := em_fns e0
              |}) /\
         (forall e : emitted, emitM m ilen dw = Ok e -> exists e0 : emitted, emitM m ilen [] = Ok e0).
Proof. exact dwarf_switch_on. Qed.

Theorem c14_all_switch_combinations :
  forall (m : wir) (ilen : wins -> N) (dw : list wsec) (e : emitted),
         emitM (set_switches m false false true) ilen dw = Ok e ->
         exists front nm pr cu : list wsec,
           em_secs e = front ++ nm ++ pr ++ dw ++ cu /\
           plain_secs front /\
           (nm = [] \/ (exists n : wnames, nm = [S_Custom (CS_Name (Some n))])) /\
           pr = producers_sec m /\
           cu = sec_customs (m_customs m) /\
           (forall sn sp gd : bool,
            exists e' : emitted,
              emitM (set_switches m sn sp gd) ilen dw = Ok e' /\
              em_secs e' =
              front ++ (if sn then [] else nm) ++ (if sp then [] else pr) ++ (if gd then dw else []) ++ cu /\
              em_x2i e' = em_x2i e /\ em_fns e' = em_fns e /\ em_module e' = set_switches m sn sp gd).
Proof. exact switches_factor. Qed.


(* ---- the setters themselves (Model/Config.v, run against the real ModuleConfig; source assignments pinned): the final value of
   a switch depends only on the calls of its own setter, in whatever order the setters are called; Clone keeps the switches *)
From WV Require Import Model.Config Gen.ConfigEmit Proofs.Config.
Theorem c14_name_switch_independent :
  forall (l : list setter) (c : mcfg),
         c_skip_names (run_setters c l) = c_skip_names (run_setters c (filter own_names l)).
Proof. exact switch_names_independent. Qed.

Theorem c14_producers_switch_independent :
  forall (l : list setter) (c : mcfg),
         c_skip_prod (run_setters c l) = c_skip_prod (run_setters c (filter own_prod l)).
Proof. exact switch_producers_independent. Qed.

Theorem c14_dwarf_switch_independent :
  forall (l : list setter) (c : mcfg),
         c_dwarf (run_setters c l) = c_dwarf (run_setters c (filter own_dwarf l)).
Proof. exact switch_dwarf_independent. Qed.

Theorem c14_preserve_switch_independent :
  forall (l : list setter) (c : mcfg),
         c_preserve (run_setters c l) = c_preserve (run_setters c (filter own_preserve l)).
Proof. exact switch_preserve_independent. Qed.

Theorem c14_synthetic_switch_independent :
  forall (l : list setter) (c : mcfg),
         c_synth (run_setters c l) = c_synth (run_setters c (filter own_synth l)).
Proof. exact switch_synth_independent. Qed.

Theorem c14_stable_switch_independent :
  forall (l : list setter) (c : mcfg),
         c_stable (run_setters c l) = c_stable (run_setters c (filter own_stable l)).
Proof. exact switch_stable_independent. Qed.

Theorem c14_name_switch_last_call :
  forall (l : list setter) (c : mcfg),
         c_skip_names (run_setters c l) = last_arg arg_names l (c_skip_names c).
Proof. exact switch_names_last_call. Qed.

Theorem c14_producers_switch_last_call :
  forall (l : list setter) (c : mcfg),
         c_skip_prod (run_setters c l) = last_arg arg_prod l (c_skip_prod c).
Proof. exact switch_producers_last_call. Qed.

Theorem c14_clone_keeps_switches :
  forall c : mcfg,
         firstn 7 (cfg_bits (apply_setter c SClone)) = firstn 7 (cfg_bits c) /\
         c_on_parse (apply_setter c SClone) = false /\ c_on_instr_loc (apply_setter c SClone) = false.
Proof. exact clone_keeps_switches. Qed.

Theorem c14_config_source_pinned :
  config_setters = expected_config_setters /\ emit_wasm_skeleton = expected_emit_wasm_skeleton.
Proof. exact config_source_pinned. Qed.


Print Assumptions c14_name.
Print Assumptions c14_producers.
Print Assumptions c14_processed_by_once.
Print Assumptions c14_processed_by_idempotent.
Print Assumptions c14_other_fields_kept.
Print Assumptions c14_callback.
Print Assumptions c14_dwarf_switch_off.
Print Assumptions c14_dwarf_off_no_debug_section.
Print Assumptions c14_dwarf_switch_on.
Print Assumptions c14_all_switch_combinations.
Print Assumptions c14_name_switch_independent.
Print Assumptions c14_producers_switch_independent.
Print Assumptions c14_dwarf_switch_independent.
Print Assumptions c14_preserve_switch_independent.
Print Assumptions c14_synthetic_switch_independent.
Print Assumptions c14_stable_switch_independent.
Print Assumptions c14_name_switch_last_call.
Print Assumptions c14_producers_switch_last_call.
Print Assumptions c14_clone_keeps_switches.
Print Assumptions c14_config_source_pinned.
