(* C14 - configuration switches do exactly what they document. Statements only. *)
From Coq Require Import List NArith Bool. Import ListNotations.
From WV Require Import Gen.Ops Model.Common Model.IR Model.ModuleM Model.ParseM Model.EmitM Proofs.CustomsCfg.
Local Open Scope nat_scope.

(* disabling name generation removes exactly the name section and nothing else *)
Theorem c14_name : forall m ilen dw e,
  cf_skip_name (m_config m) = false -> emitM m ilen dw = Ok e ->
  (forall s, In s dw -> is_name_sec s = false) ->
  exists e', emitM (set_skip_name m true) ilen dw = Ok e' /\
             em_secs e' = filter (fun s => negb (is_name_sec s)) (em_secs e).
Proof. exact c14_name_switch. Qed.

(* disabling producers generation removes exactly the producers section and nothing else *)
Theorem c14_producers : forall m ilen dw e,
  cf_skip_producers (m_config m) = false -> emitM m ilen dw = Ok e ->
  (forall s, In s dw -> is_producers_sec s = false) ->
  exists e', emitM (set_skip_producers m true) ilen dw = Ok e' /\
             em_secs e' = filter (fun s => negb (is_producers_sec s)) (em_secs e).
Proof. exact c14_producers_switch. Qed.

(* walrus is recorded as processing tool exactly once, however often the module is round-tripped
   (the update is idempotent), and every other producers entry is preserved in order *)
Theorem c14_processed_by_once : forall p ver, field_names_distinct p -> walrus_entries p <= 1 ->
  walrus_entries (producers_field p s_processed_by s_walrus ver) = 1.
Proof. exact producers_once. Qed.
Theorem c14_processed_by_idempotent : forall p ver,
  producers_field (producers_field p s_processed_by s_walrus ver) s_processed_by s_walrus ver
  = producers_field p s_processed_by s_walrus ver.
Proof. exact producers_idempotent. Qed.
Theorem c14_other_fields_kept : forall p ver,
  strip_walrus (producers_field p s_processed_by s_walrus ver) = strip_walrus p.
Proof. exact producers_others_kept. Qed.

(* the parse callback runs exactly once on a successful parse (and the model invokes it nowhere else:
   it sits after every fallible step of parseM) *)
Theorem c14_callback : forall cf ver w s, parseM cf ver w = POk s -> ps_calls_on_parse s = 1%N.
Proof. exact parse_callback_once. Qed.

Example c14_nonvacuous :
  let p : wproducers := [([108]%N, [([114]%N, [49]%N)]); (s_processed_by, [([99]%N, [49]%N); (s_walrus, [48]%N)])] in
  field_names_distinct p /\ walrus_entries p <= 1.
Proof. split; [vm_compute; reflexivity|vm_compute; auto]. Qed.

Print Assumptions c14_name.
Print Assumptions c14_producers.
Print Assumptions c14_processed_by_once.
Print Assumptions c14_processed_by_idempotent.
Print Assumptions c14_other_fields_kept.
Print Assumptions c14_callback.
