(* C03 - every instruction survives the round trip with exact opcode and immediates.
   Statements only.  Tables [decode_plain] / [encode_plain] / [map_idx] are
   REGENERATED from /repo on every run (Gen/Ops.v). *)
From Coq Require Import NArith ZArith List Bool. Import ListNotations.
From WV Require Import Gen.Ops Proofs.Codec.
Open Scope N_scope.

(* For every supported operator (one constructor of [wop] per arm of
   append_instruction), whatever the parse-time index->id maps [i2id] and the
   emit-time id->index maps [id2i] are: decoding then encoding yields the SAME
   operator with the SAME immediates (constants bit for bit, alignment exponent,
   offset, lanes, shuffle, heap/value types), every index immediate renamed by the
   composite renumbering rho = id2i o i2id of its own index space.
   [imm_ok] = what the validator guarantees; [known_big_offset] = the listed finding. *)
Theorem c03_codec : forall (i2id id2i rho : space -> N -> N),
  (forall s i, id2i s (i2id s i) = rho s i) ->
  forall o, imm_ok o -> ~ known_big_offset o -> rt_ok i2id id2i rho o.
Proof. exact codec_roundtrip. Qed.

(* the excluded class is inhabited and really fails: it is a finding, not a convenience *)
Theorem c03_big_offset_refuted :
  exists o, imm_ok o /\ known_big_offset o /\ ~ rt_ok (fun _ i => i) (fun _ i => i) (fun _ i => i) o.
Proof. exact big_offset_refuted. Qed.

Check codec_nonvacuous.
Print Assumptions c03_codec.
Print Assumptions c03_big_offset_refuted.
