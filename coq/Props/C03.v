(* C03 - every instruction survives the round trip with exact opcode and immediates.
   Statements only.  Tables [decode_plain] / [encode_plain] / [map_idx] / [marks_unreachable]
   are REGENERATED from /repo on every run (Gen/Ops.v); the control-stack parser
   (Model/ParseFn.v), the traversal (Model/Traversal.v) and the emitter (Model/EmitFn.v) are
   executable models tied to the code by the body-level correspondence run. *)
From Coq Require Import NArith ZArith List Bool. Import ListNotations.
From WV Require Import Gen.Ops Model.Common Model.IR Model.ParseFn Model.ParseSpec Model.Traversal
                       Model.EmitFn Model.EmitSpec Model.BodySpec Proofs.Codec Proofs.Body.
Open Scope N_scope.

(* (1) OPERATORS.  For every supported operator (one constructor of [wop] per arm of
   append_instruction), whatever the parse-time index->id maps [i2id] and the emit-time
   id->index maps [id2i] are: decoding then encoding yields the SAME operator with the SAME
   immediates (constants bit for bit, alignment exponent, offset, lanes, shuffle, heap/value
   types), every index immediate renamed by rho = id2i o i2id of its own index space.
   [imm_ok] = what the validator guarantees; [known_big_offset] = the listed finding. *)
Theorem c03_codec : forall (i2id id2i rho : space -> N -> N),
  (forall s i, id2i s (i2id s i) = rho s i) ->
  forall o, imm_ok o -> ~ known_big_offset o -> rt_ok i2id id2i rho o.
Proof. exact codec_roundtrip. Qed.

(* the excluded class is inhabited and really fails: it is a finding, not a convenience *)
Theorem c03_big_offset_refuted :
  exists o, imm_ok o /\ known_big_offset o /\ ~ rt_ok (fun _ i => i) (fun _ i => i) (fun _ i => i) o.
Proof. exact big_offset_refuted. Qed.

(* (2) BODIES.  For every well-bracketed body [l] (any nesting depth, any mix of live and dead
   code; [wfl] = what validation guarantees: branch depths in range, operators decodable, block
   types resolvable): parsing the operator stream and emitting the IR again yields exactly the
   declarative normal form [nf_body] (Model/BodySpec.v): nop dropped, each sequence cut after its
   first unconditional transfer, every `if` given an `else`, same nesting, branch depths UNCHANGED,
   block signatures in canonical form, each remaining operator = encode (decode o). No panic. *)
Theorem c03_body : forall cx ecx ety rs l eloc p0,
  wfl cx 1 l ->
  (forall o, decode_plain (px_i2id cx) o <> None -> encode_plain (ex_id2i ecx) (dec cx o) <> None) ->
  exists ar st fuel,
    parse_body cx ety rs (flat_list l ++ [(WEnd, eloc)]) = Ok ar /\
    emit_body ecx fuel ar 0 p0 = Ok st /\
    out st = map snd (nf_body cx ecx l eloc) /\
    imap st = tag_positions ecx p0 (nf_body cx ecx l eloc).
Proof. exact roundtrip_body. Qed.

(* (3) the operators of the normal form are the INPUT operators with renamed indices *)
Theorem c03_nf_op : forall (i2id id2i rho : space -> N -> N),
  (forall s i, id2i s (i2id s i) = rho s i) ->
  forall cx ecx o, px_i2id cx = i2id -> ex_id2i ecx = id2i -> imm_ok o -> ~ known_big_offset o ->
  nf_op cx ecx o = WOp (map_idx rho o).
Proof. exact nf_op_codec. Qed.

(* (4) nothing survives in dead position; no nop survives *)
Theorem c03_dead_dropped : forall cx ecx u l, u = true -> fst (nf_list cx ecx u l) = [].
Proof. exact nf_dead_dropped. Qed.
Theorem c03_no_nop : forall cx ecx u l,
  (forall o, encode_plain (ex_id2i ecx) (dec cx o) <> None) ->
  Forall (fun x => snd x <> WNop) (fst (nf_list cx ecx u l)).
Proof. exact nf_no_nop. Qed.

Check codec_nonvacuous.
(* non-vacuity of (2): a concrete body with dead code, an else-less if and nested branches is wfl *)
Example c03_body_nonvacuous :
  let cx := {| px_i2id := fun _ i => i; px_types := [([], [], false); ([VT_I32], [VT_I32], false)] |} in
  let ex := [RPlain (W_I32Const 1%Z) 10; RBlock BT_Empty [RBr 1 12; RPlain W_Drop 13; RBlock (BT_Val VT_I32) [RNop 15] 14 16] 11 17;
             RIf (BT_Func 1) [RBrIf 0 19] None 18 20; RPlain W_Drop 27] in
  wfl cx 1 ex.
Proof. cbn. repeat split; try discriminate; try (apply Nat.ltb_lt; reflexivity); auto. Qed.

(* (5) locals: the renumbering of locals done by emit_locals ("local compaction") is a bijection between the function's arguments
   and used locals and the emitted local indices that fixes the parameters, preserves the type at every slot, leaves no gap, and
   produces a canonical declaration (one run per type, in ValType order) *)
From WV Require Import Model.Locals Proofs.Order Proofs.Locals3.
From Coq Require Import Permutation Sorted.
Theorem c03_locals_renaming_consistent :
  forall (ty : N -> valty) (args used : list N) (decls : list (N * valty)) (lmap : list (N * N)),
         NoDup args ->
         emit_locals ty args used = (decls, lmap) ->
         let n := length (map ty args ++ expand decls) in
         (forall l : N, In l args \/ In l used -> exists j : N, lookup l lmap = Some j /\ j < N.of_nat n) /\
         (forall l j : N, lookup l lmap = Some j -> In l args \/ In l used) /\
         (forall l1 l2 j : N, lookup l1 lmap = Some j -> lookup l2 lmap = Some j -> l1 = l2) /\
         (forall j : N, j < N.of_nat n -> exists l : N, (In l args \/ In l used) /\ lookup l lmap = Some j) /\
         (forall (k : nat) (a : N), nth_error args k = Some a -> lookup a lmap = Some (N.of_nat k)) /\
         (forall l j : N,
          lookup l lmap = Some j -> nth_error (map ty args ++ expand decls) (N.to_nat j) = Some (ty l)).
Proof. exact locals_renaming_consistent. Qed.

Theorem c03_locals_params_fixed :
  forall (ty : N -> valty) (args used : list N) (decls : list (N * valty)) (lmap : list (N * N)),
         NoDup args ->
         emit_locals ty args used = (decls, lmap) ->
         forall (k : nat) (a : N), nth_error args k = Some a -> lookup a lmap = Some (N.of_nat k).
Proof. exact locals_params_fixed. Qed.

Theorem c03_locals_types_preserved :
  forall (ty : N -> valty) (args used : list N) (decls : list (N * valty)) (lmap : list (N * N)),
         emit_locals ty args used = (decls, lmap) ->
         forall l j : N,
         lookup l lmap = Some j -> nth_error (map ty args ++ expand decls) (N.to_nat j) = Some (ty l).
Proof. exact locals_types_preserved_all. Qed.

Theorem c03_locals_decls_canonical :
  forall (ty : N -> valty) (args used : list N) (decls : list (N * valty)) (lmap : list (N * N)),
         emit_locals ty args used = (decls, lmap) ->
         forall d : list N,
         NoDup d ->
         (forall x : N, In x d <-> In x used /\ ~ In x args) ->
         decls = canonical_decls (map ty d) /\
         StronglySorted decl_lt decls /\
         NoDup (map snd decls) /\
         Forall (fun dc : N * valty => fst dc <> 0) decls /\
         (forall (c : N) (t : valty), In (c, t) decls <-> c = N.of_nat (count_ty t (map ty d)) /\ c <> 0) /\
         (forall t : valty, In t (map snd decls) <-> (exists l : N, In l used /\ ~ In l args /\ ty l = t)).
Proof. exact locals_decls_canonical. Qed.



(* ================================================================== THE BYTES (Model/Bytes.v, Proofs/Bytes.v): the binary encoding of all 517 operators
   and the control instructions (opcode table generated from what wasmparser's reader accepts - translator/bytes), compared with the real
   bytes of every body of inputs and outputs by Run/BytesRun.v *)
From WV Require Import Model.Leb Model.Frame Model.Bytes Proofs.Bytes.
Section Bytes.
Local Open Scope N_scope.
Theorem c03_every_operator_has_an_encoding : (forall o : wop, covered o = true) /\ (forall o : wop, wf_op o = true -> exists bs : list N, enc_op o = Some bs).
Proof. split; [exact covered_all|exact enc_op_total]. Qed.
(* reading back what was written gives the instruction and the untouched rest: the encoding is prefix-free *)
Theorem c03_instruction_bytes_read_back :
  forall (i : wins) (bs rest : list N), enc_ins i = Some bs -> wf_imm i = true -> dec_ins (bs ++ rest) = Some (i, rest).
Proof. exact dec_enc_ins. Qed.
Theorem c03_instruction_encoding_prefix_free :
  forall (i j : wins) (a b r1 r2 : list N),
    enc_ins i = Some a -> enc_ins j = Some b -> wf_imm i = true -> wf_imm j = true -> (a ++ r1 = b ++ r2)%list -> i = j /\ r1 = r2.
Proof. exact enc_ins_prefix_free. Qed.
(* the range premise on immediates is needed (an immediate beyond what LEB128 u32 / s32 / s64 / u64 carries does not read back) *)
Theorem c03_immediate_ranges_are_needed : exists (i : wins) (bs : list N), enc_ins i = Some bs /\ wf_imm i = false /\ dec_ins bs <> Some (i, nil).
Proof. exact wf_imm_needed. Qed.
Theorem c03_body_bytes_read_back :
  forall (locals : list (N * valty)) (ops : list wins) (bs : list N),
    enc_body locals ops = Some bs -> wf_body locals ops = true -> forall fuel : nat, (length ops <= fuel)%nat -> dec_body fuel bs = Some (locals, ops).
Proof. exact dec_enc_body. Qed.
(* whatever the reader accepts (padded LEB128 included) can be written, and the written form is not longer *)
Theorem c03_reader_output_is_writable_and_minimal :
  forall (f : nat) (bs : list N) (ls : list (N * valty)) (ops : list wins),
    dec_body f bs = Some (ls, ops) ->
    exists c : list N, enc_body ls ops = Some c /\ (wf_body ls ops = true -> dec_body (length c) c = Some (ls, ops) /\ (length c <= length bs)%nat).
Proof.
  intros f bs ls ops H. destruct (dec_body_normal_form f bs ls ops H) as (c & Hc & Hr). exists c. split; [exact Hc|].
  intro W. split; [exact (Hr W)|exact (dec_body_minimal f bs ls ops c H W Hc)].
Qed.
Theorem c03_code_section_bytes_read_back :
  forall (bodies : list fbody) (bytess : list (list N)) (payload : list N),
    enc_bodies bodies = Some bytess -> Forall Frame.small bytess -> lenN bytess < 2 ^ 126 ->
    forallb (fun b : list (N * valty) * list wins => wf_body (fst b) (snd b)) bodies = true ->
    enc_code bodies = Some payload -> dec_code payload = Some bodies.
Proof. exact dec_code_section. Qed.
Example c03_body_bytes_example : enc_body ex_locals ex_ops = Some ex_bytes.
Proof. exact ex_enc. Qed.
End Bytes.

Print Assumptions c03_codec.
Print Assumptions c03_big_offset_refuted.
Print Assumptions c03_body.
Print Assumptions c03_nf_op.
Print Assumptions c03_dead_dropped.
Print Assumptions c03_no_nop.
Print Assumptions c03_locals_renaming_consistent.
Print Assumptions c03_locals_params_fixed.
Print Assumptions c03_locals_types_preserved.
Print Assumptions c03_locals_decls_canonical.
Print Assumptions c03_every_operator_has_an_encoding.
Print Assumptions c03_instruction_bytes_read_back.
Print Assumptions c03_instruction_encoding_prefix_free.
Print Assumptions c03_immediate_ranges_are_needed.
Print Assumptions c03_body_bytes_read_back.
Print Assumptions c03_reader_output_is_writable_and_minimal.
Print Assumptions c03_code_section_bytes_read_back.
