(* Correspondence entry point for the BULK-MEMORY layer (Model/SemBulk.v, C01 / C06): the modules of Run/InstRun.v plus passive data
   segments interleaved with the active ones and function bodies that contain memory.init / data.drop / memory.copy / memory.fill
   sequences (operands in bounds, at the exact end, one past it, n = 0 at and past the boundary, overlapping copies in both
   directions, memory.init after data.drop and of ACTIVE segments).  node instantiates the module and calls every exported function on
   a fresh instance; [check_bulk] runs [instantiate_b] on the same module and [run_mod_b] FROM THE STATE, THE ENVIRONMENT AND THE
   DROPPED LIST [instantiate_b] RETURNED.  Identity slot maps.  Same codes as Run/InstRun.v. *)
From Coq Require Import NArith ZArith List Bool. Import ListNotations.
From WV Require Import Gen.Ops Model.Common Model.IR Model.ParseFn Model.ParseSpec Model.Sem Model.SemCore Model.SemMod Model.Inst Model.SemBulk.
From WV Require Import Run.SemCoreRun Run.InstRun.
Open Scope N_scope.

Record bulkcase := {
  bc_tys : list (list valty * list valty);
  bc_funcs : list (N * list valty * list rt);
  bc_globals : list (valty * bool * cexpr);
  bc_mem : option (N * option N);
  bc_table : option (N * option N);
  bc_elems : list eseg;
  bc_datas : list dseg;
  bc_start : option N;
  (* ---- observed *)
  bc_ok : bool;
  bc_gobs : list (N * N);
  bc_memsum : N; bc_pages : N;
  bc_tbl : list (option N);
  bc_g0 : N; bc_g1 : N;
  bc_calls : list (N * list Z * cres * N * N * N * N)
}.

Definition imod_of_b (c : bulkcase) : imod :=
  {| im_tys := bc_tys c; im_funcs := bc_funcs c; im_globals := bc_globals c; im_mem := bc_mem c; im_table := bc_table c;
     im_elems := bc_elems c; im_datas := bc_datas c; im_start := bc_start c |}.
Definition inst_of_b (c : bulkcase) : inst_result_b := instantiate_b inst_fuel inst_depth (imod_of_b c) (fun _ => idN) idN idN idN idN idN.

(* a call after instantiation: 0 = agreement; 71 .. 76 as in [check_inst_call] *)
Definition check_bulk_call (c : bulkcase) (E : benv) (s0 : st) (dr : list N) (call : N * list Z * cres * N * N * N * N) : N :=
  let '(f, args, expect, g0, g1, msum, pgs) := call in
  let M := be_menv E in
  match me_funcs M f with
  | None => 75
  | Some (ti, _, _) =>
      match me_tys M ti with
      | None => 75
      | Some (ps, _) =>
          let vargs := map (fun p => arg_of (fst p) (snd p)) (combine ps args) in
          let side (s : st) : N :=
            if negb ((glob_bits s (bc_g0 c) =? g0) && (glob_bits s (bc_g1 c) =? g1)) then 72
            else if negb (memsum (mem s) =? msum) then 73
            else if negb (pages s =? pgs) then 74 else 0 in
          match run_mod_b E inst_depth inst_fuel f vargs s0 dr with
          | None => 76
          | Some (Fall (s, _)) => match expect with CROk ws => if nl_eqb (map bits (rev (stk s))) ws then side s else 71 | CRTrap => 71 end
          | Some (Stop Trap (s, _)) => match expect with CRTrap => side s | CROk _ => 71 end
          | Some _ => 75
          end
      end
  end.

(* 0 = agreement; 81 the verdict differs; 82 globals after instantiation differ; 83 memory checksum differs; 84 pages differ;
   85 table contents differ; 86 went wrong; 87 exhausted; 71 .. 76 a call afterwards *)
Definition check_bulk (c : bulkcase) : N :=
  match inst_of_b c with
  | IWrongB => 86
  | IExhaustedB => 87
  | ITrapB => if bc_ok c then 81 else 0
  | IOkB E s0 dr =>
      if negb (bc_ok c) then 81
      else if negb (forallb (fun p => glob_bits s0 (fst p) =? snd p) (bc_gobs c)) then 82
      else if negb (memsum (mem s0) =? bc_memsum c) then 83
      else if negb (pages s0 =? bc_pages c) then 84
      else if negb (optl_eqb (me_tbl (be_menv E)) (bc_tbl c)) then 85
      else fold_left (fun acc call => if acc =? 0 then check_bulk_call c E s0 dr call else acc) (bc_calls c) 0
  end.
