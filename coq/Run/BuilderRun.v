(* Correspondence entry point for C15: the harness prints the builder calls it issued on the
   real FunctionBuilder, the IR that resulted (public API) and the emitted body; [check_builder]
   replays the calls on Model/Builder.v and the emission on Model/EmitFn.v. *)
From Coq Require Import NArith ZArith List Bool. Import ListNotations.
From WV Require Import Gen.Ops Model.Common Model.IR Model.Traversal Model.EmitFn Model.Locals Model.Builder Run.BodyRun.
Open Scope N_scope.

Record kcase := {
  kc_entry_ty : N;
  kc_prog : list bop;
  kc_ir : list (N * iseq);
  kc_id2i : list (space * list (N * N));
  kc_args : list N;
  kc_local_tys : list (N * valty);
  kc_out_locals : list (N * valty);
  kc_out : list wins
}.

Definition check_builder (c : kcase) : N :=
  match run_builder (kc_entry_ty c) (kc_prog c) with
  | Ok ar =>
      if negb (forallb (fun p => match nth_error ar (N.to_nat (fst p)) with
                                 | Some q => nlist_eqb (iseq_code q) (iseq_code (snd p))
                                 | None => false end) (kc_ir c)) then 1
      else
      let fuel := S (length ar + length ar) in
      match dfs_in_order false fuel ar 0 with
      | Ok evs =>
          let '(decls, lmap) := emit_locals (local_ty_of (kc_local_tys c)) (kc_args c) (used_of_log evs) in
          if negb (codes_eqb (map (fun d => [fst d; valty_code (snd d)]) decls)
                             (map (fun d => [fst d; valty_code (snd d)]) (kc_out_locals c))) then 4
          else
          let ecx := {| ex_id2i := id2i_of (kc_id2i c) lmap; ex_ilen := fun _ => 1 |} in
          match emit_body ecx fuel ar 0 0 with
          | Ok st => if codes_eqb (map wins_code (out st)) (map wins_code (kc_out c)) then 0 else 5
          | _ => 15
          end
      | _ => 12
      end
  | _ => 11
  end.
