(* Correspondence entry point for the validator of the integer / memory core (Model/TypeCore.v, C02 / C05 / C20): the harness
   generates bodies over the core operators - valid ones and type-broken ones - asks wasmparser's validator for its verdict, and
   [check_tcase] runs the Coq checker on the same body in the same environment and compares the verdicts.
   Result codes: 0 = agree; 61 = the validator accepts, the checker rejects; 62 = the validator rejects, the checker accepts. *)
From Coq Require Import NArith ZArith List Bool. Import ListNotations.
From WV Require Import Gen.Ops Model.Common Model.IR Model.ParseFn Model.ParseSpec Model.Sem Model.Typing Model.TypeCore.
Open Scope N_scope.

Record tcase := {
  tc_env : tenv;
  tc_body : list rt;
  tc_verdict : bool      (* what wasmparser's validator said *)
}.

Definition check_tcase (c : tcase) : N :=
  if Bool.eqb (check_body (tc_env c) (tc_body c)) (tc_verdict c) then 0
  else if tc_verdict c then 61      (* validator accepts, checker rejects *)
  else 62.                          (* validator rejects, checker accepts *)

(* the first disagreement of a batch *)
Definition check_tcases (cs : list tcase) : N :=
  fold_left (fun acc c => if acc =? 0 then check_tcase c else acc) cs 0.

(* the round trip on an accepted body: the checker must also accept the emitted (normal-form) body
   (Proofs/TypeCore.v [check_body_nf]); 63 = it does not *)
Definition check_tcase_nf (c : tcase) : N :=
  if check_body (tc_env c) (tc_body c) then
    if check_body (tc_env c) (fst (nf_rt_list false (tc_body c))) then 0 else 63
  else 0.

(* ------------------------------------------------------------------ self test *)
Module SelfTest.
  Definition env : tenv :=
    {| te_locals := [VT_I32; VT_I64];
       te_globals := [(VT_I32, true); (VT_I64, false)];
       te_tys := [([VT_I32; VT_I32], [VT_I32; VT_I32]); ([], [])];
       te_results := [VT_I32];
       te_has_mem := true |}.
  Definition good : list rt :=
    [RLoop BT_Empty [RPlain (W_LocalGet 0) 1; RBrIf 0 2] 0 3; RPlain (W_I32Const 1) 4; RPlain W_Return 5; RPlain W_I32Add 6].
  Definition bad : list rt := [RPlain (W_I32Const 1) 0; RPlain (W_I64Const 2) 1; RPlain W_I32Add 2].
  Example agree :
    check_tcases [ {| tc_env := env; tc_body := good; tc_verdict := true |};
                   {| tc_env := env; tc_body := bad; tc_verdict := false |} ] = 0.
  Proof. vm_compute. reflexivity. Qed.
  Example code61 : check_tcase {| tc_env := env; tc_body := bad; tc_verdict := true |} = 61.
  Proof. vm_compute. reflexivity. Qed.
  Example code62 : check_tcase {| tc_env := env; tc_body := good; tc_verdict := false |} = 62.
  Proof. vm_compute. reflexivity. Qed.
  Example nf_ok : check_tcase_nf {| tc_env := env; tc_body := good; tc_verdict := true |} = 0.
  Proof. vm_compute. reflexivity. Qed.
End SelfTest.
