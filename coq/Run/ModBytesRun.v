(* Correspondence entry point for the byte-level model of whole modules (Model/ModBytes.v): cases printed by `vh modbytes`.
   A case = (is this walrus's OUTPUT?, the bytes of the module, the section stream src/wmodcoq.rs prints for them, with positions).
     every case : [dec_wmod true] of the bytes is the harness's term (after CS_Debug n _ -> CS_Debug n []: the harness prints no
                  DWARF payloads), and [dec_wmod false] is the same term with all positions 0;
     outputs    : [enc_wmod] of the term reproduces the bytes exactly (wasm-encoder is canonical), unless a .debug* section is
                  present (its payload is not in the term). *)
From Coq Require Import NArith ZArith List Bool. Import ListNotations.
From WV Require Import Gen.Ops Model.Common Model.IR Model.Leb Model.Frame Model.Bytes Model.ModuleM Model.ModBytes Run.ModuleRun.
Open Scope N_scope.

Definition norm_sec (s : wsec) : wsec := match s with S_Custom (CS_Debug n _) => S_Custom (CS_Debug n []) | _ => s end.
Definition zero_sec (s : wsec) : wsec :=
  match s with
  | S_Code l => S_Code (map (fun b => {| wb_locals := wb_locals b; wb_ops := map (fun p => (fst p, 0)) (wb_ops b) |}) l)
  | _ => s
  end.
(* [c_sec] of Run/ModuleRun.v is injective up to operator positions and DWARF payloads; positions are compared here *)
Definition sec_positions (s : wsec) : list N :=
  match s with S_Code l => flat_map (fun b => lenB (wb_ops b) :: map snd (wb_ops b)) l | _ => [] end.
Definition sec_eqb (a b : wsec) : bool := IR.nlist_eqb (c_sec a) (c_sec b) && IR.nlist_eqb (sec_positions a) (sec_positions b).
Fixpoint wmod_eqb (a b : wmod) : bool :=
  match a, b with [], [] => true | x :: a', y :: b' => sec_eqb x y && wmod_eqb a' b' | _, _ => false end.

(* outside the model: operators [enc_ins] refuses (ref.null of another heap type), constant expressions of any other shape *)
Definition ins_ok (i : wins) : bool := match enc_ins i with Some _ => true | None => false end.
Definition const_ok (c : wconst) : bool := match c with WC_Other => false | _ => true end.
Definition elem_consts (e : welem) : list wconst :=
  (match wel_kind e with WEK_Active _ o => [o] | _ => [] end) ++ (match wel_items e with WEI_Exprs _ es => es | _ => [] end).
Definition sec_ops_ok (s : wsec) : bool :=
  match s with S_Code l => forallb (fun b => forallb (fun p => ins_ok (fst p)) (wb_ops b)) l | _ => true end.
Definition sec_consts_ok (s : wsec) : bool :=
  match s with
  | S_Globals l => forallb (fun g => const_ok (snd g)) l
  | S_Elems l => forallb (fun e => forallb const_ok (elem_consts e)) l
  | S_Data l => forallb (fun d => match wd_kind d with WDK_Active _ o => const_ok o | _ => true end) l
  | _ => true
  end.
Definition has_debug (s : wsec) : bool := match s with S_Custom (CS_Debug _ _) => true | _ => false end.

(* 0 ok; 101 the reader gives another stream; 102 the reader fails; 103 the writer's bytes differ from walrus's; 104 the writer
   fails; 105 the stream contains something outside the model (skipped: the reader is still required to agree when the only
   such thing is a WC_Other constant, which the reader produces itself) *)
Definition check_modbytes (c : bool * list N * wmod) : N :=
  let '(is_out, bytes, w) := c in
  if negb (forallb sec_ops_ok w) then 105
  else match dec_wmod true bytes, dec_wmod false bytes with
       | Some w1, Some w0 =>
           if negb (wmod_eqb (map norm_sec w1) w) then 101
           else if negb (wmod_eqb (map norm_sec w0) (map zero_sec w)) then 101
           else if negb (forallb sec_consts_ok w) then 105
           else if is_out && negb (existsb has_debug w) then
             match enc_wmod w with
             | Some bs => if IR.nlist_eqb bs bytes then 0 else 103
             | None => 104
             end
           else 0
       | _, _ => 102
       end.

(* for the report *)
Definition sec_kind (s : wsec) : N :=
  match s with
  | S_Custom (CS_Raw _ _) => 0 | S_Types _ => 1 | S_Imports _ => 2 | S_Funcs _ => 3 | S_Tables _ => 4 | S_Mems _ => 5 | S_Globals _ => 6
  | S_Exports _ => 7 | S_Start _ => 8 | S_Elems _ => 9 | S_Code _ => 10 | S_Data _ => 11 | S_DataCount _ => 12
  | S_Custom (CS_Debug _ _) => 13 | S_Custom (CS_Name (Some _)) => 14 | S_Custom (CS_Name None) => 15
  | S_Custom (CS_Producers (Some _)) => 16 | S_Custom (CS_Producers None) => 17
  end.
Definition case_kinds (c : bool * list N * wmod) : list N := map sec_kind (snd c).
(* is the input written canonically (the model's writer reproduces it)? *)
Definition case_canonical (c : bool * list N * wmod) : N :=
  let '(_, bytes, w) := c in match enc_wmod w with Some bs => if IR.nlist_eqb bs bytes then 1 else 0 | None => 2 end.
