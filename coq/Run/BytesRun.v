(* Correspondence entry point for the byte-level model of function bodies (Model/Bytes.v): cases printed by `vh bytes`.
   A case is one function body: the declared local groups and the operators as wasmparser reads them, the bytes of the body,
   and the offset of every operator relative to the start of the body.
     BIn  : a body of an input module (padded LEB128 is legal there: only the decoding direction is required, the encoding
            direction and the offsets are checked when the model's bytes happen to be the input's);
     BOut : a body of walrus's output (written by wasm-encoder: both directions and the offsets). *)
From Coq Require Import NArith ZArith List Bool. Import ListNotations.
From WV Require Import Gen.Ops Model.IR Model.Leb Model.Bytes.
Open Scope N_scope.

Inductive bcase :=
  | BIn (locals : list (N * valty)) (ops : list wins) (bytes : list N) (offs : list N)
  | BOut (locals : list (N * valty)) (ops : list wins) (bytes : list N) (offs : list N).

Fixpoint locals_eqb (a b : list (N * valty)) : bool :=
  match a, b with
  | [], [] => true
  | (n, t) :: a', (m, u) :: b' => (n =? m) && (valty_code t =? valty_code u) && locals_eqb a' b'
  | _, _ => false
  end.
Fixpoint winss_eqb (a b : list wins) : bool :=
  match a, b with
  | [], [] => true
  | x :: a', y :: b' => wins_eqb x y && winss_eqb a' b'
  | _, _ => false
  end.

Definition all_covered (ops : list wins) : bool := forallb (fun i => match enc_ins i with Some _ => true | None => false end) ops.
Definition decodes (locals : list (N * valty)) (ops : list wins) (bytes : list N) : bool :=
  match dec_body (length bytes) bytes with
  | Some (l, o) => locals_eqb l locals && winss_eqb o ops
  | None => false
  end.
Definition encodes (locals : list (N * valty)) (ops : list wins) (bytes : list N) : bool :=
  match enc_body locals ops with Some bs => nlist_eqb bs bytes | None => false end.
(* the reader's own positions (input side: these are the InstrLocIds) *)
Definition read_positions_agree (bytes : list N) (offs : list N) : bool :=
  match dec_body_at (length bytes) bytes with Some (_, l) => nlist_eqb (map snd l) offs | None => false end.
Definition lengths_agree (locals : list (N * valty)) (ops : list wins) (offs : list N) : bool :=
  match ins_offsets (lenB (enc_locals locals)) ops with Some l => nlist_eqb l offs | None => false end.

(* 0 ok; 91 encoding differs; 92 decoding differs; 93 operator outside the covered subset; 94 an instruction length differs
   (writer side: [ilen_model] against the real offsets; reader side: the bytes [dec_ins] consumes against the real offsets);
   95 an immediate of a real body is outside the ranges the theorems of Proofs/Bytes.v assume ([wf_body]) *)
Definition check_bytes (c : bcase) : N :=
  match c with
  | BIn locals ops bytes offs =>
      if negb (all_covered ops) then 93
      else if negb (decodes locals ops bytes) then 92
      else if negb (read_positions_agree bytes offs) then 94
      else if encodes locals ops bytes && negb (lengths_agree locals ops offs) then 94
      else if negb (wf_body locals ops) then 95
      else 0
  | BOut locals ops bytes offs =>
      if negb (all_covered ops) then 93
      else if negb (lengths_agree locals ops offs) then 94
      else if negb (encodes locals ops bytes) then 91
      else if negb (decodes locals ops bytes) then 92
      else if negb (read_positions_agree bytes offs) then 94
      else if negb (wf_body locals ops) then 95
      else 0
  end.
(* for the report: how many instructions a case has, and whether the input was minimally encoded *)
Definition case_size (c : bcase) : N := match c with BIn _ ops _ _ | BOut _ ops _ _ => lenB ops end.
Definition case_minimal (c : bcase) : bool := match c with BIn l ops b _ | BOut l ops b _ => encodes l ops b end.
