(* Correspondence entry point for the concrete integer-core semantics (Model/SemCore.v, C01): the harness generates functions over
   the core operators (with real counter-bounded loops, branches taken with surplus values on the stack, br_table, return, traps,
   dead code, nops, loads / stores / memory.size / memory.grow on one memory), node executes them on fresh instances, and
   [check_core] runs the Coq interpreter on the same body, arguments, initial globals and (zeroed) memory of [cc_pages] pages,
   and compares the results (bit patterns), the trap verdict, the final globals, a checksum of the final memory and its size. *)
From Coq Require Import NArith ZArith List Bool. Import ListNotations.
From WV Require Import Gen.Ops Model.Common Model.IR Model.ParseFn Model.ParseSpec Model.Sem Model.SemCore.
Open Scope N_scope.

Inductive cres := CROk (vals : list N) | CRTrap.
Record corecase := {
  cc_tys : list (list valty * list valty);      (* the type section: 0 = the function itself, then the block types *)
  cc_params : list valty;
  cc_locals : list valty;
  cc_results : list valty;
  cc_g0 : Z; cc_g1 : Z;                         (* initial values of the i32 / i64 global *)
  cc_pages : N; cc_maxpages : N;                (* the memory: initial size, and the size memory.grow may reach (both in pages) *)
  cc_body : list rt;
  cc_calls : list (list Z * cres * N * N * N * N)
     (* arguments; observed result; observed final g0, g1 (bit patterns); observed [memsum] of the final memory; observed final size in pages *)
}.

Definition zero_of (t : valty) : val := match t with VT_I64 => VI64 0 | _ => VI32 0 end.
Definition arg_of (t : valty) (z : Z) : val := match t with VT_I64 => VI64 (z64 z) | _ => VI32 (z32 z) end.
Fixpoint number {A} (k : N) (l : list A) : list (N * A) := match l with [] => [] | x :: r => (k, x) :: number (k + 1) r end.
Definition bits (v : val) : N := match v with VI32 n => n | VI64 n => n end.
Definition ty_ok (t : valty) (v : val) : bool := match t, v with VT_I32, VI32 _ => true | VT_I64, VI64 _ => true | _, _ => false end.
Fixpoint nl_eqb (a b : list N) : bool := match a, b with [], [] => true | x :: a', y :: b' => (x =? y) && nl_eqb a' b' | _, _ => false end.

Definition idN (i : N) : N := i.
Definition results_of (c : corecase) (s : st) : option (list N) :=
  let n := length (cc_results c) in
  let top := rev (firstn n (stk s)) in
  if (Nat.eqb (length top) n) && forallb (fun p => ty_ok (fst p) (snd p)) (combine (cc_results c) top) then Some (map bits top) else None.
Definition glob_bits (s : st) (k : N) : N := match alookup k (globs s) with Some v => bits v | None => 0 end.

(* checksum of a memory: (sum over the non-zero bytes of byte * (1 + address mod 251)) mod 2^32.  The byte map of the machine
   starts empty and is only changed by [mset], so every address occurs at most once. *)
Definition memsum (m : list (N * N)) : N :=
  fold_left (fun acc p => (acc + (snd p mod 256) * (1 + fst p mod 251)) mod 4294967296) m 0.
Definition init_st (c : corecase) (args : list Z) : st :=
  {| stk := []; locs := number 0 (map (fun p => arg_of (fst p) (snd p)) (combine (cc_params c) args) ++ map zero_of (cc_locals c));
     globs := [(0, VI32 (z32 (cc_g0 c))); (1, VI64 (z64 (cc_g1 c)))]; labs := [];
     mem := []; pages := cc_pages c; max_pages := cc_maxpages c |}.

(* 0 = agreement; 41 result / trap verdict differs; 42 globals differ; 43 stuck; 44 result shape; 45 out of fuel;
   46 memory differs; 47 memory size differs; 48 the interpreter went wrong (a failure no validated body reaches: Proofs/TypeSafety.v) *)
Definition check_call (c : corecase) (call : list Z * cres * N * N * N * N) : N :=
  let '(args, expect, g0, g1, msum, pgs) := call in
  let tys := fun i => nth_error (cc_tys c) (N.to_nat i) in
  let s0 := init_st c args in
  let side (s : st) : N :=
    if negb ((glob_bits s 0 =? g0) && (glob_bits s 1 =? g1)) then 42
    else if negb (memsum (mem s) =? msum) then 46
    else if negb (pages s =? pgs) then 47 else 0 in
  let fin (s : st) (r : option (list N)) :=
    match r, expect with
    | Some vs, CROk ws => if negb (nl_eqb vs ws) then 41 else side s
    | None, CRTrap => side s
    | _, _ => 41
    end in
  match run_core idN idN idN tys 4000 (cc_body c) s0 with
  | Fall s => match results_of c s with Some vs => fin s (Some vs) | None => 44 end
  | Br _ s => match results_of c s with Some vs => fin s (Some vs) | None => 44 end
  | Stop Return s => match results_of c s with Some vs => fin s (Some vs) | None => 44 end
  | Stop Trap s => fin s None
  | Stop Wrong s => 48
  | Stuck => 43
  | Fuel => 45
  end.

Definition check_core (c : corecase) : N :=
  fold_left (fun acc call => if acc =? 0 then check_call c call else acc) (cc_calls c) 0.

(* the same comparison (memory ignored) on the machine WITHOUT label records (unwind = identity): used only to measure how many of the generated cases
   take a branch with surplus values on the stack, i.e. would expose an inexact treatment of labels *)
Definition check_call_lax (c : corecase) (call : list Z * cres * N * N * N * N) : N :=
  let '(args, expect, g0, g1, _, _) := call in
  let tys := fun i => nth_error (cc_tys c) (N.to_nat i) in
  let s0 := init_st c args in
  let same (s : st) (r : option (list N)) :=
    match r, expect with
    | Some vs, CROk ws => if nl_eqb vs ws && (glob_bits s 0 =? g0) && (glob_bits s 1 =? g1) then 0 else 1
    | None, CRTrap => if (glob_bits s 0 =? g0) && (glob_bits s 1 =? g1) then 0 else 1
    | _, _ => 1
    end in
  match run_core_lax idN idN idN tys 4000 (cc_body c) s0 with
  | Fall s | Br _ s | Stop Return s => same s (results_of c s)
  | Stop Trap s => same s None
  | _ => 1
  end.
Definition check_core_lax (c : corecase) : N :=
  fold_left (fun acc call => if acc =? 0 then check_call_lax c call else acc) (cc_calls c) 0.
