(* Correspondence entry point for the LEB128 model (Model/Leb.v): the harness encodes values with wasm-encoder and reads the
   bytes back with wasmparser; [check_leb] compares both with the model and with the length functions the layout models use. *)
From Coq Require Import NArith ZArith List Bool. Import ListNotations.
From WV Require Import Model.Common Model.Leb Model.CodeMap Model.Dwarf.
Open Scope N_scope.

Inductive lebcase :=
  | LebU (n : N) (bytes : list N) (read_back : option N)
  | LebS (z : Z) (bytes : list N) (read_back : option Z).

Fixpoint nlist_eqb (a b : list N) : bool :=
  match a, b with [], [] => true | x :: a', y :: b' => (x =? y) && nlist_eqb a' b' | _, _ => false end.

Definition check_leb (c : lebcase) : N :=
  match c with
  | LebU n bs rb =>
      if negb (nlist_eqb (enc_u n) bs) then 31
      else match dec_u bs, rb with
           | Some (v, []), Some v' => if negb ((v =? n) && (v' =? n)) then 32
                                      else if negb (leb_len n =? N.of_nat (length bs)) then 33
                                      else if (n <? 4294967296) && negb (leb5 n =? N.of_nat (length bs)) then 34 else 0
           | _, _ => 32
           end
  | LebS z bs rb =>
      if negb (nlist_eqb (enc_s z) bs) then 35
      else match dec_s bs, rb with
           | Some (v, []), Some v' => if (v =? z)%Z && (v' =? z)%Z then 0 else 36
           | _, _ => 36
           end
  end.
