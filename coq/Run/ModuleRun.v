(* Correspondence entry points at module level: the harness prints the input payload stream
   (decoded with wasmparser only), the configuration, and the payload stream of what real walrus
   emitted (decoded the same way); the checks replay parse -> [gc] -> emit on the models. *)
From Coq Require Import NArith ZArith List Bool. Import ListNotations.
From WV Require Import Gen.Ops Model.Common Model.IR Model.Arena Model.ModuleM Model.ParseM Model.EmitM Model.GC.
Open Scope N_scope.

(* ---- serialisation of payload streams, for comparison by computation ---- *)
Definition c_list {A} (f : A -> list N) (l : list A) : list N := N.of_nat (length l) :: flat_map f l.
Definition c_opt {A} (f : A -> list N) (o : option A) : list N := match o with Some x => 1 :: f x | None => [0] end.
Definition c_bool (b : bool) : list N := [if b then 1 else 0].
Definition c_str (s : str) : list N := c_list (fun x => [x]) s.
Definition c_n (n : N) : list N := [n].
Definition c_vt (t : valty) : list N := [valty_code t].
Definition c_const (c : wconst) : list N :=
  match c with
  | WC_I32 z => [0; z_code z] | WC_I64 z => [1; z_code z] | WC_F32 b => [2; b] | WC_F64 b => [3; b] | WC_V128 b => [4; b]
  | WC_GlobalGet i => [5; i] | WC_RefNull t => [6; refty_code t] | WC_RefFunc i => [7; i] | WC_Other => [8]
  end.
Definition c_table (t : wtable) := refty_code (wt_elem t) :: c_bool (wt_64 t) ++ [wt_init t] ++ c_opt c_n (wt_max t).
Definition c_mem (m : wmem) := c_bool (wm_64 m) ++ c_bool (wm_shared m) ++ [wm_init m] ++ c_opt c_n (wm_max m) ++ c_opt c_n (wm_page m).
Definition c_gty (g : wglobalty) := c_vt (wg_ty g) ++ c_bool (wg_mut g) ++ c_bool (wg_shared g).
Definition c_import (i : wimport) := c_str (wi_module i) ++ c_str (wi_name i) ++
  match wi_kind i with WI_Func t => [0; t] | WI_Table t => 1 :: c_table t | WI_Mem m => 2 :: c_mem m | WI_Global g => 3 :: c_gty g end.
Definition c_ekind (k : ekind) : N := match k with EK_Func => 0 | EK_Table => 1 | EK_Mem => 2 | EK_Global => 3 end.
Definition c_export (e : wexport) := c_str (we_name e) ++ [c_ekind (we_kind e); we_index e].
Definition c_elem (e : welem) :=
  (match wel_kind e with WEK_Passive => [0] | WEK_Declared => [1] | WEK_Active t o => 2 :: c_opt c_n t ++ c_const o end) ++
  (match wel_items e with WEI_Funcs fs => 0 :: c_list c_n fs | WEI_Exprs t es => 1 :: refty_code t :: c_list c_const es end).
Definition c_data (d : wdata) :=
  (match wd_kind d with WDK_Passive => [0] | WDK_Active m o => 1 :: m :: c_const o end) ++ c_list c_n (wd_bytes d).
(* positions of operators are compared separately (they need the encoder's lengths) *)
Definition c_body (b : wbody) := c_list (fun p => fst p :: c_vt (snd p)) (wb_locals b) ++ c_list (fun p => c_list c_n (wins_code (fst p))) (wb_ops b).
Definition c_nm (l : namemap) := c_list (fun p => fst p :: c_str (snd p)) l.
Definition c_names (n : wnames) :=
  c_opt c_str (wn_module n) ++ c_nm (wn_funcs n) ++ c_list (fun p => fst p :: c_nm (snd p)) (wn_locals n) ++ c_nm (wn_types n) ++
  c_nm (wn_tables n) ++ c_nm (wn_mems n) ++ c_nm (wn_globals n) ++ c_nm (wn_elems n) ++ c_nm (wn_data n).
Definition c_prod (p : wproducers) := c_list (fun f => c_str (fst f) ++ c_list (fun v => c_str (fst v) ++ c_str (snd v)) (snd f)) p.
Definition c_custom (c : wcsec) :=
  match c with
  | CS_Raw n d => 0 :: c_str n ++ c_list c_n d
  | CS_Debug n _ => 1 :: c_str n              (* DWARF payloads are gimli's: only the inventory is compared here *)
  | CS_Name n => 2 :: c_opt c_names n
  | CS_Producers p => 3 :: c_opt c_prod p
  end.
Definition c_sec (s : wsec) : list N :=
  match s with
  | S_Types ts => 1 :: c_list (fun t => c_list c_vt (fst t) ++ c_list c_vt (snd t)) ts
  | S_Imports l => 2 :: c_list c_import l
  | S_Funcs l => 3 :: c_list c_n l
  | S_Tables l => 4 :: c_list c_table l
  | S_Mems l => 5 :: c_list c_mem l
  | S_Globals l => 6 :: c_list (fun g => c_gty (fst g) ++ c_const (snd g)) l
  | S_Exports l => 7 :: c_list c_export l
  | S_Start f => [8; f]
  | S_Elems l => 9 :: c_list c_elem l
  | S_DataCount n => [12; n]
  | S_Code l => 10 :: c_list c_body l
  | S_Data l => 11 :: c_list c_data l
  | S_Custom c => 0 :: c_custom c
  end.

(* wasm-encoder's ElementSection::segment: an active segment with table = None is written in the MVP
   form only when its items are function indices or funcref expressions; otherwise it is written in
   the explicit-table form with index 0 (which the decoder reports as Some 0) *)
Definition wire_elem (e : welem) : welem :=
  match wel_kind e, wel_items e with
  | WEK_Active None o, WEI_Exprs RT_Externref _ => {| wel_kind := WEK_Active (Some 0) o; wel_items := wel_items e |}
  | _, _ => e
  end.
Definition wire_sec (s : wsec) : wsec := match s with S_Elems l => S_Elems (map wire_elem l) | _ => s end.

(* index (1-based) of the first section that differs, 0 when equal *)
Fixpoint first_sec_diff (n : N) (a b : list wsec) : N :=
  match a, b with
  | [], [] => 0
  | x :: a', y :: b' => if nlist_eqb (c_sec x) (c_sec y) then first_sec_diff (n + 1) a' b' else n + 1
  | _, _ => n + 1
  end.

Definition ilen1 : wins -> N := fun _ => 1.

Inductive mres := MOk (secs : list wsec) | MErr | MPanic.
Definition roundtrip (cf : config) (ver : str) (w : wmod) (do_gc : bool) (dwarf : list wsec) : mres :=
  match parseM cf ver w with
  | POk s =>
      match (if do_gc then gc (ps_m s) else Ok (ps_m s)) with
      | Ok m => match emitM m ilen1 dwarf with Ok e => MOk (em_secs e) | _ => MPanic end
      | _ => MPanic
      end
  | PErr => MErr
  | PPanic => MPanic
  end.

(* observed: 0 = walrus produced [out]; 1 = parse returned an error; 2 = panic *)
Record mcase := { mc_cf : config; mc_ver : str; mc_in : wmod; mc_gc : bool; mc_dwarf : list wsec; mc_obs : N; mc_out : list wsec }.
Definition check_module (c : mcase) : N :=
  match roundtrip (mc_cf c) (mc_ver c) (mc_in c) (mc_gc c) (mc_dwarf c), mc_obs c with
  | MOk secs, 0 => match first_sec_diff 0 (map wire_sec secs) (mc_out c) with 0 => 0 | k => 100 + k end
  | MErr, 1 => 0
  | MPanic, 2 => 0
  | MOk _, _ => 1 | MErr, _ => 2 | MPanic, _ => 3
  end.

(* ---------------------------------------------------------------- function replacement edits (C18) *)
From WV Require Import Model.Builder Model.Edit.

Record ecase := {
  ec_cf : config; ec_ver : str; ec_in : wmod;
  ec_kind : N;                 (* 1 = replace_imported_func, 2 = replace_exported_func *)
  ec_func : N;                 (* function INDEX in the input *)
  ec_use_args : bool;          (* the body first reads every argument local *)
  ec_prog : list bop;          (* the rest of the replacement body *)
  ec_obs : N;                  (* 0 = emitted [ec_out]; 1 = the edit returned an error; 2 = panic *)
  ec_out : list wsec }.

Definition edit_body (use_args : bool) (prog : list bop) (args : list N) : list bop :=
  (if use_args then flat_map (fun a => [BInstr (IPlain (P_LocalGet a)); BInstr (IPlain P_Drop)]) args else []) ++ prog.

Definition check_edit (c : ecase) : N :=
  match parseM (ec_cf c) (ec_ver c) (ec_in c) with
  | POk s =>
      match nth_N (ii_funcs (ps_ids s)) (ec_func c) with
      | None => 9
      | Some fid =>
          let r := match ec_kind c with
                   | 1 => replace_imported_func (ps_m s) fid (edit_body (ec_use_args c) (ec_prog c))
                   | _ => match replace_exported_func (ps_m s) fid (edit_body (ec_use_args c) (ec_prog c)) with
                          | POk p => POk (fst p) | PErr => PErr | PPanic => PPanic end
                   end in
          match r, ec_obs c with
          | POk m, 0 => match emitM m ilen1 [] with
                        | Ok e => match first_sec_diff 0 (map wire_sec (em_secs e)) (ec_out c) with 0 => 0 | k => 100 + k end
                        | _ => 3 end
          | PErr, 1 => 0
          | PPanic, 2 => 0
          | POk _, _ => 1 | PErr, _ => 2 | PPanic, _ => 4
          end
      end
  | _ => 8
  end.
