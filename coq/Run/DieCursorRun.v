(* Correspondence entry point for C10 (DIE cursor): the harness builds gimli units of random shape, asks the real cursor
   (hook verif_hooks::die_cursor_order) for its visiting order and [check_cursor] replays the shape on Model/DieCursor.v. *)
From Coq Require Import List NArith Bool. Import ListNotations.
From WV Require Import Model.DieCursor.
Record kcase := { k_tree : dtree; k_seen : list N }.
Fixpoint ns_eqb (a b : list N) : bool := match a, b with [], [] => true | x :: a', y :: b' => N.eqb x y && ns_eqb a' b' | _, _ => false end.
Definition check_cursor (k : kcase) : N := if ns_eqb (visit_all (k_tree k)) (k_seen k) then 0%N else 61%N.
