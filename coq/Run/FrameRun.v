(* Correspondence entry point for the framing model (Model/Frame.v): cases printed by `vh frame`. *)
From Coq Require Import NArith ZArith List Bool. Import ListNotations.
From WV Require Import Model.Common Model.Leb Model.Frame.
Open Scope N_scope.

Inductive fcase :=
  | FIn (bytes : list N) (secs : list (N * list N))       (* an input module and the sections wasmparser's reader sees *)
  | FOut (bytes : list N) (secs : list (N * list N))      (* walrus's output: also the writer *)
  | FCustom (payload name data : list N)                  (* payload of an uninterpreted custom section; what walrus keeps after parsing *)
  | FCode (payload : list N) (bodies : list (N * N)).     (* code section payload of the output; (start, length) of every body per wasmparser *)

Fixpoint secs_eqb (a b : list (N * list N)) : bool :=
  match a, b with
  | [], [] => true
  | (i, p) :: a', (j, q) :: b' => (i =? j) && nlist_eqb p q && secs_eqb a' b'
  | _, _ => false
  end.
Fixpoint pairs_eqb (a b : list (N * N)) : bool :=
  match a, b with
  | [], [] => true
  | (i, p) :: a', (j, q) :: b' => (i =? j) && (p =? q) && pairs_eqb a' b'
  | _, _ => false
  end.

Definition check_frame (c : fcase) : N :=
  match c with
  | FIn bytes secs => match unframe_module bytes with Some l => if secs_eqb l secs then 0 else 51 | None => 52 end
  | FOut bytes secs =>
      match unframe_module bytes with
      | Some l => if negb (secs_eqb l secs) then 51 else if nlist_eqb (frame_module secs) bytes then 0 else 53
      | None => 52
      end
  | FCustom payload name data =>
      match split_custom payload with
      | Some (n, d) => if nlist_eqb n name && nlist_eqb d data then 0 else 54
      | None => 55
      end
  | FCode payload bodies =>
      match split_code payload with
      | Some l =>
          if negb (pairs_eqb (map (fun p => (snd (fst p), lenN (snd p))) (combine (code_entry_offsets l) l)) bodies) then 56
          else if nlist_eqb (code_payload l) payload then 0 else 57
      | None => 58
      end
  end.
