(* Correspondence entry point for the per-operator enumerator (C03):
   case = (input operator, what the real round trip produced in live position,
   what it produced in dead position).  Returns 0 iff the translated tables
   predict exactly that. *)
From Coq Require Import NArith ZArith List Bool. Import ListNotations.
From WV Require Import Gen.Ops Model.IR.
Open Scope N_scope.

Definition idmap : space -> N -> N := fun _ i => i.

Definition model_live (i : wins) : option wins :=
  match i with
  | WOp o => match decode_plain idmap o with
             | Some p => match encode_plain idmap p with Some o' => Some (WOp o') | None => None end
             | None => None
             end
  | _ => None
  end.

Definition opt_wins_eqb (a b : option wins) : bool :=
  match a, b with Some x, Some y => wins_eqb x y | None, None => true | _, _ => false end.

Definition check_op_case (c : wins * option wins * option wins) : N :=
  let '(i, live, dead) := c in
  if negb (opt_wins_eqb (model_live i) live) then 1
  else match dead with None => 0 | Some _ => 2 end.   (* dead code is elided by the parser model *)
