(* Correspondence entry point at function-body level (C03 structure, C15, C16, C01/C11 inputs):
   the harness prints, for one function of a real module, the input operators, the maps walrus
   used, the IR it built (public API), both traversal logs, and the emitted body; [check_body]
   replays everything on the models and returns 0 or the number of the first stage that differs. *)
From Coq Require Import NArith ZArith List Bool. Import ListNotations.
From WV Require Import Gen.Ops Model.Common Model.IR Model.Traversal Model.ParseFn Model.EmitFn Model.Locals.
Open Scope N_scope.

Record bcase := {
  bc_i2id : list (space * list N);          (* parse-time: per space, index -> id (position = index); S_local: this function *)
  bc_types : list (list valty * list valty * bool);
  bc_entry_ty : N;
  bc_results : list valty;
  bc_ops : list (wins * N);                 (* input operators with their InstrLocIds, final `end` included *)
  bc_ir : list (N * iseq);                  (* observed: reachable sequences by arena index *)
  bc_log : list ev;                         (* observed: dfs_in_order with default per-variant hooks *)
  bc_mlog : list ev;                        (* observed: dfs_pre_order_mut with default per-variant hooks *)
  bc_log_ov : list ev;                      (* observed: dfs_in_order, visitor overriding EVERY per-variant hook (payloads of EInstr/EHook not recorded) *)
  bc_mlog_ov : list ev;                     (* observed: dfs_pre_order_mut, likewise *)
  bc_id2i : list (space * list (N * N));    (* emit-time: per space, id -> index *)
  bc_args : list N;
  bc_local_tys : list (N * valty);
  bc_out_locals : list (N * valty);         (* observed: locals declaration of the emitted body *)
  bc_out : list wins                        (* observed: emitted operators, final `end` included *)
}.

Definition space_code (s : space) : N :=
  match s with S_func => 0 | S_type => 1 | S_table => 2 | S_memory => 3 | S_global => 4 | S_data => 5 | S_elem => 6 | S_local => 7 end.
Definition space_eqb a b := N.eqb (space_code a) (space_code b).

Definition lookup_space {X} (m : list (space * X)) (s : space) : option X :=
  match find (fun p => space_eqb (fst p) s) m with Some p => Some (snd p) | None => None end.

Definition sentinel : N := 4294967295.
Definition i2id_of (m : list (space * list N)) : space -> N -> N :=
  fun s i => match lookup_space m s with Some l => nth (N.to_nat i) l sentinel | None => sentinel end.
Definition assoc_N (l : list (N * N)) (k : N) : N :=
  match find (fun p => N.eqb (fst p) k) l with Some p => snd p | None => sentinel end.
Definition id2i_of (m : list (space * list (N * N))) (locals : list (N * N)) : space -> N -> N :=
  fun s i => match s with
             | S_local => assoc_N locals i
             | _ => match lookup_space m s with Some l => assoc_N l i | None => sentinel end
             end.

Definition instr_code (i : instr) : list N :=
  match i with
  | IPlain p => 0 :: plain_code p
  | IBlock s => [1; s] | ILoop s => [2; s] | IIfElse c a => [3; c; a]
  | IBr s => [4; s] | IBrIf s => [5; s] | IBrTable ss d => 6 :: d :: N.of_nat (length ss) :: ss
  end.
Definition seqty_code (t : seqty) : list N :=
  match t with ST_Simple None => [0] | ST_Simple (Some v) => [1; valty_code v] | ST_Multi ty => [2; ty] end.
Definition iseq_code (q : iseq) : list N :=
  seqty_code (sq_ty q) ++ [sq_end q; N.of_nat (length (sq_instrs q))] ++
  flat_map (fun x => N.of_nat (length (instr_code (fst x))) :: instr_code (fst x) ++ [snd x]) (sq_instrs q).
Definition ev_code (e : ev) : list N :=
  match e with
  | EStart s => [0; s] | ESeqType t => [1; t]
  | EInstr i l => 2 :: l :: instr_code i
  | EHook i => 3 :: instr_code i
  | ERef sp id => [4; space_code sp; id] | ESeqRef s => [5; s] | EEnd s => [6; s]
  end.
Fixpoint codes_eqb (a b : list (list N)) : bool :=
  match a, b with
  | [], [] => true
  | x :: a', y :: b' => nlist_eqb x y && codes_eqb a' b'
  | _, _ => false
  end.
Definition not_hook (e : ev) : bool := match e with EHook _ => false | _ => true end.
(* for the hook-overriding recorders: instruction payloads are not recorded *)
Definition ev_code_ov (e : ev) : list N := match e with EInstr _ _ => [2] | EHook _ => [3] | _ => ev_code e end.

Definition local_ty_of (m : list (N * valty)) (id : N) : valty :=
  match find (fun p => N.eqb (fst p) id) m with Some p => snd p | None => VT_I32 end.

Definition check_body (c : bcase) : N :=
  let cx := {| px_i2id := i2id_of (bc_i2id c); px_types := bc_types c |} in
  match parse_body cx (bc_entry_ty c) (bc_results c) (bc_ops c) with
  | Ok ar =>
      if negb (forallb (fun p => match nth_error ar (N.to_nat (fst p)) with
                                 | Some q => nlist_eqb (iseq_code q) (iseq_code (snd p))
                                 | None => false end) (bc_ir c)) then 1
      else
      let fuel := S (length ar + length ar) in
      match dfs_in_order false fuel ar 0 with
      | Ok evs =>
          if negb (codes_eqb (map ev_code (filter not_hook evs)) (map ev_code (bc_log c))) then 2
          else
          match dfs_pre_order_mut false fuel ar 0 with
          | Ok mevs =>
              if negb (codes_eqb (map ev_code (filter not_hook mevs)) (map ev_code (bc_mlog c))) then 3
              else if negb (match dfs_in_order true fuel ar 0 with Ok e2 => codes_eqb (map ev_code_ov e2) (map ev_code_ov (bc_log_ov c)) | _ => false end) then 6
              else if negb (match dfs_pre_order_mut true fuel ar 0 with Ok e2 => codes_eqb (map ev_code_ov e2) (map ev_code_ov (bc_mlog_ov c)) | _ => false end) then 7
              else
              let '(decls, lmap) := emit_locals (local_ty_of (bc_local_tys c)) (bc_args c) (used_of_log evs) in
              if negb (codes_eqb (map (fun d => [fst d; valty_code (snd d)]) decls)
                                 (map (fun d => [fst d; valty_code (snd d)]) (bc_out_locals c))) then 4
              else
              let ecx := {| ex_id2i := id2i_of (bc_id2i c) lmap; ex_ilen := fun _ => 1 |} in
              match emit_body ecx fuel ar 0 0 with
              | Ok st => if codes_eqb (map wins_code (out st)) (map wins_code (bc_out c)) then 0 else 5
              | _ => 15
              end
          | _ => 13
          end
      | _ => 12
      end
  | _ => 11
  end.
