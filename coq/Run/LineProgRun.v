(* Correspondence entry point for C10 (line program rewriting): the harness decodes the input line program into the
   instruction stream walrus iterates over, records the tables of the very emission (as for [check_dwarf]) and reads
   the emitted program back with gimli; [check_lines] replays the stream on Model/LineProg.v over Model/Dwarf.v's
   convert_address and compares the rows. *)
From Coq Require Import NArith List Bool. Import ListNotations.
From WV Require Import Model.Common Model.Dwarf Model.LineProg.
Open Scope N_scope.

Record lcase := {
  lc_instrs : list (N * N);
  lc_ranges : list ((N * N) * N);
  lc_imap : list (N * N);
  lc_franges : list (N * (N * N));
  lc_start : N;
  lc_prog : list lin;
  lc_out : list (N * N * bool);          (* rows read back from the output: (address, line (0 on end rows), end_sequence) *)
  lc_subs : list ((N * N) * (N * N))     (* per subprogram DIE: input (low_pc, high_pc offset), output (low_pc, high_pc offset) as read back *)
}.

Definition row_eqb (a b : N * N * bool) : bool := (fst (fst a) =? fst (fst b)) && (snd (fst a) =? snd (fst b)) && Bool.eqb (snd a) (snd b).
Fixpoint rows_eqb (a b : list (N * N * bool)) : bool :=
  match a, b with [], [] => true | x :: a', y :: b' => row_eqb x y && rows_eqb a' b' | _, _ => false end.

(* 0 = agree; 41 = the model reports Err where walrus emitted; 42 = rows differ; 43 = writer assertions / open sequence;
   44 = a subprogram's (low_pc, high_pc) differs from convert_subprogram *)
Definition check_lines (c : lcase) : N :=
  let t := {| dt_instrs := lc_instrs c; dt_ranges := lc_ranges c |} in
  let ct := {| ct_imap := lc_imap c; ct_franges := lc_franges c; ct_start := lc_start c |} in
  match lrun (convert_address t ct) lst0 (lc_prog c) with
  | None => 41
  | Some (s, evs) =>
      if negb (writer_ok false 0 evs) || l_in s then 43
      else if negb (rows_eqb (rows_of 0 evs) (lc_out c)) then 42
      else if forallb (fun p => let '(lo, hi) := convert_subprogram t ct (fst (fst p)) (snd (fst p)) in (lo =? fst (snd p)) && (hi =? snd (snd p))) (lc_subs c) then 0 else 44
  end.
