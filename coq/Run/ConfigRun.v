(* Correspondence entry point for C14 (configuration switches): the harness calls the real setters / clone in the given
   order and reads the fields out of the Debug output; [check_cfg] replays the sequence on Model/Config.v. *)
From Coq Require Import List Bool NArith. Import ListNotations.
From WV Require Import Model.Config.
Record ccase := { cc_calls : list setter; cc_seen : list bool }.
Fixpoint bits_eqb (a b : list bool) : bool := match a, b with [], [] => true | x :: a', y :: b' => Bool.eqb x y && bits_eqb a' b' | _, _ => false end.
Definition check_cfg (c : ccase) : N := if bits_eqb (cfg_bits (run_setters cfg0 (cc_calls c))) (cc_seen c) then 0%N else 51%N.
