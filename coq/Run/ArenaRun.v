(* Evaluation entry points for the C17 correspondence check: the harness prints
   the operation history it ran on the real collection together with what it
   observed; [check_case] re-runs the history on the model and returns 0 when
   every step agrees, or (index of the first differing step + 1). *)
From Coq Require Import List NArith Bool Arith.
Import ListNotations.
From WV Require Import Model.Arena.

Definition item := list N.

Fixpoint item_eqb (a b : item) : bool :=
  match a, b with
  | [], [] => true
  | x :: a', y :: b' => N.eqb x y && item_eqb a' b'
  | _, _ => false
  end.

(* Tombstone::on_delete per collection.  Kind 0 = ModuleTypes (an ArenaSet; item
   = flag :: #params :: params ++ results): params and results are cleared.
   Kind 1 = ModuleExports (item = itemkind :: itemid :: name bytes): name cleared.
   Other kinds keep their scalar fields (they only drop owned sets/bodies, which
   are not part of the encoded item). *)
Definition on_delete_kind (k : N) (x : item) : item :=
  match k with
  | 0%N => match x with f :: _ => [f; 0%N] | [] => [] end
  | 1%N => match x with a :: b :: _ => [a; b] | _ => x end
  | _ => x
  end.

Definition opt_eqb {X} (e : X -> X -> bool) (a b : option X) : bool :=
  match a, b with Some x, Some y => e x y | None, None => true | _, _ => false end.

Fixpoint list_eqb {X} (e : X -> X -> bool) (a b : list X) : bool :=
  match a, b with
  | [], [] => true
  | x :: a', y :: b' => e x y && list_eqb e a' b'
  | _, _ => false
  end.

Definition out_eqb (a b : out item) : bool :=
  match a, b with
  | RId x, RId y => Nat.eqb x y
  | RUnit, RUnit => true
  | RPanic, RPanic => true
  | ROpt x, ROpt y => opt_eqb item_eqb x y
  | RBool x, RBool y => Bool.eqb x y
  | RList x, RList y => list_eqb (fun p q => Nat.eqb (fst p) (fst q) && item_eqb (snd p) (snd q)) x y
  | RLen x, RLen y => Nat.eqb x y
  | RFind x, RFind y => opt_eqb Nat.eqb x y
  | _, _ => false
  end.

Fixpoint first_diff (n : N) (a b : list (out item)) : N :=
  match a, b with
  | [], [] => 0
  | x :: a', y :: b' => if out_eqb x y then first_diff (n + 1) a' b' else (n + 1)
  | _, _ => (n + 1)
  end%N.

Definition model_outs (k : N) (ops : list (op item)) : list (out item) :=
  match k with
  | 0%N => snd (srun (on_delete_kind k) item_eqb aset_empty ops)
  | _ => snd (run (on_delete_kind k) item_eqb empty ops)
  end.

Definition check_case (c : N * list (op item) * list (out item)) : N :=
  let '(k, ops, obs) := c in first_diff 0 (model_outs k ops) obs.
