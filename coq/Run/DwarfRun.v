(* Correspondence entry point for C10 (address classifier / converter): the harness reads the tables out of the real
   module, calls the hooks (verif_hooks::find_address) on probe addresses, and [check_dwarf] replays them on Model/Dwarf.v. *)
From Coq Require Import NArith List Bool. Import ListNotations.
From WV Require Import Model.Common Model.Dwarf.
Open Scope N_scope.

Record dcase := {
  dc_instrs : list (N * N);
  dc_ranges : list ((N * N) * N);
  dc_imap : list (N * N);
  dc_franges : list (N * (N * N));
  dc_probes : list (N * bool * (N * N * N))     (* (address, inclusive, (class, payload, offset)) as observed *)
}.

Definition code_of (x : caddr) : N * N * N :=
  match x with CInstr l => (0, l, 0) | CEdge l => (1, l, 0) | COffset f o => (2, f, o) | CFnEdge f => (3, f, 0) | CBodyStart f => (5, f, 0) | CUnknown => (4, 0, 0) end.
Definition triple_eqb (a b : N * N * N) : bool := (fst (fst a) =? fst (fst b)) && (snd (fst a) =? snd (fst b)) && (snd a =? snd b).

Definition check_dwarf (c : dcase) : N :=
  let t := {| dt_instrs := dc_instrs c; dt_ranges := dc_ranges c |} in
  if forallb (fun p => triple_eqb (code_of (find_address t (fst (fst p)) (snd (fst p)))) (snd p)) (dc_probes c) then 0 else 31.
