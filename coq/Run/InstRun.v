(* Correspondence entry point for INSTANTIATION (Model/Inst.v, C01): the harness generates modules with global initialisers
   (constants, global.get of an imported global), a table and a memory, active / passive / declared element segments and active /
   passive data segments (offsets in and out of range), sometimes a start function (which may trap); node instantiates them and
   records success or failure and, on success, the exported globals, a checksum of the memory, its size and for every table slot
   the index of the function held there; [check_inst] runs [instantiate] on the same module and compares.  Then, as in
   Run/SemModRun.v, exported functions are called on fresh instances and [run_mod] is run FROM THE STATE AND THE ENVIRONMENT
   [instantiate] RETURNED.  Identity slot maps.  An imported global = an entry of [ic_globals] with the constant node supplies. *)
From Coq Require Import NArith ZArith List Bool. Import ListNotations.
From WV Require Import Gen.Ops Model.Common Model.IR Model.ParseFn Model.ParseSpec Model.Sem Model.SemCore Model.SemMod Model.Inst.
From WV Require Import Run.SemCoreRun.
Open Scope N_scope.

Record instcase := {
  ic_tys : list (list valty * list valty);
  ic_funcs : list (N * list valty * list rt);
  ic_globals : list (valty * bool * cexpr);
  ic_mem : option (N * option N);
  ic_table : option (N * option N);
  ic_elems : list eseg;
  ic_datas : list dseg;
  ic_start : option N;
  (* ---- observed *)
  ic_ok : bool;                                  (* instantiation succeeded (false: RuntimeError at instantiation) *)
  ic_gobs : list (N * N);                        (* global index, bit pattern after instantiation *)
  ic_memsum : N; ic_pages : N;
  ic_tbl : list (option N);                      (* per slot: the index of the function held there *)
  ic_g0 : N; ic_g1 : N;                          (* the indices of the two globals the calls report *)
  ic_calls : list (N * list Z * cres * N * N * N * N)   (* as [mc_calls] of Run/SemModRun.v *)
}.

Definition imod_of (c : instcase) : imod :=
  {| im_tys := ic_tys c; im_funcs := ic_funcs c; im_globals := ic_globals c; im_mem := ic_mem c; im_table := ic_table c;
     im_elems := ic_elems c; im_datas := ic_datas c; im_start := ic_start c |}.
Definition inst_depth : nat := 64.
Definition inst_fuel : nat := 4000.
Definition inst_of (c : instcase) : inst_result := instantiate inst_fuel inst_depth (imod_of c) (fun _ => idN) idN idN idN idN.

Definition optN_eqb (a b : option N) : bool :=
  match a, b with Some x, Some y => x =? y | None, None => true | _, _ => false end.
Fixpoint optl_eqb (a b : list (option N)) : bool :=
  match a, b with [] , [] => true | x :: a', y :: b' => optN_eqb x y && optl_eqb a' b' | _, _ => false end.

(* a call after instantiation: 0 = agreement; 71 .. 76 as in [check_mod_call] *)
Definition check_inst_call (c : instcase) (E : menv) (s0 : st) (call : N * list Z * cres * N * N * N * N) : N :=
  let '(f, args, expect, g0, g1, msum, pgs) := call in
  match me_funcs E f with
  | None => 75
  | Some (ti, _, _) =>
      match me_tys E ti with
      | None => 75
      | Some (ps, _) =>
          let vargs := map (fun p => arg_of (fst p) (snd p)) (combine ps args) in
          let side (s : st) : N :=
            if negb ((glob_bits s (ic_g0 c) =? g0) && (glob_bits s (ic_g1 c) =? g1)) then 72
            else if negb (memsum (mem s) =? msum) then 73
            else if negb (pages s =? pgs) then 74 else 0 in
          match run_mod E inst_depth inst_fuel f vargs s0 with
          | None => 76
          | Some (Fall s) => match expect with CROk ws => if nl_eqb (map bits (rev (stk s))) ws then side s else 71 | CRTrap => 71 end
          | Some (Stop Trap s) => match expect with CRTrap => side s | CROk _ => 71 end
          | Some _ => 75
          end
      end
  end.

(* 0 = agreement; 81 the verdict differs (instantiation succeeded / failed); 82 globals after instantiation differ; 83 memory
   checksum differs; 84 pages differ; 85 table contents differ; 86 went wrong; 87 exhausted; 71 .. 76 a call afterwards *)
Definition check_inst (c : instcase) : N :=
  match inst_of c with
  | IWrong => 86
  | IExhausted => 87
  | ITrap => if ic_ok c then 81 else 0
  | IOk E s0 =>
      if negb (ic_ok c) then 81
      else if negb (forallb (fun p => glob_bits s0 (fst p) =? snd p) (ic_gobs c)) then 82
      else if negb (memsum (mem s0) =? ic_memsum c) then 83
      else if negb (pages s0 =? ic_pages c) then 84
      else if negb (optl_eqb (me_tbl E) (ic_tbl c)) then 85
      else fold_left (fun acc call => if acc =? 0 then check_inst_call c E s0 call else acc) (ic_calls c) 0
  end.
