(* Correspondence entry point for C11: the harness runs real walrus with preserve_code_transform and a
   custom section recording the CodeTransform; [check_ct] replays parse + emit on the models and compares. *)
From Coq Require Import NArith ZArith List Bool. Import ListNotations.
From WV Require Import Gen.Ops Model.Common Model.IR Model.ModuleM Model.ParseM Model.EmitM Model.GC Model.CodeMap Run.BodyRun Run.ModuleRun.
Open Scope N_scope.

Record ctcase := {
  ct_ver : str;
  ct_in : wmod;                               (* with operator positions = InstrLocIds *)
  ct_gc : bool;                               (* passes::gc::run before emitting *)
  ct_edits : list (N * N * N);                (* (function id, sequence id, position): marker instructions inserted there *)
  ct_obs_pairs : list (N * (N * N));          (* (loc, (k-th emitted function, ordinal of the operator at the reported offset)) *)
  ct_first : N;                               (* offset of the first code entry in the output *)
  ct_sizes : list N;                          (* body sizes of the emitted entries *)
  ct_obs_ranges : list (N * (N * N));         (* (function id, (start, end)) as reported *)
  ct_obs_start : N
}.

Definition pair_eqb (a b : N * (N * N)) : bool := (fst a =? fst b) && (fst (snd a) =? fst (snd b)) && (snd (snd a) =? snd (snd b)).
Fixpoint list_eqb {A} (e : A -> A -> bool) (a b : list A) : bool :=
  match a, b with [], [] => true | x :: a', y :: b' => e x y && list_eqb e a' b' | _, _ => false end.

Definition ct_cfg : config := {| cf_generate_dwarf := false; cf_synthetic_names := false; cf_only_stable := false;
                                 cf_skip_producers := true; cf_skip_name := false; cf_preserve_code_transform := true |}.

Definition check_ct (c : ctcase) : N :=
  match parseM ct_cfg (ct_ver c) (ct_in c) with
  | POk s =>
      match rbind (insert_markers (ps_m s) (ct_edits c)) (fun m => if ct_gc c then gc m else Ok m) with
      | Ok m1 =>
      match emitM m1 ilen1 [] with
      | Ok e =>
          if negb (list_eqb pair_eqb (ct_pairs (em_fns e)) (ct_obs_pairs c)) then 21
          else if negb (list_eqb pair_eqb (ct_function_ranges (ct_first c) (map ef_id (em_fns e)) (ct_sizes c)) (ct_obs_ranges c)) then 22
          else if negb (ct_code_section_start (ct_first c) (len_N (em_fns e)) =? ct_obs_start c) then 23
          else 0
      | _ => 3
      end
      | _ => 4
      end
  | PErr => 2
  | PPanic => 3
  end.
