(* Correspondence entry point for the WHOLE-MODULE concrete semantics (Model/SemMod.v, C01): the harness generates modules of
   several functions over the core operators with direct calls and call_indirect through one table, node instantiates them and
   calls exported functions on fresh instances, and [check_mod] runs the Coq interpreter on the same module, function, arguments,
   initial globals and (zeroed) memory, and compares the results (bit patterns), the trap verdict, the final globals, a checksum
   of the final memory and its size.  Identity slot maps: function index = identity, the table holds function indices.
   Globals: 0 = i32 mutable ([mc_g0]), 1 = i64 mutable ([mc_g1]), 2 = i32 immutable, 7. *)
From Coq Require Import NArith ZArith List Bool. Import ListNotations.
From WV Require Import Gen.Ops Model.Common Model.IR Model.ParseFn Model.ParseSpec Model.Sem Model.SemCore Model.SemMod.
From WV Require Import Run.SemCoreRun.
Open Scope N_scope.

Record modcase := {
  mc_tys : list (list valty * list valty);
  mc_funcs : list (N * list valty * list rt);      (* type index, declared locals, body *)
  mc_table : list (option N);                      (* function index per slot *)
  mc_g0 : Z; mc_g1 : Z;
  mc_pages : N; mc_maxpages : N;
  mc_calls : list (N * list Z * cres * N * N * N * N)
     (* function index; arguments; observed result; observed final g0, g1 (bit patterns); observed [memsum] of the final memory;
        observed final size in pages *)
}.

Definition mod_of (c : modcase) : cmod := {| cm_tys := mc_tys c; cm_funcs := mc_funcs c; cm_table := mc_table c |}.
Definition env_id (c : modcase) : menv := env_of (mod_of c) (fun _ => idN) idN idN idN idN.
(* every call starts from the initial state: a fresh instance *)
Definition mod_init (c : modcase) : st :=
  {| stk := []; locs := []; globs := [(0, VI32 (z32 (mc_g0 c))); (1, VI64 (z64 (mc_g1 c))); (2, VI32 7)]; labs := [];
     mem := []; pages := mc_pages c; max_pages := mc_maxpages c |}.
Definition mod_depth : nat := 64.
Definition mod_fuel : nat := 4000.

(* 0 = agreement; 71 result / trap verdict differs; 72 globals differ; 73 memory differs; 74 memory size differs;
   75 stuck / went wrong / no such function; 76 call depth or loop fuel exhausted *)
Definition check_mod_call (c : modcase) (call : N * list Z * cres * N * N * N * N) : N :=
  let '(f, args, expect, g0, g1, msum, pgs) := call in
  let E := env_id c in
  match me_funcs E f with
  | None => 75
  | Some (ti, _, _) =>
      match me_tys E ti with
      | None => 75
      | Some (ps, _) =>
          let vargs := map (fun p => arg_of (fst p) (snd p)) (combine ps args) in
          let side (s : st) : N :=
            if negb ((glob_bits s 0 =? g0) && (glob_bits s 1 =? g1)) then 72
            else if negb (memsum (mem s) =? msum) then 73
            else if negb (pages s =? pgs) then 74 else 0 in
          match run_mod E mod_depth mod_fuel f vargs (mod_init c) with
          | None => 76
          | Some (Fall s) =>
              (* the results, first one first (already checked against the signature by the machine) *)
              match expect with CROk ws => if nl_eqb (map bits (rev (stk s))) ws then side s else 71 | CRTrap => 71 end
          | Some (Stop Trap s) => match expect with CRTrap => side s | CROk _ => 71 end
          | Some _ => 75
          end
      end
  end.

Definition check_mod (c : modcase) : N :=
  fold_left (fun acc call => if acc =? 0 then check_mod_call c call else acc) (mc_calls c) 0.
